"""Shared: compile abstract templates with the real compiler, execute under the real runtime, compare with the reference renderer."""
import json
from . import core, tmplgen as tg

DATA_POOL = [
    {"a": 1, "b": "bee", "c": True, "d": None, "l": [{"k": "x", "p": 1}, {"k": "y", "p": 2}], "o": {"p": 5, "q": {"k": "z"}, "k": "ok"},
     "f": {"$": "fn", "name": "id"}, "n": 1, "item": "DI", "index": "DX", "x": {"$": "undefined"}, "k": "kk", "g": {"$": "fn", "name": "add"},
     "it": "D-it", "ix": "D-ix"},
    {"a": 0, "b": "x\U0001F600", "c": False, "d": [1, 2], "l": [], "o": {}, "f": {"$": "fn", "name": "k1"}, "n": 0, "item": {"k": "data-item"}, "index": 7,
     "x": {"p": {"q": 1}}, "k": "", "g": {"$": "fn", "name": "str"}, "it": None, "ix": 3},
    {"a": "A", "b": 2, "c": 1, "d": {"p": 0}, "l": [{"k": "x", "p": 1}, {"k": "x", "p": 2}, {"k": "z"}], "o": {"p": None, "k": 0, "zz": [1]},
     "f": {"$": "fn", "name": "add"}, "n": 2, "item": 5, "index": "i", "x": "xs", "k": "p", "g": {"$": "fn", "name": "len"}, "it": [1], "ix": {"$": "nan"}},
]


def compile_templates(files_list):
    """files_list: list of [[path, src], ...]; returns decoded `group` answers (dict) or {"panic": msg}"""
    outs = core.run_harness([core.req("group", json.dumps(fl if isinstance(fl, dict) else {"files": fl})) for fl in files_list])
    res = []
    for o in outs:
        if o.startswith("PANIC"):
            res.append({"panic": o})
        else:
            res.append(json.loads(o))
    return res


def render_vs_reference(items):
    """items: list of (abstract template, group answer, data). returns list of (ok, real_proj, ref_proj, raw_real, raw_ref)"""
    reqs = []
    for t, g, D in items:
        reqs.append({"op": "render", "gen_groups": g["gen_groups"], "path": t["path"], "steps": [{"create": D}]})
        reqs.append({"op": "evalref", "expr": "(function(){" + tg.ref_program(t) + "})()", "data": D})
    res = core.run_node(reqs)
    out = []
    for i in range(len(items)):
        r, e = res[2 * i], res[2 * i + 1]
        if "snapshots" not in r or not r["snapshots"] or "error" in r:
            out.append((False, None, None, r, e))
            continue
        if "value" not in e:
            out.append((None, None, None, r, e))  # reference failed: not a verdict about the compiler
            continue
        a = tg.project(r["snapshots"][0]["tree"], True)
        b = tg.project(e["value"])
        out.append((json.dumps(a) == json.dumps(b), a, b, r, e))
    return out
