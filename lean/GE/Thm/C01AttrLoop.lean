import GE.Model.AttrLoop
import GE.Extracted.ParseFacts
/-!
# C01 — the attribute loop always makes progress

Every iteration of the attribute loop of a start tag either leaves the loop or strictly shortens
the remaining input, for every input text (every Unicode character included) and every attribute
value parser that returns a suffix of its input.  Hence the loop ends within `|s|+1` iterations.
The break condition of the invalid-name loop is re-extracted from the source on every run.
-/
namespace GE.AttrLoop

/-- the loops in the source break on the template whitespace test (not on `char::is_whitespace`) -/
theorem source_uses_template_ws : GE.Extracted.attrLoopBreakOnTemplateWs = true := by decide

theorem skipWs_len (s : List Char) : (skipWs s).length ≤ s.length := by
  induction s with
  | nil => simp [skipWs]
  | cons c cs ih => unfold skipWs; split <;> simp <;> omega

theorem skipWs_head (s : List Char) : ∀ c cs, skipWs s = c :: cs → isTemplateWs c = false := by
  induction s with
  | nil => intro c cs h; simp [skipWs] at h
  | cons d ds ih =>
    intro c cs h
    unfold skipWs at h
    split at h
    · exact ih c cs h
    · rename_i hd
      simp only [List.cons.injEq] at h
      rw [← h.1]; simpa using hd

theorem skipName_len (s : List Char) : (skipName s).length ≤ s.length := by
  induction s with
  | nil => simp [skipName]
  | cons c cs ih => unfold skipName; split <;> simp <;> omega

theorem skipInvalid_len (stop : Char → Bool) (s : List Char) : (skipInvalid stop s).length ≤ s.length := by
  induction s with
  | nil => simp [skipInvalid]
  | cons c cs ih => unfold skipInvalid; split <;> simp <;> omega

/-- the first character of the invalid-name branch is always consumed when the loop's stop test is
the template whitespace test -/
theorem skipInvalid_consumes (c : Char) (cs : List Char) (h1 : c ≠ '>') (h2 : c ≠ '/') (h3 : isStart c = false)
    (h4 : isTemplateWs c = false) :
    (skipInvalid isTemplateWs (c :: cs)).length ≤ cs.length := by
  unfold skipInvalid
  simp [h1, h2, h3, h4]
  exact skipInvalid_len _ cs

/-- **Progress**: an iteration exits or strictly shortens the input. -/
theorem iter_progress (vp : List Char → List Char) (hvp : ∀ s, (vp s).length ≤ s.length) (s : List Char) :
    match iter vp isTemplateWs s with
    | .exit _ => True
    | .continue r => r.length < s.length := by
  have hws := skipWs_len s
  cases hsk : skipWs s with
  | nil => simp [iter, hsk]
  | cons c cs =>
    have hhead := skipWs_head s c cs hsk
    rw [hsk] at hws
    simp only [List.length_cons] at hws
    by_cases h1 : c = '>'
    · simp [iter, hsk, h1]
    · by_cases h2 : c = '/'
      · by_cases h3 : startsWithGt cs = true
        · simp [iter, hsk, h1, h2, h3]
        · have h3' : startsWithGt cs = false := by simpa using h3
          simp [iter, hsk, h2, h3']
          omega
      · by_cases h4 : isStart c = true
        · have := hvp (skipName cs)
          have := skipName_len cs
          simp [iter, hsk, h1, h2, h4]
          omega
        · have h4' : isStart c = false := by simpa using h4
          have := skipInvalid_consumes c cs h1 h2 h4' hhead
          simp [iter, hsk, h1, h2, h4']
          omega

/-- **Termination**: the loop ends within `|s| + 1` iterations. -/
theorem loop_terminates (vp : List Char → List Char) (hvp : ∀ s, (vp s).length ≤ s.length) :
    ∀ (fuel : Nat) (s : List Char), s.length < fuel → (loop vp isTemplateWs fuel s).isSome = true := by
  intro fuel
  induction fuel with
  | zero => intro s h; omega
  | succ fuel ih =>
    intro s h
    unfold loop
    have hp := iter_progress vp hvp s
    cases hi : iter vp isTemplateWs s with
    | exit r => simp
    | «continue» r =>
      rw [hi] at hp
      simp only at hp ⊢
      exact ih r (by omega)

/-- the unrepaired loop (stop test = Unicode whitespace) did not progress on a no-break space:
an iteration returns its input unchanged -/
example : iter id (fun c => isTemplateWs c || c.toNat = 0xA0) [Char.ofNat 0xA0, 'b']
    = .continue [Char.ofNat 0xA0, 'b'] := by decide

end GE.AttrLoop
