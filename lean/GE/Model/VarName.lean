import GE.Extracted.VarName
/-!
Model of `get_var_name` / `next_var_name` (`proc_gen/mod.rs`).  The alphabets, the preserved index
and the reserved list are regenerated from the Rust source (`GE.Extracted.VarName`).
-/
namespace GE.VarName
open GE.Extracted

/-- the `while var_id > 0 { push(CHARS[var_id % len]); var_id /= len }` loop -/
def rest (chars : List Char) (n : Nat) : List Char :=
  if h : 2 ≤ chars.length ∧ 0 < n then
    chars[n % chars.length]'(Nat.mod_lt _ (by omega)) :: rest chars (n / chars.length)
  else []
termination_by n
decreasing_by exact Nat.div_lt_self h.2 (by omega)

/-- `get_var_name` for arbitrary tables; `none` where Rust would index out of bounds / divide by zero. -/
def varNameWith (start chars : List Char) (n : Nat) : Option (List Char) :=
  if h : 0 < start.length then
    some (start[n % start.length]'(Nat.mod_lt _ h) :: rest chars (n / start.length))
  else none

def varName (n : Nat) : List Char :=
  (varNameWith varNameStartChars varNameChars n).getD []

/-- `next_var_name`: the loop skipping reserved names; fuel-bounded (`none` = loop did not end). -/
def nextVarName : Nat → Nat → Option (List Char × Nat)
  | 0, _ => none
  | fuel+1, id =>
    if varName id ∈ varNameReserved then nextVarName fuel (id + 1)
    else some (varName id, id + 1)

/-- fuel that is always sufficient (see `nextVarName_total`) -/
def nextFuel : Nat := varNameStartChars.length

/-- `gen_private_ident`: `$` + name (no reserved check in the code: `$…` is never reserved) -/
def privateName (n : Nat) : List Char := '$' :: varName n

end GE.VarName
