import GE.Model.ExprGen
/-!
Model of pieces of the tag-level generator (`proc_gen/tag.rs`, `escape.rs`):
* the `wx:if` / `wx:elif` / `wx:else` branch selector statement (`ElementKind::If`);
* attribute name normalisation (`dash_to_camel`, the `data-` rule of `Element::parse`).
-/
namespace GE.TagGen
open GE.Spec GE.Gen

/-! ### branch selector of an if-group -/

inductive CondItem where
  | els                       -- `wx:else`
  | static (s : String)       -- `wx:if="text"`
  | dyn (e : Expr)            -- `wx:if="{{ e }}"`

/-- `to_proc_gen_prepare` of every dynamic condition, in order (hoisted statements accumulate) -/
def prepareAll (scopes : List ScopeInfo) : List CondItem → Nat → List (CondItem × Option Out) × Nat
  | [], n => ([], n)
  | .dyn e :: r, n =>
    let o := gen scopes e condLevel n
    let (rest, n') := prepareAll scopes r o.next
    ((.dyn e, some o) :: rest, n')
  | c :: r, n =>
    let (rest, n') := prepareAll scopes r n
    ((c, none) :: rest, n')

/-- the selector expression `c1?1:c2?2:…:0`; a `wx:else` ends the chain -/
def selToks : List (CondItem × Option Out) → Nat → List Tok
  | [], _ => [.num "0"]
  | (.els, _) :: _, _ => [.num "0"]
  | (.static s, _) :: r, i => .str s :: .p "?" :: .num (toString (i + 1)) :: .p ":" :: selToks r (i + 1)
  | (.dyn e, some o) :: r, i =>
    (if aboveCond e then .p "(" :: (o.toks ++ [.p ")"]) else o.toks) ++
      .p "?" :: .num (toString (i + 1)) :: .p ":" :: selToks r (i + 1)
  | (.dyn _, none) :: r, i => selToks r (i + 1)   -- unreachable by construction of `prepareAll`

/-- the JavaScript tree it is meant to denote -/
def selJs : List (CondItem × Option Out) → Nat → Js
  | [], _ => .num "0"
  | (.els, _) :: _, _ => .num "0"
  | (.static s, _) :: r, i => .cond (.str s) (.num (toString (i + 1))) (selJs r (i + 1))
  | (.dyn _, some o) :: r, i => .cond o.js (.num (toString (i + 1))) (selJs r (i + 1))
  | (.dyn _, none) :: r, i => selJs r (i + 1)

def selStmts : List (CondItem × Option Out) → List Stmt
  | [] => []
  | (_, some o) :: r => o.stmts ++ selStmts r
  | (_, none) :: r => selStmts r

/-! ### names -/

/-- `escape::dash_to_camel` -/
def dashToCamelAux : List Char → Bool → List Char
  | [], _ => []
  | c :: cs, up =>
    if c = '-' then dashToCamelAux cs true
    else if up then c.toUpper :: dashToCamelAux cs false
    else c :: dashToCamelAux cs false

def dashToCamel (s : List Char) : List Char := dashToCamelAux s false

/-- the `data-xxx` attribute rule: strip the prefix, ASCII-lowercase, then dash-to-camel -/
def dataHyphenName (s : List Char) : List Char := dashToCamel ((s.drop 5).map Char.toLower)

end GE.TagGen
