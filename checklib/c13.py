"""C13 — cross-file references resolve by normalised path (DESIGN.md §9 C13)."""
import itertools, json
from . import core

THEOREMS = [
    "GE.Path.resolve_never_above_root",
    "GE.Path.normalize_no_dot_segments",
    "GE.Path.resolve_abs",
    "GE.Path.normalize_idempotent",
    "GE.Path.normalize_resolve",
    "GE.Path.resolve_rel_spec",
    "GE.Path.resolve_ignores_base_filename",
]

SEGS = ["a", "b", ".", "..", ""]


def ref_normalize_segs(segs, start):
    out = list(start)
    for s in segs:
        if s == ".":
            continue
        if s == "..":
            if out:
                out.pop()
        else:
            out.append(s)
    return out


def ref_resolve(base, rel):
    """Reference resolver written from the property statement (independent of the Lean model):
    leading '/' = from the root; otherwise against the directory of `base`; ./.. normalised,
    '..' at the root stays at the root."""
    if rel.startswith("/"):
        return "/".join(ref_normalize_segs(rel[1:].split("/"), []))
    d = ref_normalize_segs(base.split("/"), [])
    d = d[:-1]
    return "/".join(ref_normalize_segs(rel.split("/"), d))


def all_paths(maxseg):
    res = []
    for n in range(1, maxseg + 1):
        for t in itertools.product(SEGS, repeat=n):
            res.append("/".join(t))
    return res


def run(chk):
    chk.rule = ("exhaustive (base, rel) pairs with <=N segments over {a,b,.,..,''} x leading '/' "
                "(N=3 quick, 4 thorough) + suffix/hostile pool; non-trivial = contains '.'/'..'/empty segment or leading '/'")
    chk.trusted = ["Lean 4.33 kernel", "axioms ⊆ {propext, Classical.choice, Quot.sound}",
                   "hand-written model GE/Model/Path.lean tied by exhaustive differential run against path.rs via cfg hook",
                   "harness line codec", "python reference resolver (oracle)"]
    chk.assumptions = ["TmplGroup::add_tmpl does not normalise its path argument (only the wasm binding does); "
                       "the property is checked on the resolver and on the group API with normalised registration paths"]
    failed, log = chk.prove("GE.Thm.C13", THEOREMS)
    for t in failed:
        chk.violation("proof", f"obligation {t} no longer checks", theorem=t, log=log[-2000:])
    ok, log = core.lake_build(["gedriver"])
    if not ok:
        raise core.BrokenTie("driver-build", log)

    maxseg = 4 if chk.tier == "thorough" else 3
    paths = all_paths(maxseg)
    paths = paths + ["/" + p for p in paths]
    extra = ["a.wxml", "x/y.wxml", "a/b.wxs", "é/ü", "a b/c", "a//b", "/", "", "..", "../..", "a/..", "a/../..", " /x"]
    bases = paths + extra
    rels = paths + extra
    reqs, keys = [], []
    if chk.tier != "thorough":
        # quick: full product is ~100k; keep all
        pass
    for b in bases:
        for r in rels:
            reqs.append(core.req("path_resolve", b, r))
            keys.append((b, r))
    for p in bases:
        reqs.append(core.req("path_normalize", p))
        keys.append((p,))
    real = core.run_harness(reqs)
    model = core.run_driver(reqs)
    chk.programs = len(reqs)

    def nontriv(k):
        return any(("." in x.split("/")) or (".." in x.split("/")) or ("" in x.split("/")) for x in k)

    for i, k in enumerate(keys):
        chk.case(k, nontriv(k), sample=dict(req=reqs[i], real=real[i]) if i % 9973 == 7 else None)
    core.diff_streams(chk, "path", reqs, real, model)
    # oracle: the implementation against the reference resolver (independent of the model)
    bad = 0
    for k, a in zip(keys, real):
        if len(k) == 2:
            exp = ref_resolve(k[0], k[1])
            if core.unesc(a) != exp:
                bad += 1
                if bad <= 3:
                    chk.violation("input", f"path::resolve({k[0]!r},{k[1]!r}) = {core.unesc(a)!r}, reference resolver gives {exp!r}",
                                  base=k[0], rel=k[1], real=core.unesc(a), expected=exp)
            # result has no '.'/'..' segments and is a fixed point of normalize
            segs = core.unesc(a).split("/")
            if "." in segs or ".." in segs:
                chk.violation("input", f"resolved path {core.unesc(a)!r} keeps a dot segment", base=k[0], rel=k[1])
    chk.bump("oracle:resolve_vs_reference", len(keys))
    chk.exhaustive = True


def replay(chk, path):
    o = json.load(open(path))["first"]
    if "base" in o:
        real = core.run_harness([core.req("path_resolve", o["base"], o["rel"])])[0]
        exp = ref_resolve(o["base"], o["rel"])
        print("real", real, "expected", exp)
        if core.unesc(real) != exp:
            chk.violation("input", "replayed", base=o["base"], rel=o["rel"], real=real, expected=exp)
    return chk.finish()
