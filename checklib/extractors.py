"""Table extractors: each returns Lean source regenerated from /repo; a lost pattern raises BrokenTie."""
import os, re
from . import core

def regen_all():
    changed = []
    for name, fn in EXTRACTORS.items():
        src = fn()
        if core.write_if_changed(os.path.join(core.LEAN, "GE", "Extracted", name + ".lean"), src):
            changed.append(name)
    return changed

EXTRACTORS = {}
