/-! GENERATED from /repo/glass-easel-template-compiler/src/parse/{tag,mod}.rs by checklib/extractors.py — do not edit. -/
namespace GE.Extracted
/-- both invalid-attribute-name loops stop on `is_template_whitespace` (the test `skip_whitespace` also uses) -/
def attrLoopBreakOnTemplateWs : Bool := true
/-- `is_template_whitespace` is ' ' | '\x09'..='\x0D' -/
def templateWsIsAsciiSet : Bool := true
end GE.Extracted
