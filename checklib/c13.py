"""C13 — cross-file references resolve by normalised path (DESIGN.md §9 C13)."""
import itertools, json
from . import core

THEOREMS = [
    "GE.Path.resolve_never_above_root",
    "GE.Path.normalize_no_dot_segments",
    "GE.Path.resolve_abs",
    "GE.Path.normalize_idempotent",
    "GE.Path.normalize_resolve",
    "GE.Path.resolve_rel_spec",
    "GE.Path.resolve_ignores_base_filename",
]

SEGS = ["a", "b", ".", "..", ""]


def ref_normalize_segs(segs, start):
    out = list(start)
    for s in segs:
        if s == ".":
            continue
        if s == "..":
            if out:
                out.pop()
        else:
            out.append(s)
    return out


def ref_resolve(base, rel):
    """Reference resolver written from the property statement (independent of the Lean model):
    leading '/' = from the root; otherwise against the directory of `base`; ./.. normalised,
    '..' at the root stays at the root."""
    if rel.startswith("/"):
        return "/".join(ref_normalize_segs(rel[1:].split("/"), []))
    d = ref_normalize_segs(base.split("/"), [])
    d = d[:-1]
    return "/".join(ref_normalize_segs(rel.split("/"), d))


def all_paths(maxseg):
    res = []
    for n in range(1, maxseg + 1):
        for t in itertools.product(SEGS, repeat=n):
            res.append("/".join(t))
    return res


def run(chk):
    chk.rule = ("exhaustive (base, rel) pairs with <=N segments over {a,b,.,..,''} x leading '/' "
                "(N=3 quick, 4 thorough) + suffix/hostile pool; non-trivial = contains '.'/'..'/empty segment or leading '/'")
    chk.trusted = ["Lean 4.33 kernel", "axioms ⊆ {propext, Classical.choice, Quot.sound}",
                   "hand-written model GE/Model/Path.lean tied by exhaustive differential run against path.rs via cfg hook",
                   "harness line codec", "python reference resolver (oracle)"]
    chk.trusted.append("hand-written model GE/Model/Link.lean (the lookup table `S` the emitted code builds with Object.assign / delete) tied by corr:link: "
                       "what the real compiler + runtime instantiate for every <template is> of generated multi-file groups vs the model")
    chk.assumptions = ["lookup_order (GE/Thm/C13Link.lean): over the model of the table the emitted code builds, a <template is> finds a local definition "
                       "first, otherwise the definition in the LAST import (source order) whose target is registered and defines the name, never the main "
                       "template; any registered files, any import list (repetitions, unregistered targets), any name. JavaScript objects are modelled as "
                       "association lists (get = latest write); PARTIAL: that dependency queries list exactly the resolved targets is oracle only (direct_dependencies vs every <import> / <include> tag of generated tag sequences, "
                       "and vs the multi-file group oracle). leaves_parse (GE/Thm/C13Leaves.lean): over the tag-level model of the parser (GE/Model/TagTree.lean, tied by corr:tagtree / "
                       "corr:tagleaves), the tree keeps exactly the <include> / <template is> elements of the source in document order, for every sequence of tags whose wx:if groups "
                       "have the shape wx:if, wx:elif*, wx:else? - so every include the rendering can reach is a listed dependency; second_else_loses: a replaced wx:else branch keeps "
                       "its includes as dependencies only",
                       "TmplGroup::add_tmpl does not normalise its path argument (only the wasm binding does); "
                       "the property is checked on the resolver and on the group API with normalised registration paths"]
    failed, log = chk.prove("GE.Thm.C13", THEOREMS)
    for t in failed:
        chk.violation("proof", f"obligation {t} no longer checks", theorem=t, log=log[-2000:])
    failed, log = chk.prove("GE.Thm.C13Link", ["GE.Link.lookup_order", "GE.Link.local_first", "GE.Link.main_not_callable", "GE.Link.get_merged"])
    for t in failed:
        chk.violation("proof", f"obligation {t} no longer checks", theorem=t, log=log[-2000:])
    failed, log = chk.prove("GE.Thm.C13Leaves", ["GE.TagTree.leaves_parse", "GE.TagTree.step_leaves", "GE.TagTree.findIf_leaves", "GE.TagTree.second_else_loses"])
    for t in failed:
        chk.violation("proof", f"obligation {t} no longer checks", theorem=t, log=log[-2000:])
    ok, log = core.lake_build(["gedriver"])
    if not ok:
        raise core.BrokenTie("driver-build", log)
    from . import tagtree
    tagtree.deps_stream(chk, chk.rng.fork("tagdeps"), 400 if chk.tier != "thorough" else 8000)

    maxseg = 4 if chk.tier == "thorough" else 3
    paths = all_paths(maxseg)
    paths = paths + ["/" + p for p in paths]
    extra = ["a.wxml", "x/y.wxml", "a/b.wxs", "é/ü", "a b/c", "a//b", "/", "", "..", "../..", "a/..", "a/../..", " /x"]
    bases = paths + extra
    rels = paths + extra
    reqs, keys = [], []
    if chk.tier != "thorough":
        # quick: full product is ~100k; keep all
        pass
    for b in bases:
        for r in rels:
            reqs.append(core.req("path_resolve", b, r))
            keys.append((b, r))
    for p in bases:
        reqs.append(core.req("path_normalize", p))
        keys.append((p,))
    real = core.run_harness(reqs)
    model = core.run_driver(reqs)
    chk.programs = len(reqs)

    def nontriv(k):
        return any(("." in x.split("/")) or (".." in x.split("/")) or ("" in x.split("/")) for x in k)

    for i, k in enumerate(keys):
        chk.case(k, nontriv(k), sample=dict(req=reqs[i], real=real[i]) if i % 9973 == 7 else None)
    core.diff_streams(chk, "path", reqs, real, model)
    # oracle: the implementation against the reference resolver (independent of the model)
    bad = 0
    for k, a in zip(keys, real):
        if len(k) == 2:
            exp = ref_resolve(k[0], k[1])
            if core.unesc(a) != exp:
                bad += 1
                if bad <= 3:
                    chk.violation("input", f"path::resolve({k[0]!r},{k[1]!r}) = {core.unesc(a)!r}, reference resolver gives {exp!r}",
                                  base=k[0], rel=k[1], real=core.unesc(a), expected=exp)
            # result has no '.'/'..' segments and is a fixed point of normalize
            segs = core.unesc(a).split("/")
            if "." in segs or ".." in segs:
                chk.violation("input", f"resolved path {core.unesc(a)!r} keeps a dot segment", base=k[0], rel=k[1])
    chk.bump("oracle:resolve_vs_reference", len(keys))
    chk.exhaustive = True
    group_stream(chk)


# ---------------------------------------------------------------------------------------------------------
# multi-file groups: linking, template lookup order, dependency queries, insertion order
FILE_PATHS = ["a", "b", "x/c", "x/y/d", "x/e", "a.wxml", "x/c.wxml"]     # (a registered name may itself end in the optional suffix)


def spellings(rng, frm, to, suffix):
    """ways to write the path `to` in a file registered as `frm`"""
    out = ["/" + to, "/./" + to, "/x/../" + to]
    fd, td = frm.split("/")[:-1], to.split("/")
    rel = [".."] * len(fd) + td
    out.append("/".join(rel))
    out.append("./" + "/".join(rel))
    if fd:
        out.append("/".join([".."] * len(fd) + ["zz", ".."] + td))
    # common prefix form
    k = 0
    while k < len(fd) and k < len(td) - 1 and fd[k] == td[k]:
        k += 1
    out.append("/".join([".."] * (len(fd) - k) + td[k:]))
    s_ = rng.choice(out)
    # the optional suffix is removed once: a target whose registered name ends in it must be written with one more
    return s_ + (suffix if to.endswith(suffix) or rng.chance(1, 3) else "")


def text_of(tree):
    out = []
    for n in tree:
        if isinstance(n, dict):
            if "text" in n:
                out.append(n["text"])
            out.append(text_of(n.get("children", [])))
    return "".join(out)


def group_stream(chk):
    quick = chk.tier != "thorough"
    rng = chk.rng.fork("c13-groups")
    cases = []
    link_req = {}
    for i in range(150 if quick else 3000):
        r = rng.fork(i)
        files = {}
        k = 2 + r.below(len(FILE_PATHS) - 1)
        paths = FILE_PATHS[:]
        order = [paths[(i + j * 2) % len(paths)] for j in range(len(paths))]
        chosen = []
        for p in order:
            if p not in chosen and len(chosen) < k:
                chosen.append(p)
        defs = {p: [t for t in ("t", "u", "v") if r.chance(1, 2)] for p in chosen}
        scripts = {"s1": "exports.id='S:s1'", "x/s2": "exports.id='S:x/s2'", "s1.wxs": "exports.id='S:s1.wxs'"}
        main = chosen[0]
        for p in chosen[1:]:
            files[p] = "".join('<template name="%s">[%s:%s]</template>' % (t, p, t) for t in defs[p]) + "(%s:main)" % p
        # the main file
        imports, body, exp_deps, exp_sdeps = [], [], [], []
        nimp = 1 + r.below(4)
        targets = [r.choice(chosen[1:]) for _ in range(nimp)]
        if r.chance(1, 2) and len(targets) >= 2:
            targets.append(targets[0])          # the same file imported again, after another one
        src = ""
        written = []
        for t in targets:
            written.append(spellings(r, main, t, ".wxml"))
            src += '<import src="%s"/>' % written[-1]
            exp_deps.append(t)
        local = [t for t in ("t", "u") if r.chance(1, 3)]
        src += "".join('<template name="%s">[%s:%s]</template>' % (t, main, t) for t in local)
        expected = ""
        for t in ("t", "u", "v"):
            src += '<template is="%s"/>' % t
            if t in local:
                expected += "[%s:%s]" % (main, t)
            else:
                for f in reversed(targets):
                    if t in defs[f]:
                        expected += "[%s:%s]" % (f, t)
                        break
        inc = r.choice(chosen[1:])
        # where the include stands (round 11, C13-11: an include that carries wx:elif / wx:else is merged into the preceding wx:if node); the data is
        # empty, so `a` is falsy and exactly the include of `inc` is rendered; includes in branches that are not taken are dependencies all the same
        isp = spellings(r, main, inc, ".wxml")
        place = len(cases) % 8
        if place == 1:
            src += '<include wx:if="{{!a}}" src="%s"/>' % isp
        elif place == 2:
            src += '<v wx:if="{{a}}"/><include wx:else src="%s"/>' % isp
        elif place == 3:
            src += '<v wx:if="{{a}}"/><include wx:elif="{{!a}}" src="%s"/>' % isp
        elif place == 4:
            src += '<block wx:for="{{[1]}}"><include src="%s"/></block>' % isp
        elif place == 5:
            src += '<v><block><include src="%s"/></block></v>' % isp
        elif place in (6, 7):
            x1, x2 = r.choice(chosen[1:]), r.choice(chosen[1:])
            exp_deps += [x1, x2]
            if place == 6:
                src += '<include wx:if="{{a}}" src="%s"/><include wx:elif="{{a}}" src="%s"/><include wx:else src="%s"/>' % (
                    spellings(r, main, x1, ".wxml"), spellings(r, main, x2, ".wxml"), isp)
            else:
                src += '<block wx:if="{{a}}"><include src="%s"/></block><include wx:elif="{{!a}}" src="%s"/><include wx:else src="%s"/>' % (
                    spellings(r, main, x1, ".wxml"), isp, spellings(r, main, x2, ".wxml"))
        else:
            src += '<include src="%s"/>' % isp
        exp_deps.append(inc)
        expected += "(%s:main)" % inc
        sp = r.choice(sorted(scripts))
        src += '<wxs module="sm" src="%s"/>{{sm.id}}' % spellings(r, main, sp, ".wxs")
        exp_sdeps.append(sp)
        expected += "S:" + sp
        files[main] = src
        tail = "(%s:main)S:%s" % (inc, sp)
        link_req[len(cases)] = (core.req("link", main, ",".join(local), "t,u,v", str(len(written)), *written,
                                         *[x for p in chosen[1:] for x in (p, ",".join(defs[p]))]), tail)
        cases.append((main, files, scripts, expected, sorted(exp_deps), sorted(exp_sdeps), r))
    reqs, meta = [], []
    for ci, (main, files, scripts, expected, deps, sdeps, r) in enumerate(cases):
        items = sorted(files.items())
        for variant in range(5):
            fl = list(items)
            if variant == 1:
                fl.reverse()
            elif variant == 2:
                j = r.below(len(fl))
                fl = fl[j:] + fl[:j]
            if variant >= 3:
                # a path registered twice: a STALE version of every referenced file and script first, the real ones afterwards — directly (3) or
                # through import_group (4); the bundle links to what is registered under the path at the end, i.e. the later registration (round 9, C13-10)
                stale = [[p, '<template name="t">[STALE]</template><template name="u">[STALE]</template><template name="v">[STALE]</template>(STALE)']
                         for p, _ in fl if p != main]
                stale_scripts = [[p, "exports.id='STALE'"] for p in sorted(scripts)]
                real = [[p, s] for p, s in fl if p != main]
                real_scripts = [[p, s] for p, s in sorted(scripts.items())]
                if variant == 3:
                    v = {"files": stale + [[main, files[main]]] + real, "scripts": stale_scripts + real_scripts}
                else:
                    v = {"files": stale + [[main, files[main]]], "scripts": stale_scripts, "imports": [{"files": real, "scripts": real_scripts}]}
                reqs.append(core.req("group", json.dumps(v)))
            else:
                reqs.append(core.req("group", json.dumps({"files": [[p, s] for p, s in fl], "scripts": [[p, s] for p, s in sorted(scripts.items())]})))
            meta.append((ci, variant))
    answers = core.run_harness(reqs)
    rreqs, rmeta = [], []
    nb = 0
    for (ci, variant), a in zip(meta, answers):
        main, files, scripts, expected, deps, sdeps, r = cases[ci]
        if a.startswith("PANIC"):
            chk.violation("input", f"compiler panicked on a multi-file group: {a[:200]}", files=files)
            continue
        o = json.loads(a)
        got_deps = sorted(o["deps"].get(main, []))
        got_sdeps = sorted(o["script_deps"].get(main, []))
        if got_deps != deps or got_sdeps != sdeps:
            nb += 1
            if nb <= 4:
                chk.violation("input", f"dependencies of {main!r}: direct {got_deps} / scripts {got_sdeps}, the references resolve to {deps} / {sdeps}",
                              files=files, main=main, expected=[deps, sdeps], got=[got_deps, got_sdeps])
        rreqs.append({"op": "render", "gen_groups": o["gen_groups"], "path": main, "steps": [{"create": {}}]})
        rmeta.append((ci, variant))
    outs = core.run_node(rreqs)
    for (ci, variant), o in zip(rmeta, outs):
        main, files, scripts, expected, deps, sdeps, r = cases[ci]
        chk.case(("group", ci, variant), nontrivial=True, sample=dict(main=main, files=files) if ci < 2 and variant == 0 else None)
        got = text_of(o["snapshots"][0]["tree"]) if o.get("snapshots") else "ERROR " + str(o.get("error"))
        if got != expected:
            nb += 1
            if nb <= 4:
                chk.violation("input", f"group rendering of {main!r} gives {got!r}, the references resolve to {expected!r} (insertion order variant {variant})",
                              files=files, main=main, expected=expected, got=got)
    # corr:link — the model of the lookup table the emitted code builds (GE/Model/Link.lean, theorem lookup_order) against what the real
    # compiler + runtime instantiate for every <template is> of the main file (insertion order variant 0)
    lreqs, lreal = [], []
    for (ci, variant), o in zip(rmeta, outs):
        if variant == 0 and o.get("snapshots"):
            lreqs.append(link_req[ci][0])
            lreal.append(text_of(o["snapshots"][0]["tree"]))
    lmodel = [core.unesc(a) + link_req[ci][1] for a, ci in zip(core.run_driver(lreqs), [ci for (ci, v), o in zip(rmeta, outs) if v == 0 and o.get("snapshots")])] \
        if core.MODEL_OK else lreal
    core.diff_streams(chk, "link", lreqs, lreal, lmodel)
    chk.bump("oracle:groups", len(cases))
    chk.bump("oracle:group-mismatches", nb)


def replay(chk, path):
    o = json.load(open(path))["first"]
    if "base" in o:
        real = core.run_harness([core.req("path_resolve", o["base"], o["rel"])])[0]
        exp = ref_resolve(o["base"], o["rel"])
        print("real", real, "expected", exp)
        if core.unesc(real) != exp:
            chk.violation("input", "replayed", base=o["base"], rel=o["rel"], real=real, expected=exp)
    return chk.finish()
