/-!
Model of `glass-easel-template-compiler/src/path.rs` (`normalize`, `resolve`) over `List Char`.
Rust's `str::split('/')` always yields at least one piece; `join("/")` is its inverse on
'/'-free pieces.
-/
namespace GE.Path

/-- push a char onto the first piece -/
def consHead (c : Char) : List (List Char) → List (List Char)
  | [] => [[c]]   -- unreachable (splitSlash is never empty)
  | p :: ps => (c :: p) :: ps

/-- `s.split('/')` -/
def splitSlash : List Char → List (List Char)
  | [] => [[]]
  | c :: cs => if c = '/' then [] :: splitSlash cs else consHead c (splitSlash cs)

/-- `v.join("/")` -/
def joinSlash : List (List Char) → List Char
  | [] => []
  | [p] => p
  | p :: q :: ps => p ++ '/' :: joinSlash (q :: ps)

def dot : List Char := ['.']
def dotdot : List Char := ['.', '.']

/-- one iteration of the `for slice in ….split('/')` loops -/
def step (slices : List (List Char)) (slice : List Char) : List (List Char) :=
  if slice = dot then slices
  else if slice = dotdot then slices.dropLast
  else slices ++ [slice]

def normSegs (p : List Char) : List (List Char) := (splitSlash p).foldl step []

def normalize (p : List Char) : List Char := joinSlash (normSegs p)

def resolveSegs (base rel : List Char) : List (List Char) :=
  match rel with
  | '/' :: r => (splitSlash r).foldl step ([] : List (List Char)).dropLast
  | _ => (splitSlash rel).foldl step (normSegs base).dropLast

def resolve (base rel : List Char) : List Char := joinSlash (resolveSegs base rel)

end GE.Path
