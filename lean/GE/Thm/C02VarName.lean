import GE.Model.VarName
import GE.Spec.JsLex
/-!
# C02 (part 1) — generated identifiers

Every name the generator can allocate is a valid JavaScript identifier, is never a reserved word
or a global the emitted code relies on, never shadows the preserved one-letter names `A`…`Z`,
and distinct counter values give distinct names.
-/
namespace GE.VarName
open GE.Extracted GE.Spec

/-! ## table facts (re-checked by `decide` against the tables extracted from the Rust source) -/

theorem table_shape : getVarNameShapeOk = true := by decide
theorem start_pos : 0 < varNameStartChars.length := by decide
theorem chars_two : 2 ≤ varNameChars.length := by decide
theorem start_nodup : varNameStartChars.Nodup := by decide
theorem chars_nodup : varNameChars.Nodup := by decide
theorem start_all_identStart : ∀ c ∈ varNameStartChars, isIdentStart c = true := by decide
theorem chars_all_identPart : ∀ c ∈ varNameChars, isIdentPart c = true := by decide
theorem start_no_dollar : '$' ∉ varNameStartChars := by decide
/-- the code's reserved list covers the specification's list -/
theorem reserved_covers_spec : ∀ w ∈ reservedWords, w ∈ varNameReserved := by decide
/-- the first start char -/
def firstStart : Char := varNameStartChars.headD 'A'
theorem firstStart_eq : varNameStartChars[0]'start_pos = firstStart := by decide
/-- no reserved word begins with the first start char (used for termination of the skip loop) -/
theorem reserved_head_ne_first :
    ∀ w ∈ varNameReserved, w.head? ≠ some firstStart := by decide
/-- the first `varNameIndexPreserve` start chars are exactly the preserved names `A`…`Z` -/
theorem preserved_are_upper :
    varNameStartChars.take varNameIndexPreserve = "ABCDEFGHIJKLMNOPQRSTUVWXYZ".toList := by decide
theorem nonpreserved_not_upper :
    ∀ c ∈ varNameStartChars.drop varNameIndexPreserve, ¬ ('A' ≤ c ∧ c ≤ 'Z') := by decide

/-! ## lemmas -/

theorem rest_zero (chars : List Char) : rest chars 0 = [] := by
  rw [rest]; simp

theorem rest_pos (chars : List Char) (n : Nat) (h2 : 2 ≤ chars.length) (hn : 0 < n) :
    rest chars n = chars[n % chars.length]'(Nat.mod_lt _ (by omega)) :: rest chars (n / chars.length) := by
  rw [rest]; simp [h2, hn]

theorem rest_mem (chars : List Char) (n : Nat) : ∀ c ∈ rest chars n, c ∈ chars := by
  induction n using Nat.strongRecOn with
  | _ n ih =>
    by_cases h : 2 ≤ chars.length ∧ 0 < n
    · rw [rest_pos _ _ h.1 h.2]
      intro c hc
      simp at hc
      rcases hc with rfl | hc
      · exact List.getElem_mem _
      · exact ih _ (Nat.div_lt_self h.2 (by omega)) c hc
    · rw [rest]; simp [h]

theorem getElem_inj_of_nodup {l : List Char} (hn : l.Nodup) {i j : Nat} (hi : i < l.length)
    (hj : j < l.length) (h : l[i] = l[j]) : i = j :=
  (List.getElem_inj hn).mp h

theorem rest_injective (chars : List Char) (h2 : 2 ≤ chars.length) (hnd : chars.Nodup) :
    ∀ a b, rest chars a = rest chars b → a = b := by
  intro a
  induction a using Nat.strongRecOn with
  | _ a ih =>
    intro b hab
    by_cases ha : 0 < a
    · by_cases hb : 0 < b
      · rw [rest_pos _ _ h2 ha, rest_pos _ _ h2 hb] at hab
        simp only [List.cons.injEq] at hab
        have hm := getElem_inj_of_nodup hnd _ _ hab.1
        have hd := ih _ (Nat.div_lt_self ha (by omega)) _ hab.2
        rw [← Nat.div_add_mod a chars.length, ← Nat.div_add_mod b chars.length, hm, hd]
      · have : b = 0 := by omega
        subst this
        rw [rest_pos _ _ h2 ha, rest_zero] at hab
        simp at hab
    · have : a = 0 := by omega
      subst this
      by_cases hb : 0 < b
      · rw [rest_pos _ _ h2 hb, rest_zero] at hab
        simp at hab
      · omega

theorem varName_eq (n : Nat) :
    varName n = varNameStartChars[n % varNameStartChars.length]'(Nat.mod_lt _ start_pos)
      :: rest varNameChars (n / varNameStartChars.length) := by
  simp [varName, varNameWith, start_pos]

/-! ## property theorems -/

/-- Every generated name is an IdentifierName. -/
theorem varName_valid (n : Nat) : isIdentName (varName n) = true := by
  rw [varName_eq]
  simp only [isIdentName, Bool.and_eq_true, List.all_eq_true]
  exact ⟨start_all_identStart _ (List.getElem_mem _),
    fun c hc => chars_all_identPart c (rest_mem _ _ c hc)⟩

/-- Distinct ids give distinct names (no two live variables can collide). -/
theorem varName_injective : ∀ a b, varName a = varName b → a = b := by
  intro a b h
  rw [varName_eq, varName_eq] at h
  simp only [List.cons.injEq] at h
  have hm := getElem_inj_of_nodup start_nodup _ _ h.1
  have hd := rest_injective _ chars_two chars_nodup _ _ h.2
  rw [← Nat.div_add_mod a varNameStartChars.length, ← Nat.div_add_mod b varNameStartChars.length,
    hm, hd]

/-- Names allocated from the counter's start value (`VAR_NAME_INDEX_PRESERVE`) upwards never
coincide with a preserved one-letter name `A`…`Z`. -/
theorem varName_not_preserved (n : Nat) (hn : varNameIndexPreserve ≤ n) :
    ∀ c, 'A' ≤ c → c ≤ 'Z' → varName n ≠ [c] := by
  intro c h1 h2 heq
  rw [varName_eq] at heq
  simp only [List.cons.injEq] at heq
  obtain ⟨hc, hr⟩ := heq
  by_cases hlt : n < varNameStartChars.length
  · -- single letter: it is one of the non-preserved start chars
    have hmod : n % varNameStartChars.length = n := Nat.mod_eq_of_lt hlt
    have hmem : c ∈ varNameStartChars.drop varNameIndexPreserve := by
      rw [← hc]
      simp only [hmod]
      rw [List.mem_iff_getElem]
      refine ⟨n - varNameIndexPreserve, by simp; omega, ?_⟩
      simp [List.getElem_drop]
      congr 1; omega
    exact nonpreserved_not_upper c hmem ⟨h1, h2⟩
  · -- at least two characters
    have hpos : 0 < n / varNameStartChars.length :=
      Nat.div_pos (by omega) start_pos
    rw [rest_pos _ _ chars_two hpos] at hr
    simp at hr

/-- A name whose id is a multiple of the start alphabet's size starts with its first letter, which
no reserved word does. -/
theorem varName_mult_not_reserved (n : Nat) (h : n % varNameStartChars.length = 0) :
    varName n ∉ varNameReserved := by
  intro hmem
  have := reserved_head_ne_first _ hmem
  rw [varName_eq] at this
  apply this
  simp only [List.head?_cons, Option.some.injEq]
  rw [← firstStart_eq]
  congr 1

theorem nextVarName_spec (fuel id : Nat) (hex : ∃ k, k < fuel ∧ varName (id + k) ∉ varNameReserved) :
    ∃ k, k < fuel ∧ nextVarName fuel id = some (varName (id + k), id + k + 1) ∧
      varName (id + k) ∉ varNameReserved ∧ ∀ j, j < k → varName (id + j) ∈ varNameReserved := by
  induction fuel generalizing id with
  | zero => obtain ⟨k, hk, _⟩ := hex; omega
  | succ fuel ih =>
    by_cases hr : varName id ∈ varNameReserved
    · obtain ⟨k, hk, hnr⟩ := hex
      have hk0 : k ≠ 0 := by intro h; subst h; exact hnr (by simpa using hr)
      obtain ⟨k', hk', hs, hn, hall⟩ := ih (id + 1) ⟨k - 1, by omega, by
        have : id + 1 + (k - 1) = id + k := by omega
        rw [this]; exact hnr⟩
      refine ⟨k' + 1, by omega, ?_, ?_, ?_⟩
      · simp only [nextVarName, hr, if_true]
        rw [hs]
        have : id + 1 + k' = id + (k' + 1) := by omega
        rw [this]
      · have : id + 1 + k' = id + (k' + 1) := by omega
        rw [← this]; exact hn
      · intro j hj
        cases j with
        | zero => simpa using hr
        | succ j =>
          have : id + 1 + j = id + (j + 1) := by omega
          rw [← this]; exact hall j (by omega)
    · exact ⟨0, by omega, by simp [nextVarName, hr], by simpa using hr, by intro j hj; omega⟩

/-- The skip loop of `next_var_name` always ends (within one period of the start alphabet), returns
the first non-reserved name at or after the counter, and advances the counter past it. -/
theorem nextVarName_total (id : Nat) :
    ∃ k, k < nextFuel ∧ nextVarName nextFuel id = some (varName (id + k), id + k + 1) ∧
      varName (id + k) ∉ varNameReserved ∧ ∀ j, j < k → varName (id + j) ∈ varNameReserved := by
  apply nextVarName_spec
  have hL := start_pos
  refine ⟨(varNameStartChars.length - id % varNameStartChars.length) % varNameStartChars.length,
    Nat.mod_lt _ hL, ?_⟩
  apply varName_mult_not_reserved
  have h1 : id % varNameStartChars.length < varNameStartChars.length := Nat.mod_lt _ hL
  generalize varNameStartChars.length = L at *
  rw [Nat.add_mod, Nat.mod_mod]
  by_cases h0 : id % L = 0
  · simp [h0]
  · have : (L - id % L) % L = L - id % L := Nat.mod_eq_of_lt (by omega)
    rw [this]
    have : id % L + (L - id % L) = L := by omega
    rw [this]; simp

/-- No allocated name is a reserved word of the specification (keywords, strict-mode reserved
words, `eval`/`arguments`, and the globals `undefined`/`Object`/`Infinity`/`NaN`). -/
theorem allocated_not_reserved (id : Nat) :
    ∀ r, nextVarName nextFuel id = some r → r.1 ∉ reservedWords ∧ isIdentName r.1 = true := by
  intro r hr
  obtain ⟨k, _, hs, hn, _⟩ := nextVarName_total id
  rw [hs] at hr
  cases hr
  exact ⟨fun hm => hn (reserved_covers_spec _ hm), varName_valid _⟩

/-- Successive allocations return distinct names: the counter strictly increases and names are injective. -/
theorem allocated_distinct (id id' : Nat) (r r' : List Char × Nat)
    (h : nextVarName nextFuel id = some r) (h' : nextVarName nextFuel id' = some r')
    (hlt : r.2 ≤ id') : r.1 ≠ r'.1 := by
  obtain ⟨k, _, hs, _, _⟩ := nextVarName_total id
  obtain ⟨k', _, hs', _, _⟩ := nextVarName_total id'
  rw [hs] at h; rw [hs'] at h'
  cases h; cases h'
  intro heq
  have := varName_injective _ _ heq
  have hlt' : id + k + 1 ≤ id' := hlt
  omega

/-- Private identifiers (`$…`) are disjoint from all ordinary generated names and from reserved words. -/
theorem private_disjoint (a b : Nat) : privateName a ≠ varName b := by
  rw [privateName, varName_eq]
  intro h
  have h1 := (List.cons.inj h).1
  exact start_no_dollar (h1 ▸ List.getElem_mem _)

theorem private_valid (n : Nat) : isIdentName (privateName n) = true := by
  have := varName_valid n
  rw [varName_eq] at this
  simp only [isIdentName, Bool.and_eq_true, List.all_eq_true] at this
  rw [privateName, varName_eq]
  simp only [isIdentName, Bool.and_eq_true, List.all_eq_true]
  refine ⟨by decide, ?_⟩
  intro c hc
  simp at hc
  rcases hc with rfl | hc
  · have := this.1; simp [isIdentPart, this]
  · exact this.2 c hc

theorem private_injective (a b : Nat) (h : privateName a = privateName b) : a = b := by
  simp [privateName] at h
  exact varName_injective _ _ h

/-! ## non-vacuity / regression witnesses -/
/-- the id the unfixed code turned into the keyword `if` -/
example : varName 2218 = ['i', 'f'] := by
  rw [varName_eq]
  have e : 2218 / varNameStartChars.length = 42 := by decide
  have e0 : 42 / varNameChars.length = 0 := by decide
  rw [e, rest_pos _ _ chars_two (by decide), e0, rest_zero]
  decide
example : varName 26 = ['a'] := by
  rw [varName_eq]
  have e : 26 / varNameStartChars.length = 0 := by decide
  rw [e, rest_zero]
  decide

end GE.VarName
