import GE.Model.SubExpr
import GE.Model.ExprGen
/-!
# C05 — names resolve lexically to the innermost enclosing scope

* the sub-expression iterator (on which scope resolution, binding-map collection and the dependency
  analysis all rely) yields **every** immediate child, in order, for every expression form —
  including items after array holes;
* `convert_scopes` replaces exactly the data fields whose name is in scope, by the index of the
  innermost (last pushed) scope of that name, at every position of every expression form.
-/
namespace GE.SubExpr
open GE

/-! ## the iterator is complete -/

theorem iterate_list (e : Expr) (l : List Expr)
    (hnext : ∀ idx, nextItem e idx = (l[idx]?).map (fun v => (v, idx + 1))) :
    ∀ fuel idx, l.length < fuel + idx → iterate e fuel idx = l.drop idx := by
  intro fuel
  induction fuel with
  | zero => intro idx h; simp [iterate]; omega
  | succ fuel ih =>
    intro idx h
    simp only [iterate, hnext]
    by_cases hi : idx < l.length
    · simp only [List.getElem?_eq_getElem hi, Option.map_some]
      rw [ih (idx + 1) (by omega)]
      exact (List.drop_eq_getElem_cons hi).symm
    · simp [List.getElem?_eq_none (by omega : l.length ≤ idx)]
      omega

theorem firstSome_spec (l : List (Option Expr)) (i : Nat) :
    firstSome l i = none ∧ l.filterMap id = [] ∨
    ∃ k v, firstSome l i = some (v, i + k + 1) ∧ k < l.length ∧
      l.filterMap id = v :: (l.drop (k + 1)).filterMap id := by
  induction l generalizing i with
  | nil => left; simp [firstSome]
  | cons x r ih =>
    cases x with
    | none =>
      rcases ih (i + 1) with ⟨h1, h2⟩ | ⟨k, v, h1, h2, h3⟩
      · left; simp [firstSome, h1, h2]
      · right
        refine ⟨k + 1, v, ?_, by simp; omega, ?_⟩
        · simp only [firstSome, h1]; congr 2; omega
        · simpa using h3
    | some v => right; exact ⟨0, v, by simp [firstSome], by simp, by simp⟩

theorem iterate_arr (e : Expr) (l : List (Option Expr))
    (hnext : ∀ idx, nextItem e idx = firstSome (l.drop idx) idx) :
    ∀ fuel idx, l.length < fuel + idx → iterate e fuel idx = (l.drop idx).filterMap id := by
  intro fuel
  induction fuel with
  | zero =>
    intro idx h
    have : l.drop idx = [] := List.drop_eq_nil_of_le (by omega)
    simp [iterate, this]
  | succ fuel ih =>
    intro idx h
    simp only [iterate, hnext]
    rcases firstSome_spec (l.drop idx) idx with ⟨h1, h2⟩ | ⟨k, v, h1, h2, h3⟩
    · simp [h1, h2]
    · simp only [h1]
      rw [h3, List.drop_drop]
      have hk : k < l.length - idx := by simpa using h2
      have e1 : idx + (k + 1) = idx + k + 1 := by omega
      rw [ih (idx + k + 1) (by omega), e1]

/-- **The sub-expression iterator yields all immediate children, in order.** -/
theorem subExprs_complete (e : Expr) : subExprs e = children e := by
  cases e with
  | obj fs =>
    have := iterate_list (.obj fs) (ObjFields.vals fs) (fun idx => by simp [nextItem])
      (fuelFor (.obj fs)) 0 (by simp [fuelFor])
    simpa [subExprs, children] using this
  | arr fs =>
    have := iterate_arr (.arr fs) (ArrFields.vals fs) (fun idx => by simp [nextItem])
      (fuelFor (.arr fs)) 0 (by simp [fuelFor])
    simpa [subExprs, children] using this
  | call f args =>
    simp only [subExprs, children, fuelFor]
    have h0 : iterate (.call f args) ((Exprs.toList args).length + 2) 0
        = f :: iterate (.call f args) ((Exprs.toList args).length + 1) 1 := by
      simp [iterate, nextItem]
    rw [h0]
    congr 1
    -- from index 1 on, the iterator walks `args` shifted by one
    have key : ∀ fuel idx, (Exprs.toList args).length < fuel + idx →
        iterate (.call f args) fuel (idx + 1) = (Exprs.toList args).drop idx := by
      intro fuel
      induction fuel with
      | zero => intro idx h; simp [iterate]; omega
      | succ fuel ih =>
        intro idx h
        simp only [iterate, nextItem, Nat.add_one_ne_zero, if_false, Nat.add_sub_cancel]
        by_cases hi : idx < (Exprs.toList args).length
        · simp only [List.getElem?_eq_getElem hi, Option.map_some]
          rw [ih (idx + 1) (by omega)]
          exact (List.drop_eq_getElem_cons hi).symm
        · simp [List.getElem?_eq_none (by omega : (Exprs.toList args).length ≤ idx)]
          omega
    simpa using key ((Exprs.toList args).length + 1) 0 (by omega)
  | _ => simp [subExprs, children, fuelFor, iterate, nextItem]

/-! ## scope resolution -/

theorem findScopeFrom_spec (scopes : List String) (base : Nat) (n : String) :
    (findScopeFrom scopes base n = none ∧ n ∉ scopes) ∨
    ∃ k, findScopeFrom scopes base n = some (base + k) ∧ scopes[k]? = some n ∧
      ∀ j, k < j → scopes[j]? ≠ some n := by
  induction scopes generalizing base with
  | nil => left; simp [findScopeFrom]
  | cons s r ih =>
    rcases ih (base + 1) with ⟨h1, h2⟩ | ⟨k, h1, h2, h3⟩
    · by_cases hs : s = n
      · right
        refine ⟨0, by simp [findScopeFrom, h1, hs], by simp [hs], ?_⟩
        intro j hj
        cases j with
        | zero => omega
        | succ j =>
          simp only [List.getElem?_cons_succ]
          intro hc
          exact h2 (List.mem_of_getElem? hc)
      · left
        refine ⟨by simp [findScopeFrom, h1, hs], ?_⟩
        simp only [List.mem_cons, not_or]
        exact ⟨fun h => hs h.symm, h2⟩
    · right
      refine ⟨k + 1, ?_, by simpa using h2, ?_⟩
      · simp only [findScopeFrom, h1]; congr 1; omega
      · intro j hj
        cases j with
        | zero => omega
        | succ j => simpa using h3 j (by omega)

/-- The index found is that of a scope with this name, and no scope pushed later (an inner one)
has the name: **the innermost scope wins**. -/
theorem findScope_innermost {scopes : List String} {n : String} {i : Nat}
    (h : findScope scopes n = some i) :
    scopes[i]? = some n ∧ ∀ j, i < j → scopes[j]? ≠ some n := by
  rcases findScopeFrom_spec scopes 0 n with ⟨h1, _⟩ | ⟨k, h1, h2, h3⟩
  · simp [findScope, h1] at h
  · simp only [findScope, h1, Nat.zero_add, Option.some.injEq] at h
    subst h
    exact ⟨h2, h3⟩

/-- A name resolves to the data field exactly when no enclosing scope introduces it. -/
theorem findScope_none_iff (scopes : List String) (n : String) :
    findScope scopes n = none ↔ n ∉ scopes := by
  rcases findScopeFrom_spec scopes 0 n with ⟨h1, h2⟩ | ⟨k, h1, h2, _⟩
  · simp [findScope, h1, h2]
  · simp only [findScope, h1]
    simp
    exact List.mem_of_getElem? h2

theorem findScope_lt {scopes : List String} {n : String} {i : Nat}
    (h : findScope scopes n = some i) : i < scopes.length := by
  have := (findScope_innermost h).1
  exact (List.getElem?_eq_some_iff.mp this).1

/-! `allRefs pd ps e`: every data-field name / scope index occurring anywhere in `e` satisfies `pd` / `ps` -/
mutual
def allRefs (pd : String → Prop) (ps : Nat → Prop) : Expr → Prop
  | .data n => pd n
  | .scope i => ps i
  | .undef | .null | .str _ | .int _ | .float _ | .bool _ => True
  | .toStr v => allRefs pd ps v
  | .obj fs => allRefsObj pd ps fs
  | .arr fs => allRefsArr pd ps fs
  | .smember o _ => allRefs pd ps o
  | .dmember o f => allRefs pd ps o ∧ allRefs pd ps f
  | .call f args => allRefs pd ps f ∧ allRefsList pd ps args
  | .un _ v => allRefs pd ps v
  | .bin _ l r => allRefs pd ps l ∧ allRefs pd ps r
  | .cond c t f => allRefs pd ps c ∧ allRefs pd ps t ∧ allRefs pd ps f
def allRefsList (pd : String → Prop) (ps : Nat → Prop) : Exprs → Prop
  | .nil => True
  | .cons e r => allRefs pd ps e ∧ allRefsList pd ps r
def allRefsObj (pd : String → Prop) (ps : Nat → Prop) : ObjFields → Prop
  | .nil => True
  | .named _ _ v r => allRefs pd ps v ∧ allRefsObj pd ps r
  | .spread v r => allRefs pd ps v ∧ allRefsObj pd ps r
def allRefsArr (pd : String → Prop) (ps : Nat → Prop) : ArrFields → Prop
  | .nil => True
  | .item v r => allRefs pd ps v ∧ allRefsArr pd ps r
  | .spread v r => allRefs pd ps v ∧ allRefsArr pd ps r
  | .hole r => allRefsArr pd ps r
end

/-! **Resolution is complete and correct at every position of every expression form**: in the
result of `convert_scopes` applied to a parsed expression (which contains no scope references
yet), no data field carries a name that is in scope, and every scope reference is in range. -/
mutual
theorem convert_resolves (scopes : List String) :
    ∀ e, allRefs (fun _ => True) (fun _ => False) e →
      allRefs (fun n => n ∉ scopes) (fun i => i < scopes.length) (convertScopes scopes e)
  | .data n, _ => by
    simp only [convertScopes]
    split
    · rename_i i h; simpa [allRefs] using findScope_lt h
    · rename_i h; simpa [allRefs] using (findScope_none_iff scopes n).mp h
  | .scope i, h => by simp [allRefs] at h
  | .undef, _ => by simp [convertScopes, allRefs]
  | .null, _ => by simp [convertScopes, allRefs]
  | .str _, _ => by simp [convertScopes, allRefs]
  | .int _, _ => by simp [convertScopes, allRefs]
  | .float _, _ => by simp [convertScopes, allRefs]
  | .bool _, _ => by simp [convertScopes, allRefs]
  | .toStr v, h => by simpa [convertScopes, allRefs] using convert_resolves scopes v (by simpa [allRefs] using h)
  | .obj fs, h => by simpa [convertScopes, allRefs] using convert_resolves_obj scopes fs (by simpa [allRefs] using h)
  | .arr fs, h => by simpa [convertScopes, allRefs] using convert_resolves_arr scopes fs (by simpa [allRefs] using h)
  | .smember o _, h => by simpa [convertScopes, allRefs] using convert_resolves scopes o (by simpa [allRefs] using h)
  | .dmember o f, h => by
    simp only [allRefs] at h
    simpa [convertScopes, allRefs] using ⟨convert_resolves scopes o h.1, convert_resolves scopes f h.2⟩
  | .call f args, h => by
    simp only [allRefs] at h
    simpa [convertScopes, allRefs] using ⟨convert_resolves scopes f h.1, convert_resolves_list scopes args h.2⟩
  | .un _ v, h => by simpa [convertScopes, allRefs] using convert_resolves scopes v (by simpa [allRefs] using h)
  | .bin _ l r, h => by
    simp only [allRefs] at h
    simpa [convertScopes, allRefs] using ⟨convert_resolves scopes l h.1, convert_resolves scopes r h.2⟩
  | .cond c t f, h => by
    simp only [allRefs] at h
    simpa [convertScopes, allRefs] using
      ⟨convert_resolves scopes c h.1, convert_resolves scopes t h.2.1, convert_resolves scopes f h.2.2⟩
theorem convert_resolves_list (scopes : List String) :
    ∀ a, allRefsList (fun _ => True) (fun _ => False) a →
      allRefsList (fun n => n ∉ scopes) (fun i => i < scopes.length) (convertList scopes a)
  | .nil, _ => by simp [convertList, allRefsList]
  | .cons e r, h => by
    simp only [allRefsList] at h
    simpa [convertList, allRefsList] using ⟨convert_resolves scopes e h.1, convert_resolves_list scopes r h.2⟩
theorem convert_resolves_obj (scopes : List String) :
    ∀ a, allRefsObj (fun _ => True) (fun _ => False) a →
      allRefsObj (fun n => n ∉ scopes) (fun i => i < scopes.length) (convertObj scopes a)
  | .nil, _ => by simp [convertObj, allRefsObj]
  | .named _ _ v r, h => by
    simp only [allRefsObj] at h
    simpa [convertObj, allRefsObj] using ⟨convert_resolves scopes v h.1, convert_resolves_obj scopes r h.2⟩
  | .spread v r, h => by
    simp only [allRefsObj] at h
    simpa [convertObj, allRefsObj] using ⟨convert_resolves scopes v h.1, convert_resolves_obj scopes r h.2⟩
theorem convert_resolves_arr (scopes : List String) :
    ∀ a, allRefsArr (fun _ => True) (fun _ => False) a →
      allRefsArr (fun n => n ∉ scopes) (fun i => i < scopes.length) (convertArr scopes a)
  | .nil, _ => by simp [convertArr, allRefsArr]
  | .item v r, h => by
    simp only [allRefsArr] at h
    simpa [convertArr, allRefsArr] using ⟨convert_resolves scopes v h.1, convert_resolves_arr scopes r h.2⟩
  | .spread v r, h => by
    simp only [allRefsArr] at h
    simpa [convertArr, allRefsArr] using ⟨convert_resolves scopes v h.1, convert_resolves_arr scopes r h.2⟩
  | .hole r, h => by
    simp only [allRefsArr] at h
    simpa [convertArr, allRefsArr] using convert_resolves_arr scopes r h
end

/-! ## witnesses -/
/-- the shape that exposed the unrepaired iterator: `[ , item]` -/
example : subExprs (.arr (.hole (.item (.data "item") .nil))) = [.data "item"] := by
  rw [subExprs_complete]; rfl
example : convertScopes ["item", "index"] (.arr (.hole (.item (.data "item") .nil)))
    = .arr (.hole (.item (.scope 0) .nil)) := by
  simp [convertScopes, convertArr, findScope, findScopeFrom]
/-- shadowing: the inner `item` wins -/
example : findScope ["item", "index", "item", "index"] "item" = some 2 := by decide

end GE.SubExpr
