"""What a check does when a table extractor no longer finds its pattern in the source (a function was split, arms were regrouped, a table moved).

The tables in lean/GE/Extracted are the *regenerated* half of the tie.  Every model that embeds one is also tied the other way — its executable
definitions are run against the implementation on every run.  So a lost pattern does not leave the model untied: the table as shipped
(checklib/shipped/) is kept, and the correspondence stream below, which exercises every entry of that table, decides in this very run whether the
implementation still behaves as the table says.  Only a table with no such stream (the run-time helper texts of C06, the `try_parse` restore shape)
is still reported as a broken tie.  `core.Check.model_tie` calls `run(chk, table)` for every lost table the check's theorems depend on."""
import json
from . import core, exprgen as eg


def expr_tables(chk):
    """every operator (pair) of the expression grammar through the generator model and the real generator: value, hoisted statements, guards"""
    rng = chk.rng.fork("fallback-expr")
    trees = eg.enum_depth2() + [eg.rand_tree(rng, 3 + (i % 3), 1) for i in range(400)]
    srcs = [eg.src(t, "full", rng) for t in trees]
    real = core.run_harness([core.req("expr", s, "1:1", "0") for s in srcs])
    reqs, realv, seen = [], [], set()
    for s, a in zip(srcs, real):
        f = a.split("\t")
        if a.startswith("PANIC") or f[0] == "none" or len(f) < 13:
            continue
        key = core.unesc(f[0])
        if key in seen:
            continue
        seen.add(key)
        reqs.append(core.req("expr_gen", key, "1:1"))
        realv.append("\t".join([f[3], f[4], f[12], f[5], f[6]]))
    return core.diff_streams(chk, "fallback:expr_gen", reqs, realv, core.run_driver(reqs))


def str_tables(chk):
    """every operator (pair) through the expression printer model and the real printer"""
    rng = chk.rng.fork("fallback-str")
    trees = eg.enum_depth2() + [eg.rand_tree(rng, 2 + i % 3, 0) for i in range(600)]
    srcs = []
    for t in trees:
        try:
            srcs.append(eg.src(t, "full", rng))
        except Exception:
            pass
    parsed = core.run_harness([core.req("expr", e, "", "0") for e in srcs])
    preqs, mreqs = [], []
    for e, a in zip(srcs, parsed):
        f = a.split("\t")
        if a.startswith("PANIC") or f[0] == "none" or "\n" in e:
            continue
        preqs.append(core.req("expr_str", e))
        mreqs.append(core.req("expr_str", core.unesc(f[0])))
    real = core.run_harness(preqs)
    model = core.run_driver(mreqs)
    keep = [(rq, a, m) for rq, a, m in zip(preqs, real, model) if not a.startswith("not-a-single-binding")]
    return core.diff_streams(chk, "fallback:expr_str", [k[0] for k in keep], [k[1] for k in keep], [k[2] for k in keep])


def var_name(chk):
    """the identifier allocator: the first 120 000 names and the successor function"""
    reqs = [core.req("var_name", str(i)) for i in range(0, 120000)] + [core.req("next_var_name", str(i)) for i in range(0, 120000, 7)]
    return core.diff_streams(chk, "fallback:var_name", reqs, core.run_harness(reqs), core.run_driver(reqs))


def css_tables(chk):
    """generated stylesheets (every at-rule keyword of the shipped table and others, every option set) through the stylesheet model and the real transformer:
    token streams of both outputs, warnings, source-map positions and names"""
    from . import csscheck, cssmodel
    from . import c17, c19
    rng = chk.rng.fork("fallback-css")
    # (the directed cases of the properties about the writers and the :host wrappers first: replayed preludes with astral characters, nested at-rules)
    cases = list(c19.extra_cases(rng.fork("c19"), True)) + list(c17.extra_cases(rng.fork("c17"), True)) + csscheck.gen_cases(rng, 500, None)
    cssmodel.compare(chk, cases, cssmodel.run_cases(cases), stream="fallback:css")
    return 0


def positions(chk, n=3000, stream="fallback:positions"):
    """`next` / `skip_whitespace` / `skip_bytes` on random step sequences over line feeds, multi-byte and astral characters: position model vs ParseState"""
    rng = chk.rng.fork("positions")
    alpha = ["a", " ", "\n", "\t", "\r", "é", "中", "😀", "𝒳", "\n\n", "  ", "x=\"1\""]
    reqs = []
    for i in range(n):
        s = "".join(rng.choice(alpha) for _ in range(rng.below(14)))
        b = s.encode("utf-8")
        steps, pos = [], 0
        while pos < len(b) and len(steps) < 12:
            k = rng.below(3)
            if k == 0:
                steps.append("0")
                pos += len(b[pos:].decode("utf-8")[:1].encode("utf-8"))
            elif k == 1:
                steps.append("w")
                rest = b[pos:].decode("utf-8")
                j = 0
                while j < len(rest) and (rest[j] == " " or "\t" <= rest[j] <= "\r"):
                    j += 1
                pos += len(rest[:j].encode("utf-8"))
            else:
                rest = b[pos:].decode("utf-8")
                k2 = 1 + rng.below(max(1, min(5, len(rest))))
                nb = len(rest[:k2].encode("utf-8"))
                steps.append(str(nb))
                pos += nb
        if steps:
            reqs.append(core.req("positions", s, ",".join(steps)))
    return core.diff_streams(chk, stream, reqs, core.run_harness(reqs), core.run_driver(reqs))


def child_args(chk):
    """children lists of every combination of node kinds through the parameter-list model and the real generator"""
    from . import childargs
    return childargs.run(chk, n_random=200, stream="fallback:child-args")


STREAMS = {
    "ArgLevels": child_args,
    "ExprTables": expr_tables,
    "StrTables": str_tables,
    "VarName": var_name,
    "CssTables": css_tables,
    "CssOutputShape": css_tables,
    "ParseLevels.positionUpdateShapes": positions,
}


def run(chk, key):
    fn = STREAMS.get(key)
    if fn is None:
        return False
    fn(chk)
    return True
