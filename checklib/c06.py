"""C06 — incremental update is sound: marked changes are never missed (DESIGN.md §9 C06)."""
import json, copy
from . import core, tmplgen as tg, render, update as up

THEOREMS = [
    "GE.PA.analysis_covers_fields",
    "GE.PA.covers",
    "GE.PA.covers_arr",
]
THM_RLM = ["GE.Rlm.marking_sound", "GE.Rlm.uniq_nodup", "GE.Rlm.uniq_single", "GE.Rlm.mem_groupOrder", "GE.Rlm.groupOrder_nodup", "GE.Rlm.fresh_not_used"]

THM_TAG = ["GE.TagSem.updates_refine", "GE.TagSem.update_refines", "GE.TagSem.update_renders", "GE.TagSem.create_renders", "GE.TagSem.renders_shape",
           "GE.TagSem.keyed_renders", "GE.TagSem.toyLaw"]

THM_GUARD = [
    "GE.PA.Guard.guard_sound",
    "GE.PA.Guard.analyze_sound",
    "GE.PA.Guard.list_sound",
    "GE.PA.Guard.obj_sound",
    "GE.PA.Guard.arr_sound",
    "GE.PA.Guard.obj_final",
    "GE.PA.Guard.objG_covers",
    "GE.PA.Guard.arr_final",
    "GE.PA.Guard.entry_covers",
    "GE.PA.Guard.branch_covers",
    "GE.PA.Guard.unchanged_of_related",
    "GE.PA.Guard.covers_Z",
    "GE.PA.Guard.objGOld_not_covering",
    "GE.PA.Guard.helpers_as_modelled",
]


def run(chk):
    quick = chk.tier != "thorough"
    chk.rule = ("generated templates (all expression forms, nested if/for/template-is, keyed and unkeyed lists) x data histories D0..Dn from random leaf "
                "replacements and list growth/shrink/reorder x update-path trees that cover diff(Di-1,Di) by construction (exact, coarsened, `true`): tree "
                "after create(D0);update(D1,U1);… vs fresh create(Dn), both under the REAL runtime; plus guard-string model/implementation stream (in C03's "
                "stream); non-trivial = history in which the final tree differs from the initial one")
    chk.trusted = ["Lean 4.33 kernel", "axioms ⊆ {propext, Classical.choice, Quot.sound}",
                   "GE/Model/PathAnalysis.lean tied by byte-equality of guard / template-data tree strings with the real generator (stream in the C03 check, re-run here)",
                   "real ProcGenWrapper + RangeListManager under node 22 with a stub backend", "update trees built by the oracle from diff(D,D')"]
    chk.assumptions = ["TAG LEVEL (GE/Thm/C06Tag.lean, model GE/Model/TagSem.lean tied by corr:tagsem): updates_refine - creation followed by any number of updates whose "
                       "trees cover the successive differences leaves, up to node creation times, the tree of a fresh creation, for templates of text / elements with "
                       "plain attributes / <block> / wx:if chains / wx:for with and without wx:key, under the hypotheses `Law` (sound guards, covering list trees, the "
                       "meaning of a tree node for list items and keys). Those hypotheses are what guard_sound establishes at the expression level, but the two "
                       "developments use different value domains and are not formally composed; template-is / include / slot and the other attribute families are oracle only",
                       "PARTIAL: proved = no dependency root is forgotten by the analysis (analysis_covers_fields) and the value-level guard_sound for EVERY "
                       "expression form (data fields, scope variables, object literals with spread, array literals with holes and spread, member / index chains, "
                       "calls, operators, ??, conditionals): tree covers diff and guard false => same value; update_refines (the tag / list level: if / for / "
                       "template / slot bookkeeping) is established by the oracle only",
                       "guard_sound semantics: values are atoms or objects with present / absent keys, member reads null-safe, operators and calls arbitrary pure "
                       "functions of operand values, array members after the first spread operand an arbitrary function of the remaining operands; a tree node "
                       "means 'only the marked children differ' (the meaning the framework's tree builder gives it); hoisted temporaries hold the new index / "
                       "condition values (TempsOk), scope variables come with covering trees (ScopesOk); real trees can only be more marked than the model "
                       "(inherited members read as truthy) and guards are monotone",
                       "RangeListManager (TypeScript): the key bookkeeping (updateKeys: keys made unique) and the per-item trees of `diff` are modelled "
                       "(GE/Model/Rlm.lean, compared with the real class on random keyed lists: corr:rlm) and proved: the unique keys are pairwise distinct "
                       "(uniq_nodup; the search for a free `key--n` never fails, by pigeonhole: fresh_not_used), keys that occur once are kept, and "
                       "marking_sound: if the tree marks every position whose key changed, an item that is not told `true` and reuses an old node reuses the "
                       "node of its own position (the statement finding D62 violated). The node moves (LIS, insertions, removals) are executed, not modelled"]
    chk.model_tie([("GE.Thm.C06", THEOREMS), ("GE.Thm.C06Guard", THM_GUARD), ("GE.Thm.C06Rlm", THM_RLM), ("GE.Thm.C06Tag", THM_TAG),
                   ("GE.Thm.C06TagJson", ["GE.TagSem.json_updates_refine", "GE.TagSem.jsonLaw"])])
    rng = chk.rng.fork("c06")
    rlm_stream(chk, chk.rng.fork("rlm"), quick)
    # the tag-level model (update_refines is about it) vs the real compiler + runtime: trees, values and node reuse over generated histories
    from . import tagsem
    tagsem.stream(chk, chk.rng.fork("tagsem"), 300 if quick else 6000)
    # guard strings: model vs implementation on a sample of expressions (full stream lives in C03)
    from . import exprgen as eg
    trees = eg.enum_depth2()[:: (9 if quick else 2)] + [eg.rand_tree(rng, 3, 1) for _ in range(150 if quick else 3000)]
    reqs = [core.req("expr", eg.src(t, "min"), "1:1", "0") for t in trees]
    real = core.run_harness(reqs)
    dreqs, dreal = [], []
    for a in real:
        f = a.split("\t")
        if f[0] == "none" or len(f) < 13:
            continue
        dreqs.append(core.req("expr_gen", core.unesc(f[0]), "1:1"))
        dreal.append("\t".join([f[3], f[4], f[12], f[5], f[6]]))
    core.diff_streams(chk, "guards", dreqs, dreal, core.run_driver(dreqs))
    # ---- oracle -------------------------------------------------------------------------------
    n = 400 if quick else 8000
    srcs, plans = [], []
    for i in range(n):
        g = tg.TmplGen(rng.fork(("t", i)), max_depth=3, dyn=True)
        t = g.template()
        src = tg.Printer().template(t)
        r = rng.fork(("h", i))
        D0 = render.DATA_POOL[i % len(render.DATA_POOL)]
        hist = [D0]
        steps = [{"create": D0}]
        for s_ in range(1 + r.below(3)):
            D1 = up.mutate_data(r, hist[-1], focus=[k for k in D0 if k in src])
            u = up.diff_tree(hist[-1], D1)
            mode = r.below(3)
            if mode == 1:
                u = up.coarsen(r, u)
            elif mode == 2 and u is not None:
                u = True
            steps.append({"update": D1, "U": up.tree_to_req(u)})
            hist.append(D1)
            if "cmp-dyn" in src and r.chance(1, 2):
                # the dynamic-slot components hand other values to their slots
                steps.append({"slotEpoch": r.below(32)})
        srcs.append(src)
        plans.append((hist, steps))
    # directed list / operand scenarios: every list shape x key x body x transition (exact, coarsened and `true` trees)
    for src, trans in directed_scenarios():
        for (D0, D1) in trans:
            u = up.diff_tree(D0, D1)
            for variant in (u, True, up.coarsen(rng.fork(("co", len(srcs))), u)):
                srcs.append(src)
                plans.append(([D0, D1], [{"create": D0}, {"update": D1, "U": up.tree_to_req(variant)}]))
    # two updates in a row on keyed lists: a reordering of the same length under one kind of tree (`true`: the list expression is handed `undefined`;
    # exact; coarsened), then a change of one position under another kind — the keys remembered after the first update are the ones the second compares
    # with (round 12, C06-14: keys not regenerated for an "untouched" list of unchanged length)
    arr3 = [{"k": "a", "p": 1}, {"k": "b", "p": 2}, {"k": "c", "p": 3}, {"k": "d", "p": 4}]
    perms = [[2, 0, 1, 3], [3, 2, 1, 0], [1, 0, 3, 2]]
    for key in ("k", "*this"):
        for body in ("{{item.k}}{{item.p}}", "<v data-a=\"{{item.p}}\">{{item.k}}</v>"):
            src = '<view wx:for="{{list}}" wx:key="%s">%s</view><template name="t"><v wx:for="{{list}}" wx:key="%s">%s</v></template><template is="t" data="{{ ...pg, list: list }}"/>' % (key, body, key, body)
            for pm in perms:
                D0 = {"list": arr3 if key == "k" else ["a", "b", "c", "d"], "pg": {"z": 1}}
                D1 = dict(D0, list=[D0["list"][j] for j in pm])
                for pos in (3, 0):
                    D2 = dict(D1, list=list(D1["list"]))
                    D2["list"][pos] = ({"k": D1["list"][pos]["k"], "p": 99} if key == "k" else "zz")
                    D3 = dict(D1, list=list(D1["list"]))
                    D3["list"][pos] = ({"k": "new", "p": 5} if key == "k" else D1["list"][(pos + 1) % 4])
                    for Dn in (D2, D3):
                        u1, u2 = up.diff_tree(D0, D1), up.diff_tree(D1, Dn)
                        for v1, v2 in ((True, u2), (u1, u2), (True, True), (u1, True), (up.coarsen(rng.fork(("c2", len(srcs))), u1), u2)):
                            srcs.append(src)
                            plans.append(([D0, D1, Dn], [{"create": D0}, {"update": D1, "U": up.tree_to_req(v1)}, {"update": Dn, "U": up.tree_to_req(v2)}]))
    # path writes through the REAL tree builder (tmpl/index.ts): setData-style changes, some of which create an intermediate object
    for src, D0, changes in path_write_scenarios():
        D1 = copy.deepcopy(D0)
        for (pth, v) in changes:
            write_path(D1, pth, v)
        srcs.append(src)
        plans.append(([D0, D1], [{"create": D0}, {"changes": [[list(pth), v] for (pth, v) in changes], "D": D1}]))
    # dynamic-slot components: content rendered once per slot instance, selected by slot name, fed with slot values that change by "epoch"
    for src, D0, D1s in dyn_scenarios():
        for D1 in D1s:
            u = up.diff_tree(D0, D1)
            for e1, e2 in ((None, None), (5, None), (None, 3), (1, 30)):
                steps = [{"create": D0}] + ([{"slotEpoch": e1}] if e1 is not None else []) + [{"update": D1, "U": up.tree_to_req(u)}] + \
                        ([{"slotEpoch": e2}] if e2 is not None else [])
                srcs.append(src)
                plans.append(([D0, D1], steps))
    chk.bump("oracle:dyn-histories", sum(1 for s_ in srcs if "cmp-dyn" in s_))
    chk.bump("oracle:slot-epoch-steps", sum(1 for (_, st) in plans for x in st if "slotEpoch" in x))
    run_histories(chk, srcs, plans)


def dyn_scenarios():
    """[(template, D0, [D1])] for `cmp-dyn` (three slot instances: '', 's1', '')"""
    D0 = {"q": 1, "s": "", "l": [{"k": "x", "p": 1}, {"k": "y", "p": 2}], "c": True}
    D1s = [dict(D0, q=2), dict(D0, s="s1"), dict(D0, s="zz"), dict(D0, c=False), dict(D0, l=[{"k": "y", "p": 2}, {"k": "x", "p": 3}, {"k": "z", "p": 4}]),
           dict(D0, q=0, s="s1", c=False, l=[])]
    tpls = ['<cmp-dyn title="{{q}}"><view slot:a class="{{q}}">{{a}}-{{q}}</view><text slot="s1" slot:b>{{b}}{{q}}</text>t{{q}}</cmp-dyn>',
            '<cmp-dyn><block wx:if="{{c}}"><v title="{{q}}">{{q}}</v>i{{q}}</block><view wx:for="{{l}}" wx:key="k" slot="s1">{{item.p}}{{q}}</view></cmp-dyn>',
            '<cmp-dyn><view slot="{{s}}" slot:a slot:b="bb" title="{{a}}{{bb}}">x{{q}}{{a}}</view><block slot="s1">B{{q}}</block></cmp-dyn>',
            '<cmp-dyn><block slot:item slot:sv="v">{{item}}/{{v}}/{{q}}</block><cmp-x slot="s1" foo-bar="{{q}}" slot:a value="{{a}}"/></cmp-dyn>',
            '<cmp-dyn wx:if="{{c}}" value="{{q}}"><view slot:a>{{a}}</view></cmp-dyn><cmp-dyn wx:else><text slot="{{s}}" slot:b>{{b}}{{q}}</text></cmp-dyn>',
            '<view wx:for="{{l}}" wx:key="k"><cmp-dyn><view slot:a slot="{{s}}">{{a}}{{item.p}}{{q}}</view><slot name="{{s}}"/></cmp-dyn></view>',
            '<cmp-dyn><cmp-dyn slot:a title="{{a}}"><view slot:a slot="s1">{{a}}{{q}}</view></cmp-dyn></cmp-dyn>']
    return [(t, D0, D1s) for t in tpls]


def directed_scenarios():
    """[(template, [(D0, D1)])]: wx:for over arrays / objects / strings / conditionals / logic operands, with and without keys, bodies
    reading item, index, members; template data built with logic operators; both operands changing at once"""
    out = []
    arr = [{"k": "x", "p": 1}, {"k": "y", "p": 2}, {"k": "z", "p": 3}]
    arr_t = [
        [{"k": "x", "p": 1}, {"k": "y", "p": 9}, {"k": "z", "p": 3}],            # one member
        [{"k": "y", "p": 2}, {"k": "x", "p": 1}, {"k": "z", "p": 3}],            # swap
        [{"k": "n", "p": 0}, {"k": "x", "p": 1}, {"k": "y", "p": 2}, {"k": "z", "p": 3}],   # insert front
        [{"k": "x", "p": 1}, {"k": "z", "p": 3}],                                # delete middle
        [{"k": "x", "p": 1}, {"k": "x", "p": 2}, {"k": "z", "p": 3}],            # duplicate key
        [{"k": "z", "p": 7}, {"k": "y", "p": 8}, {"k": "x", "p": 9}],            # reverse + members
        [],
    ]
    obj = {"a": {"k": "x", "p": 1}, "b": {"k": "y", "p": 2}}
    obj_t = [
        {"b": {"k": "y", "p": 2}, "c": {"k": "x", "p": 1}},      # same size, other keys
        {"a": {"k": "x", "p": 5}, "b": {"k": "y", "p": 2}},      # one member
        {"b": {"k": "y", "p": 2}},                               # shrink to a later key
        {"b": {"k": "y", "p": 2}, "a": {"k": "x", "p": 1}},      # key order
        {"c": {"k": "q", "p": 1}, "a": {"k": "x", "p": 1}, "b": {"k": "y", "p": 2}},
    ]
    bodies = ["{{index}}", "{{item.p}}", "{{index}}:{{item.k}}-{{item.p}}", "<v id=\"{{index}}\" data-a=\"{{item.p}}\">{{item.k}}</v>"]
    for key in (None, "k", "*this"):
        for body in bodies:
            ka = "" if key is None else ' wx:key="%s"' % key
            out.append(('<view wx:for="{{l}}"%s>%s</view>' % (ka, body), [({"l": arr}, {"l": t}) for t in arr_t] +
                        [({"l": obj}, {"l": t}) for t in obj_t] + [({"l": arr}, {"l": obj}), ({"l": "abc"}, {"l": "abd"}), ({"l": 2}, {"l": 3})]))
    # lists and template data computed from several operands that change in the same update
    both = [({"c": {"z": 1}, "l": [{"p": 1}], "d": None}, {"c": {"z": 2}, "l": [{"p": 2}], "d": None}),
            ({"c": {"z": 1}, "l": [{"p": 1}], "d": None}, {"c": {"z": 1}, "l": [{"p": 2}], "d": None}),
            ({"c": {"0": {"p": 1}}, "l": [{"p": 1}], "d": 0}, {"c": {"0": {"p": 1}, "z": 1}, "l": [{"p": 3}], "d": 0})]
    for lst in ("c && l", "d || l", "c ? l : d", "d ?? l", "[l[0], c][0] ? l : l"):
        out.append(('<view wx:for="{{ %s }}">{{item.p}}</view>' % lst, both))
    tdata = [({"o": {"a": 1}, "q": {"k": 1, "n": "x"}}, {"o": {"a": 2}, "q": {"k": 2, "n": "x"}}),
             ({"o": {"a": 1}, "q": {"k": 1, "n": "x"}}, {"o": {"a": 1}, "q": {"k": 1, "n": "y"}})]
    for dexpr in ("x: o && q", "x: o ? q : o", "x: q, y: o", "...q, k: o.a", "x: [o, q][1]", "x: {k: q.k, n: q.n}"):
        out.append(('<template name="t">{{x.k}}{{x.n}}{{k}}{{n}}</template><template is="t" data="{{ %s }}"/>' % dexpr, tdata))
    # duplicate keys: one item's key changes, so the keys made unique (x--0, x--1 …) move to other items
    dup = [{"k": "x", "p": 1}, {"k": "x", "p": 2}, {"k": "x", "p": 3}, {"k": "y", "p": 4}]
    dup_t = [[{"k": "z", "p": 1}, {"k": "x", "p": 2}, {"k": "x", "p": 3}, {"k": "y", "p": 4}],
             [{"k": "x", "p": 1}, {"k": "y", "p": 2}, {"k": "x", "p": 3}, {"k": "y", "p": 4}],
             [{"k": "x", "p": 1}, {"k": "x", "p": 2}, {"k": "x", "p": 3}, {"k": "x", "p": 4}],
             [{"p": 1}, {"k": "x", "p": 2}, {"k": "x", "p": 3}, {"k": "y", "p": 4}],
             [{"k": "x", "p": 1}, {"k": "x", "p": 2}, {"k": None, "p": 3}, {"k": "y", "p": 4}]]
    dobj = {"p": None, "k": 0, "zz": ["x"], "w": {"k": "q"}}
    dobj_t = [{"p": {"k": "q"}, "k": 0, "zz": ["x"], "w": {"k": "q"}}, {"p": None, "k": {"k": 1}, "zz": ["x"], "w": {"k": "q"}},
              {"p": None, "k": 0, "zz": ["x"], "w": {"k": None}}, {"p": None, "k": 0, "zz": {"k": "q"}, "w": {"k": "q"}}]
    for body in ("{{item.p}}", "{{index}}:{{item.p}}", "{{item}}"):
        out.append(('<view wx:for="{{l}}" wx:key="k">%s</view>' % body, [({"l": dup}, {"l": t}) for t in dup_t] + [({"l": t}, {"l": dup}) for t in dup_t] +
                    [({"l": dobj}, {"l": t}) for t in dobj_t] + [({"l": t}, {"l": dobj}) for t in dobj_t]))
    # a keyed / unkeyed list whose key sequence changes in the same update as an outer field read inside the items (the items that stay
    # must still be re-evaluated for the outer field)
    outer = [({"l": arr, "q": "b"}, {"l": t, "q": "c"}) for t in arr_t + [arr + [{"k": "w", "p": 4}], arr[:1] + [{"k": "w", "p": 4}] + arr[1:]]]
    outer += [({"l": obj, "q": "b"}, {"l": t, "q": "c"}) for t in obj_t]
    for key in (None, "k", "*this"):
        ka = "" if key is None else ' wx:key="%s"' % key
        for body in ("{{item.p}}/{{q}}", "<v title=\"{{q}}\">{{item.k}}</v>", "{{index}}{{q}}", "<block wx:if=\"{{q == 'c'}}\">{{item.p}}</block>"):
            out.append(('<view wx:for="{{l}}"%s>%s</view>' % (ka, body), outer))
    # every attribute family: a value that becomes undefined / null / empty and comes back
    U = {"$": "undefined"}
    trans = [({"s": a}, {"s": b}) for a in ("x", U, None, "") for b in ("y", U, None, "") if json.dumps(a) != json.dumps(b)]
    for tpl in ('<view slot="{{s}}"/>', '<block slot="{{s}}">t</block>', '<slot name="n" slot="{{s}}"/>', '<view title="{{s}}" id="{{s}}" class="{{s}}" style="{{s}}"/>',
                '<view data-a="{{s}}" data:b="{{s}}" mark:m="{{s}}" hidden="{{s}}"/>', '<view slot="p{{s}}"/>', '<slot name="{{s}}"/>', '<template is="{{s}}"/>x',
                '<view wx:if="{{s}}" slot="{{s}}">{{s}}</view><view wx:else slot="{{s}}">e</view>'):
        out.append((tpl, trans))
    return out


def rlm_stream(chk, rng, quick):
    """the model of RangeListManager's key bookkeeping and update-tree transformation (GE/Model/Rlm.lean, theorems in GE/Thm/C06Rlm.lean) vs the
    REAL class: for random keyed lists (duplicate keys, keys that look like renamed ones, array-index-like keys, missing keys) and per-position
    trees: which old node every new item gets, and whether it is told `true`, nothing, or its subtree"""
    pool = ["a", "b", "a--0", "a--1", "1", "2", "10", "", "x", "a--0--0", "01"]
    reqs, dreqs = [], []
    for i in range(1500 if quick else 40000):
        no, nn = rng.below(6), rng.below(6)
        ok = [rng.choice(pool[: 3 + rng.below(len(pool) - 2)]) for _ in range(no)]
        if rng.chance(1, 2):
            nk = list(ok)
            for _ in range(rng.below(3)):
                if nk:
                    nk[rng.below(len(nk))] = rng.choice(pool)
            if rng.chance(1, 4) and nk:
                nk.pop(rng.below(len(nk)))
            if rng.chance(1, 4):
                nk.insert(rng.below(len(nk) + 1), rng.choice(pool))
        else:
            nk = [rng.choice(pool) for _ in range(nn)]
        letters = "".join(rng.choice("nnnaks") for _ in range(max(len(ok), len(nk))))
        tree = {}
        for j, c in enumerate(letters):
            if c == "a":
                tree[str(j)] = True
            elif c == "k":
                tree[str(j)] = {"k": True}
            elif c == "s":
                tree[str(j)] = {"p": True}
        item = lambda k, j: ({"p": j} if k == "" else {"k": k, "p": j})      # a missing key field reads as ''
        reqs.append({"op": "rlm", "keyName": "k", "old": [item(k, j) for j, k in enumerate(ok)], "new": [item(k, 100 + j) for j, k in enumerate(nk)], "tree": tree})
        enc = lambda l: "\x01".join(l) if l else "-"
        dreqs.append(core.req("rlm", enc(ok), enc(nk), letters))
    real = core.run_node(reqs)
    model = core.run_driver(dreqs)
    if not core.MODEL_OK:
        return
    nd = 0
    for rq, dq, r, m in zip(reqs, dreqs, real, model):
        if "error" in r:
            chk.violation("correspondence", f"the real RangeListManager threw: {r['error']}", stream="rlm", request=rq)
            continue
        calls = {c["node"]: c for c in r["calls"]}
        got = []
        for nid in r["children"]:
            if nid is None or nid >= r["oldCount"]:
                got.append("new")
            else:
                c = calls.get(nid)
                got.append("%d:%s" % (nid, c["mark"] if c else "?"))
        want = core.unesc(m.split("\t")[0]) if m else ""
        chk.case(("rlm", dq), nontrivial=len(set(rq["old"][j].get("k", "") for j in range(len(rq["old"])))) < len(rq["old"]))
        if " ".join(got) != want:
            nd += 1
            if nd <= 4:
                chk.violation("correspondence", f"RangeListManager: model gives [{want}], implementation [{' '.join(got)}]", stream="rlm", request=rq, model=want, real=" ".join(got))
    chk.bump("corr:rlm:cases", len(reqs))
    chk.bump("corr:rlm:diffs", nd)


def write_path(D, path, v):
    """what DataGroup.applyDataUpdates does for a multi-level path of field names: missing / null intermediates are created as {}"""
    cur = D
    for seg in path[:-1]:
        if not isinstance(cur.get(seg), dict):
            assert cur.get(seg) is None, "the family only writes through objects and missing fields"
            cur[seg] = {}
        cur = cur[seg]
    cur[path[-1]] = v


def path_write_scenarios():
    """[(template, D0, [(path, value)])]: bindings whose value moves between operands (object spread, conditionals, logic operators, array
    literals, template data) x one or two path writes, incl. writes that create an intermediate object; the update-path tree is the one
    the framework builds from the change list"""
    D0 = {"x": {"d": 1, "c": 5}, "o": {}, "p": {"a": {"d": 7}}, "c": 0, "h": [{"d": 5}]}
    exprs = ["{a:x,...o}.a.d", "{...o,a:x}.a.d", "{...p,...o}.a.d", "{...o,...p}.a.d", "{a:x,...o}.a", "{a:x,...o}.a.c", "(c?x:o.a).d", "(o.a||x).d",
             "(o.a??x).d", "(o.a&&x).d", "[x,o.a][1].d", "[x,o.a][c].d", "{a:o.a}.a.c", "{a:o.a,b:x}.a.d", "o.a.c", "o.a.d", "o.a", "o[x.d==1?'a':'b'].c",
             "{a:x,...p,...o}.a.d", "{...{a:x},...o}.a.d", "f(o.a).d",
             # array literals: items after a spread operand have no fixed index
             "[...h,x,c][1].d", "[...h,x.d,c][2]", "[x,...h,c][2]", "[...h,...h,x][2].d", "[...h,x][h.length].d", "[c,...h,x.d][2]", "[...h,,x.d][2]"]
    writes = [(("o", "a", "c"), 1), (("o", "a"), {"d": 2}), (("o", "b", "c"), 1), (("p", "a", "d"), 8), (("o", "a", "d"), 3), (("x", "d"), 2),
              (("c",), 1), (("p", "b", "d"), 4), (("o", "a", "e", "f"), 1),
              # an operand replaced as a whole (its tree is `true`): every field it supplies may have changed
              (("p",), {"a": {"d": 9, "c": 6}}), (("o",), {"a": {"d": 4}}), (("x",), {"d": 3, "c": 7}), (("h",), [{"d": 6}, {"d": 7}])]
    tdata = ["a:x,...o", "...o,a:x", "...p,...o", "a:x,...p,...o", "a:o.a", "a:c?x:o.a", "a:o.a||x"]
    out = []
    for e in exprs:
        src = "<v>{{ %s }}</v>" % e
        for i, w in enumerate(writes):
            out.append((src, D0, [w]))
            for w2 in writes[i + 1:]:
                if w[0][:len(w2[0])] != w2[0] and w2[0][:len(w[0])] != w[0]:
                    out.append((src, D0, [w, w2]))
    for d in tdata:
        src = '<template name="t"><v>{{a.d}}</v><v>{{a.c}}</v><v>{{a.e.f}}</v></template><template is="t" data="{{ %s }}"/>' % d
        for i, w in enumerate(writes):
            out.append((src, D0, [w]))
            for w2 in writes[i + 1:]:
                if w[0][:len(w2[0])] != w2[0] and w2[0][:len(w[0])] != w[0]:
                    out.append((src, D0, [w, w2]))
    # object lists: a field added by a path write takes a position of its own (index-like names sort first), so later positions belong to other fields
    OD = {"o": {"1": {"k": "x", "p": 1}, "b": {"k": "y", "p": 2}}, "q": {"5": "five", "z": "zed", "10": "ten"}}
    owrites = [(("o", "0"), {"k": "n", "p": 0}), (("o", "2"), {"k": "m", "p": 3}), (("o", "a"), {"k": "w", "p": 4}), (("o", "1", "p"), 9), (("q", "7"), "seven"),
               (("q", "0"), "zero"), (("q", "zz"), "last"), (("q", "5"), "FIVE")]
    for key in ("", ' wx:key="k"', ' wx:key="*this"'):
        for lst, body in (("o", "{{item.p}}"), ("o", "{{index}}:{{item.k}}"), ("o", "<v title=\"{{item.p}}\"/>"), ("q", "{{item}}"), ("q", "{{index}}"),
                          ("q", "<block wx:if=\"{{item}}\">{{item}}</block>")):
            src = '<view wx:for="{{%s}}"%s>%s</view>' % (lst, key, body)
            for i, w in enumerate(owrites):
                if w[0][0] != lst:
                    continue
                out.append((src, OD, [w]))
                for w2 in owrites[i + 1:]:
                    if w2[0][0] == lst and w[0][:len(w2[0])] != w2[0] and w2[0][:len(w[0])] != w[0]:
                        out.append((src, OD, [w, w2]))
    return out


def run_histories(chk, srcs, plans):
    groups = render.compile_templates([[["p", s]] for s in srcs])
    reqs, meta = [], []
    for i, g in enumerate(groups):
        if "panic" in g or not isinstance(g.get("gen_groups"), str):
            chk.violation("input", "compiler failed on generated template", template=srcs[i], answer=json.dumps(g)[:300])
            continue
        hist, steps = plans[i]
        # every other history runs with the slot values the runtime really passes (none outside dynamic-slot content) instead of probes
        sv = i % 2 == 0
        epoch = ([0] + [st["slotEpoch"] for st in steps if "slotEpoch" in st])[-1]
        # runtime options by turns: the host's own shadow root in dynamic-slot mode (<slot> elements then hold slot values), legacy event
        # attributes on native nodes (`fallbackListenerOnNativeNode`)
        opt = {"dynamicSlots": i % 4 == 1, "fallbackListener": i % 4 == 3}
        reqs.append(dict({"op": "render", "gen_groups": g["gen_groups"], "path": "p", "steps": steps, "slotValues": sv}, **opt))
        reqs.append(dict({"op": "render", "gen_groups": g["gen_groups"], "path": "p", "steps": [{"create": hist[-1], "epoch": epoch}], "slotValues": sv}, **opt))
        meta.append((i, hist, steps))
    outs = core.run_node(reqs)
    nb = 0
    for k, (i, hist, steps) in enumerate(meta):
        a, b = outs[2 * k], outs[2 * k + 1]
        if "snapshots" not in b or not b["snapshots"]:
            chk.bump("oracle:fresh-create-failed")
            continue
        fresh = up.project_state(b["snapshots"][0]["tree"])
        if "error" in a or len(a.get("snapshots", [])) != len(steps):
            # the updated instance threw although a fresh creation with the same data works
            nb += 1
            if nb <= 3:
                chk.violation("input", f"update threw: {a.get('error')}", template=srcs[i], history=hist, steps=steps, slotValues=i % 2 == 0,
                              options={"dynamicSlots": i % 4 == 1, "fallbackListener": i % 4 == 3})
            continue
        upd = up.project_state(a["snapshots"][-1]["tree"])
        first = up.project_state(a["snapshots"][0]["tree"])
        chk.case((srcs[i], json.dumps(steps)[:80]), nontrivial=json.dumps(first) != json.dumps(fresh),
                 sample=dict(template=srcs[i][:200], steps=steps) if len(chk.samples) < 3 and len(srcs[i]) < 200 else None)
        if json.dumps(upd) != json.dumps(fresh):
            nb += 1
            if nb <= 3:
                chk.violation("input", "tree after incremental update differs from a fresh creation with the final data",
                              template=srcs[i], history=hist, steps=steps, updated=upd, fresh=fresh, slotValues=i % 2 == 0,
                              options={"dynamicSlots": i % 4 == 1, "fallbackListener": i % 4 == 3})
    chk.programs = len(meta)
    chk.bump("oracle:histories", len(meta))
    chk.bump("oracle:stale", nb)


def replay(chk, path):
    o = json.load(open(path))["first"]
    if "template" in o and "steps" in o:
        g = render.compile_templates([[["p", o["template"]]]])[0]
        epoch = ([0] + [st["slotEpoch"] for st in o["steps"] if "slotEpoch" in st])[-1]
        sv = o.get("slotValues", True)
        opt = o.get("options", {})
        a, b = core.run_node([dict({"op": "render", "gen_groups": g["gen_groups"], "path": "p", "steps": o["steps"], "slotValues": sv}, **opt),
                              dict({"op": "render", "gen_groups": g["gen_groups"], "path": "p", "steps": [{"create": o["history"][-1], "epoch": epoch}],
                                    "slotValues": sv}, **opt)])
        if "error" in a:
            chk.violation("input", "replayed: update threw " + str(a["error"]), template=o["template"], history=o["history"], steps=o["steps"])
            return chk.finish()
        x, y = up.project_state(a["snapshots"][-1]["tree"]), up.project_state(b["snapshots"][0]["tree"])
        print("updated", json.dumps(x)[:1500]); print("fresh  ", json.dumps(y)[:1500])
        if json.dumps(x) != json.dumps(y):
            chk.violation("input", "replayed: stale tree", template=o["template"], history=o["history"], steps=o["steps"])
    return chk.finish()
