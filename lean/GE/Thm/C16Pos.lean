/-
C16 / C15 — source positions.  Theorems about the model of `ParseState`'s bookkeeping
(GE/Model/Position.lean, tied to `next` / `skip_whitespace` / `skip_bytes` by a cfg hook):

  * `skipBytes_eq_advance`: the bulk update of `skip_bytes` equals advancing character by character,
    so all three code paths keep one and the same position function;
  * `advance_spec`: that function is (number of line feeds, UTF-16 length of the text after the last one);
  * `step_lt` / `advance_lt`: every consumed character moves the position strictly forward, hence two
    different prefixes of a source have different positions (`posOf_injective_on_prefixes`): a stored
    location determines the source slice it was read from.
-/
import GE.Model.Position

namespace GE.Pos

theorem utf16Len_pos (c : Char) : 0 < utf16Len c := by unfold utf16Len; split <;> omega

theorem utf16Length_cons (c : Char) (s : List Char) : utf16Length (c :: s) = utf16Len c + utf16Length s := by
  simp [utf16Length]

theorem advance_cons (p : Pos) (c : Char) (s : List Char) : advance p (c :: s) = advance (step p c) s := rfl

theorem advance_append (p : Pos) (a b : List Char) : advance p (a ++ b) = advance (advance p a) b := by
  simp [advance, List.foldl_append]

theorem lfCount_pos_iff (s : List Char) : 0 < lfCount s ↔ hasLf s = true := by
  induction s with
  | nil => simp [lfCount, hasLf]
  | cons c r ih =>
    by_cases hc : c = '\n'
    · simp [lfCount, hasLf, hc]; omega
    · simp [lfCount, hasLf, hc, ih]

theorem lfCount_zero (s : List Char) (h : hasLf s = false) : lfCount s = 0 := by
  have := lfCount_pos_iff s
  rw [h] at this
  simp at this
  exact this

/-- the position after any text: line feeds counted, column = UTF-16 length of the last line -/
theorem advance_spec (p : Pos) (s : List Char) :
    advance p s = (if hasLf s then ⟨p.line + lfCount s, utf16Length (lastLine s)⟩
                   else ⟨p.line, p.col + utf16Length s⟩) := by
  induction s generalizing p with
  | nil => simp [advance, utf16Length, hasLf]
  | cons c r ih =>
    rw [advance_cons, ih]
    cases hr : hasLf r with
    | true =>
      by_cases hc : c = '\n'
      · subst hc
        simp [step, lastLine, hr, hasLf, lfCount]
        omega
      · simp [step, hc, lastLine, hr, hasLf, lfCount]
    | false =>
      by_cases hc : c = '\n'
      · subst hc
        simp [step, lastLine, hr, hasLf, lfCount, lfCount_zero r hr]
      · simp [hasLf, hr, step, hc, utf16Length_cons]
        omega

/-- **`skip_bytes` agrees with `next`.** -/
theorem skipBytes_eq_advance (p : Pos) (s : List Char) : skipBytes p s = advance p s := by
  rw [advance_spec]
  unfold skipBytes
  cases h : hasLf s with
  | true =>
    have : 0 < lfCount s := (lfCount_pos_iff s).2 h
    simp [this]
  | false =>
    simp [lfCount_zero s h]

theorem step_lt (p : Pos) (c : Char) : p.lt (step p c) := by
  unfold step Pos.lt
  split
  · left; simp
  · right; have := utf16Len_pos c; simp; omega

theorem lt_trans {a b c : Pos} (h1 : a.lt b) (h2 : b.lt c) : a.lt c := by
  unfold Pos.lt at *
  omega

theorem lt_irrefl (a : Pos) : ¬ a.lt a := by unfold Pos.lt; omega

/-- consuming at least one character moves the position strictly forward -/
theorem advance_lt (p : Pos) (c : Char) (s : List Char) : p.lt (advance p (c :: s)) := by
  induction s generalizing p c with
  | nil => exact step_lt p c
  | cons d r ih =>
    rw [advance_cons]
    exact lt_trans (step_lt p c) (ih (step p c) d)

/-- two prefixes of one source with the same position are the same prefix -/
theorem posOf_injective_on_prefixes (src : List Char) (i j : Nat) (hi : i ≤ src.length) (hj : j ≤ src.length)
    (h : posOf (src.take i) = posOf (src.take j)) : i = j := by
  -- wlog i ≤ j; then take j = take i ++ (nonempty) unless i = j
  have key : ∀ a b, a ≤ b → b ≤ src.length → posOf (src.take a) = posOf (src.take b) → a = b := by
    intro a b hab hb he
    by_cases hEq : a = b
    · exact hEq
    · exfalso
      have hlt : a < b := by omega
      have hsplit : src.take b = src.take a ++ (src.drop a).take (b - a) := by
        rw [← List.take_add]; congr 1; omega
      have hne : (src.drop a).take (b - a) ≠ [] := by
        intro hnil
        have hl := congrArg List.length hnil
        simp at hl
        omega
      obtain ⟨c, r, hcr⟩ := List.exists_cons_of_ne_nil hne
      unfold posOf at he
      rw [hsplit, advance_append, hcr] at he
      have := advance_lt (advance ⟨0, 0⟩ (src.take a)) c r
      rw [← he] at this
      exact lt_irrefl _ this
  by_cases hij : i ≤ j
  · exact key i j hij hj h
  · exact (key j i (by omega) hi h.symm).symm

/-! non-vacuity: an astral character counts two columns, a line feed restarts the column -/
example : posOf "a😀\nbc".toList = ⟨1, 2⟩ := by decide
example : skipBytes ⟨3, 7⟩ "x😀y".toList = ⟨3, 11⟩ := by decide

end GE.Pos
