"""C01 — both compilers are total: no panic, abort, hang or runaway allocation (DESIGN.md §9 C01)."""
import json, math, os, resource, subprocess, time
from concurrent.futures import ThreadPoolExecutor
from . import core, tmplgen as tg, mutate, cssgen

THM_NUMBER = ["GE.Number.scanRadix_spec", "GE.Number.scanDec_spec", "GE.Number.window_no_overflow", "GE.Number.push_inv"]
THM_ATTR = ["GE.AttrLoop.iter_progress", "GE.AttrLoop.loop_terminates", "GE.AttrLoop.source_uses_template_ws",
            "GE.AttrLoop.skipInvalid_consumes"]

MEM_LIMIT = 3 << 30          # address-space limit of one worker: an allocation running away aborts the worker
CHUNK = 150


def _limits():
    resource.setrlimit(resource.RLIMIT_AS, (MEM_LIMIT, MEM_LIMIT))
    resource.setrlimit(resource.RLIMIT_CORE, (0, 0))


def worker(lines, timeout):
    """one isolated harness process; returns (answers, status) where status is None | 'timeout' | 'died rc=..'"""
    env = dict(core.ENV)
    env["GEH_FLUSH"] = "1"
    data = ("\n".join(lines) + "\n").encode("utf-8", "surrogatepass")
    t0 = time.time()
    try:
        p = subprocess.run([core.HARNESS_BIN, "run"], input=data, stdout=subprocess.PIPE, stderr=subprocess.PIPE, timeout=timeout,
                           env=env, preexec_fn=_limits)
        out, rc, status = p.stdout, p.returncode, None
        if rc != 0:
            status = "died rc=%d %s" % (rc, p.stderr.decode("utf-8", "replace")[-300:])
    except subprocess.TimeoutExpired as e:
        out, status = e.stdout or b"", "timeout after %.0fs" % timeout
    ans = [l for l in out.decode("utf-8", "replace").split("\n") if l != ""]
    return ans, status, time.time() - t0


def run_isolated(chk, name, reqs, per_input_budget=0.05, single_timeout=12):
    """Runs requests in isolated workers (parallel chunks).  Answers are flushed one by one, so when a worker dies or exceeds its
    time budget the first unanswered request is the culprit: it is re-run alone (to confirm and to report it exactly) and the
    rest of the chunk continues in a new worker.  Returns the answers (None where none)."""
    answers = [None] * len(reqs)
    chunks = [(i, reqs[i:i + CHUNK]) for i in range(0, len(reqs), CHUNK)]
    reported = [0]

    bad_seen = [0]

    def do(ch):
        start, lines = ch
        res = []
        pos = 0
        while pos < len(lines):
            if bad_seen[0] >= 8:
                break          # enough culprits named; every further hang costs a full time-out
            part = lines[pos:]
            ans, status, dt = worker(part, 10 + per_input_budget * len(part) + 0.00002 * sum(len(x) for x in part))
            ans = ans[:len(part)]
            res.extend(ans)
            pos += len(ans)
            if status is None and len(ans) == len(part):
                break
            if pos >= len(lines):
                break
            # the request at `pos` was being processed when the worker died / ran out of time
            culprit = lines[pos]
            a1, st1, dt1 = worker([culprit], single_timeout)
            if st1 is not None or not a1:
                bad_seen[0] += 1
                res.append(("BAD", st1 or status))
            else:
                res.append(a1[0])       # it was only the chunk's budget (slow machine): not a finding
            pos += 1
        return start, lines, res

    with ThreadPoolExecutor(max_workers=12) as ex:
        for start, lines, res in ex.map(do, chunks):
            for k, a in enumerate(res):
                if isinstance(a, tuple):
                    reported[0] += 1
                    if reported[0] <= 6:
                        st = a[1] or ""
                        chk.violation("input", f"{name}: the compiler {'hung' if 'timeout' in st else 'aborted'} on one input ({st[:120]})",
                                      stream=name, request=lines[k][:4000], status=st)
                else:
                    answers[start + k] = a
    if reported[0]:
        chk.bump(f"{name}:hang-or-abort", reported[0])
    for i, a in enumerate(answers):
        if a is not None and a.startswith("PANIC"):
            chk.violation("input", f"{name}: panic: {core.unesc(a[6:])[:200]}", stream=name, request=reqs[i][:4000], panic=a[:400])
    return answers


def kv(a):
    return {k: int(v) for k, v in (x.split("=") for x in a.split(" ")[1:])} if a and a.startswith("ok") else None


# ---------------------------------------------------------------------------------------------------------
def nest(open_, close_, depth, inner):
    return open_ * depth + inner + close_ * depth


def hostile_templates():
    """hand-written shapes at the allowed nesting bound (64) and around every recovery point"""
    d = 64
    out = [
        # entity-like runs with multi-byte letters / digits of other scripts at every position of the three scanners (named, decimal, hex), in text
        # and in attribute values (directed after the regression run of round 10: seeded change C01-5 was only hit by chance)
        "<v>&é; &aé; &éa; &ampé; &#xé; &#xaé; &#1é; &#١; &#x١; &中; &a😀; &#x1😀; &١٢;</v>",
        "<v title=\"&é; &aé; &#xé; &#1é; &中文; &a😀b;\" data-k='&é' mark:m=&aé;/>", "&é", "&aé", "&#xé", "&#9é",
        nest("<view>", "</view>", d, "x"), nest("<view>", "", d, "x"), "</view>" * d,
        nest("<block wx:if=\"{{a}}\">", "</block>", d, "{{b}}"), nest("<block wx:for=\"{{l}}\">", "</block>", d, "{{item}}"),
        "{{ " + nest("(", ")", d, "a") + " }}", "{{ " + nest("[", "]", d, "a") + " }}", "{{ " + nest("{a:", "}", d, "1") + " }}",
        "{{ " + "a ? " * d + "b" + " : c" * d + " }}", "{{ " + "!" * d + "a }}", "{{ " + "- " * d + "a }}", "{{ a" + ".b" * d + " }}",
        "{{ a" + "[0]" * d + " }}", "{{ f" + "()" * d + " }}", "{{ " + "+".join(["a"] * d) + " }}", "{{ " + " ?? ".join(["a"] * d) + " }}",
        "{{ " + "typeof " * d + "a }}", "{{ " + "(" * d, "{{ " + ")" * d + " }}", "{{" * d, "}}" * d, "<" * 200, ">" * 200, "<view " + "a" * 5000 + ">",
        "<view " + " ".join("a%d=\"{{x}}\"" % i for i in range(300)) + "/>", "<view a=\"1\"/>", "<view   　a/>", "<view a =\"1\"/>",
        "<view a= \"1\"/>", "<view a=\"1\" />", "<view a/>", "<view ﻿a/>", "<view a=1 b='2' c=\"3\" d/>", "<view a=\"{{\"/>", "<view a=\"{{ 'x\"/>",
        "<view a='{{ \"}}\" }}'/>", "<!--" * 50, "<!-- " + "-" * 1000, "<wxs module=\"m\">" + "{" * 100, "<wxs module=\"m\"></wxs" * 20, "<wxs>", "<wxs module=\"m\" src=\"x\">body</wxs>",
        "<template name=\"a\"><template name=\"b\"><template is=\"a\"/></template></template>", "<template is=\"{{x}}\" data=\"{{ ...a, ...b, c }}\"/>",
        "<include src=\"" + "../" * 100 + "a\"/>", "<import src=\"\"/>", "<slot name=\"{{a}}\" b=\"{{c}}\"/>", "<view wx:for=\"{{a}}\" wx:for-item=\"\" wx:for-index=\"\" wx:key=\"\"/>",
        "<view wx:if=\"{{a}}\" wx:elif=\"{{b}}\" wx:else/>", "<view wx:else/><view wx:elif=\"{{a}}\"/>", "<view wx:unknown=\"1\" unknown:x=\"2\" :=\"3\" =\"4\"/>",
        "{{ 0x" + "f" * 400 + " }}", "{{ 0" + "7" * 400 + " }}", "{{ " + "9" * 400 + " }}", "{{ 1e" + "9" * 50 + " }}", "{{ 0." + "0" * 400 + "1 }}", "{{ 0x }}", "{{ 08 }}", "{{ 1.2.3 }}",
        "{{ 'a" + "\\\\" * 100 + " }}", "{{ '\\u{" + "f" * 20 + "}' }}", "{{ '\\x' }}", "{{ \"" + "\\" * 101 + " }}", "&" * 300, "&#" + "9" * 50 + ";", "&#x" + "f" * 50 + ";", "&#xD800;&#0;&#x110000;",
        "\U0001F600" * 200, "\0" * 50, "a\rb\r\nc\n\rd",
        # multi-byte and astral characters in every name-like position, at every length (byte offsets computed from the end)
        *['<import src="%s"/><include src="%s"/><wxs module="m" src="%s"/><template is="%s"/><template name="%s"/>' % ((n,) * 5)
          for n in ["首", "首页", "ab页面", "日本", "é", "éé.wxm", "中.wxml", "😀", "a😀", "😀.wxs", "x" * 4 + "页", "页" + "x" * 4, "./首页", "../é/中", "\U0010FFFF"]],
        *['<%s %s="1" data-%s="2" mark:%s="3" bind:%s="h" slot:%s slot="%s" wx:key="%s" generic:%s="c"/>' % ((n,) * 9) for n in ["é", "中", "a中", "中a", "😀", "a-é-b"]],
        "<wxs module=\"é\">exports.a=1</wxs>{{é.a}}", "{{ 首页 }}{{ a.首页 }}{{ '首页'.length }}{{ {首: 1} }}", "<view wx:for=\"{{l}}\" wx:for-item=\"é\" wx:for-index=\"中\">{{é}}{{中}}</view>", "<view>\ud800</view>".encode("utf-8", "surrogatepass").decode("utf-8", "replace"),
    ]
    return out


def hostile_css():
    d = 64
    return [
        nest("@media x{", "}", d, ".a{b:c}"), nest("(", ")", d, "a"), nest("[", "]", d, "a"), nest("f(", ")", d, "1rpx"), "{" * d, "}" * d, "(" * d, ")" * d,
        ".a" * 2000 + "{}", ":host" * 300, ":host{" * d, "@import " * 200, "@import url(" + "a" * 3000, "@import '" + "%" * 1000 + "';", "/*" * 300, "*/" * 300,
        "a{b:" + "calc(" * d + "1rpx" + ")" * d + "}", "a{b:" + " + ".join(["1rpx"] * 500) + "}", "a{b:" + "9" * 400 + "rpx}", "a{b:1e999rpx;c:-1e999rpx;d:1e-999rpx}",
        "a{b:0.0000000000000000000000000000000000000000000001rpx}", "\\" * 300, "a{b:'" + "\\" * 301 + "}", "a{b:url(" + "\\" * 301 + ")}", "U+" + "?" * 50,
        "@charset \"" + "x" * 1000, "@" * 300, "#" * 300, "." * 300, ":" * 300, "\0" * 100, "\U0001F600" * 300, "a{--x:" + "{" * d + "}" * d + "}", "@layer " + ",".join("l%d" % i for i in range(500)) + ";",
        "@font-face{unicode-range:U+0-10FFFF, U+" + "F" * 30 + "}", ".a{margin:1e;width:2.5E 3px}3E{} 1e{} .b{c:1\\65 }", "@import '首页';@import url(日本);@import '😀' layer(é) supports(中:1) 页;",
        "@import 'a' Layer(b) screen; .a{x:1rpx}", "@import 'a' LAYER(b) Supports(c:d); .a{}", "@import url(a) SUPPORTS(display:grid) LAYER(x);", "@import 'a' lAyEr;",
        "@IMPORT 'a' layer(b);", "@Import url(a) Supports(x:y) print;",
        ".é{} .中\\😀{} #é{} é|a{} [é=中]{} :é(中){} @é 中{} .a{é:中; --é:😀}", ".a{width:1é;height:2😀;top:3\\65 😀}", "@keyframes k{" + "".join("%d%%{a:b}" % i for i in range(101)) + "}", "<!--" * 100 + "-->" * 100,
    ]


def families():
    """(name, f(n) -> text): inputs that grow linearly with n, for the scaling measurement"""
    unit = '<view class="c {{a}}" wx:if="{{b}}" bind:tap="t">x{{a+1}}<v wx:for="{{l}}" wx:key="k" data-a="{{item.k}}">{{index}}</v></view><v wx:else/>'
    return [
        ("siblings", lambda n: unit * n),
        ("text", lambda n: ("<view>" + "lorem ipsum &amp; {{a}} " * 40 + "</view>") * max(1, n // 40)),
        ("long-value:text", lambda n: "<view>" + "lorem ipsum &amp; {{a}} " * n + "</view>"),
        ("attributes", lambda n: "<view " + " ".join('a%d="{{x%d}}"' % (i, i) for i in range(n)) + "/>"),
        ("classes", lambda n: ('<view class="' + " ".join("c%d {{d%d}}" % (i, i % 7) for i in range(40)) + '"/>') * max(1, n // 40)),
        ("long-value:class", lambda n: '<view class="' + " ".join("c%d {{d%d}}" % (i, i % 7) for i in range(n)) + '"/>'),
        ("nested64-repeated", lambda n: (nest("<view a=\"{{x}}\">", "</view>", 60, "t")) * max(1, n // 60)),
        ("expr-list", lambda n: "{{ [" + ",".join("a%d" % (i % 50) for i in range(n)) + "] }}"),
        ("expr-object", lambda n: "{{ {" + ",".join("k%d: a.b[%d]" % (i, i) for i in range(n)) + "} }}"),
        ("bindings", lambda n: "".join("<v>" + "".join("{{a%d}}" % (i % 30) for i in range(40)) + "</v>" for _ in range(max(1, n // 40)))),
        ("long-value:bindings", lambda n: "".join("{{a%d}}" % (i % 30) for i in range(n))),
        ("garbage-lt", lambda n: "<" * n),
        ("garbage-attr", lambda n: "<view " + " =\"" * n + ">"),
        ("garbage-bindings", lambda n: "{{}} {{ }} {{ ) }} {{ a b }}" * (n // 4)),
        ("unterminated-comment", lambda n: "<!--" + "-" * n),
        ("entities", lambda n: "&amp;&#x41;&lt;&unknown;" * n),
        ("css-rules", lambda n: "".join(".a%d .b:not(.c%d){width:%drpx;margin:calc(1rpx + 2px)}" % (i, i, i) for i in range(n))),
        ("css-selector", lambda n: ",".join(".a%d>.b" % i for i in range(n)) + "{c:d}"),
        ("css-host-in-media", lambda n: "@media (min-width:1rpx){" + ":host{a:b} .x{c:d}" * n + "}"),
        ("css-imports", lambda n: "".join("@import 'a%d.wxss' layer(l) supports(display:grid) screen;" % i for i in range(n))),
        ("css-garbage", lambda n: "}" * n + "{" * min(n, 60)),
        ("css-comment", lambda n: "/*" + "*" * n),
    ]


def run(chk):
    quick = chk.tier != "thorough"
    chk.rule = ("every input goes through add_tmpl, all five JavaScript artefacts, stringify (+ re-parse of the printed text) and the stylesheet transformer "
                "(random options) in ISOLATED worker processes (address-space limit 3 GiB, time budget per input; a dead or late worker is re-run input "
                "by input to name the culprit): generated templates and stylesheets, their mutations, raw strings over a hostile alphabet, hand-written "
                "shapes at the nesting bound 64 and at every recovery point; scaling: 19 input families at sizes n, 2n, 4n — time and peak memory must "
                "grow at most quadratically; (model) the numeric-literal scanners vs the Lean model on digit strings of every length class")
    chk.trusted = ["Lean 4.33 kernel", "axioms ⊆ {propext, Classical.choice, Quot.sound}", "extractor (attribute-loop stop test)",
                   "GE/Model/Number.lean tied to parse_number by differential runs; GE/Model/AttrLoop.lean's stop test extracted from the source",
                   "OS process isolation, RLIMIT_AS and wall-clock timeouts as the observation of abort / runaway allocation / hang"]
    chk.assumptions = ["PARTIAL: proved = the oct/hex/dec scanners never overflow and return the exact value or the float branch (scanRadix_spec, "
                       "scanDec_spec), and every iteration of the attribute-recovery loop consumes input (iter_progress, loop_terminates). Termination "
                       "and panic-freedom of the rest of both compilers is not modelled: it is observed on the input population only; a theorem cannot "
                       "exhibit stack exhaustion, allocator aborts or wall-clock behaviour", "nesting depth of inputs <= 64 (property premise)"]
    chk.model_tie([("GE.Thm.C01Number", THM_NUMBER), ("GE.Thm.C01AttrLoop", THM_ATTR),
                   ("GE.Thm.C01Css", ["GE.Css.rules_progress", "GE.Css.qualRule_progress", "GE.Css.atRule_rest", "GE.Css.importRule_rest"]),
                   ("GE.Thm.C17Sheet", ["GE.Css.rules_fuel_sufficient", "GE.Css.rules_sheet"])])
    rng = chk.rng.fork("c01")
    # ---- numeric scanners: model vs implementation ---------------------------------------------------
    lits = []
    for kind, pre, alpha in (("oct", "0", "01234567"), ("hex", "0x", "0123456789abcdefABCDEF"), ("dec", "", "0123456789")):
        lens = list(range(1, 45)) + [63, 64, 65, 100, 127, 128, 129, 200, 400, 1100]
        for L in lens:
            for variant in range(3 if quick else 12):
                if variant == 0:
                    ds = alpha[-1 if kind != "hex" else 15] * L
                elif variant == 1:
                    ds = ("1" if kind != "oct" else "1") + "0" * (L - 1)
                else:
                    ds = "".join(rng.choice(alpha) for _ in range(L))
                if kind == "dec":
                    ds = ds.lstrip("0") or "1"
                    if ds[0] == "0":
                        continue
                if kind == "oct" and any(c in "89" for c in ds):
                    continue
                lits.append((kind, pre, ds))
        # boundaries of i64
        for v in (2 ** 63 - 1, 2 ** 63, 2 ** 63 + 1, 2 ** 64 - 1, 2 ** 64, 2 ** 128 - 1, 2 ** 128, 2 ** 53, 2 ** 53 + 1):
            ds = {"oct": oct(v)[2:], "hex": hex(v)[2:], "dec": str(v)}[kind]
            lits.append((kind, pre, ds))
    reqs = [core.req("expr", pre + ds, "", "0") for kind, pre, ds in lits]
    real = core.run_harness(reqs)
    mreqs = [core.req("number", kind, ds) for kind, pre, ds in lits]
    model = core.run_driver(mreqs)
    nd = 0
    for (kind, pre, ds), a, m in zip(lits, real, model):
        chk.disagreements_checked += 1
        ast = core.unesc(a.split("\t")[0])
        if m is None:
            continue
        want = None
        if m.startswith("int "):
            want = "(int %s)" % m[4:]
        elif m.startswith("float "):
            h, d, st = m.split(" ")[1:]
            try:
                want = math.ldexp(float(int(h) | int(st)), min(int(d), 4096))
            except OverflowError:
                want = float("inf")
        elif m == "floattext":
            try:
                want = float(ds)
            except OverflowError:
                want = float("inf")
        ok = (ast == want) if isinstance(want, str) else (ast.startswith("(float ") and _f(ast) == want)
        if not ok:
            nd += 1
            if nd <= 5:
                chk.violation("correspondence", f"numeric literal {pre + ds[:40]}…: implementation {ast[:60]}, model {m[:60]}", stream="number",
                              literal=pre + ds, real=ast, model=m)
    chk.bump("corr:number:cases", len(lits))
    chk.bump("corr:number:diffs", nd)
    # ---- totality streams -------------------------------------------------------------------------------
    n = 6000 if quick else 120000
    texts = []
    for i in range(n):
        r = rng.fork(("in", i))
        kind = i % 6
        if kind in (0, 1):
            g = tg.TmplGen(r, max_depth=3)
            s = tg.Printer(r.fork("p"), vary=True).template(g.template())
            if kind == 1:
                s = mutate.mutate(r.fork("m"), s)
        elif kind == 2:
            s = mutate.raw(r, 60)
        elif kind in (3, 4):
            s = cssgen.gen_stylesheet(r.fork("sheet"), 1 + r.below(5))
            if kind == 4:
                s = cssgen.mutate(r.fork("m"), s)
        else:
            hs = hostile_templates() + hostile_css()
            s = mutate.mutate(r.fork("m"), hs[r.below(len(hs))], 1 + r.below(2))
        texts.append(s)
    texts += hostile_templates() + hostile_css()
    paths = ["p", "é/中", "a/../b", "", "/abs", "a b", "</script>"]
    reqs = []
    for i, s in enumerate(texts):
        r = rng.fork(("o", i))
        s = s.encode("utf-8", "replace").decode("utf-8")
        reqs.append(core.req("total", paths[i % len(paths)], s, json.dumps(cssgen.gen_options(r)), "1" if i % 5 == 0 else "0"))
    answers = run_isolated(chk, "total", reqs)
    done = 0
    worst = {"us": 0, "rss": 0}
    for s, a in zip(texts, answers):
        o = kv(a)
        chk.case(s, nontrivial=len(s) > 10)
        if o is None:
            continue
        done += 1
        us = o["us_parse"] + o["us_gen"] + o["us_str"] + o["us_css"]
        worst["us"] = max(worst["us"], us)
        worst["rss"] = max(worst["rss"], o["rss_kib"])
        # absolute bound for small inputs: a second or 512 MiB for < 20 kB of text is far outside any small polynomial
        if len(s) < 20000 and (us > 3_000_000 or o["gen_bytes"] + o["str_bytes"] + o["css_bytes"] > 200_000_000):
            chk.violation("input", f"{us / 1e6:.1f}s / {o['gen_bytes'] + o['str_bytes'] + o['css_bytes']} output bytes for {len(s)} input bytes", request=s[:3000])
    chk.programs = len(reqs)
    chk.bump("total:answered", done)
    chk.bump("total:worst-us", worst["us"])
    chk.bump("total:worst-rss-kib", worst["rss"])
    # ---- scaling ------------------------------------------------------------------------------------------
    base = 3000 if quick else 20000
    opts = json.dumps({"class_prefix": "p", "class_prefix_sign": "S", "rpx_ratio": 750, "import_sign": "I", "convert_host": True, "host_is": "h"})
    fam = families()
    sreqs, smeta = [], []
    for name, f in fam:
        for mult in (1, 2, 4):
            sreqs.append(core.req("total", "p", f(base * mult), opts, "0"))
            smeta.append((name, mult))

    def one(rq):
        ans, st, dt = worker([rq], 300)
        return ans[0] if ans else None, st, dt

    with ThreadPoolExecutor(max_workers=6) as ex:
        sres = list(ex.map(one, sreqs))
    table = {}
    for (name, mult), (a, st, dt), rq in zip(smeta, sres, sreqs):
        o = kv(a)
        if o is None:
            cls = "scaling-failure"
            if name.startswith("long-value:") and st and "rc=-" in st:
                cls = "abort-on-long-binding-chain"     # one text / attribute value with thousands of bindings (see known findings)
            chk.violation("input", f"scaling family {name} x{mult}: the compiler {'hung' if st and 'timeout' in st else 'failed'} ({(st or (a or ''))[:200]})",
                          classification=cls, family=name, size=base * mult, request=rq[:300])
            continue
        table.setdefault(name, {})[mult] = (o["us_parse"] + o["us_gen"] + o["us_str"] + o["us_css"], o["rss_kib"], len(rq))
    for name, row in table.items():
        if 1 in row and 4 in row:
            t1, r1, l1 = row[1]
            t4, r4, l4 = row[4]
            chk.case(("scaling", name), nontrivial=True)
            # quadratic growth gives x16 in time; anything beyond x40 (and above the noise floor) is a runaway
            if t4 > 200_000 and t4 > 40 * max(t1, 5_000):
                chk.violation("input", f"scaling family {name}: time grows x{t4 / max(t1, 1):.0f} when the input grows x4 ({t1}us -> {t4}us)", family=name, times=row)
            if r4 > 400_000 and r4 > 24 * max(r1, 20_000):
                chk.violation("input", f"scaling family {name}: peak memory grows x{r4 / max(r1, 1):.0f} when the input grows x4", family=name, rss=row)
            chk.bump("scaling:%s:time-x4" % name, int(100 * t4 / max(t1, 1)))
    chk.bump("scaling:families", len(table))


def _f(ast):
    try:
        return float(ast[len('(float "'):-2])
    except ValueError:
        return None


def replay(chk, path):
    o = json.load(open(path))["first"]
    if "request" in o:
        ans, st, dt = worker([o["request"]], 120)
        print(ans, st, dt)
        if st is not None or not ans or ans[0].startswith("PANIC"):
            chk.violation("input", f"replayed: {st or ans}", request=o["request"][:2000])
    return chk.finish()
