"""C17 — :host conversion partitions rules without loss (DESIGN.md §9 C17)."""
from . import csscheck

THEOREMS = [
    "GE.Css.host_rule_moves",
    "GE.Css.writeLow_spec",
    "GE.Css.host_combination_dropped",
    "GE.Css.host_off_generic",
    "GE.Css.not_host_generic",
    "GE.Css.generic_keeps_low",
    "GE.Css.wrote_hostBody",
]
THM_SHEET = ["GE.Css.sheet_partition", "GE.Css.rules_sheet", "GE.Css.host_off_low_empty", "GE.Css.qualRule_sheet", "GE.Css.atLoop_sheet",
             "GE.Css.rules_fuel_sufficient"]


def focus(r, o):
    if r.chance(3, 4):
        o["convert_host"] = True


def extra_cases(rng, quick):
    """`:host` rules before, inside and AFTER nested at-rules of the same enclosing at-rule (the wrapper of a `:host` that follows a closed inner
    at-rule is the enclosing chain again), at several depths, with ordinary rules in between"""
    from . import cssgen
    out = []
    H = lambda c: ":host{color:%s}" % c
    inner = ["@supports (display:grid){.b{x:1} %s}" % H("green"), "@media print{%s .i{y:2}}" % H("gray"), "@layer l{@supports (a:b){%s}}" % H("teal"), "@media (min-width:2px){.n{z:3}}"]
    for wrap in ("@media (min-width:100px){%s}", "@supports (display:flex){%s}", "@layer base{@media screen{%s}}", "%s"):
        for a in inner:
            for b in inner[:2] + [""]:
                body = " ".join([H("red"), a, ".c{w:1}", H("blue"), b, H("black")])
                css = (wrap % body) + " " + H("white") + " .z{q:1}"
                for o in ({"convert_host": True, "class_prefix": "p"}, {"convert_host": True, "class_prefix": "p", "host_is": "comp/x"}, {"convert_host": False}):
                    base = cssgen.gen_options(rng.fork(("o", len(out))))
                    base.update(o)
                    out.append((base, css))
    # `:host` spelt so that the bytes ":host" never stand together (escapes in the identifier, a comment between `:` and the name): it is the same rule for
    # any reader of the tokens (round 12, C17-11: a source-text test switched the conversion off); host_is / class_prefix with characters that Rust's `{:?}`
    # and a CSS string escape differently (round 12, C17-12)
    for css in (":h\\6f st{color:red} .a{b:c}", ":hos\\74{color:red}", ":/* c */host{color:red} .a{b:c}", "@media print{:\\68 ost{x:y} .q{r:s}}",
                ":h\\6fst{a:b} @supports (c:d){:\\000068ost {e:f}}"):
        for o in ({"convert_host": True, "class_prefix": "p"}, {"convert_host": True, "class_prefix": None, "host_is": "comp"}):
            base = cssgen.gen_options(rng.fork(("oh", len(out))))
            base.update(o)
            out.append((base, css))
    for hi in ("components/my\tcard", "a\nb", "cafe\u0301", "zero\u200bwidth", "q\u007f", "\u00a0x", "tab\tquote\"back\\slash"):
        for css in (":host{color:red}", "@media print{:host{a:b}} .c{d:e}"):
            base = cssgen.gen_options(rng.fork(("oi", len(out))))
            base.update({"convert_host": True, "class_prefix": "p", "host_is": hi, "import_sign": None})
            out.append((base, css))
            base2 = dict(base); base2.update({"host_is": None, "class_prefix": hi})
            out.append((base2, css))
    return out


def run(chk):
    chk.rule = ("generated stylesheets with :host rules at arbitrary at-rule nesting depth interleaved with ordinary rules x {convert_host, "
                "class_prefix, host_is}; (1) model vs implementation on both outputs and the warnings; (2) oracle: every rule appears exactly once "
                "over the two outputs, host rules in the low output under the same at-rule chain with the attribute selector, combinations dropped "
                "with one warning each, order of the other rules kept; non-trivial = stylesheet containing :host")
    chk.trusted = csscheck.TRUSTED
    chk.assumptions = ["host_rule_moves / host_combination_dropped / host_off_generic are theorems about one rule (`qualRule`): a pure `:host{}` "
                       "writes nothing to the normal output and exactly [chain…{ selector { block } }…] to the low output with balanced braces, a "
                       "combination changes neither output and adds one warning, anything else is the generic rule and leaves the low output "
                       "untouched. sheet_partition (GE/Thm/C17Sheet.lean) lifts this to the WHOLE stylesheet model `transform` (no import sign): the token kinds of "
                       "the normal and of the low-priority output are exactly those of the fuel-free reading `go` of the token tree — every rule once, non-host "
                       "rules in the normal output in source order, each `:host{}` in the low output inside the chain of the WRITTEN preludes of its enclosing "
                       "rule-bearing at-rules, `:host` combinations in neither; at-rule dispatch (rule list vs declaration block vs `;`) included; with conversion "
                       "off the low output is empty (host_off_low_empty); the model's fuel is never exhausted. outputs_balanced (GE/Thm/C17Bal.lean): both outputs are balanced in { / } for every "
                       "token tree — every :host rule re-opens the chain of its enclosing at-rules and closes exactly as many blocks, at any nesting. PARTIAL: with an import sign the theorem is not "
                       "stated (import wrappers: import_balanced in C18); payloads (strings, numbers) of the tokens are covered by C09 / C10's theorems per rule"]
    csscheck.run_property(chk, "C17", "GE.Thm.C17", THEOREMS, 700, 12000, focus=focus, extra_cases=extra_cases,
                          nontrivial=lambda o, css, res: ":host" in css)
    failed, log = chk.prove("GE.Thm.C17Bal", ["GE.Css.outputs_balanced", "GE.Css.go_balanced", "GE.Css.BalL.hostLow"])
    for t in failed:
        chk.violation("proof", f"obligation {t} no longer checks", theorem=t, log=log[-3000:])
    failed, log = chk.prove("GE.Thm.C17Sheet", THM_SHEET)
    for t in failed:
        chk.violation("proof", f"obligation {t} no longer checks", theorem=t, log=log[-3000:])


def replay(chk, path):
    return csscheck.replay(chk, "C17", path)
