"""C14 — stringify is a faithful, stable inverse of parse (DESIGN.md §9 C14)."""
import html.entities, json, re
from . import core, tmplgen as tg, mutate, render, update as up, exprgen as eg

THM_EXPR = [
    "GE.Str.str_derives",
    "GE.Str.body_ok",
    "GE.Str.unArm_ok",
    "GE.Str.binArm_ok",
    "GE.Str.condArm_ok",
    "GE.Str.member_kinds",
    "GE.Str.member_arms_ok",
    "GE.Str.paren_rule_ok",
    "GE.Str.parse_chain_matches_wLevel",
]
THEOREMS = [
    "GE.Esc.decode_escBody",
    "GE.Esc.decode_escQuote",
    "GE.Esc.escBody_safe",
    "GE.Esc.escQuote_safe",
]
THM_PARSE = [
    "GE.Parse.parse_print",
    "GE.Parse.parse_print_id",
    "GE.Parse.body_c",
    "GE.Parse.args_c",
    "GE.Parse.obj_c",
    "GE.Parse.arr_c",
    "GE.Parse.strC_of_body",
    "GE.Parse.climb",
    "GE.Parse.lift",
    "GE.Parse.norm_canon",
    "GE.Parse.un_table",
    "GE.Parse.bin_table",
    "GE.Parse.bin_notrig",
    "GE.Parse.cond_table",
    "GE.Parse.headOk",
]
THM_MIX = [
    "GE.Mix.mixture_roundtrip",
    "GE.Mix.static_roundtrip",
    "GE.Mix.scanText_printText",
    "GE.Mix.printed_not_bb",
]
THM_TAG = [
    "GE.TagTree.parse_print",
    "GE.TagTree.print_fixpoint",
    "GE.TagTree.parse_print_parse",
    "GE.TagTree.nb_parse",
    "GE.TagTree.print_strip",
]
WARN = 2
TABLE = {k[:-1]: v for k, v in html.entities.html5.items() if k.endswith(";")}


def drop_empty_text(tree):
    """the same projected tree without empty text nodes"""
    if isinstance(tree, list):
        return [drop_empty_text(x) for x in tree if not (isinstance(x, dict) and isinstance(x.get("text"), str) and x["text"] == "" and len(x) == 1)]
    if isinstance(tree, dict):
        o = {k: drop_empty_text(v) for k, v in tree.items()}
        if o.get("children") == []:
            del o["children"]
        return o
    return tree


def merge_texts(tree):
    """the same projected tree with adjacent text nodes merged (a dropped comment between two texts joins them)"""
    if isinstance(tree, list):
        out = []
        for x in tree:
            x = merge_texts(x)
            if isinstance(x, dict) and set(x) == {"text"} and out and isinstance(out[-1], dict) and set(out[-1]) == {"text"} \
                    and isinstance(x["text"], str) and isinstance(out[-1]["text"], str):
                out[-1] = {"text": out[-1]["text"] + x["text"]}
            else:
                out.append(x)
        return out
    if isinstance(tree, dict):
        return {k: merge_texts(v) for k, v in tree.items()}
    return tree


def static_events(tree):
    """the same projected tree with the isDynamic flag of every event binding cleared"""
    if isinstance(tree, list):
        return [static_events(x) for x in tree]
    if isinstance(tree, dict):
        o = {k: static_events(v) for k, v in tree.items()}
        if "events" in tree:
            o["events"] = [e[:5] + [False] + e[6:] if isinstance(e, list) and len(e) >= 6 else e for e in tree["events"]]
        return o
    return tree


FN = {"$": "fn", "name": "id"}
SHAPE_ENVS = [
    {"a": "s", "b": 2, "c": 3, "x": 1, "y": 2, "z": 4, "f": FN, "k": "k", "s": "t"},
    {"a": 0.1, "b": 0.2, "c": 0.3, "x": 0.7, "y": 0.1, "z": 0.2, "f": FN, "k": 3, "s": 1.5},
    # falsy but not nullish on the left, truthy on the right: `??` against `||` / `&&` in either grouping
    {"a": 0, "b": "", "c": "C", "x": False, "y": 0, "z": 5, "f": FN, "k": "", "s": 0},
    {"a": 1e16, "b": -1e16, "c": 1, "x": 3, "y": 1e16, "z": -1e16, "f": FN, "k": 7, "s": 2},
    {"a": None, "b": {"$": "undefined"}, "c": "", "x": 0, "y": "0", "z": False, "f": FN, "k": None, "s": ""},
]


def kinds_above_note(ws):
    return sorted({w[1] for w in ws if w[2] >= WARN})


MIX_ATOMS = ["a", "b", " ", "{", "}", "&", "<", ">", "\"", "'", ";", "#", "&amp;", "&lt;", "&quot;", "&#123;", "&#x7b;", "&#125;", "&lt", "&;", "&#;", "&bogus;", "é", "\U0001F600",
             "\n", "{ {", "} }", "&#123;&#123;", "&frac12;", "1", "x"]
MIX_BINDINGS = ["a", "a.b", "a[0]", "f(a,b)", "a+1", "{a:1}.a", "\"}}\"+a", "a?\"{\":\"}\"", "[a,b][0]", "!a", "a.b.c", "\"{{\"+a", "x+\"s\"", "\"s\"+x", "{a:{b:1}}.a",
                "a+\"\\\"}}\"", "{a}", "{...a,b}"]


def mix_sources(rng, n, canon):
    """values made of text pieces and bindings; three in four are well-formed (bindings from `canon`, no accidental {{)"""
    import re
    srcs, wellformed = [], []
    for i in range(n):
        parts = []
        wf = i % 4 != 3
        for _ in range(1 + rng.below(5)):
            if rng.chance(1, 2):
                txt = "".join(rng.choice(MIX_ATOMS) for _ in range(1 + rng.below(4)))
                parts.append(("T", txt))
            else:
                b = rng.choice(canon) if canon else "a"
                sp = rng.choice(["", " ", "\n "])
                parts.append(("B", "{{" + sp + b + rng.choice(["", " "]) + "}}"))
        # adjacent text parts are one text piece
        merged = []
        for kind, t in parts:
            if kind == "T" and merged and merged[-1][0] == "T":
                merged[-1] = ("T", merged[-1][1] + t)
            else:
                merged.append((kind, t))
        parts = merged
        if wf:
            parts = [(k_, (t.replace("{{", "{&#123;") if k_ == "T" else t)) for k_, t in parts]
            parts = [(k_, (re.sub(r"\{\{", "{&#123;", t) if k_ == "T" else t)) for k_, t in parts]
        else:
            parts.insert(rng.below(len(parts) + 1), ("X", rng.choice(["{{", "}}", "{{}}", "{{ }}", "{{a b}}", "{{a", "{{{a}}", "{{a}}}", "{{)}}", "{ {{a}}", "{{{{a}}}}", "{{\"}}", "{{a}}{{"])))
        # a text piece ending in { directly before a binding would join its braces
        out = []
        for k, (kind, t) in enumerate(parts):
            if wf and kind == "T" and t.endswith("{") and k + 1 < len(parts) and parts[k + 1][0] == "B":
                t = t[:-1] + rng.choice(["&#123;", "&#x7B;", "{ "])
            out.append(t)
        srcs.append("".join(out))
        wellformed.append(wf)
    return srcs, wellformed


def mix_canon():
    """canonical bindings: those the real expression printer prints as they are written"""
    return [b for b, a in zip(MIX_BINDINGS, core.run_harness([core.req("expr_str", b) for b in MIX_BINDINGS])) if core.unesc(a) == b]


def mix_stream(chk, rng, quick):
    """(1) the model of the value parser vs the real one on values whose bindings are well-formed and printed canonically;
    (2) the model of the value printer, fed with the REAL parser's pieces, vs the real printer — on every value, also malformed ones"""
    import re
    canon = mix_canon()
    chk.bump("corr:mixture:canonical-bindings", len(canon))
    if len(canon) < 8:
        chk.violation("correspondence", "the expression printer no longer prints the canonical bindings of the mixture stream as written", canonical=canon)
    srcs, wellformed = mix_sources(rng, 4000 if quick else 80000, canon)
    # U+0001 separates the pieces in the line protocol: a source that denotes this character (`&#1;`) cannot be carried (false alarm of thorough seed 41)
    keep = [i for i, s_ in enumerate(srcs) if not re.search(r"&#0*1;|&#[xX]0*1;|\x01", s_)]
    srcs, wellformed = [srcs[i] for i in keep], [wellformed[i] for i in keep]
    # values that are one string literal binding (printed like text, except a blank one, which stays a binding)
    for lit in ("{{ ' ' }}", "{{ '' }}", "{{ 'a' }}", '{{ "\\n" }}', "{{ '\\t \\n' }}", "{{ ' a ' }}", " ", "{{ '{' }}", "{{ '&' }}"):
        srcs.append(lit)
        wellformed.append(False)
    real = core.run_harness([core.req("mix_value", s_) for s_ in srcs])
    if real and real[0] == "bad-op":
        chk.notes.append("harness has no mix_value op: mixture correspondence skipped")
        return
    sreqs, sidx, preqs = [], [], []
    for i, (s_, a) in enumerate(zip(srcs, real)):
        f = a.split("\t")
        preqs.append(core.req("mix_print", core.unesc(f[0])))
        if wellformed[i]:
            names = set(re.findall(r"&([A-Za-z][A-Za-z0-9]*);", s_))
            sreqs.append(core.req("mix_scan", s_, *["%s=%s" % (n_, TABLE[n_]) for n_ in sorted(names) if n_ in TABLE]))
            sidx.append(i)
    pm = core.run_driver(preqs)
    sm = core.run_driver(sreqs)
    if not core.MODEL_OK:
        return
    nd = 0
    for i, (a, m) in enumerate(zip(real, pm)):
        f = a.split("\t")
        chk.case(("mix-print", srcs[i]), nontrivial="\\u{1}" in f[0] or "{" in f[0])
        if len(f) < 2 or f[1] != m:
            nd += 1
            if nd <= 4:
                chk.violation("correspondence", f"value printer: model prints {core.unesc(m)[:120]!r}, implementation {core.unesc(f[1] if len(f) > 1 else '')[:120]!r}",
                              stream="mix_print", source=srcs[i], pieces=core.unesc(f[0]), real=a, model=m)
    chk.bump("corr:mix_print:cases", len(pm))
    chk.bump("corr:mix_print:diffs", nd)
    nd = 0
    for i, m in zip(sidx, sm):
        rp = core.unesc(real[i].split("\t")[0])
        mp = "\x01".join(("B" + x[1:].strip(" \n\t\r") if x.startswith("B") else x) for x in core.unesc(m).split("\x01")) if m else ""
        chk.case(("mix-scan", srcs[i]), nontrivial=True)
        if rp != mp:
            nd += 1
            if nd <= 4:
                chk.violation("correspondence", f"value parser: model reads {mp[:120]!r}, implementation {rp[:120]!r}", stream="mix_scan", source=srcs[i], real=rp, model=mp)
    chk.bump("corr:mix_scan:cases", len(sm))
    chk.bump("corr:mix_scan:diffs", nd)


def run(chk):
    quick = chk.tier != "thorough"
    chk.rule = ("generated templates in varied concrete syntax, and mutated / ill-formed ones: s1 = print(parse(t)), s2 = print(parse(s1)); (a) s2 == s1; "
                "(b) parse(s1) has no diagnostic kind at Warn or above that parse(t) did not have; (c) the generated code of parse(s1) renders AND updates "
                "exactly like that of parse(t) under the real runtime for sampled data; the same with scope-name mangling; (model) escape_html_body / "
                "escape_html_quote and the entity scanner vs the Lean model on random strings over the delicate alphabet")
    chk.trusted = ["Lean 4.33 kernel", "axioms ⊆ {propext, Classical.choice, Quot.sound}",
                   "GE/Model/Escape.lean tied to escape.rs and parse_next_entity by differential runs through cfg hooks; named references from html.entities.html5",
                   "real ProcGenWrapper under node 22 with a stub backend as the meaning of 'behaves identically'"]
    chk.assumptions = ["PARTIAL: proved = (1) str_derives: the tokens printed for any binding expression derive exactly that expression in the WXML expression grammar whose "
                       "precedence levels are the parser's (parse_left_to_right! chain, re-extracted; parse_chain_matches_wLevel), so parenthesisation by ExpressionLevel is "
                       "sufficient for every nesting; (2) every string survives escape + entity decoding unchanged and the escaped text cannot end its context "
                       "(decode_escBody, decode_escQuote, *_safe); (4) parse_print: the token-level model of the expression parser (precedence levels, member / call chains, literals, "
                       "lists; tied to parse/expr.rs on ~10k sources per run) run on the tokens the printer model writes returns the printed tree and consumes every token, "
                       "for every printable expression. NOT proved: lexing (spelled tokens -> tokens: tested, corr:lex_rt), "
                       "the tag / attribute printer and scope-name mangling (oracle only); (3) mixture_roundtrip: the value parser reads the printed form of ANY sequence "
                       "of text pieces and bindings back as the same pieces (text containing {{, text ending in { before a binding, <, \", &, look-alike references), "
                       "assuming only that the binding parser reads back each printed binding (POk: the part covered by (1) and the parser oracle)"]
    chk.model_tie([("GE.Thm.C14", THEOREMS), ("GE.Thm.C14Expr", THM_EXPR), ("GE.Thm.C14Mix", THM_MIX), ("GE.Thm.C14Parse", THM_PARSE),
                   ("GE.Thm.C14Tag", THM_TAG)])
    rng = chk.rng.fork("c14")
    # ---- (model) the structure of tags: wx:if groups, wx:for, <block>, comments, control attributes in any combination -------------------
    from . import tagtree
    tagtree.stream(chk, rng.fork("tagtree"), 1500 if quick else 40000)
    # ---- (model) escaping and entity decoding ---------------------------------------------------------
    alpha = ["<", ">", "&", "\"", "'", ";", "#", "x", "a", "l", "t", "m", "p", "q", "u", "o", "1", "2", "{", "}", " ", "é", "\U0001F600", "&amp;", "&lt;", "&quot;", "&#60;",
             "&#x26;", "&frac12;", "&NotEqualTilde;", "&bogus;", "&#xD800;", "&#1114112;", "&#99999999999;", "&#x;", "&#;", "&;", "&am", "&AMP;", "&amp", "\n", "\0"]
    strs = ["".join(rng.choice(alpha) for _ in range(rng.below(9))) for _ in range(3000 if quick else 60000)]
    reqs = [core.req("esc_body", s) for s in strs] + [core.req("esc_quote", s) for s in strs]
    core.diff_streams(chk, "escape", reqs, core.run_harness(reqs), core.run_driver(reqs))
    # the entity scanner on the same strings (the model gets the named references that occur, from the WHATWG table)
    import re
    dreqs, hreqs = [], []
    for s in strs:
        if "{{" in s:
            continue       # the start of a binding: not plain text
        names = set(re.findall(r"&([A-Za-z][A-Za-z0-9]*);", s))
        dreqs.append(core.req("decode_text", s, *["%s=%s" % (n, TABLE[n]) for n in sorted(names) if n in TABLE]))
        hreqs.append(core.req("static_value", s))
    real = core.run_harness(hreqs)
    if real and real[0] != "bad-op":
        core.diff_streams(chk, "entity-decode", dreqs, real, core.run_driver(dreqs))
    else:
        chk.notes.append("harness has no static_value op: entity scanner correspondence skipped")
    # ---- (model) text mixtures: the value parser and the value printer ------------------------------------------------------------
    mix_stream(chk, rng.fork("mix"), quick)
    # ---- (model) the expression printer ----------------------------------------------------------------------
    trees = eg.enum_depth2()
    er = rng.fork("expr-str")
    for i in range(1500 if quick else 30000):
        trees.append(eg.rand_tree(er, 2 + i % 3, 0))
    esrcs = []
    for t_ in trees:
        try:
            esrcs.append(eg.src(t_, er.choice(["min", "full", "rand"]), er))
        except Exception:
            pass
    parsed = core.run_harness([core.req("expr", e, "", "0") for e in esrcs])
    preqs, mreqs = [], []
    for e, a in zip(esrcs, parsed):
        f = a.split("\t")
        if a.startswith("PANIC") or f[0] == "none" or "\n" in e:
            continue
        preqs.append(core.req("expr_str", e))
        mreqs.append(core.req("expr_str", core.unesc(f[0])))
    real_p = core.run_harness(preqs)
    model_p = core.run_driver(mreqs)
    nd = 0
    for rq, a, m in zip(preqs, real_p, model_p):
        chk.disagreements_checked += 1
        if a.startswith("not-a-single-binding"):
            continue       # a literal-only binding is printed as text by the value printer, not by the expression printer
        if m is not None and a != m:
            nd += 1
            if nd <= 5:
                chk.violation("correspondence", f"expression printer: model prints {core.unesc(m)[:120]!r}, implementation {core.unesc(a)[:120]!r}", stream="expr_str",
                              request=rq, real=a, model=m)
    chk.bump("corr:expr_str:cases", len(preqs))
    chk.bump("corr:expr_str:diffs", nd)
    # between the token level of parse_print and the text: lexing the spelled printer tokens gives the printer's tokens back (a test, not a theorem),
    # and the model parser on the REAL printed text returns the tree that was printed
    lreqs = [core.req("lex_rt", core.unesc(rq.split("\t")[1])) for rq in mreqs]
    lout = core.run_driver(lreqs)
    nl = 0
    for rq, a in zip(lreqs, lout):
        if a is not None and a != "ok":
            nl += 1
            if nl <= 3:
                chk.violation("correspondence", f"lexing the spelled printer tokens does not give the tokens back ({a})", stream="lex_rt", request=rq)
    chk.bump("corr:lex_rt:cases", len(lreqs))
    chk.bump("corr:lex_rt:diffs", nl)
    from .c03 import num_norm
    wreqs, wexp = [], []
    for rq, a in zip(mreqs, real_p):
        if a.startswith("not-a-single-binding"):
            continue
        wreqs.append(core.req("wparse", core.unesc(a)))
        wexp.append(num_norm(core.unesc(rq.split("\t")[1])))
    wout = core.run_driver(wreqs)
    nw = 0
    for rq, want, got in zip(wreqs, wexp, wout):
        if got is None:
            continue
        g = got if got in ("none", "lex-error") else num_norm(core.unesc(got))
        if g != want:
            nw += 1
            if nw <= 3:
                chk.violation("correspondence", f"model parser on the printed text reads {g[:120]!r}, the printed tree is {want[:120]!r}", stream="wparse-printed", request=rq)
    chk.bump("corr:wparse-printed:cases", len(wreqs))
    chk.bump("corr:wparse-printed:diffs", nw)
    # ---- oracle -------------------------------------------------------------------------------------------
    n = 300 if quick else 6000
    srcs = []
    for i in range(n):
        r = rng.fork(("t", i))
        g = tg.TmplGen(r, max_depth=3)
        s = tg.Printer(r.fork("p"), vary=True).template(g.template())
        if i % 4 == 3:
            s = mutate.mutate(r.fork("m"), s)
        srcs.append(s)
    # every operator pair x operand position (depth 2) as the only binding of an attribute and inside a text mixture, and hand-written
    # delicate shapes: these exercise the expression printer's parenthesisation and the text-mixture splitting
    nshape = 0
    for t in eg.enum_depth2():
        try:
            e = eg.src(tg.requote(t, "'"), "min")
        except Exception:
            continue
        if '"' in e:
            continue
        srcs.append('<v title="{{ %s }}" data-k="p{{ %s }}q">{{ %s }}</v>' % (e, e, e))
        nshape += 1
    for e in ["'s' + x", "x + 's'", "'s' + x + 't'", "'a' + 'b'", "(5).p", "(1.5).p", "5 .p", "- -a", "-(-a)", "+ +a", "a - -b", "a - (-b)", "a + +b", "typeof typeof a",
              "!(!a)", "a ? b : c ? x : y", "(a ? b : c) ? x : y", "a ? (b ? c : x) : y", "(a, b)", "{a, b: 1}.a", "[a, , b][2]", "a ?? (b || c)", "(a ?? b) || c",
              "a || (b ?? c)", "(a && b) ?? c", "a instanceof b", "(a < b) < c", "a < (b < c)", "a - (b - c)", "a / (b * c)", "(a + b) * c", "a ** b" , "void 0", "void (a + b)",
              "1e999", "0x1F", "017", "1e21", "1e-7", ".5", "5.", "'\\'", "'\n'", "'{{'", "'}}'", "'<&>\''", "a.b.c", "a[b][c]", "a[b.c]", "f(a)(b)", "f(a, b)[c].x",
              "{...a, b}", "[...a, b]", "a ? 'x' : 'y'", "undefined", "null", "true", "NaN ?? 1"]:
        srcs.append('<v title="{{ %s }}" data-k="p{{ %s }}q">{{ %s }}</v>' % (e, e, e))
        srcs.append("<v wx:if=\"{{ %s }}\">t</v><v wx:else>e</v><block wx:for=\"{{ %s }}\">{{index}}</block>" % (e, e))
        nshape += 2
    for t_ in ['<v>&#123;{{a}}</v>', '<v title="x&#123;{{a}}&#125;"/>', '<v>{{a}}&#125;}</v>', '<v>a{ {{b}} }{</v>', '<v>&lt;{{a}}&gt;&amp;{{b}}&quot;</v>',
               '<v title="Search &quot;{{k}}&quot;"/>', "<v title='it&#39;s \"{{k}}\"'/>", '<v>{{a}}{{b}}</v>', '<v> {{a}} </v>', '<v>\n{{a}}\n</v>']:
        srcs.append(t_)
        nshape += 1
    # children after a text that prints as nothing (a blank literal binding, a comment) in every kind of body
    # ... and such a text as the only child (a blank literal is a text node of its own: D71)
    for first in ('{{ "" }}', "{{ ' ' }}", "<!-- c -->{{ '' }}", '{{ "" }}<!-- c -->', "{{ '\\n' }}", "{{ ' \\t ' }}", "<!-- c -->{{ ' ' }}<!-- d -->"):
        for rest in ("<text>{{b}}</text>", "t{{a}}", "<v/><v title=\"{{a}}\"/>", ""):
            srcs.append("<view>%s%s</view>" % (first, rest))
            srcs.append('<block wx:for="{{l}}">%s%s</block><v wx:if="{{c}}">%s%s</v><v wx:else>%s%s</v>' % (first, rest, first, rest, first, rest))
            srcs.append('<template name="t9">%s%s</template><template is="t9" data="{{a, b}}"/>' % (first, rest))
            nshape += 3
    # script modules (round 10, C14-12): their names are declared by the <wxs> tag itself and are never mangled; used in the main template, inside
    # wx:for / slot scopes (which ARE mangled) and inside <template name> bodies
    for t_ in ['<wxs module="fmt">exports.price=function(x){return "$"+x}; exports.k="K"</wxs><view class="{{fmt.k}}">{{ fmt.price(a) }}</view>',
               '<wxs module="m1">exports.f=function(x){return "["+x+"]"}</wxs><view wx:for="{{l}}">{{m1.f(item)}}|{{index}}</view>{{m1.f(b)}}',
               '<wxs module="m1">exports.f=function(x){return "["+x+"]"}</wxs><template name="t8"><v>{{m1.f(a)}}</v></template><template is="t8" data="{{a}}"/>{{m1.f(b)}}',
               '<wxs module="u">exports.id="U"</wxs><wxs module="w">exports.id="W"</wxs><cmp-x><view slot:v wx:for="{{l}}" wx:for-item="it">{{u.id}}{{v}}{{it}}{{w.id}}</view></cmp-x>{{w.id}}{{u.id}}',
               '<wxs module="item">exports.id="M"</wxs><view wx:for="{{l}}">{{item}}</view><v>{{item.id}}</v>']:
        srcs.insert(0, t_)
        nshape += 1
    # scope names the printer re-derives: `slot:` references on <block> and on elements printed self-closing, before / around wx:for and element references
    for t_ in ['<cmp-x><block slot:v><view wx:for="{{l}}">{{item}}|{{v}}|{{index}}</view></block></cmp-x>',
               '<cmp-x><block slot:a><view slot:b>{{b}}|{{a}}</view><v>{{a}}</v></block><v>{{a}}</v></cmp-x>',
               '<cmp-x><block slot:a="x" slot:b><block wx:for="{{l}}" wx:for-item="y">{{y}}|{{x}}|{{b}}</block></block></cmp-x>',
               '<cmp-x><view slot:a/><view wx:for="{{l}}">{{item}}</view><block slot:b/><view slot:c>{{c}}</view></cmp-x>',
               '<block wx:for="{{l}}" wx:for-item="x"/><block wx:for="{{o}}" wx:for-item="y">{{y}}</block><block wx:for="{{l}}"/><v wx:for="{{o}}">{{item}}{{index}}</v>']:
        srcs.append(t_)
        nshape += 1
    # a binding followed by static text (the value parser appends the text to a literal it adds itself), and unquoted attribute values
    for e in ["x + 's'", "'s' + x", "x + ''", "a + b + 't'", "x + 's' + 't'", "(x + 's')", "x - 's'", "f(x) + '&'"]:
        srcs.append('<v title="{{ %s }}q&amp;" data-k="{{ %s }}{{ %s }}z">{{ %s }}t&lt;</v>' % (e, e, e, e))
        nshape += 1
    for attr in ["data=abc", "data=..o", "data=a:1", "is=t0 data=o", "is=t0", "wx:if=abc", "wx:for=abc", "class=abc", "bind:tap=abc", "model:value=abc",
                 "slot:a=abc", "wx:key=k", "data={{a:1}}", "data={{...o}}"]:
        srcs.append('<template name="t0">{{a}}{{p}}</template><template is="t0" %s/><v %s>x</v><block wx:for="{{l}}" %s>{{item}}</block>' % (attr, attr, attr))
        nshape += 1
    # static-only attributes (printed with escape_html_quote) whose VALUE contains `&` followed by what looks like a character reference — named ones with
    # digits included: printed unescaped, the second parse decodes it (round 12, C14-15)
    for v_ in ["t&amp;sup2;", "k&amp;frac12;x", "a&amp;amp;b", "p&amp;v2;x", "q&amp;#38;", "r&amp;lt;", "&amp;there4;", "x&amp;", "&amp;&amp;sup3;y", "m&amp;#x26;n"]:
        srcs.append('<template name="%s">[T]</template><template is="%s"/><v wx:for="{{l}}" wx:key="%s">{{item}}</v><c generic:g="%s" slot:s="%s"/>' % (v_, v_, v_, v_, "s1"))
        srcs.append('<block wx:for="{{l}}" wx:for-item="it" wx:key="%s"><v worklet:w="%s" extra-attr:e="%s">{{it}}</v></block>' % (v_, v_, v_))
        nshape += 2
    # `src` values whose name itself ends with the optional suffix the parser strips (D74: printed without it, the next parse strips again: another file)
    for t_ in ['<include src="a.wxml.wxml"/>x', '<import src="b.wxml.wxml"/>x', '<wxs module="m" src="c.wxs.wxs"/>{{m.f}}', '<include src="d.wxml.wxml.wxml"/><include src="e.wxs"/>',
               '<block wx:if="{{c}}"><include src="../f.wxml.wxml"/></block><wxs module="n" src="g.wxml"/>']:
        srcs.append(t_)
        nshape += 1
    # text mixtures as text nodes and attribute values (the oracle side of the mixture model: fixpoint, diagnostics, behaviour)
    msrcs_, mwf = mix_sources(rng.fork("mix-oracle"), 300 if quick else 6000, mix_canon() or ["a"])
    for s_, wf in zip(msrcs_, mwf):
        if wf and "<" not in s_:
            srcs.append("<v>%s</v>" % s_ if '"' in s_ else '<v title="%s">%s</v>' % (s_, s_))
            nshape += 1
    for t_ in ['<v>{{b}}&#123;{{a}}</v>', '<v title="x{{b}}y&#123;{{a}}z"/>', '<v>{{b}}&#123;&#123;{{a}}</v>', '<v>{{a}}{{b}}&#123;{{c}}&#123;</v>', '<v>{{a}}&#123;{{b}}&#123;{{c}}</v>']:
        srcs.append(t_)
        nshape += 1
    chk.bump("oracle:expression-shapes", nshape)
    first = core.run_harness([core.req("group", json.dumps({"files": [["p", s]]})) for s in srcs], timeout=3600)
    s1s, meta = [], []
    for i, a in enumerate(first):
        if a.startswith("PANIC"):
            chk.violation("input", f"compiler panicked: {a[:200]}", template=srcs[i][:3000])
            continue
        o = json.loads(a)
        s1 = o["stringify"].get("p")
        if s1 is None:
            chk.violation("input", "stringify_tmpl returned nothing for a registered template", template=srcs[i][:3000])
            continue
        s1s.append(s1)
        meta.append((i, o))
    second = core.run_harness([core.req("group", json.dumps({"files": [["p", s1]]})) for s1 in s1s], timeout=3600)
    rreqs, rmeta = [], []
    nb = 0
    nbeh = 0
    for (i, o0), s1, a in zip(meta, s1s, second):
        t = srcs[i]
        wellformed = i % 4 != 3 or i >= n
        if a.startswith("PANIC"):
            chk.violation("input", f"compiler panicked on its own printed text: {a[:200]}", template=t[:3000], printed=s1[:3000])
            continue
        o1 = json.loads(a)
        chk.case(("rt", t), nontrivial=True, sample=dict(template=t[:200], printed=s1[:200]) if len(chk.samples) < 3 and len(t) < 200 else None)
        s2 = o1["stringify"].get("p")
        if s2 != s1:
            nb += 1
            if nb <= 4:
                chk.violation("input", "printing is not a fixpoint: print(parse(print(parse(t)))) differs from print(parse(t))", template=t[:3000],
                              printed=s1[:3000], printed_again=(s2 or "")[:3000])
        new = [k for k in kinds_above_note(o1["warnings"]) if k not in kinds_above_note(o0["warnings"])]
        if new:
            nb += 1
            if nb <= 4:
                w = [w for w in o1["warnings"] if w[1] in new][0]
                chk.violation("input", f"the printed text gets a new diagnostic above Note: {w[7]} (level {w[2]}) at {w[3]}:{w[4]}", template=t[:3000], printed=s1[:3000])
        if isinstance(o0.get("gen_groups"), str) and isinstance(o1.get("gen_groups"), str) and (wellformed or not kinds_above_note(o0["warnings"])):
            if i >= n:
                # expression shapes: environments that tell every association apart (a string on the left of numbers, floats whose
                # sums depend on the grouping, big magnitudes), then the nullish / falsy one
                for D0 in (SHAPE_ENVS if not quick else SHAPE_ENVS[:3] + [SHAPE_ENVS[3 + i % 2]]):
                    steps = [{"create": D0}]
                    rreqs.append({"op": "render", "gen_groups": o0["gen_groups"], "path": "p", "steps": steps})
                    rreqs.append({"op": "render", "gen_groups": o1["gen_groups"], "path": "p", "steps": steps})
                    rmeta.append((i, s1, steps))
                continue
            D0 = render.DATA_POOL[i % len(render.DATA_POOL)]
            D1 = up.mutate_data(rng.fork(("d", i)), D0, focus=[k for k in D0 if k in t])
            u = up.tree_to_req(up.diff_tree(D0, D1))
            steps = [{"create": D0}, {"update": D1, "U": u}]
            rreqs.append({"op": "render", "gen_groups": o0["gen_groups"], "path": "p", "steps": steps})
            rreqs.append({"op": "render", "gen_groups": o1["gen_groups"], "path": "p", "steps": steps})
            rmeta.append((i, s1, steps))
    outs = core.run_node(rreqs)
    for k, (i, s1, steps) in enumerate(rmeta):
        a, b = outs[2 * k], outs[2 * k + 1]
        ta = [up.project_state(x["tree"]) for x in a.get("snapshots", [])] if "error" not in a else {"error": a["error"]}
        tb = [up.project_state(x["tree"]) for x in b.get("snapshots", [])] if "error" not in b else {"error": b["error"]}
        chk.case(("behaviour", srcs[i]), nontrivial=True)
        if json.dumps(ta) != json.dumps(tb):
            nb += 1
            cls = "behaviour"
            if json.dumps(drop_empty_text(ta)) == json.dumps(drop_empty_text(tb)):
                cls = "empty-string-binding-text-node-dropped"
            elif json.dumps(static_events(ta)) == json.dumps(static_events(tb)):
                cls = "string-literal-event-handler-becomes-static"
            elif json.dumps(static_events(drop_empty_text(ta))) == json.dumps(static_events(drop_empty_text(tb))):
                cls = "empty-string-binding-text-node-dropped+string-literal-event-handler-becomes-static"
            elif json.dumps(merge_texts(ta)) == json.dumps(merge_texts(tb)):
                cls = "comment-between-texts-dropped"
            elif json.dumps(static_events(drop_empty_text(merge_texts(ta)))) == json.dumps(static_events(drop_empty_text(merge_texts(tb)))):
                cls = "comment-between-texts-dropped+other-known"
            nbeh = nbeh + 1 if cls == "behaviour" else nbeh
            if nbeh <= 6 or cls != "behaviour":      # (the cap is on unclassified mismatches only: classified ones are matched against the known findings)
                chk.violation("input", "the re-parsed printed template renders / updates differently from the original", classification=cls,
                              template=srcs[i][:3000], printed=s1[:3000], steps=steps, original=ta, reparsed=tb)
    # ---- with scope-name mangling -------------------------------------------------------------------------
    msrcs = [s_ for s_ in srcs if "<wxs module=" in s_ and len(s_) < 600][:40] + [srcs[i] for i in range(0, min(n, len(srcs)), 3) if i % 4 != 3]
    mouts = core.run_harness([core.req("strmap", s_, "1") for s_ in msrcs], timeout=3600)
    greqs, gmeta = [], []
    for s_, a in zip(msrcs, mouts):
        if a.startswith("PANIC") or a == "bad-op":
            chk.violation("input", f"mangled printing failed: {a[:200]}", template=s_[:3000])
            continue
        o = json.loads(a)
        if o["output2"] != o["output"] and "_$" not in o["output"]:
            chk.violation("input", "mangled printing is not a fixpoint", template=s_[:3000], printed=o["output"][:3000], printed_again=o["output2"][:3000])
        greqs.append(core.req("group", json.dumps({"files": [["p", s_]]})))
        greqs.append(core.req("group", json.dumps({"files": [["p", o["output"]]]})))
        gmeta.append((s_, o["output"]))
    gouts = core.run_harness(greqs, timeout=3600) if greqs else []
    plain_of = {}
    for s_, a in zip(msrcs, core.run_harness([core.req("strmap", s_, "0") for s_ in msrcs], timeout=3600)):
        if not (a.startswith("PANIC") or a == "bad-op"):
            plain_of[s_] = json.loads(a)["output"]
    rreqs2, rmeta2 = [], []
    for k, (s_, printed) in enumerate(gmeta):
        a, b = gouts[2 * k], gouts[2 * k + 1]
        if a.startswith("PANIC") or b.startswith("PANIC"):
            continue
        oa, ob = json.loads(a), json.loads(b)
        if not isinstance(oa.get("gen_groups"), str) or not isinstance(ob.get("gen_groups"), str):
            continue
        D0 = render.DATA_POOL[k % len(render.DATA_POOL)]
        rreqs2.append({"op": "render", "gen_groups": oa["gen_groups"], "path": "p", "steps": [{"create": D0}]})
        rreqs2.append({"op": "render", "gen_groups": ob["gen_groups"], "path": "p", "steps": [{"create": D0}]})
        rmeta2.append((s_, printed))
    outs2 = core.run_node(rreqs2) if rreqs2 else []
    for k, (s_, printed) in enumerate(rmeta2):
        a, b = outs2[2 * k], outs2[2 * k + 1]
        ta = [up.project_state(x["tree"]) for x in a.get("snapshots", [])] if "error" not in a else {"error": a["error"]}
        tb = [up.project_state(x["tree"]) for x in b.get("snapshots", [])] if "error" not in b else {"error": b["error"]}
        chk.case(("mangled", s_), nontrivial="_$" in printed)
        # a script module is declared by its <wxs module="…"> tag, which is printed verbatim: a use of it must never be printed as a mangled name
        # (what D54 records concerns wx:for / slot scope names only)
        mods = set(re.findall(r'<wxs module="([^"]+)"', printed))
        plain = plain_of.get(s_)
        stolen = mangled_module_uses(plain, printed, mods) if plain is not None and mods else []
        if stolen:
            chk.violation("input", f"scope-name mangling renamed the uses of the script module(s) {stolen}: the <wxs> tag still declares the source name",
                          classification="script-module-name-mangled", template=s_[:3000], printed=printed[:3000])
        if json.dumps(static_events(drop_empty_text(ta))) != json.dumps(static_events(drop_empty_text(tb))):
            cls = "mangled-scope-names-not-declared" if "_$" in printed else "behaviour-mangled"
            if cls == "behaviour-mangled" and \
                    json.dumps(static_events(drop_empty_text(merge_texts(ta)))) == json.dumps(static_events(drop_empty_text(merge_texts(tb)))):
                cls = "comment-between-texts-dropped+other-known"       # the same finding as in the unmangled stream (D56)
            chk.violation("input", "the template printed with scope-name mangling renders differently after re-parsing", classification=cls,
                          template=s_[:3000], printed=printed[:3000])
    chk.bump("oracle:mangled", len(rmeta2))
    chk.programs = len(srcs)
    chk.bump("oracle:round-trips", len(meta))
    chk.bump("oracle:behaviour-compared", len(rmeta))
    chk.bump("oracle:mismatches", nb)


def mangled_module_uses(plain, mangled, mods):
    """source names that the mangled print replaces by `_$N` although they are script modules and no wx:for / slot: scope of that name is declared"""
    ident = re.compile(r"[A-Za-z_$][\w$]*")
    a, b = ident.findall(plain), ident.findall(mangled)
    if len(a) != len(b) or ident.sub("\0", plain) != ident.sub("\0", mangled):
        return []          # not the same text up to identifiers: judged by the behaviour comparison
    renamed = {x for x, y in zip(a, b) if x != y and re.fullmatch(r"_\$\d+", y)}
    out = []
    for m in sorted(renamed & mods):
        declared = re.search(r'wx:for-(item|index)="%s"|slot:[\w-]+="%s"|slot:%s[\s/>=]' % (re.escape(m), re.escape(m), re.escape(m)), plain) or \
            (m in ("item", "index") and "wx:for=" in plain)
        if not declared:
            out.append(m)
    return out


def replay(chk, path):
    o = json.load(open(path))["first"]
    if "template" in o:
        a = json.loads(core.run_harness([core.req("group", json.dumps({"files": [["p", o["template"]]]}))])[0])
        s1 = a["stringify"]["p"]
        b = json.loads(core.run_harness([core.req("group", json.dumps({"files": [["p", s1]]}))])[0])
        print("printed :", s1[:1500])
        print("again   :", b["stringify"]["p"][:1500])
        print("warnings:", b["warnings"][:5])
        if b["stringify"]["p"] != s1:
            chk.violation("input", "replayed: not a fixpoint", template=o["template"])
    return chk.finish()
