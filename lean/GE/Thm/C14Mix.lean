/-
C14 — text mixtures: what the stringifier writes for a value (static text and `{{ … }}` bindings in any order)
is read back by the value parser as the same pieces, for EVERY text — including text that contains `{{`, text that
ends in `{` directly before a binding, `<`, `"`, `&` and text that looks like a character reference.

The expression parser is a parameter `P`; the theorem assumes only `POk P e` for the bindings that occur: `P` reads
back the inner text the expression printer wrote (the part of C14 that `str_derives` addresses on the grammar
side and the oracle on the parser side).
-/
import GE.Model.Mixture
import GE.Thm.C14

namespace GE.Mix
open GE.Esc

def TablesOk' (t : Tables) : Prop := TablesOk t ∧ t.num false ['1', '2', '3'] = some ['{']

theorem entityAt_123 (t : Tables) (h : TablesOk' t) (rest : List Char) :
    entityAt t ('#' :: '1' :: '2' :: '3' :: ';' :: rest) = some (['{'], rest) := by
  simp [entityAt, isDigit, scanName, h.2]
theorem entityAt_lt' (t : Tables) (h : TablesOk t) (rest : List Char) :
    entityAt t ('l' :: 't' :: ';' :: rest) = some (['<'], rest) := by simpa using entityAt_lt t h rest
theorem entityAt_quot' (t : Tables) (h : TablesOk t) (rest : List Char) :
    entityAt t ('q' :: 'u' :: 'o' :: 't' :: ';' :: rest) = some (['"'], rest) := by simpa using entityAt_quot t h rest
theorem entityAt_amp' (t : Tables) (h : TablesOk t) (rest : List Char) :
    entityAt t ('a' :: 'm' :: 'p' :: ';' :: rest) = some (['&'], rest) := by simpa using entityAt_amp t h rest

/-! ### unfolding `printText` -/

theorem pt_nil (fb : Bool) : printText [] fb = [] := by simp [printText]
theorem pt_single (fb : Bool) : printText ['{'] fb = if fb then "&#123;".toList else ['{'] := by simp [printText]
theorem pt_bb (r : List Char) (fb : Bool) : printText ('{' :: '{' :: r) fb = "&#123;&#123;".toList ++ printText r fb := by
  simp [printText]
theorem pt_b (d : Char) (r : List Char) (fb : Bool) (h : d ≠ '{') :
    printText ('{' :: d :: r) fb = '{' :: printText (d :: r) fb := by
  rw [printText.eq_def]; simp [h]
theorem pt_other (c : Char) (r : List Char) (fb : Bool) (h : c ≠ '{') :
    printText (c :: r) fb = escBodyChar c ++ printText r fb := by
  rw [printText.eq_def]; simp [h]

/-- what may follow a text piece: nothing, or a binding (and then the printer knows it) -/
def RestOk (fb : Bool) (rest : List Char) : Prop := (fb = true → startsBB rest = true) ∧ (fb = false → rest = [])

theorem escBodyChar_head (c : Char) (h : c ≠ '{') (x : List Char) : ∃ d y, escBodyChar c ++ x = d :: y ∧ d ≠ '{' := by
  unfold escBodyChar
  split
  · exact ⟨'&', "lt;".toList ++ x, by simp, by decide⟩
  · split
    · exact ⟨'&', "quot;".toList ++ x, by simp, by decide⟩
    · split
      · exact ⟨'&', "amp;".toList ++ x, by simp, by decide⟩
      · exact ⟨c, x, by simp, h⟩

/-- the printed text never starts with `{{`, whatever follows it -/
theorem printed_not_bb : ∀ (s : List Char) (fb : Bool) (rest : List Char), s ≠ [] → RestOk fb rest →
    startsBB (printText s fb ++ rest) = false ∧ printText s fb ++ rest ≠ []
  | [], _, _, h, _ => absurd rfl h
  | c :: r, fb, rest, _, hr => by
    by_cases hc : c = '{'
    · subst hc
      cases r with
      | nil =>
        rw [pt_single]
        cases fb with
        | true => simp [startsBB]
        | false => simp [hr.2 rfl, startsBB]
      | cons d r' =>
        by_cases hd : d = '{'
        · subst hd; rw [pt_bb]; simp [startsBB]
        · rw [pt_b d r' fb hd]
          refine ⟨?_, by simp⟩
          by_cases hd2 : d = '{'
          · exact absurd hd2 hd
          · rw [pt_other d r' fb hd]
            obtain ⟨e, y, he, hne⟩ := escBodyChar_head d hd (printText r' fb ++ rest)
            simp only [List.cons_append, List.append_assoc, he]
            simp [startsBB, hne]
    · rw [pt_other c r fb hc]
      obtain ⟨e, y, he, hne⟩ := escBodyChar_head c hc (printText r fb ++ rest)
      simp only [List.append_assoc, he]
      simp [startsBB, hne]

/-- one step of the text loop reads back one escaped character -/
theorem stepText_escBodyChar (t : Tables) (h : TablesOk t) (c : Char) (x : List Char) :
    stepText t (escBodyChar c ++ x) = ([c], x) := by
  by_cases h1 : c = '<'
  · subst h1
    have e : escBodyChar '<' ++ x = '&' :: ("lt;".toList ++ x) := by simp [escBodyChar]
    rw [e, stepText]; simp [entityAt_lt' t h]
  · by_cases h2 : c = '"'
    · subst h2
      have e : escBodyChar '"' ++ x = '&' :: ("quot;".toList ++ x) := by simp [escBodyChar]
      rw [e, stepText]; simp [entityAt_quot' t h]
    · by_cases h3 : c = '&'
      · subst h3
        have e : escBodyChar '&' ++ x = '&' :: ("amp;".toList ++ x) := by simp [escBodyChar]
        rw [e, stepText]; simp [entityAt_amp' t h]
      · have e : escBodyChar c ++ x = c :: x := by simp [escBodyChar, h1, h2, h3]
        rw [e, stepText]; simp [h3]

theorem stepText_123 (t : Tables) (h : TablesOk' t) (x : List Char) :
    stepText t ("&#123;".toList ++ x) = (['{'], x) := by
  have e : "&#123;".toList ++ x = '&' :: ("#123;".toList ++ x) := by simp
  rw [e, stepText]; simp [entityAt_123 t h]

theorem printText_len_pos : ∀ (s : List Char) (fb : Bool), s ≠ [] → 0 < (printText s fb).length
  | [], _, h => absurd rfl h
  | c :: r, fb, _ => by
    by_cases hc : c = '{'
    · subst hc
      cases r with
      | nil => rw [pt_single]; cases fb <;> simp
      | cons d r' =>
        by_cases hd : d = '{'
        · subst hd; rw [pt_bb]; simp
        · rw [pt_b d r' fb hd]; simp
    · rw [pt_other c r fb hc]
      have := escBodyChar_len c
      simp only [List.length_append]; omega

/-- the text loop reads a printed text piece back, and stops exactly where the piece ends -/
theorem scanText_printText (t : Tables) (h : TablesOk' t) : ∀ (k : Nat) (s : List Char), s.length ≤ k →
    ∀ (fb : Bool) (rest : List Char) (n : Nat), s ≠ [] → RestOk fb rest → (printText s fb).length ≤ n →
    scanText t n (printText s fb ++ rest) = (s, rest)
  | 0, [], _, _, _, _, h, _, _ => absurd rfl h
  | 0, _ :: _, hk, _, _, _, _, _, _ => by simp at hk
  | k + 1, [], _, _, _, _, h, _, _ => absurd rfl h
  | k + 1, c :: r, hk, fb, rest, n, _, hr, hn => by
    have hk' : r.length ≤ k := by simpa using hk
    -- after one step the loop stops iff the piece is finished
    have fin : ∀ (x : List Char) (m : Nat) (v : List Char) (r0 : List Char), r0.length ≤ k →
        stepText t x = (v, printText r0 fb ++ rest) → (printText r0 fb).length ≤ m →
        scanText t (m + 1) x = (v ++ r0, rest) := by
      intro x m v r0 hr0 hs hm
      rw [scanText, hs]
      dsimp only
      by_cases he : r0 = []
      · subst he
        rw [pt_nil, List.nil_append]
        have : (rest.isEmpty || startsBB rest) = true := by
          cases fb with
          | true => simp [hr.1 rfl]
          | false => simp [hr.2 rfl]
        simp [this]
      · have hb := printed_not_bb r0 fb rest he hr
        have hne : (printText r0 fb ++ rest).isEmpty = false := by
          cases hx : printText r0 fb ++ rest with
          | nil => exact absurd hx hb.2
          | cons _ _ => rfl
        simp only [hne, hb.1, Bool.or_self, Bool.false_eq_true, if_false]
        rw [scanText_printText t h k r0 hr0 fb rest m he hr hm]
    by_cases hc : c = '{'
    · subst hc
      cases r with
      | nil =>
        rw [pt_single] at hn ⊢
        cases fb with
        | true =>
          cases n with
          | zero => simp at hn
          | succ m =>
            have := fin ("&#123;".toList ++ rest) m ['{'] [] (by simp) (by rw [stepText_123 t h]; simp [pt_nil]) (by simp [pt_nil])
            simpa using this
        | false =>
          cases n with
          | zero => simp at hn
          | succ m =>
            have := fin ('{' :: rest) m ['{'] [] (by simp) (by simp [stepText, pt_nil]) (by simp [pt_nil])
            simpa using this
      | cons d r' =>
        by_cases hd : d = '{'
        · subst hd
          rw [pt_bb] at hn ⊢
          have h12 : ("&#123;&#123;".toList).length = 12 := rfl
          have hl : (printText r' fb).length + 12 ≤ n := by
            simp only [List.length_append, h12] at hn; omega
          obtain ⟨m, rfl⟩ : ∃ m, n = m + 2 := ⟨n - 2, by omega⟩
          -- first reference: the loop goes on (the second reference follows)
          rw [scanText]
          have e1 : "&#123;&#123;".toList ++ printText r' fb ++ rest =
              "&#123;".toList ++ ("&#123;".toList ++ (printText r' fb ++ rest)) := by simp
          rw [e1, stepText_123 t h]
          have nb : ("&#123;".toList ++ (printText r' fb ++ rest)).isEmpty = false ∧
              startsBB ("&#123;".toList ++ (printText r' fb ++ rest)) = false := by simp [startsBB]
          simp only [nb.1, nb.2, Bool.or_self, Bool.false_eq_true, if_false]
          have := fin ("&#123;".toList ++ (printText r' fb ++ rest)) m ['{'] r' (by simp at hk'; omega)
            (by rw [stepText_123 t h]) (by omega)
          rw [this]
          simp
        · rw [pt_b d r' fb hd] at hn ⊢
          cases n with
          | zero => simp at hn
          | succ m =>
            have := fin ('{' :: (printText (d :: r') fb ++ rest)) m ['{'] (d :: r') hk' (by simp [stepText])
              (by simpa using hn)
            simpa using this
    · rw [pt_other c r fb hc] at hn ⊢
      have hl := escBodyChar_len c
      cases n with
      | zero => simp only [List.length_append] at hn; omega
      | succ m =>
        have := fin (escBodyChar c ++ (printText r fb ++ rest)) m [c] r hk'
          (stepText_escBodyChar t h.1 c _) (by simp only [List.length_append] at hn; omega)
        simpa using this

/-! ### the round trip -/

/-- no empty text piece, no two adjacent text pieces (what the parser produces) -/
def Normal : List Piece → Prop
  | [] => True
  | .text s :: r => s ≠ [] ∧ (r = [] ∨ startsBind r = true) ∧ Normal r
  | .bind _ :: r => Normal r

/-- the expression parser reads back the inner text `e` that the expression printer wrote -/
def POk (P : List Char → Option (List Char) × List Char) (e : List Char) : Prop :=
  ∀ rest, P ("{{".toList ++ e ++ "}}".toList ++ rest) = (some e, rest)

theorem restOk_printPieces (r : List Piece) (h : r = [] ∨ startsBind r = true) :
    RestOk (startsBind r) (printPieces r) := by
  rcases h with rfl | h
  · simp [RestOk, startsBind, printPieces]
  · cases r with
    | nil => simp [startsBind] at h
    | cons p r' =>
      cases p with
      | text _ => simp [startsBind] at h
      | bind e => simp [RestOk, startsBind, printPieces, startsBB]

/-- **C14, text mixtures**: parsing the printed value gives the pieces back -/
theorem mixture_roundtrip (t : Tables) (h : TablesOk' t) (P : List Char → Option (List Char) × List Char) :
    ∀ (ps : List Piece), Normal ps → (∀ e, Piece.bind e ∈ ps → POk P e) →
      ∀ n, (printPieces ps).length ≤ n → scan t P n (printPieces ps) = ps
  | [], _, _, n => by cases n <;> simp [printPieces, scan]
  | .bind e :: r, hn, hp, n => by
    intro hl
    have hP := hp e (by simp) (printPieces r)
    have e1 : printPieces (.bind e :: r) = '{' :: ('{' :: (e ++ "}}".toList ++ printPieces r)) := by
      simp [printPieces]
    rw [e1] at hl ⊢
    cases n with
    | zero => simp at hl
    | succ m =>
      rw [scan]
      have e2 : ('{' :: ('{' :: (e ++ "}}".toList ++ printPieces r))) = "{{".toList ++ e ++ "}}".toList ++ printPieces r := by
        simp
      have hbb : startsBB ('{' :: ('{' :: (e ++ "}}".toList ++ printPieces r))) = true := rfl
      simp only [hbb, if_true]
      rw [e2, hP]
      dsimp only
      rw [mixture_roundtrip t h P r hn (fun e' he' => hp e' (by simp [he'])) m (by simp at hl; omega)]
  | .text s :: r, hn, hp, n => by
    intro hl
    obtain ⟨hs, hr, hn'⟩ := hn
    have hro := restOk_printPieces r hr
    have hb := printed_not_bb s (startsBind r) (printPieces r) hs hro
    simp only [printPieces] at hl ⊢
    cases hx : printText s (startsBind r) ++ printPieces r with
    | nil => exact absurd hx hb.2
    | cons c inp =>
      cases n with
      | zero => rw [hx] at hl; simp at hl
      | succ m =>
        rw [scan]
        have hbb : startsBB (c :: inp) = false := by rw [← hx]; exact hb.1
        simp only [hbb, Bool.false_eq_true, if_false]
        have hlen : (printText s (startsBind r)).length ≤ inp.length + 1 := by
          have : (printText s (startsBind r) ++ printPieces r).length = inp.length + 1 := by rw [hx]; simp
          simp only [List.length_append] at this; omega
        have hst := scanText_printText t h s.length s (Nat.le_refl _) (startsBind r) (printPieces r) (inp.length + 1) hs hro hlen
        rw [← hx, hst]
        have hpos := printText_len_pos s (startsBind r) hs
        have hm : (printPieces r).length ≤ m := by
          rw [hx] at hl
          have : (printText s (startsBind r) ++ printPieces r).length = inp.length + 1 := by rw [hx]; simp
          simp only [List.length_append, List.length_cons] at this hl; omega
        rw [mixture_roundtrip t h P r hn' (fun e' he' => hp e' (by simp [he'])) m hm]
        rcases hr with rfl | hr
        · simp [pushText]
        · cases r with
          | nil => simp [pushText]
          | cons p r' =>
            cases p with
            | text _ => simp [startsBind] at hr
            | bind e => simp [pushText]

/-- static text alone (`Value::Static`): every string is read back, also one that contains `{{` -/
theorem static_roundtrip (t : Tables) (h : TablesOk' t) (P : List Char → Option (List Char) × List Char)
    (s : List Char) (hs : s ≠ []) (n : Nat) (hn : (printText s false).length ≤ n) :
    scan t P n (printText s false) = [.text s] := by
  have := mixture_roundtrip t h P [.text s] ⟨hs, Or.inl rfl, trivial⟩ (by simp) n (by simpa [printPieces, startsBind] using hn)
  simpa [printPieces, startsBind] using this

end GE.Mix
