import GE.Codec
import GE.Model.Path
import GE.Thm.C13
