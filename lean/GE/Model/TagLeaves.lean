import GE.Model.TagTree
/-!
The leaf elements (`<include src>` / `<template is>`, payload as in `GE.TagTree.Base.leaf`) of a sequence of tags and of the tree the parser
builds from it, in document order.  `direct_dependencies` lists the resolved `src` of the file's `<include>` elements (after its imports);
`GE/Thm/C13Leaves.lean` proves that the tree keeps exactly the leaves of the source, whatever control attributes the tags carry.
-/
namespace GE.TagTree

def leafOf : Base → List String
  | .leaf p => [p]
  | _ => []

/-- children count only under elements that keep them (`mkElem` drops the children of a leaf) -/
def keepsKids : Base → Bool
  | .normal _ _ => true
  | .pure _ _ => true
  | .slotEl _ _ => false
  | .leaf _ => false

mutual
def leavesX : X → List String
  | .text _ => []
  | .comment => []
  | .gone => []
  | .el b _ kids => leafOf b ++ (if keepsKids b then leavesXS kids else [])
def leavesXS : XS → List String
  | .nil => []
  | .cons x r => leavesX x ++ leavesXS r
end

mutual
def leavesA : A → List String
  | .text _ => []
  | .comment => []
  | .normal _ _ kids => leavesAS kids
  | .pure _ _ kids => leavesAS kids
  | .slotEl _ _ => []
  | .leaf p => [p]
  | .loop _ _ _ _ kids => leavesAS kids
  | .cond _ kids more els => leavesAS kids ++ leavesBrs more ++ leavesEls els
def leavesAS : AS → List String
  | .nil => []
  | .cons a r => leavesA a ++ leavesAS r
def leavesBrs : Brs → List String
  | .nil => []
  | .cons _ kids r => leavesAS kids ++ leavesBrs r
def leavesEls : Els → List String
  | .none => []
  | .some kids => leavesAS kids
end

end GE.TagTree

namespace GE.TagTree

/-- a `wx:elif` / `wx:else` tag continues a group that has no `wx:else` branch yet (`wx:if`, `wx:elif`*, `wx:else`? in this order): otherwise the
parser replaces the earlier `wx:else` branch (its content leaves the tree) or files the `wx:elif` branch before it -/
def groupOk (acc : AS) (c : Ctl) : Bool :=
  match ifCond c with
  | .elif _ | .else_ =>
    match findIf acc with
    | some (_, (_, _, _, .some _), _) => false
    | _ => true
  | _ => true

mutual
def okX (acc : AS) : X → Bool
  | .el _ c kids => okXS .nil kids && groupOk acc c
  | _ => true
def okXS (acc : AS) : XS → Bool
  | .nil => true
  | .cons x r => okX acc x && okXS (parseX acc x) r
end

/-- every `wx:if` group of the source, at any depth, has the shape `wx:if`, `wx:elif`*, `wx:else`? -/
def groupsOk (xs : XS) : Bool := okXS .nil xs

end GE.TagTree
