//! `tmpl_scopes` op: the skeleton of a parsed template as the scope / binding-map analysis
//! (`init_scopes_and_binding_map_keys`) sees it, with what that analysis left in every dynamic value:
//! the scope-converted expression (scope references located, so that the caller can read their
//! spelling from the source) and whether binding-map keys were collected.
//! Values are listed in the order of `for_each_value_mut` (with its `disable_binding_map` flag).
use glass_easel_template_compiler as tc;
use serde_json::{json, Value as J};
use tc::parse::tag::{
    ClassAttribute, CommonElementAttributes, Element, ElementKind, Node, StyleAttribute, Value,
};

fn val(v: &Value, flag: bool) -> J {
    match v {
        Value::Dynamic { expression, binding_map_keys, .. } => json!({
            "flag": flag,
            "conv": crate::dump::expr(expression, true),
            "bmk": binding_map_keys.is_some(),
        }),
        _ => J::Null,
    }
}

fn common_vals(c: &CommonElementAttributes, out: &mut Vec<J>) {
    if let Some(x) = c.id.as_ref() {
        out.push(val(&x.1, false));
    }
    if let Some(x) = c.slot.as_ref() {
        out.push(val(&x.1, false));
    }
    for ev in c.event_bindings.iter() {
        if let Some(v) = ev.value.as_ref() {
            out.push(val(v, false));
        }
    }
    for a in c.data.iter() {
        if let Some(v) = a.value.as_ref() {
            out.push(val(v, false));
        }
    }
    for a in c.marks.iter() {
        if let Some(v) = a.value.as_ref() {
            out.push(val(v, false));
        }
    }
}

fn nodes(ns: &[Node]) -> J {
    J::Array(ns.iter().map(node).collect())
}

fn node(n: &Node) -> J {
    match n {
        Node::Text(v) => json!({"k": "text", "v": val(v, false)}),
        Node::Element(e) => element(e),
        _ => json!({"k": "other"}),
    }
}

fn element(e: &Element) -> J {
    let refs: Vec<String> = match e.slot_value_refs() {
        Some(it) => it.map(|a| a.value.name.to_string()).collect(),
        None => vec![],
    };
    let mut vals = vec![];
    let mut for_names = J::Null;
    let mut children: Vec<J> = vec![];
    let kind = match &e.kind {
        ElementKind::Normal { attributes, class, style, change_attributes, children: ch, common, .. } => {
            for a in attributes.iter() {
                if let Some(v) = a.value.as_ref() {
                    vals.push(val(v, false));
                }
            }
            if let ClassAttribute::String(_, v) = class {
                vals.push(val(v, false));
            }
            if let StyleAttribute::String(_, v) = style {
                vals.push(val(v, false));
            }
            for a in change_attributes.iter() {
                if let Some(v) = a.value.as_ref() {
                    vals.push(val(v, false));
                }
            }
            common_vals(common, &mut vals);
            children.push(nodes(ch));
            "normal"
        }
        ElementKind::Pure { children: ch, slot, .. } => {
            if let Some(s) = slot.as_ref() {
                vals.push(val(&s.1, true));
            }
            children.push(nodes(ch));
            "pure"
        }
        ElementKind::For { list, item_name, index_name, children: ch, .. } => {
            vals.push(val(&list.1, true));
            for_names = json!([item_name.1.name.to_string(), index_name.1.name.to_string()]);
            children.push(nodes(ch));
            "for"
        }
        ElementKind::If { branches, else_branch, .. } => {
            for (_, v, ch) in branches.iter() {
                vals.push(val(v, true));
                children.push(nodes(ch));
            }
            if let Some((_, ch)) = else_branch.as_ref() {
                children.push(nodes(ch));
            }
            "if"
        }
        ElementKind::TemplateRef { target, data, .. } => {
            vals.push(val(&target.1, true));
            vals.push(val(&data.1, true));
            "tref"
        }
        ElementKind::Include { .. } => "include",
        ElementKind::Slot { name, values, common, .. } => {
            vals.push(val(&name.1, true));
            for a in values.iter() {
                if let Some(v) = a.value.as_ref() {
                    vals.push(val(v, true));
                }
            }
            common_vals(common, &mut vals);
            "slot"
        }
        #[allow(unreachable_patterns)]
        _ => "?",
    };
    json!({"k": "elem", "kind": kind, "refs": refs, "vals": vals, "for": for_names, "children": children})
}

pub fn tmpl_scopes(src: &str) -> String {
    let mut group = tc::TmplGroup::new();
    let _ = group.add_tmpl("p", src);
    let t = match group.get_tree("p") {
        Ok(t) => t,
        Err(_) => return "none".to_string(),
    };
    let modules: Vec<String> = t.global_scopes().iter().map(|x| x.name.to_string()).collect();
    let subs: Vec<J> = t
        .globals
        .sub_templates
        .iter()
        .map(|s| json!([s.name.name.to_string(), nodes(&s.content)]))
        .collect();
    json!({"modules": modules, "subs": subs, "nodes": nodes(&t.content)}).to_string()
}
