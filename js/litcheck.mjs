// Oracle helper for C12/C02: reads JSON lines {"lits":[src,...]}; evaluates each JavaScript string
// literal source with V8 in sloppy and strict mode; answers {"sloppy":[[codepoints]|null,...],"strict":[...]}.
import readline from 'node:readline'
import vm from 'node:vm'
const rl = readline.createInterface({ input: process.stdin, crlfDelay: Infinity })
const cps = (s) => Array.from(s, (ch) => ch.codePointAt(0))
const evalAll = (lits, strict) => {
  // fast path: one array literal; on failure fall back to one by one
  const prefix = strict ? '"use strict";' : ''
  try {
    const arr = vm.runInNewContext(prefix + '[' + lits.join(',\n') + ']')
    if (arr.length === lits.length) return arr.map((s) => (typeof s === 'string' ? cps(s) : null))
  } catch (e) { /* fall through */ }
  return lits.map((l) => {
    try {
      const s = vm.runInNewContext(prefix + '(' + l + ')')
      return typeof s === 'string' ? cps(s) : null
    } catch (e) { return null }
  })
}
for await (const line of rl) {
  if (!line.trim()) continue
  let out
  try {
    const req = JSON.parse(line)
    if (req.range) {
      // expected code points are pre + scalar + suf for each non-surrogate scalar of the range; answer mismatches only
      const exp = []
      for (let v = req.range[0]; v < req.range[1]; v += 1) {
        if ((v >= 0xd800 && v < 0xe000) || v >= 0x110000) continue
        exp.push([...cps(req.pre), v, ...cps(req.suf)])
      }
      const bad = []
      for (const strict of [false, true]) {
        const got = evalAll(req.lits, strict)
        if (got.length !== exp.length) bad.push({ mode: strict ? 'strict' : 'sloppy', lengthMismatch: [got.length, exp.length] })
        for (let i = 0; i < exp.length && i < got.length; i += 1) {
          const g = got[i]
          const e = exp[i]
          let ok = g !== null && g.length === e.length
          for (let j = 0; ok && j < e.length; j += 1) if (g[j] !== e[j]) ok = false
          if (!ok && bad.length < 20) bad.push({ mode: strict ? 'strict' : 'sloppy', codepoints: e, literal: req.lits[i], got: g })
        }
      }
      let escaped = 0
      for (let i = 0; i < exp.length && i < req.lits.length; i += 1) if (Array.from(req.lits[i]).length !== exp[i].length + 2) escaped += 1
      out = { n: exp.length, escaped, bad }
    } else {
      out = { sloppy: evalAll(req.lits, false), strict: evalAll(req.lits, true) }
    }
  } catch (e) { out = { error: String(e) } }
  process.stdout.write(JSON.stringify(out) + '\n')
}
