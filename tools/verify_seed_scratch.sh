#!/bin/sh
# usage: tools/verify_seed_scratch.sh <patch.diff> -- the pinned suite with the patch applied, in the scratch worktree (never /repo)
set -u
P="$1"; WT=/tmp/wtseed
if [ ! -d "$WT" ]; then git -C /repo worktree add --detach "$WT" HEAD >/dev/null 2>&1 || exit 2; fi
cd "$WT" && git checkout -q --detach "$(git -C /repo rev-parse HEAD)" && git checkout -- . || exit 2
git apply "$P" || { echo "patch does not apply"; exit 2; }
CARGO_NET_OFFLINE=true CARGO_TARGET_DIR=/tmp/wtseed-target cargo test --workspace --no-fail-fast --offline 2>&1 | grep -E "^test result" | awk '{p+=$4; f+=$6} END {print p " passed / " f " failed"}'
git checkout -- .
