//! `ast_locs` and `strmap` ops: every source location stored in the public template AST, and the
//! stringifier's output together with its source map.  See ../ASTDUMP.md for the record format.
use glass_easel_template_compiler as tc;
use serde_json::{json, Value as J};
use std::ops::Range;
use tc::parse::expr::{ArrayFieldKind, Expression, ObjectFieldKind};
use tc::parse::tag::{
    Attribute, ClassAttribute, CommonElementAttributes, CustomAttribute, Element, ElementKind,
    EventBinding, Ident, Node, NormalAttribute, NormalAttributePrefix, Script, StaticAttribute,
    StrName, StyleAttribute, TagLocation, Value,
};
use tc::parse::{ParseError, Position, Template, TemplateStructure};
use tc::stringify::Stringify;

type Loc = Range<Position>;

fn warn_json(w: &ParseError) -> J {
    json!([
        w.code(),
        w.level() as u8,
        w.location.start.line,
        w.location.start.utf16_col,
        w.location.end.line,
        w.location.end.utf16_col,
        w.kind.to_string()
    ])
}

fn is_empty_loc(l: &Loc) -> bool {
    l.start == l.end
}

fn same_loc(a: &Loc, b: &Loc) -> bool {
    a.start == b.start && a.end == b.end
}

/// The span an element-like structure covers, computed the same way as `Element::location()`.
fn tag_span(t: &TagLocation) -> Loc {
    match t.end.as_ref() {
        None => t.start.0.start..t.start.1.end,
        Some((_, x)) => t.start.0.start..x.end,
    }
}

/// Extra (optional) keys of a record.
#[derive(Default, Clone, Copy)]
struct Extra {
    /// the stored name is a function of the source text, not the source text itself
    transform: Option<&'static str>,
    /// the node was not written by the author at this place (defaults, text concatenation, ...)
    synthetic: bool,
}

const NO: Extra = Extra {
    transform: None,
    synthetic: false,
};
const SYN: Extra = Extra {
    transform: None,
    synthetic: true,
};

fn tr(t: &'static str) -> Extra {
    Extra {
        transform: Some(t),
        synthetic: false,
    }
}

struct Dumper {
    nodes: Vec<J>,
    scopes: Vec<String>,
}

type P = Option<usize>;

impl Dumper {
    fn rec(
        &mut self,
        parent: P,
        kind: &str,
        field: &str,
        loc: &Loc,
        spelling: Option<&str>,
        exact: bool,
        extra: Extra,
    ) -> usize {
        let id = self.nodes.len();
        let mut m = serde_json::Map::new();
        m.insert("id".into(), json!(id));
        m.insert("parent".into(), json!(parent));
        m.insert("kind".into(), json!(kind));
        m.insert("field".into(), json!(field));
        m.insert("start".into(), json!([loc.start.line, loc.start.utf16_col]));
        m.insert("end".into(), json!([loc.end.line, loc.end.utf16_col]));
        m.insert("spelling".into(), json!(spelling));
        m.insert("exact".into(), json!(exact));
        if let Some(t) = extra.transform {
            m.insert("transform".into(), json!(t));
        }
        if extra.synthetic {
            m.insert("synthetic".into(), json!(true));
        }
        self.nodes.push(J::Object(m));
        id
    }

    /// A punctuation / keyword token whose text is implied by the AST shape (not stored).
    fn tok(&mut self, parent: P, kind: &str, field: &str, loc: &Loc, text: &str) -> usize {
        self.rec(parent, kind, field, loc, Some(text), true, NO)
    }

    // ---- template -------------------------------------------------------------------------

    fn template(&mut self, t: &Template) {
        let g = &t.globals;
        self.scopes = t.global_scopes().iter().map(|x| x.name.to_string()).collect();
        for i in g.imports.iter() {
            let p = Some(self.rec(None, "ImportElement", "span(tag_location)", &tag_span(&i.tag_location), None, false, NO));
            self.tag_location(p, &i.tag_location);
            self.tok(p, "ImportElement.attr_name", "src_location", &i.src_location, "src");
            self.str_name(p, "src.location", &i.src, tr("entity_decode+strip_suffix(.wxml)"));
        }
        for i in g.includes.iter() {
            let p = Some(self.rec(None, "IncludeElement", "span(tag_location)", &tag_span(&i.tag_location), None, false, NO));
            self.tag_location(p, &i.tag_location);
            self.tok(p, "IncludeElement.attr_name", "src_location", &i.src_location, "src");
            self.str_name(p, "src.location", &i.src, tr("entity_decode+strip_suffix(.wxml)"));
        }
        for s in g.scripts.iter() {
            match s {
                Script::Inline {
                    tag_location,
                    module_location,
                    module_name,
                    content,
                    content_location,
                    ..
                } => {
                    let p = Some(self.rec(None, "Script.Inline", "span(tag_location)", &tag_span(tag_location), None, false, NO));
                    self.tag_location(p, tag_location);
                    self.tok(p, "Script.attr_name", "module_location", module_location, "module");
                    self.str_name(p, "module_name.location", module_name, tr("entity_decode"));
                    self.rec(p, "Script.Inline.content", "content_location", content_location, Some(content), true, NO);
                }
                Script::GlobalRef {
                    tag_location,
                    module_location,
                    module_name,
                    src_location,
                    src,
                    ..
                } => {
                    let p = Some(self.rec(None, "Script.GlobalRef", "span(tag_location)", &tag_span(tag_location), None, false, NO));
                    self.tag_location(p, tag_location);
                    self.tok(p, "Script.attr_name", "module_location", module_location, "module");
                    self.str_name(p, "module_name.location", module_name, tr("entity_decode"));
                    self.tok(p, "Script.attr_name", "src_location", src_location, "src");
                    self.str_name(p, "src.location", src, tr("entity_decode+strip_suffix(.wxs)"));
                }
                #[allow(unreachable_patterns)]
                _ => {}
            }
        }
        for d in g.sub_templates.iter() {
            let p = Some(self.rec(None, "TemplateDefinition", "span(tag_location)", &tag_span(&d.tag_location), None, false, NO));
            self.tag_location(p, &d.tag_location);
            self.tok(p, "TemplateDefinition.attr_name", "name_location", &d.name_location, "name");
            self.str_name(p, "name.location", &d.name, tr("entity_decode"));
            for n in d.content.iter() {
                self.node(p, n);
            }
        }
        for n in t.content.iter() {
            self.node(None, n);
        }
    }

    fn tag_location(&mut self, parent: P, t: &TagLocation) {
        self.tok(parent, "TagLocation.start", "tag_location.start.0", &t.start.0, "<");
        self.tok(parent, "TagLocation.start", "tag_location.start.1", &t.start.1, ">");
        self.tok(parent, "TagLocation.close", "tag_location.close", &t.close, "/");
        if let Some((a, b)) = t.end.as_ref() {
            self.tok(parent, "TagLocation.end", "tag_location.end.0", a, "<");
            self.tok(parent, "TagLocation.end", "tag_location.end.1", b, ">");
        }
    }

    fn ident(&mut self, parent: P, field: &str, i: &Ident, extra: Extra) -> usize {
        let exact = extra.transform.is_none() && !extra.synthetic;
        self.rec(parent, "Ident", field, &i.location, Some(&i.name), exact, extra)
    }

    fn str_name(&mut self, parent: P, field: &str, s: &StrName, extra: Extra) -> usize {
        self.rec(parent, "StrName", field, &s.location, Some(&s.name), false, extra)
    }

    // ---- nodes ----------------------------------------------------------------------------

    fn node(&mut self, parent: P, n: &Node) {
        match n {
            Node::Text(v) => {
                self.value(parent, "Node.Text.0", v);
            }
            Node::Element(e) => self.element(parent, e),
            Node::Comment(c) => {
                self.rec(parent, "Comment", "location", &c.location, Some(&c.content), false, tr("comment(<!--X-->)"));
            }
            Node::UnknownMetaTag(t) => {
                let p = Some(self.rec(parent, "UnknownMetaTag", "location", &t.location, None, false, NO));
                for i in t.tag_name.iter() {
                    self.ident(p, "tag_name[].location", i, NO);
                }
                for a in t.attributes.iter() {
                    self.custom_attribute(p, a);
                }
            }
            #[allow(unreachable_patterns)]
            _ => {}
        }
    }

    fn custom_attribute(&mut self, parent: P, a: &CustomAttribute) {
        for i in a.colon_separated_name.iter() {
            self.ident(parent, "attributes[].colon_separated_name[].location", i, NO);
        }
        if let Some(v) = a.value.as_ref() {
            self.value(parent, "attributes[].value", v);
        }
    }

    /// `(Range, Value)` pairs: the range is the attribute name as written (`id`, `wx:if`, ...).
    fn named_value(&mut self, parent: P, kind: &str, field: &str, name: &str, pair: &(Loc, Value)) {
        self.attr_name(parent, kind, &format!("{}.0", field), name, &pair.0);
        self.value(parent, &format!("{}.1", field), &pair.1);
    }

    fn attr_name(&mut self, parent: P, kind: &str, field: &str, name: &str, loc: &Loc) {
        if is_empty_loc(loc) {
            // the attribute was not written: the parser stores an empty range as a placeholder
            self.rec(parent, kind, field, loc, None, false, SYN);
        } else {
            self.tok(parent, kind, field, loc, name);
        }
    }

    fn element(&mut self, parent: P, e: &Element) {
        let kind = match &e.kind {
            ElementKind::Normal { .. } => "Element.Normal",
            ElementKind::Pure { .. } => "Element.Pure",
            ElementKind::For { .. } => "Element.For",
            ElementKind::If { .. } => "Element.If",
            ElementKind::TemplateRef { .. } => "Element.TemplateRef",
            ElementKind::Include { .. } => "Element.Include",
            ElementKind::Slot { .. } => "Element.Slot",
            #[allow(unreachable_patterns)]
            _ => "Element.?",
        };
        let p = Some(self.rec(parent, kind, "location()", &e.location(), None, false, NO));
        self.tag_location(p, &e.tag_location);
        let scope_mark = self.scopes.len();
        match &e.kind {
            ElementKind::Normal {
                tag_name,
                attributes,
                class,
                style,
                change_attributes,
                worklet_attributes,
                children,
                generics,
                extra_attr,
                common,
                ..
            } => {
                self.ident(p, "tag_name.location", tag_name, NO);
                self.push_slot_value_scopes(&common.slot_value_refs);
                for a in attributes.iter() {
                    self.normal_attribute(p, a);
                }
                match class {
                    ClassAttribute::None => {}
                    ClassAttribute::String(loc, v) => {
                        self.attr_name(p, "ClassAttribute.String.attr_name", "class.String.0", "class", loc);
                        self.value(p, "class.String.1", v);
                    }
                    ClassAttribute::Multiple(items) => {
                        for (i, v) in items.iter() {
                            self.ident(p, "class.Multiple[].0.location", i, NO);
                            self.value(p, "class.Multiple[].1", v);
                        }
                    }
                    #[allow(unreachable_patterns)]
                    _ => {}
                }
                match style {
                    StyleAttribute::None => {}
                    StyleAttribute::String(loc, v) => {
                        self.attr_name(p, "StyleAttribute.String.attr_name", "style.String.0", "style", loc);
                        self.value(p, "style.String.1", v);
                    }
                    StyleAttribute::Multiple(items) => {
                        for (i, v) in items.iter() {
                            self.ident(p, "style.Multiple[].0.location", i, NO);
                            self.value(p, "style.Multiple[].1", v);
                        }
                    }
                    #[allow(unreachable_patterns)]
                    _ => {}
                }
                for a in change_attributes.iter() {
                    self.attribute(p, "change_attributes[]", "change", a, tr("dash_to_camel"));
                }
                for a in worklet_attributes.iter() {
                    self.static_attribute(p, "worklet_attributes[]", "worklet", a, tr("dash_to_camel"));
                }
                for a in generics.iter() {
                    self.static_attribute(p, "generics[]", "generic", a, NO);
                }
                for a in extra_attr.iter() {
                    self.static_attribute(p, "extra_attr[]", "extra-attr", a, NO);
                }
                self.common(p, common);
                for n in children.iter() {
                    self.node(p, n);
                }
            }
            ElementKind::Pure {
                children,
                slot,
                slot_value_refs,
                ..
            } => {
                self.push_slot_value_scopes(slot_value_refs);
                if let Some(s) = slot.as_ref() {
                    self.named_value(p, "ElementKind.Pure.attr_name", "slot", "slot", s);
                }
                for a in slot_value_refs.iter() {
                    self.slot_value_ref(p, "slot_value_refs[]", a);
                }
                for n in children.iter() {
                    self.node(p, n);
                }
            }
            ElementKind::For {
                list,
                item_name,
                index_name,
                key,
                children,
                ..
            } => {
                self.named_value(p, "ElementKind.For.attr_name", "list", "wx:for", list);
                let sub = [
                    ("item_name", "wx:for-item", item_name),
                    ("index_name", "wx:for-index", index_name),
                    ("key", "wx:key", key),
                ];
                for (field, name, pair) in sub {
                    // when the attribute is absent the parser reuses the `wx:for` range
                    let defaulted = same_loc(&pair.0, &list.0);
                    if defaulted {
                        self.rec(p, "ElementKind.For.attr_name", &format!("{}.0", field), &pair.0, None, false, SYN);
                        self.str_name(p, &format!("{}.1.location", field), &pair.1, SYN);
                    } else {
                        self.attr_name(p, "ElementKind.For.attr_name", &format!("{}.0", field), name, &pair.0);
                        self.str_name(p, &format!("{}.1.location", field), &pair.1, tr("entity_decode"));
                    }
                }
                self.scopes.push(item_name.1.name.to_string());
                self.scopes.push(index_name.1.name.to_string());
                for n in children.iter() {
                    self.node(p, n);
                }
            }
            ElementKind::If {
                branches,
                else_branch,
                ..
            } => {
                for (i, (loc, v, children)) in branches.iter().enumerate() {
                    let name = if i == 0 { "wx:if" } else { "wx:elif" };
                    self.attr_name(p, "ElementKind.If.attr_name", "branches[].0", name, loc);
                    self.value(p, "branches[].1", v);
                    for n in children.iter() {
                        self.node(p, n);
                    }
                }
                if let Some((loc, children)) = else_branch.as_ref() {
                    self.attr_name(p, "ElementKind.If.attr_name", "else_branch.0", "wx:else", loc);
                    for n in children.iter() {
                        self.node(p, n);
                    }
                }
            }
            ElementKind::TemplateRef { target, data, .. } => {
                self.named_value(p, "ElementKind.TemplateRef.attr_name", "target", "is", target);
                self.named_value(p, "ElementKind.TemplateRef.attr_name", "data", "data", data);
            }
            ElementKind::Include { path, .. } => {
                self.attr_name(p, "ElementKind.Include.attr_name", "path.0", "src", &path.0);
                self.str_name(p, "path.1.location", &path.1, tr("entity_decode+strip_suffix(.wxml)"));
            }
            ElementKind::Slot {
                name,
                values,
                common,
                ..
            } => {
                self.push_slot_value_scopes(&common.slot_value_refs);
                self.named_value(p, "ElementKind.Slot.attr_name", "name", "name", name);
                for a in values.iter() {
                    self.attribute(p, "values[]", "", a, tr("dash_to_camel"));
                }
                self.common(p, common);
            }
            #[allow(unreachable_patterns)]
            _ => {}
        }
        self.scopes.truncate(scope_mark);
    }

    fn push_slot_value_scopes(&mut self, refs: &[StaticAttribute]) {
        for a in refs {
            self.scopes.push(a.value.name.to_string());
        }
    }

    fn normal_attribute(&mut self, p: P, a: &NormalAttribute) {
        let extra = match &a.prefix {
            NormalAttributePrefix::None => NO,
            NormalAttributePrefix::Model(loc) => {
                self.tok(p, "NormalAttribute.prefix", "attributes[].prefix.Model.0", loc, "model");
                tr("dash_to_camel")
            }
        };
        self.ident(p, "attributes[].name.location", &a.name, extra);
        if let Some(v) = a.value.as_ref() {
            self.value(p, "attributes[].value", v);
        }
    }

    fn prefix(&mut self, p: P, kind: &str, field: &str, loc: &Loc, text: &str, name: &Ident) -> bool {
        // `data-xxx` is stored as a `data:` attribute with an empty prefix range at the name start
        if is_empty_loc(loc) && loc.start == name.location.start {
            self.rec(p, kind, field, loc, None, false, SYN);
            true
        } else {
            self.tok(p, kind, field, loc, text);
            false
        }
    }

    fn attribute(&mut self, p: P, field: &str, prefix: &str, a: &Attribute, name_extra: Extra) {
        let mut extra = name_extra;
        if let Some(loc) = a.prefix_location.as_ref() {
            let hyphen = self.prefix(p, "Attribute.prefix", &format!("{}.prefix_location", field), loc, prefix, &a.name);
            if hyphen {
                extra = tr("data_hyphen");
            }
        }
        self.ident(p, &format!("{}.name.location", field), &a.name, extra);
        if let Some(v) = a.value.as_ref() {
            self.value(p, &format!("{}.value", field), v);
        }
    }

    fn static_attribute(&mut self, p: P, field: &str, prefix: &str, a: &StaticAttribute, name_extra: Extra) {
        if let Some(loc) = a.prefix_location.as_ref() {
            self.tok(p, "StaticAttribute.prefix", &format!("{}.prefix_location", field), loc, prefix);
        }
        self.ident(p, &format!("{}.name.location", field), &a.name, name_extra);
        self.str_name(p, &format!("{}.value.location", field), &a.value, tr("entity_decode"));
    }

    fn slot_value_ref(&mut self, p: P, field: &str, a: &StaticAttribute) {
        if let Some(loc) = a.prefix_location.as_ref() {
            self.tok(p, "StaticAttribute.prefix", &format!("{}.prefix_location", field), loc, "slot");
        }
        self.ident(p, &format!("{}.name.location", field), &a.name, tr("dash_to_camel"));
        // `slot:a` without a value: the parser copies the (converted) name and its range
        let copied = same_loc(&a.value.location, &a.name.location);
        let extra = if copied { SYN } else { tr("entity_decode") };
        self.str_name(p, &format!("{}.value.location", field), &a.value, extra);
    }

    fn event_binding(&mut self, p: P, ev: &EventBinding) {
        let prefix = match (ev.is_catch, ev.is_mut, ev.is_capture) {
            (true, _, true) => "capture-catch",
            (true, _, false) => "catch",
            (false, true, true) => "capture-mut-bind",
            (false, true, false) => "mut-bind",
            (false, false, true) => "capture-bind",
            (false, false, false) => "bind",
        };
        self.tok(p, "EventBinding.prefix", "common.event_bindings[].prefix_location", &ev.prefix_location, prefix);
        self.ident(p, "common.event_bindings[].name.location", &ev.name, NO);
        if let Some(v) = ev.value.as_ref() {
            self.value(p, "common.event_bindings[].value", v);
        }
    }

    fn common(&mut self, p: P, c: &CommonElementAttributes) {
        if let Some(x) = c.id.as_ref() {
            self.named_value(p, "CommonElementAttributes.attr_name", "common.id", "id", x);
        }
        if let Some(x) = c.slot.as_ref() {
            self.named_value(p, "CommonElementAttributes.attr_name", "common.slot", "slot", x);
        }
        for a in c.slot_value_refs.iter() {
            self.slot_value_ref(p, "common.slot_value_refs[]", a);
        }
        for ev in c.event_bindings.iter() {
            self.event_binding(p, ev);
        }
        for a in c.data.iter() {
            self.attribute(p, "common.data[]", "data", a, NO);
        }
        for a in c.marks.iter() {
            self.attribute(p, "common.marks[]", "mark", a, NO);
        }
    }

    // ---- values and expressions -------------------------------------------------------------

    fn value(&mut self, parent: P, field: &str, v: &Value) {
        match v {
            Value::Static { value, location, .. } => {
                self.rec(parent, "Value.Static", &format!("{}.location", field), location, Some(value), false, tr("entity_decode"));
            }
            Value::Dynamic {
                expression,
                double_brace_location,
                ..
            } => {
                let concat = is_concat(expression);
                let extra = if concat { SYN } else { NO };
                let p = Some(self.rec(parent, "Value.Dynamic", &format!("{}.location()", field), &v.location(), None, false, extra));
                if concat {
                    // the pair belongs to the last `{{ }}` of a text/binding mixture; the second
                    // range is stretched over the text which follows it
                    self.rec(p, "Value.Dynamic.brace", "double_brace_location.0", &double_brace_location.0, Some("{{"), false, SYN);
                    self.expression(p, expression, true);
                    self.rec(p, "Value.Dynamic.brace", "double_brace_location.1", &double_brace_location.1, Some("}}"), false, SYN);
                } else {
                    self.tok(p, "Value.Dynamic.brace", "double_brace_location.0", &double_brace_location.0, "{{");
                    self.expression(p, expression, false);
                    self.tok(p, "Value.Dynamic.brace", "double_brace_location.1", &double_brace_location.1, "}}");
                }
            }
            #[allow(unreachable_patterns)]
            _ => {}
        }
    }

    /// `concat_ctx`: this expression sits on the spine of a text/binding concatenation.
    fn expression(&mut self, parent: P, e: &Expression, concat_ctx: bool) {
        let whole = e.location();
        macro_rules! leaf {
            ($name:expr, $loc:expr, $sp:expr, $exact:expr) => {{
                self.rec(parent, concat!("Expression.", $name), "location", $loc, $sp, $exact, NO);
            }};
        }
        macro_rules! unary {
            ($name:expr, $op:expr, $value:expr, $loc:expr) => {{
                let p = Some(self.rec(parent, concat!("Expression.", $name), "location()", &whole, None, false, NO));
                self.tok(p, concat!("Expression.", $name, ".op"), "location", $loc, $op);
                self.expression(p, $value, false);
            }};
        }
        macro_rules! binary {
            ($name:expr, $op:expr, $left:expr, $right:expr, $loc:expr) => {{
                let p = Some(self.rec(parent, concat!("Expression.", $name), "location()", &whole, None, false, NO));
                self.expression(p, $left, false);
                self.tok(p, concat!("Expression.", $name, ".op"), "location", $loc, $op);
                self.expression(p, $right, false);
            }};
        }
        match e {
            Expression::ScopeRef { location, index } => {
                let name = self.scopes.get(*index).cloned();
                let exact = name.is_some();
                self.rec(parent, "Expression.ScopeRef", "location", location, name.as_deref(), exact, NO);
            }
            Expression::DataField { name, location } => leaf!("DataField", location, Some(name.as_str()), true),
            Expression::ToStringWithoutUndefined { value, location } => {
                let p = Some(self.rec(parent, "Expression.ToStringWithoutUndefined", "location", location, None, false, SYN));
                self.expression(p, value, false);
            }
            Expression::LitUndefined { location } => leaf!("LitUndefined", location, Some("undefined"), true),
            Expression::LitNull { location } => leaf!("LitNull", location, Some("null"), true),
            Expression::LitStr { value, location } => {
                if concat_ctx {
                    // a piece of static text between bindings
                    self.rec(parent, "Expression.LitStr", "location", location, Some(value), false, Extra { transform: Some("entity_decode"), synthetic: true });
                } else {
                    self.rec(parent, "Expression.LitStr", "location", location, Some(value), false, tr("js_string_literal"));
                }
            }
            Expression::LitInt { value, location } => {
                self.rec(parent, "Expression.LitInt", "location", location, Some(&value.to_string()), false, tr("js_number_literal"));
            }
            Expression::LitFloat { value, location } => {
                self.rec(parent, "Expression.LitFloat", "location", location, Some(&format!("{}", value)), false, tr("js_number_literal"));
            }
            Expression::LitBool { value, location } => {
                leaf!("LitBool", location, Some(if *value { "true" } else { "false" }), true)
            }
            Expression::LitObj { fields, brace_location } => {
                let p = Some(self.rec(parent, "Expression.LitObj", "location()", &whole, None, false, NO));
                self.bracket(p, "Expression.LitObj.brace", "brace_location.0", &brace_location.0, "{");
                for f in fields.iter() {
                    match f {
                        ObjectFieldKind::Named {
                            name,
                            location,
                            colon_location,
                            value,
                        } => {
                            self.rec(p, "ObjectFieldKind.Named.name", "fields[].location", location, Some(name), true, NO);
                            if let Some(c) = colon_location.as_ref() {
                                self.tok(p, "ObjectFieldKind.Named.colon", "fields[].colon_location", c, ":");
                            }
                            self.expression(p, value, false);
                        }
                        ObjectFieldKind::Spread { location, value } => {
                            self.tok(p, "ObjectFieldKind.Spread.op", "fields[].location", location, "...");
                            self.expression(p, value, false);
                        }
                    }
                }
                self.bracket(p, "Expression.LitObj.brace", "brace_location.1", &brace_location.1, "}");
            }
            Expression::LitArr { fields, bracket_location } => {
                let p = Some(self.rec(parent, "Expression.LitArr", "location()", &whole, None, false, NO));
                self.bracket(p, "Expression.LitArr.bracket", "bracket_location.0", &bracket_location.0, "[");
                for f in fields.iter() {
                    match f {
                        ArrayFieldKind::Normal { value } => self.expression(p, value, false),
                        ArrayFieldKind::Spread { location, value } => {
                            self.tok(p, "ArrayFieldKind.Spread.op", "fields[].location", location, "...");
                            self.expression(p, value, false);
                        }
                        ArrayFieldKind::EmptySlot => {}
                    }
                }
                self.bracket(p, "Expression.LitArr.bracket", "bracket_location.1", &bracket_location.1, "]");
            }
            Expression::StaticMember {
                obj,
                field_name,
                dot_location,
                field_location,
            } => {
                let p = Some(self.rec(parent, "Expression.StaticMember", "location()", &whole, None, false, NO));
                self.expression(p, obj, false);
                self.tok(p, "Expression.StaticMember.dot", "dot_location", dot_location, ".");
                self.rec(p, "Expression.StaticMember.field_name", "field_location", field_location, Some(field_name), true, NO);
            }
            Expression::DynamicMember {
                obj,
                field_name,
                bracket_location,
            } => {
                let p = Some(self.rec(parent, "Expression.DynamicMember", "location()", &whole, None, false, NO));
                self.expression(p, obj, false);
                self.tok(p, "Expression.DynamicMember.bracket", "bracket_location.0", &bracket_location.0, "[");
                self.expression(p, field_name, false);
                self.tok(p, "Expression.DynamicMember.bracket", "bracket_location.1", &bracket_location.1, "]");
            }
            Expression::FuncCall {
                func,
                args,
                paren_location,
            } => {
                let p = Some(self.rec(parent, "Expression.FuncCall", "location()", &whole, None, false, NO));
                self.expression(p, func, false);
                self.tok(p, "Expression.FuncCall.paren", "paren_location.0", &paren_location.0, "(");
                for a in args.iter() {
                    self.expression(p, a, false);
                }
                self.tok(p, "Expression.FuncCall.paren", "paren_location.1", &paren_location.1, ")");
            }
            Expression::Reverse { value, location } => unary!("Reverse", "!", value, location),
            Expression::BitReverse { value, location } => unary!("BitReverse", "~", value, location),
            Expression::Positive { value, location } => unary!("Positive", "+", value, location),
            Expression::Negative { value, location } => unary!("Negative", "-", value, location),
            Expression::TypeOf { value, location } => unary!("TypeOf", "typeof", value, location),
            Expression::Void { value, location } => unary!("Void", "void", value, location),
            Expression::Multiply { left, right, location } => binary!("Multiply", "*", left, right, location),
            Expression::Divide { left, right, location } => binary!("Divide", "/", left, right, location),
            Expression::Remainer { left, right, location } => binary!("Remainer", "%", left, right, location),
            Expression::Plus { left, right, location } => {
                if concat_ctx && is_concat(e) {
                    let p = Some(self.rec(parent, "Expression.Plus", "location()", &whole, None, false, SYN));
                    self.expression(p, left, true);
                    // the range of the `{{` which starts the binding being appended
                    self.rec(p, "Expression.Plus.op", "location", location, None, false, SYN);
                    self.expression(p, right, true);
                } else {
                    binary!("Plus", "+", left, right, location)
                }
            }
            Expression::Minus { left, right, location } => binary!("Minus", "-", left, right, location),
            Expression::LeftShift { left, right, location } => binary!("LeftShift", "<<", left, right, location),
            Expression::RightShift { left, right, location } => binary!("RightShift", ">>", left, right, location),
            Expression::UnsignedRightShift { left, right, location } => binary!("UnsignedRightShift", ">>>", left, right, location),
            Expression::Lt { left, right, location } => binary!("Lt", "<", left, right, location),
            Expression::Gt { left, right, location } => binary!("Gt", ">", left, right, location),
            Expression::Lte { left, right, location } => binary!("Lte", "<=", left, right, location),
            Expression::Gte { left, right, location } => binary!("Gte", ">=", left, right, location),
            Expression::InstanceOf { left, right, location } => binary!("InstanceOf", "instanceof", left, right, location),
            Expression::Eq { left, right, location } => binary!("Eq", "==", left, right, location),
            Expression::Ne { left, right, location } => binary!("Ne", "!=", left, right, location),
            Expression::EqFull { left, right, location } => binary!("EqFull", "===", left, right, location),
            Expression::NeFull { left, right, location } => binary!("NeFull", "!==", left, right, location),
            Expression::BitAnd { left, right, location } => binary!("BitAnd", "&", left, right, location),
            Expression::BitXor { left, right, location } => binary!("BitXor", "^", left, right, location),
            Expression::BitOr { left, right, location } => binary!("BitOr", "|", left, right, location),
            Expression::LogicAnd { left, right, location } => binary!("LogicAnd", "&&", left, right, location),
            Expression::LogicOr { left, right, location } => binary!("LogicOr", "||", left, right, location),
            Expression::NullishCoalescing { left, right, location } => binary!("NullishCoalescing", "??", left, right, location),
            Expression::Cond {
                cond,
                true_br,
                false_br,
                question_location,
                colon_location,
            } => {
                let p = Some(self.rec(parent, "Expression.Cond", "location()", &whole, None, false, NO));
                self.expression(p, cond, false);
                self.tok(p, "Expression.Cond.question", "question_location", question_location, "?");
                self.expression(p, true_br, false);
                self.tok(p, "Expression.Cond.colon", "colon_location", colon_location, ":");
                self.expression(p, false_br, false);
            }
            #[allow(unreachable_patterns)]
            _ => {
                self.rec(parent, "Expression.?", "location()", &whole, None, false, NO);
            }
        }
    }

    /// `{`/`}` of an object literal; both are empty ranges when the braces are the `{{ }}` itself.
    fn bracket(&mut self, p: P, kind: &str, field: &str, loc: &Loc, text: &str) {
        if is_empty_loc(loc) {
            self.rec(p, kind, field, loc, None, false, SYN);
        } else {
            self.tok(p, kind, field, loc, text);
        }
    }
}

/// Whether `e` is a `+` built by the value parser for a text/binding mixture (`a {{b}} c`).
/// `ToStringWithoutUndefined` is only ever created there.
fn is_concat(e: &Expression) -> bool {
    match e {
        Expression::Plus { left, right, .. } => {
            let tostr = |x: &Expression| matches!(x, Expression::ToStringWithoutUndefined { .. });
            if tostr(left) || tostr(right) {
                return true;
            }
            matches!(&**right, Expression::LitStr { .. }) && is_concat(left)
        }
        _ => false,
    }
}

fn parse_warnings(ps: &tc::parse::ParseState) -> Vec<J> {
    ps.warnings().map(warn_json).collect()
}

/// `ast_locs<TAB>source`
pub fn ast_locs(src: &str) -> String {
    let (template, ps) = tc::parse::parse("p", src);
    let mut d = Dumper {
        nodes: vec![],
        scopes: vec![],
    };
    d.template(&template);
    json!({
        "warnings": parse_warnings(&ps),
        "nodes": d.nodes,
    })
    .to_string()
}

fn print(template: &Template, src: &str, mangling: bool) -> (String, tc::stringify::SourceMap) {
    let mut s = tc::stringify::Stringifier::new(String::new(), "p", src);
    s.set_mangling(mangling);
    template.stringify_write(&mut s).expect("stringify failed");
    s.finish()
}

/// `strmap<TAB>source<TAB>mangling(0|1)`
pub fn strmap(src: &str, mangling: bool) -> String {
    let (template, _ps) = tc::parse::parse("p", src);
    let (output, sm) = print(&template, src, mangling);
    let mut tokens = vec![];
    for t in sm.tokens() {
        tokens.push(json!([
            t.get_dst_line(),
            t.get_dst_col(),
            t.get_src_line(),
            t.get_src_col(),
            t.get_name()
        ]));
    }
    let (template2, ps2) = tc::parse::parse("p", &output);
    let (output2, _) = print(&template2, &output, false);
    json!({
        "output": output,
        "tokens": tokens,
        "reparse_warnings": parse_warnings(&ps2),
        "output2": output2,
    })
    .to_string()
}
