import GE.Model.PathAnalysis
/-!
# C06 (proved part) — no dependency is forgotten by the path analysis

The guard of every binding is printed from the result of `analyze`.  Theorem
`analysis_covers_fields`: for every expression form, every data field read anywhere in the
expression (in any operand, argument, object value, array item after holes/spreads, index
expression, condition or branch) is the root of some path recorded by the analysis — in the
returned state, in the `path_calc` list, or in the nested lists of an object/array/condition
slice.  Hence (with the printers, whose text is compared byte-for-byte with the implementation)
a change of *any* top-level field read by the expression makes its guard inspect that field's
subtree of the update-path tree.  The finer, value-level statement (`guard_sound`) is covered
by the update-vs-create oracle; see DESIGN.md.
-/
namespace GE.PA
open GE GE.Gen

/-! ## what an expression reads -/
mutual
def dataFields : Expr → List String
  | .data x => [x]
  | .scope _ | .undef | .null | .str _ | .int _ | .float _ | .bool _ => []
  | .toStr v => dataFields v
  | .obj fs => dataFieldsObj fs
  | .arr fs => dataFieldsArr fs
  | .smember o _ => dataFields o
  | .dmember o f => dataFields o ++ dataFields f
  | .call f args => dataFields f ++ dataFieldsList args
  | .un _ v => dataFields v
  | .bin _ l r => dataFields l ++ dataFields r
  | .cond c t f => dataFields c ++ dataFields t ++ dataFields f
def dataFieldsList : Exprs → List String
  | .nil => []
  | .cons e r => dataFields e ++ dataFieldsList r
def dataFieldsObj : ObjFields → List String
  | .nil => []
  | .named _ _ v r => dataFields v ++ dataFieldsObj r
  | .spread v r => dataFields v ++ dataFieldsObj r
def dataFieldsArr : ArrFields → List String
  | .nil => []
  | .item v r => dataFields v ++ dataFieldsArr r
  | .spread v r => dataFields v ++ dataFieldsArr r
  | .hole r => dataFieldsArr r
end

/-! ## the roots recorded by the analysis -/
mutual
def rootsSlice : Slice → List String
  | .ident s => [s]
  | .scopeIndex _ | .staticMember _ | .indirect _ => []
  | .combineObj fs => rootsObj fs
  | .combineArr v sp => rootsArr v ++ rootsArr sp
  | .condition _ tp ts fp fs => rootsPas tp ++ rootsList ts ++ rootsPas fp ++ rootsList fs
def rootsPsl : Psl → List String
  | .nil => []
  | .cons s r => rootsSlice s ++ rootsPsl r
def rootsPas : Pas → List String
  | .inPath l => rootsPsl l
  | .notInPath => []
def rootsList : PslList → List String
  | .nil => []
  | .cons l r => rootsPsl l ++ rootsList r
def rootsObj : ObjSubs → List String
  | .nil => []
  | .cons _ p sub r => rootsPas p ++ rootsList sub ++ rootsObj r
def rootsArr : ArrSubs → List String
  | .nil => []
  | .cons p sub r => rootsPas p ++ rootsList sub ++ rootsArr r
end

def rootsRes (r : Res) : List String := rootsPas r.pas ++ rootsList r.pc

/-! ## bookkeeping lemmas -/

theorem mem_rootsPsl_snoc : ∀ (l : Psl) (s : Slice) (x : String),
    x ∈ rootsPsl (l.snoc s) ↔ x ∈ rootsPsl l ∨ x ∈ rootsSlice s
  | .nil, s, x => by simp [Psl.snoc, rootsPsl]
  | .cons a r, s, x => by simp [Psl.snoc, rootsPsl, mem_rootsPsl_snoc r s x, or_assoc]

theorem mem_rootsList_append : ∀ (a b : PslList) (x : String),
    x ∈ rootsList (a.append b) ↔ x ∈ rootsList a ∨ x ∈ rootsList b
  | .nil, b, x => by simp [PslList.append, rootsList]
  | .cons l r, b, x => by simp [PslList.append, rootsList, mem_rootsList_append r b x, or_assoc]

theorem mem_rootsList_endPath (pas : Pas) (pc : PslList) (x : String) :
    x ∈ rootsList (endPath pas pc) ↔ x ∈ rootsPas pas ∨ x ∈ rootsList pc := by
  cases pas with
  | inPath l => simp [endPath, mem_rootsList_append, rootsList, rootsPas, or_comm]
  | notInPath => simp [endPath, rootsPas]

theorem mem_rootsArr_snoc : ∀ (a : ArrSubs) (p : Pas) (sub : PslList) (x : String),
    x ∈ rootsArr (a.snoc p sub) ↔ x ∈ rootsArr a ∨ x ∈ rootsPas p ∨ x ∈ rootsList sub
  | .nil, p, sub, x => by simp [ArrSubs.snoc, rootsArr]
  | .cons p' s' r, p, sub, x => by simp [ArrSubs.snoc, rootsArr, mem_rootsArr_snoc r p sub x, or_assoc]

/-! ## the statements proved by mutual induction -/

def Covers (scopes : List ScopeInfo) (e : Expr) : Prop :=
  ∀ n x, x ∈ dataFields e → x ∈ rootsRes (analyze scopes e n)

def CoversList (scopes : List ScopeInfo) (a : Exprs) : Prop :=
  ∀ n x, x ∈ dataFieldsList a → x ∈ rootsList (analyzeList scopes a n).pc

def CoversObj (scopes : List ScopeInfo) (fs : ObjFields) : Prop :=
  ∀ n x, x ∈ dataFieldsObj fs → x ∈ rootsObj (analyzeObj scopes fs n).subs

def CoversArr (scopes : List ScopeInfo) (fs : ArrFields) : Prop :=
  ∀ n main spread x,
    (x ∈ dataFieldsArr fs ∨ x ∈ rootsArr main ∨ x ∈ rootsArr spread) →
      x ∈ rootsArr (analyzeArr scopes fs n main spread).main ∨
      x ∈ rootsArr (analyzeArr scopes fs n main spread).spread

theorem mem_rootsRes_endPath {r : Res} {x : String} (h : x ∈ rootsRes r) :
    x ∈ rootsList (endPath r.pas r.pc) := by
  rw [mem_rootsList_endPath]
  simpa [rootsRes] using h

mutual
theorem covers (scopes : List ScopeInfo) : ∀ e, Covers scopes e
  | .data y => fun n x hx => by
    simp only [dataFields, List.mem_singleton] at hx
    subst hx
    simp [analyze, rootsRes, rootsPas, rootsPsl, rootsSlice]
  | .scope i => fun n x hx => by simp [dataFields] at hx
  | .undef => fun n x hx => by simp [dataFields] at hx
  | .null => fun n x hx => by simp [dataFields] at hx
  | .str _ => fun n x hx => by simp [dataFields] at hx
  | .int _ => fun n x hx => by simp [dataFields] at hx
  | .float _ => fun n x hx => by simp [dataFields] at hx
  | .bool _ => fun n x hx => by simp [dataFields] at hx
  | .toStr v => fun n x hx => by
    have := covers scopes v n x (by simpa [dataFields] using hx)
    simp only [analyze, rootsRes, rootsPas, List.nil_append]
    exact mem_rootsRes_endPath this
  | .obj fs => fun n x hx => by
    have := covers_obj scopes fs n x (by simpa [dataFields] using hx)
    simpa [analyze, rootsRes, rootsPas, rootsPsl, rootsSlice, rootsList] using this
  | .arr fs => fun n x hx => by
    have := covers_arr scopes fs n .nil .nil x (Or.inl (by simpa [dataFields] using hx))
    simpa [analyze, rootsRes, rootsPas, rootsPsl, rootsSlice, rootsList] using this
  | .smember o f => fun n x hx => by
    have h := covers scopes o n x (by simpa [dataFields] using hx)
    simp only [analyze]
    simp only [rootsRes] at h
    split
    · rename_i l hl
      simp only [rootsRes, rootsPas, List.mem_append, mem_rootsPsl_snoc]
      rw [hl] at h
      simp only [rootsPas, List.mem_append] at h
      rcases h with h | h
      · exact Or.inl (Or.inl h)
      · exact Or.inr h
    · rename_i hl
      rw [hl] at h
      simpa [rootsRes, rootsPas] using h
  | .dmember o f => fun n x hx => by
    simp only [dataFields, List.mem_append] at hx
    simp only [analyze]
    have key : x ∈ rootsPas (analyze scopes o (analyze scopes f (n + 1)).next).pas ∨
        x ∈ rootsList ((endPath (analyze scopes f (n + 1)).pas (analyze scopes f (n + 1)).pc).append
          (analyze scopes o (analyze scopes f (n + 1)).next).pc) := by
      rw [mem_rootsList_append, mem_rootsList_endPath]
      rcases hx with hx | hx
      · have := covers scopes o (analyze scopes f (n + 1)).next x hx
        simp only [rootsRes, List.mem_append] at this
        rcases this with h | h
        · exact Or.inl h
        · exact Or.inr (Or.inr h)
      · have := covers scopes f (n + 1) x hx
        simp only [rootsRes, List.mem_append] at this
        exact Or.inr (Or.inl this)
    split
    · rename_i l hl
      rw [hl] at key
      simp only [rootsRes, rootsPas, List.mem_append, mem_rootsPsl_snoc]
      simp only [rootsPas] at key
      rcases key with h | h
      · exact Or.inl (Or.inl h)
      · exact Or.inr h
    · rename_i hl
      rw [hl] at key
      simpa [rootsRes, rootsPas] using key
  | .call f args => fun n x hx => by
    simp only [dataFields, List.mem_append] at hx
    simp only [analyze, rootsRes, rootsPas, List.nil_append, mem_rootsList_append]
    rcases hx with hx | hx
    · exact Or.inl (mem_rootsRes_endPath (covers scopes f n x hx))
    · exact Or.inr (covers_list scopes args _ x hx)
  | .un _ v => fun n x hx => by
    have := covers scopes v n x (by simpa [dataFields] using hx)
    simp only [analyze, rootsRes, rootsPas, List.nil_append]
    exact mem_rootsRes_endPath this
  | .bin op l r => fun n x hx => by
    simp only [dataFields, List.mem_append] at hx
    simp only [analyze]
    split
    · simp only [rootsRes, rootsPas, List.nil_append, mem_rootsList_append]
      rcases hx with hx | hx
      · exact Or.inl (mem_rootsRes_endPath (covers scopes l _ x hx))
      · exact Or.inr (mem_rootsRes_endPath (covers scopes r _ x hx))
    · simp only [rootsRes, rootsPas, List.nil_append, mem_rootsList_append]
      rcases hx with hx | hx
      · exact Or.inl (mem_rootsRes_endPath (covers scopes l _ x hx))
      · exact Or.inr (mem_rootsRes_endPath (covers scopes r _ x hx))
  | .cond c t f => fun n x hx => by
    simp only [dataFields, List.mem_append] at hx
    simp only [analyze, rootsRes, rootsPas, rootsPsl, rootsSlice, List.append_nil, List.mem_append]
    rcases hx with (hx | hx) | hx
    · exact Or.inr (mem_rootsRes_endPath (covers scopes c _ x hx))
    · have := covers scopes t (analyze scopes c (n + 1)).next x hx
      simp only [rootsRes, List.mem_append] at this
      rcases this with h | h
      · exact Or.inl (Or.inl (Or.inl (Or.inl h)))
      · exact Or.inl (Or.inl (Or.inl (Or.inr h)))
    · have := covers scopes f (analyze scopes t (analyze scopes c (n + 1)).next).next x hx
      simp only [rootsRes, List.mem_append] at this
      rcases this with h | h
      · exact Or.inl (Or.inl (Or.inr h))
      · exact Or.inl (Or.inr h)
theorem covers_list (scopes : List ScopeInfo) : ∀ a, CoversList scopes a
  | .nil => fun n x hx => by simp [dataFieldsList] at hx
  | .cons e r => fun n x hx => by
    simp only [dataFieldsList, List.mem_append] at hx
    simp only [analyzeList, mem_rootsList_append]
    rcases hx with hx | hx
    · exact Or.inl (mem_rootsRes_endPath (covers scopes e n x hx))
    · exact Or.inr (covers_list scopes r _ x hx)
theorem covers_obj (scopes : List ScopeInfo) : ∀ fs, CoversObj scopes fs
  | .nil => fun n x hx => by simp [dataFieldsObj] at hx
  | .named k s v r => fun n x hx => by
    simp only [dataFieldsObj, List.mem_append] at hx
    simp only [analyzeObj, rootsObj, List.mem_append]
    rcases hx with hx | hx
    · have := covers scopes v n x hx
      simp only [rootsRes, List.mem_append] at this
      exact Or.inl this
    · exact Or.inr (covers_obj scopes r _ x hx)
  | .spread v r => fun n x hx => by
    simp only [dataFieldsObj, List.mem_append] at hx
    simp only [analyzeObj, rootsObj, List.mem_append]
    rcases hx with hx | hx
    · have := covers scopes v n x hx
      simp only [rootsRes, List.mem_append] at this
      exact Or.inl this
    · exact Or.inr (covers_obj scopes r _ x hx)
theorem covers_arr (scopes : List ScopeInfo) : ∀ fs, CoversArr scopes fs
  | .nil => fun n main spread x hx => by
    simp only [dataFieldsArr, List.not_mem_nil, false_or] at hx
    simpa [analyzeArr] using hx
  | .item v r => fun n main spread x hx => by
    simp only [dataFieldsArr, List.mem_append] at hx
    have hv : x ∈ dataFields v → x ∈ rootsPas (analyze scopes v n).pas ∨ x ∈ rootsList (analyze scopes v n).pc := by
      intro h; simpa [rootsRes] using covers scopes v n x h
    simp only [analyzeArr]
    split
    · apply covers_arr scopes r
      rw [mem_rootsArr_snoc]
      rcases hx with (hx | hx) | hx | hx
      · exact Or.inr (Or.inl (Or.inr (hv hx)))
      · exact Or.inl hx
      · exact Or.inr (Or.inl (Or.inl hx))
      · exact Or.inr (Or.inr hx)
    · apply covers_arr scopes r
      rw [mem_rootsArr_snoc]
      rcases hx with (hx | hx) | hx | hx
      · exact Or.inr (Or.inr (Or.inr (hv hx)))
      · exact Or.inl hx
      · exact Or.inr (Or.inl hx)
      · exact Or.inr (Or.inr (Or.inl hx))
  | .spread v r => fun n main spread x hx => by
    simp only [dataFieldsArr, List.mem_append] at hx
    have hv : x ∈ dataFields v → x ∈ rootsPas (analyze scopes v n).pas ∨ x ∈ rootsList (analyze scopes v n).pc := by
      intro h; simpa [rootsRes] using covers scopes v n x h
    simp only [analyzeArr]
    apply covers_arr scopes r
    rw [mem_rootsArr_snoc]
    rcases hx with (hx | hx) | hx | hx
    · exact Or.inr (Or.inr (Or.inr (hv hx)))
    · exact Or.inl hx
    · exact Or.inr (Or.inl hx)
    · exact Or.inr (Or.inr (Or.inl hx))
  | .hole r => fun n main spread x hx => by
    simp only [dataFieldsArr] at hx
    simp only [analyzeArr]
    split
    · apply covers_arr scopes r
      rw [mem_rootsArr_snoc]
      rcases hx with hx | hx | hx
      · exact Or.inl hx
      · exact Or.inr (Or.inl (Or.inl hx))
      · exact Or.inr (Or.inr hx)
    · apply covers_arr scopes r
      rw [mem_rootsArr_snoc]
      rcases hx with hx | hx | hx
      · exact Or.inl hx
      · exact Or.inr (Or.inl hx)
      · exact Or.inr (Or.inr (Or.inl hx))
end

/-- **No dependency root is forgotten**: every data field read anywhere in `e` is the root of a
path recorded by the analysis from which the guard expression is printed. -/
theorem analysis_covers_fields (scopes : List ScopeInfo) (e : Expr) (x : String)
    (h : x ∈ dataFields e) :
    x ∈ rootsPas (prepareAnalysis scopes e).pas ++ rootsList (prepareAnalysis scopes e).pc :=
  covers scopes e 0 x h

/-- non-vacuity: `[ , {p: f(b)}.p ]` — `b` sits behind a hole, in an object value, in a call argument -/
example : "b" ∈ dataFields (.arr (.hole (.item (.smember (.obj (.named "p" false
    (.call (.data "f") (.cons (.data "b") .nil)) .nil)) "p") .nil))) := by
  simp [dataFields, dataFieldsArr, dataFieldsObj, dataFieldsList]

end GE.PA
