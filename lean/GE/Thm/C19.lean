import GE.Model.CssOutput
import GE.Extracted.CssOutputShape
/-!
# C19 — the generated column of every source-map entry is the token's real UTF-16 column

For every sequence of output operations: the running counter equals the UTF-16 length of the text
written so far (`utf16_len_invariant`), so the column recorded for a token is exactly the UTF-16
length of the output before it (`dst_col_exact`); entries are recorded in non-decreasing order.
(The output is a single line unless a token's own text contains a line break.)
-/
namespace GE.CssOut

/-- the writers in `output.rs` still have the statement sequence this model mirrors (re-extracted every run) -/
theorem output_shape_ok :
    GE.Extracted.outputShape_append_raw = true ∧ GE.Extracted.outputShape_append_token = true ∧
    GE.Extracted.outputShape_append_token_space_preserved = true := by decide

theorem utf16Length_append (a b : List Char) : utf16Length (a ++ b) = utf16Length a + utf16Length b := by
  induction a with
  | nil => simp [utf16Length]
  | cons c cs ih => simp [utf16Length, ih]; omega

def Inv (o : Output) : Prop := o.utf16Len = utf16Length o.s

theorem step_inv (o : Output) (op : Op) (h : Inv o) : Inv (o.step op) := by
  cases op with
  | raw t => simp [Inv, Output.step, Output.appendRaw, utf16Length_append] at *; omega
  | token n t =>
    simp only [Inv, Output.step, Output.appendToken] at *
    split
    · simp [utf16Length_append, utf16Length, utf16Width, h]; omega
    · simp [utf16Length_append, h]
  | space => simp [Inv, Output.step, Output.appendSpace, utf16Length_append, utf16Length, utf16Width] at *; omega

/-- **The counter is always the UTF-16 length of the text written so far.** -/
theorem utf16_len_invariant (ops : List Op) : (run ops).utf16Len = utf16Length (run ops).s := by
  have : ∀ o, Inv o → Inv (ops.foldl Output.step o) := by
    induction ops with
    | nil => intro o h; exact h
    | cons op r ih => intro o h; exact ih _ (step_inv o op h)
  exact this _ rfl

/-- **The column recorded for a token is the UTF-16 length of everything written before its text**
(after the separator blank, if one was needed). -/
theorem dst_col_exact (pre : List Op) (needsSep : Bool) (text : List Char) :
    let before := run pre
    let after := before.appendToken needsSep text
    ∃ col, after.entries = before.entries ++ [col] ∧
      col = utf16Length (before.s ++ (if needsSep then [' '] else [])) ∧
      after.s = before.s ++ (if needsSep then [' '] else []) ++ text := by
  have h := utf16_len_invariant pre
  simp only [Output.appendToken]
  cases needsSep with
  | true => exact ⟨_, rfl, by simp [utf16Length_append, utf16Length, utf16Width, h], by simp⟩
  | false => exact ⟨_, rfl, by simp [h], by simp⟩

theorem step_len_mono (o : Output) (op : Op) : o.utf16Len ≤ (o.step op).utf16Len := by
  cases op with
  | raw t => simp [Output.step, Output.appendRaw]
  | token n t => simp only [Output.step, Output.appendToken]; split <;> simp <;> omega
  | space => simp [Output.step, Output.appendSpace]

def Sorted (l : List Nat) (bound : Nat) : Prop := l.Pairwise (· ≤ ·) ∧ ∀ x ∈ l, x ≤ bound

theorem step_sorted (o : Output) (op : Op) (h : Sorted o.entries o.utf16Len) :
    Sorted (o.step op).entries (o.step op).utf16Len := by
  have hm := step_len_mono o op
  cases op with
  | raw t => exact ⟨h.1, fun x hx => Nat.le_trans (h.2 x hx) hm⟩
  | space => exact ⟨h.1, fun x hx => Nat.le_trans (h.2 x hx) hm⟩
  | token n t =>
    simp only [Output.step, Output.appendToken] at *
    split
    · refine ⟨?_, ?_⟩
      · rw [List.pairwise_append]
        refine ⟨h.1, by simp, ?_⟩
        intro a ha b hb; simp at hb; subst hb; have := h.2 a ha; simp; omega
      · intro x hx; simp at hx; rcases hx with hx | rfl
        · have := h.2 x hx; simp; omega
        · simp
    · refine ⟨?_, ?_⟩
      · rw [List.pairwise_append]
        refine ⟨h.1, by simp, ?_⟩
        intro a ha b hb; simp at hb; subst hb; exact h.2 a ha
      · intro x hx; simp at hx; rcases hx with hx | rfl
        · have := h.2 x hx; omega
        · omega

/-- **Entries appear in non-decreasing generated-column order.** -/
theorem entries_nondecreasing (ops : List Op) : (run ops).entries.Pairwise (· ≤ ·) := by
  have : ∀ o, Sorted o.entries o.utf16Len → Sorted (ops.foldl Output.step o).entries (ops.foldl Output.step o).utf16Len := by
    induction ops with
    | nil => intro o h; exact h
    | cons op r ih => intro o h; exact ih _ (step_sorted o op h)
  exact (this Output.empty ⟨by simp [Output.empty], by simp [Output.empty]⟩).1

/-- non-vacuity: an astral character counts two columns -/
example : (run [.token false "a😀".toList, .token true "b".toList]).entries = [0, 4] := by decide

end GE.CssOut
