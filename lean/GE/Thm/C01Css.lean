/-
C01, stylesheet side — the rule loop of the stylesheet transformer makes progress: every iteration of `parse_rules` hands a strictly
shorter token list to the next one (`rules_progress`), because every rule parser returns a suffix of its input (`qualLoop_rest`,
`atLoop_rest`, `importConds_rest`, `importMedia_rest`, `skipRule_rest`) and consumes at least its first token.  This is the statement a
rule parser that rewinds without consuming (an `Err` inside `try_parse`) violates — the hang with unbounded allocation of seeded change
C01-6; the model is compared with the real transformer on every generated stylesheet (`corr:css`), where such a change shows as an
abort of the real side.
-/
import GE.Model.Css

namespace GE.Css

theorem dropWs_le : ∀ ts : List Tok, (dropWs ts).length ≤ ts.length
  | [] => by simp [dropWs]
  | t :: ts => by
    unfold dropWs
    split
    · have := dropWs_le ts; simp; omega
    · simp

theorem qualLoop_rest (st : St) : ∀ (ts : List Tok) (a b c : Bool), (qualLoop st ts a b c).2.length ≤ ts.length
  | [], _, _, _ => by simp [qualLoop]
  | t :: ts, a, b, c => by
    unfold qualLoop
    split <;> first
      | (simp; done)
      | (exact Nat.le_succ_of_le (qualLoop_rest _ ts _ _ _))
termination_by ts => ts.length

theorem qualLoop_progress (st : St) (t : Tok) (ts : List Tok) (a b c : Bool) : (qualLoop st (t :: ts) a b c).2.length < (t :: ts).length := by
  unfold qualLoop
  split <;> first
    | (simp; done)
    | (exact Nat.lt_succ_of_le (qualLoop_rest _ ts _ _ _))

theorem atLoop_rest (nested : St → List Tok → St) (cr : Bool) (n : Nat) : ∀ (st : St) (ts : List Tok), (atLoop nested cr n st ts).2.length ≤ ts.length
  | _, [] => by simp [atLoop]
  | st, t :: ts => by
    unfold atLoop
    split <;> first
      | (simp; done)
      | (exact Nat.le_succ_of_le (atLoop_rest nested cr n _ ts))

theorem skipRule_rest : ∀ ts : List Tok, (skipRule ts).length ≤ ts.length
  | [] => by simp [skipRule]
  | t :: ts => by
    unfold skipRule
    split <;> first
      | (simp; done)
      | (exact Nat.le_succ_of_le (skipRule_rest ts))

theorem importConds_rest : ∀ (st : St) (cl : List Pos) (ts : List Tok), (importConds st cl ts).rest.length ≤ ts.length
  | _, _, [] => by simp [importConds]
  | st, cl, t :: ts => by
    unfold importConds
    split
    all_goals first
      | (simp; done)
      | (exact Nat.le_succ_of_le (importConds_rest _ _ ts))
      | (split <;> first | (simp; done) | (exact Nat.le_succ_of_le (importConds_rest _ _ ts)) | (split <;> first | (simp; done) | (exact Nat.le_succ_of_le (importConds_rest _ _ ts))))

theorem importMedia_rest : ∀ (st : St) (p : Pos) (ts : List Tok), (importMedia st p ts).2.2.length ≤ ts.length
  | _, _, [] => by simp [importMedia]
  | st, p, t :: ts => by
    unfold importMedia
    split <;> first
      | (simp; done)
      | (exact Nat.le_succ_of_le (importMedia_rest _ _ ts))


theorem splitAtCurly_rest : ∀ (ts acc : List Tok) (r : List Tok × Tok × List Tok), splitAtCurly ts acc = some r → r.2.2.length < ts.length :=
  fun _ _ _ h => splitAtCurly_len h

theorem hostHead_rest : ∀ (ts : List Tok) (b : Bool) (r : List Tok), hostHead ts = some (b, r) → r.length < ts.length
  | [], _, _, h => by simp [hostHead] at h
  | t :: ts, b, r, h => by
    unfold hostHead at h
    split at h
    · rename_i r0 heq
      cases heq
      have hd := dropWs_le ts
      split at h
      · rename_i r' hdw
        cases h
        rw [hdw] at hd; simp at hd ⊢; omega
      · rename_i r' hdw
        cases h
        rw [hdw] at hd; simp at hd ⊢; omega
      · cases h
    · cases h

/-- a qualified rule consumes at least its first token -/
theorem qualRule_progress (st : St) (t : Tok) (ts : List Tok) (hw : t.isWs = false) :
    (qualRule st (t :: ts)).2.length < (t :: ts).length := by
  have hdw : dropWs (t :: ts) = t :: ts := by simp [dropWs, hw]
  unfold qualRule
  simp only [hdw]
  have hgen := qualLoop_progress st t ts true false false
  split
  · split
    · exact hgen
    · rename_i isFn r hh
      have hr := hostHead_rest _ _ _ hh
      split
      · simp
      · rename_i sel curly rest hs
        have := splitAtCurly_rest _ _ _ hs
        simp only at this
        split
        · simp only; omega
        · split <;> (simp only; omega)
  · exact hgen

theorem importRule_rest (st : St) (sign : String) (a : Bool) (p : Pos) (ts : List Tok) : (importRule st sign a p ts).2.length ≤ ts.length := by
  unfold importRule
  generalize (if a = true then st else st.warn WarnK.illegalImportPosition p) = st0
  have hsk := skipRule_rest ts
  have hdw := dropWs_le ts
  simp only
  split
  · rename_i t r hd
    rw [hd] at hdw
    simp only [List.length_cons] at hdw
    have hc := importConds_rest st0 [] r
    split
    · exact hsk
    · by_cases herr : (importConds st0 [] r).err = true
      · simp only [herr, if_true]; exact hsk
      · simp only [herr, Bool.false_eq_true, if_false]
        cases hmed : (importConds st0 [] r).hasMedia with
        | false =>
          simp only [Bool.false_eq_true, if_false]
          omega
        | true =>
          have hm := importMedia_rest ((importConds st0 [] r).st.tok (.leaf (.at "media")) p) (nextPos (importConds st0 [] r).rest p) (importConds st0 [] r).rest
          simp only [if_true]
          split
          · exact hsk
          · simp only
            omega
  · exact hsk

theorem atRule_rest (nested : St → List Tok → St) (st : St) (name : String) (pos : Pos) (a : Bool) (ts : List Tok) :
    (atRule nested st name pos a ts).2.length ≤ ts.length := by
  unfold atRule
  split
  · exact importRule_rest _ _ _ _ _
  · exact atLoop_rest _ _ _ _ _

/-- what one iteration of `parse_rules` leaves for the next one -/
def stepRest (nested : St → List Tok → St) (st : St) (atStart : Bool) (ts : List Tok) : List Tok :=
  match dropWs ts with
  | [] => []
  | .leaf (.at name) pos :: r => (atRule nested st name pos atStart r).2
  | ts' => (qualRule st ts').2

theorem dropWs_head : ∀ (ts : List Tok) (t : Tok) (r : List Tok), dropWs ts = t :: r → t.isWs = false
  | [], _, _, h => by simp [dropWs] at h
  | x :: xs, t, r, h => by
    unfold dropWs at h
    split at h
    · exact dropWs_head xs t r h
    · rename_i hx
      cases h
      simpa using hx

/-- every iteration of the rule loop hands a strictly shorter token list to the next one -/
theorem rules_progress (nested : St → List Tok → St) (st : St) (atStart : Bool) (ts : List Tok) (hne : dropWs ts ≠ []) :
    (stepRest nested st atStart ts).length < ts.length := by
  have hle := dropWs_le ts
  unfold stepRest
  split
  · rename_i h; exact absurd h hne
  · rename_i name pos r h
    have := atRule_rest nested st name pos atStart r
    rw [h] at hle; simp at hle; omega
  · rename_i ts' _ _
    cases hts : dropWs ts with
    | nil => exact absurd hts hne
    | cons t r =>
      have hw := dropWs_head ts t r hts
      have := qualRule_progress st t r hw
      rw [hts] at hle
      simp at hle this ⊢
      omega

end GE.Css
