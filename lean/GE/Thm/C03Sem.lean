/-
C03 — `gen_preserves`: the JavaScript the expression generator emits has the value of the WXML expression.

For every expression without a spread operand (those are emitted through `Object.assign` / `[].concat`), every
allowed level and every counter: after the hoisted `var` statements have run in order, the value tree the
model of `to_proc_gen_rec` emits (`(gen …).js`, which `gen_derives` shows is what JavaScript reads in the
emitted tokens) evaluates to the value of the WXML expression — null-safe member reads through `X`, calls
through `P`, `a ?? b` through the temporary `$t != null ? $t : b`, conditionals through their hoisted
condition, index expressions through their hoisted index — for EVERY interpretation of the primitive
operations that is total and free of side effects.  The content of the proof is the discipline of the
temporaries: each is assigned before it is read, none is assigned twice, nested and sibling uses never
collide (the counter is threaded), and no later statement disturbs an earlier value.
-/
import GE.Model.JsSem
import GE.Thm.C02VarName

namespace GE.Sem
open GE.Spec (Js JsList JsItems JsFields)
open GE.Gen

variable {V : Type} (S : Ops V)

/-! ## frame: a tree's value depends only on the identifiers it reads -/

mutual
theorem evalJs_congr : ∀ (j : Js) (ρ1 ρ2 : String → V), (∀ x ∈ ids j, ρ1 x = ρ2 x) → evalJs S ρ1 j = evalJs S ρ2 j
  | .id s, ρ1, ρ2, h => by simp [evalJs, h s (by simp [ids])]
  | .num _, _, _, _ => rfl
  | .str _, _, _, _ => rfl
  | .member o n, ρ1, ρ2, h => by simp [evalJs, evalJs_congr o ρ1 ρ2 (fun x hx => h x (by simpa [ids] using hx))]
  | .index o i, ρ1, ρ2, h => by
    simp [evalJs, evalJs_congr o ρ1 ρ2 (fun x hx => h x (by simp [ids, hx])),
      evalJs_congr i ρ1 ρ2 (fun x hx => h x (by simp [ids, hx]))]
  | .call f args, ρ1, ρ2, h => by
    simp [evalJs, evalJs_congr f ρ1 ρ2 (fun x hx => h x (by simp [ids, hx])),
      evalJsList_congr args ρ1 ρ2 (fun x hx => h x (by simp [ids, hx]))]
  | .un op e, ρ1, ρ2, h => by simp [evalJs, evalJs_congr e ρ1 ρ2 (fun x hx => h x (by simpa [ids] using hx))]
  | .bin op a b, ρ1, ρ2, h => by
    simp [evalJs, evalJs_congr a ρ1 ρ2 (fun x hx => h x (by simp [ids, hx])),
      evalJs_congr b ρ1 ρ2 (fun x hx => h x (by simp [ids, hx]))]
  | .cond c t f, ρ1, ρ2, h => by
    simp [evalJs, evalJs_congr c ρ1 ρ2 (fun x hx => h x (by simp [ids, hx])),
      evalJs_congr t ρ1 ρ2 (fun x hx => h x (by simp [ids, hx])),
      evalJs_congr f ρ1 ρ2 (fun x hx => h x (by simp [ids, hx]))]
  | .arr items, ρ1, ρ2, h => by simp [evalJs, evalJsItems_congr items ρ1 ρ2 (fun x hx => h x (by simpa [ids] using hx))]
  | .obj fs, ρ1, ρ2, h => by simp [evalJs, evalJsFields_congr fs ρ1 ρ2 (fun x hx => h x (by simpa [ids] using hx))]
theorem evalJsList_congr : ∀ (l : JsList) (ρ1 ρ2 : String → V), (∀ x ∈ idsList l, ρ1 x = ρ2 x) → evalJsList S ρ1 l = evalJsList S ρ2 l
  | .nil, _, _, _ => rfl
  | .cons e r, ρ1, ρ2, h => by
    simp [evalJsList, evalJs_congr e ρ1 ρ2 (fun x hx => h x (by simp [idsList, hx])),
      evalJsList_congr r ρ1 ρ2 (fun x hx => h x (by simp [idsList, hx]))]
theorem evalJsItems_congr : ∀ (l : JsItems) (ρ1 ρ2 : String → V), (∀ x ∈ idsItems l, ρ1 x = ρ2 x) → evalJsItems S ρ1 l = evalJsItems S ρ2 l
  | .nil, _, _, _ => rfl
  | .item e r, ρ1, ρ2, h => by
    simp [evalJsItems, evalJs_congr e ρ1 ρ2 (fun x hx => h x (by simp [idsItems, hx])),
      evalJsItems_congr r ρ1 ρ2 (fun x hx => h x (by simp [idsItems, hx]))]
  | .hole r, ρ1, ρ2, h => by
    simp [evalJsItems, evalJsItems_congr r ρ1 ρ2 (fun x hx => h x (by simpa [idsItems] using hx))]
theorem evalJsFields_congr : ∀ (l : JsFields) (ρ1 ρ2 : String → V), (∀ x ∈ idsFields l, ρ1 x = ρ2 x) → evalJsFields S ρ1 l = evalJsFields S ρ2 l
  | .nil, _, _, _ => rfl
  | .field k v r, ρ1, ρ2, h => by
    simp [evalJsFields, evalJs_congr v ρ1 ρ2 (fun x hx => h x (by simp [idsFields, hx])),
      evalJsFields_congr r ρ1 ρ2 (fun x hx => h x (by simp [idsFields, hx]))]
end

theorem runStmts_append (ρ : String → V) : ∀ (a b : List Stmt), runStmts S ρ (a ++ b) = runStmts S (runStmts S ρ a) b := by
  intro a
  induction a generalizing ρ with
  | nil => intro b; rfl
  | cons s r ih => intro b; simp [runStmts, ih]

/-! ## names -/

def Own (n m : Nat) (x : String) : Prop := ∃ k, n ≤ k ∧ k < m ∧ x = privName k

def isBase (scopes : List ScopeInfo) (x : String) : Prop :=
  x = "D" ∨ x = "X" ∨ x = "Y" ∨ x = "P" ∨ (∃ i, x = (scopeAt scopes i).var) ∨
    x ∈ ["undefined", "null", "true", "false", "Infinity"]

/-- the temporaries `$…` are pairwise distinct and are none of the names the environment provides -/
structure Fresh (scopes : List ScopeInfo) : Prop where
  inj : ∀ a b, privName a = privName b → a = b
  notBase : ∀ k, ¬ isBase scopes (privName k)
  notConst : ∀ k, constOf S (privName k) = none

theorem own_mono {n m m' : Nat} {x : String} (h : Own n m x) (hm : m ≤ m') : Own n m' x := by
  obtain ⟨k, h1, h2, h3⟩ := h; exact ⟨k, h1, by omega, h3⟩

theorem own_mono_left {n n' m : Nat} {x : String} (h : Own n m x) (hn : n' ≤ n) : Own n' m x := by
  obtain ⟨k, h1, h2, h3⟩ := h; exact ⟨k, by omega, h2, h3⟩

variable {S} in
theorem not_own_of_own {scopes} (hf : Fresh S scopes) {n m m' : Nat} {x : String} (h : Own n m x) : ¬ Own m m' x := by
  rintro ⟨k', h1, _, h3⟩
  obtain ⟨k, _, h2, rfl⟩ := h
  have := hf.inj _ _ h3
  omega

variable {S} in
theorem not_own_of_base {scopes} (hf : Fresh S scopes) {n m : Nat} {x : String} (h : isBase scopes x) : ¬ Own n m x := by
  rintro ⟨k, _, _, rfl⟩; exact hf.notBase k h

/-- what the environment provides: the data, the helpers, the scope variables -/
structure EnvOk (scopes : List ScopeInfo) (D : V) (sc : Nat → V) (ρ : String → V) : Prop where
  hD : ρ "D" = D
  hX : ∀ v, S.call (ρ "X") [v] = S.X v
  hY : ∀ v, S.call (ρ "Y") [v] = S.Y v
  hP : ∀ v, S.call (ρ "P") [v] = S.P v
  hsc : ∀ i, evalJs S ρ (.id (scopeAt scopes i).var) = sc i

theorem envOk_agree {scopes D sc} {ρ ρ' : String → V} (h : EnvOk S scopes D sc ρ)
    (ha : ∀ x, isBase scopes x → ρ' x = ρ x) : EnvOk S scopes D sc ρ' := by
  refine ⟨?_, ?_, ?_, ?_, ?_⟩
  · rw [ha "D" (Or.inl rfl)]; exact h.hD
  · intro v; rw [ha "X" (Or.inr (Or.inl rfl))]; exact h.hX v
  · intro v; rw [ha "Y" (Or.inr (Or.inr (Or.inl rfl)))]; exact h.hY v
  · intro v; rw [ha "P" (Or.inr (Or.inr (Or.inr (Or.inl rfl))))]; exact h.hP v
  · intro i
    rw [← h.hsc i]
    simp only [evalJs]
    rw [ha _ (Or.inr (Or.inr (Or.inr (Or.inr (Or.inl ⟨i, rfl⟩)))))]

/-! ## the invariant of one generation step -/

/-- after the statements `stmts` (which use the temporaries `n … m-1` only): every other name is untouched, the tree `j`
has the value `v`, and `j` reads only base names and those temporaries -/
structure Good (scopes : List ScopeInfo) (ρ : String → V) (n m : Nat) (stmts : List Stmt) : Prop where
  le : n ≤ m
  frame : ∀ x, ¬ Own n m x → runStmts S ρ stmts x = ρ x

def Reads (scopes : List ScopeInfo) (n m : Nat) (names : List String) : Prop :=
  ∀ x ∈ names, isBase scopes x ∨ Own n m x

variable {S} in
/-- a value computed from the temporaries `n … m-1` is not disturbed by statements that use `m … m'-1` -/
theorem stable {scopes} (hf : Fresh S scopes) {n m m' : Nat} {j : Js} {ρ1 ρ2 : String → V}
    (hr : Reads scopes n m (ids j)) (hfr : ∀ x, ¬ Own m m' x → ρ2 x = ρ1 x) : evalJs S ρ2 j = evalJs S ρ1 j := by
  apply evalJs_congr
  intro x hx
  apply hfr
  rcases hr x hx with hb | ho
  · exact not_own_of_base hf hb
  · exact not_own_of_own hf ho

theorem good_nil {scopes} (ρ : String → V) (n : Nat) : Good S scopes ρ n n [] :=
  ⟨Nat.le_refl n, fun _ _ => rfl⟩

theorem good_append {scopes} {ρ : String → V} {n m m' : Nat} {s1 s2 : List Stmt}
    (h1 : Good S scopes ρ n m s1) (h2 : Good S scopes (runStmts S ρ s1) m m' s2) : Good S scopes ρ n m' (s1 ++ s2) := by
  refine ⟨Nat.le_trans h1.le h2.le, fun x hx => ?_⟩
  rw [runStmts_append]
  rw [h2.frame x (fun h => hx (own_mono_left h h1.le)), h1.frame x (fun h => hx (own_mono h h2.le))]

/-- the hoisted statement `var $n = j` after the statements that compute `j` -/
theorem good_tmp {scopes} {ρ : String → V} {n m : Nat} {s1 : List Stmt} (j : Js) (t : List GE.Spec.Tok)
    (h1 : Good S scopes ρ (n + 1) m s1) : Good S scopes ρ n m (s1 ++ [⟨privName n, j, t⟩]) := by
  refine ⟨by have := h1.le; omega, fun x hx => ?_⟩
  rw [runStmts_append]
  simp only [runStmts, upd]
  have hne : x ≠ privName n := fun h => hx ⟨n, Nat.le_refl n, by have := h1.le; omega, h⟩
  simp only [hne, if_false]
  exact h1.frame x (fun h => hx (own_mono_left h (by omega)))

theorem run_tmp (ρ : String → V) (s1 : List Stmt) (name : String) (j : Js) (t : List GE.Spec.Tok) :
    runStmts S ρ (s1 ++ [⟨name, j, t⟩]) = upd (runStmts S ρ s1) name (evalJs S (runStmts S ρ s1) j) := by
  rw [runStmts_append]; rfl

variable {S} in
theorem envOk_good {scopes D sc} (hf : Fresh S scopes) {ρ : String → V} {n m : Nat} {s : List Stmt}
    (he : EnvOk S scopes D sc ρ) (hg : Good S scopes ρ n m s) : EnvOk S scopes D sc (runStmts S ρ s) :=
  envOk_agree S he (fun x hb => hg.frame x (not_own_of_base hf hb))

/-- the statement of the mutual induction, for the value-producing generators -/
def OutOk (scopes : List ScopeInfo) (D : V) (sc : Nat → V) (ρ : String → V) (n : Nat) (o : Out) (v : V) : Prop :=
  Good S scopes ρ n o.next o.stmts ∧ evalJs S (runStmts S ρ o.stmts) o.js = v ∧ Reads scopes n o.next (ids o.js)

def GenOk (scopes : List ScopeInfo) (D : V) (sc : Nat → V) (e : Expr) : Prop :=
  ∀ (allow n : Nat) (ρ : String → V), EnvOk S scopes D sc ρ → OutOk S scopes D sc ρ n (gen scopes e allow n) (evalWx S D sc e)

def BodyOk (scopes : List ScopeInfo) (D : V) (sc : Nat → V) (e : Expr) : Prop :=
  ∀ (n : Nat) (ρ : String → V), EnvOk S scopes D sc ρ → OutOk S scopes D sc ρ n (genBody scopes e n) (evalWx S D sc e)

theorem genOk_of_body {scopes D sc e} (h : BodyOk S scopes D sc e) : GenOk S scopes D sc e := by
  intro allow n ρ he
  unfold gen
  by_cases hl : lvl e > allow
  · simp only [hl, if_true]; exact h n ρ he
  · simp only [hl, if_false]; exact h n ρ he

theorem reads_mono {scopes} {n n' m m' : Nat} {l : List String} (h : Reads scopes n m l) (hn : n' ≤ n) (hm : m ≤ m') :
    Reads scopes n' m' l := by
  intro x hx
  rcases h x hx with hb | ho
  · exact Or.inl hb
  · exact Or.inr (own_mono (own_mono_left ho hn) hm)

/-- the one law of the operations the encoding of `??` relies on: `v != null` is false exactly for the nullish values -/
def NeNullLaw : Prop := ∀ v, S.truthy (S.bin .Ne v S.null) = !S.isNullish v

theorem base_D {scopes} : isBase scopes "D" := Or.inl rfl
theorem base_X {scopes} : isBase scopes "X" := Or.inr (Or.inl rfl)
theorem base_Y {scopes} : isBase scopes "Y" := Or.inr (Or.inr (Or.inl rfl))
theorem base_P {scopes} : isBase scopes "P" := Or.inr (Or.inr (Or.inr (Or.inl rfl)))
theorem base_scope {scopes} (i : Nat) : isBase scopes (scopeAt scopes i).var := Or.inr (Or.inr (Or.inr (Or.inr (Or.inl ⟨i, rfl⟩))))
theorem base_const {scopes} {x : String} (h : x ∈ ["undefined", "null", "true", "false", "Infinity"]) : isBase scopes x :=
  Or.inr (Or.inr (Or.inr (Or.inr (Or.inr h))))

/-- a leaf: no statement, no temporary -/
theorem outOk_leaf {scopes D sc} (ρ : String → V) (n : Nat) (toks : List GE.Spec.Tok) (j : Js) (v : V)
    (hv : evalJs S ρ j = v) (hr : ∀ x ∈ ids j, isBase scopes x) : OutOk S scopes D sc ρ n ⟨toks, j, [], n⟩ v :=
  ⟨good_nil S ρ n, by simpa [runStmts] using hv, fun x hx => Or.inl (hr x hx)⟩

variable {S} in
/-- one operand wrapped in a helper call or a unary operator: same statements, same temporaries -/
theorem outOk_wrap {scopes D sc} {ρ : String → V} {n : Nat} {o : Out} {v w : V} (toks : List GE.Spec.Tok) (j : Js)
    (h : OutOk S scopes D sc ρ n o v) (hv : evalJs S (runStmts S ρ o.stmts) j = w)
    (hr : ∀ x ∈ ids j, x ∈ ids o.js ∨ isBase scopes x) : OutOk S scopes D sc ρ n ⟨toks, j, o.stmts, o.next⟩ w := by
  refine ⟨h.1, hv, fun x hx => ?_⟩
  rcases hr x hx with h1 | h1
  · exact h.2.2 x h1
  · exact Or.inl h1

variable {S} in
/-- two operands in sequence: the second one's statements leave the first one's value alone -/
theorem outOk_seq {scopes D sc} (hf : Fresh S scopes) {ρ : String → V} {n : Nat} {o1 o2 : Out} {v1 v2 : V}
    (h1 : OutOk S scopes D sc ρ n o1 v1) (h2 : OutOk S scopes D sc (runStmts S ρ o1.stmts) o1.next o2 v2) :
    Good S scopes ρ n o2.next (o1.stmts ++ o2.stmts) ∧
    evalJs S (runStmts S ρ (o1.stmts ++ o2.stmts)) o1.js = v1 ∧
    evalJs S (runStmts S ρ (o1.stmts ++ o2.stmts)) o2.js = v2 ∧
    Reads scopes n o2.next (ids o1.js) ∧ Reads scopes n o2.next (ids o2.js) := by
  refine ⟨good_append S h1.1 h2.1, ?_, ?_, reads_mono h1.2.2 (Nat.le_refl _) h2.1.le, reads_mono h2.2.2 h1.1.le (Nat.le_refl _)⟩
  · rw [runStmts_append, stable hf h1.2.2 h2.1.frame]; exact h1.2.1
  · rw [runStmts_append]; exact h2.2.1

variable {S} in
/-- reading a temporary after later statements that use higher temporaries -/
theorem tmp_kept {scopes} (hf : Fresh S scopes) {ρ : String → V} {n m m' : Nat} {s : List Stmt}
    (hg : Good S scopes ρ m m' s) (hn : n < m) : runStmts S ρ s (privName n) = ρ (privName n) := by
  apply hg.frame
  rintro ⟨k, h1, _, h3⟩
  have := hf.inj _ _ h3
  omega

variable {S} in
theorem tmp_id {scopes} (hf : Fresh S scopes) (ρ : String → V) (n : Nat) : evalJs S ρ (.id (privName n)) = ρ (privName n) := by
  simp [evalJs, hf.notConst n]

theorem evalJs_null (ρ : String → V) : evalJs S ρ (.id "null") = S.null := by simp [evalJs, constOf]
theorem evalJs_cond (ρ : String → V) (a b d : Js) :
    evalJs S ρ (.cond a b d) = if S.truthy (evalJs S ρ a) then evalJs S ρ b else evalJs S ρ d := by simp [evalJs]
theorem evalJs_bin (ρ : String → V) (op : BinOp) (a b : Js) : evalJs S ρ (.bin op a b) = S.bin op (evalJs S ρ a) (evalJs S ρ b) := by
  simp [evalJs]

theorem evalJs_index (ρ : String → V) (a b : Js) : evalJs S ρ (.index a b) = S.index (evalJs S ρ a) (evalJs S ρ b) := by simp [evalJs]
theorem evalJs_callX {scopes D sc} {ρ : String → V} (he : EnvOk S scopes D sc ρ) (a : Js) :
    evalJs S ρ (callJs "X" a) = S.X (evalJs S ρ a) := by simp [callJs, evalJs, evalJsList, constOf, he.hX]
theorem evalJs_callP {scopes D sc} {ρ : String → V} (he : EnvOk S scopes D sc ρ) (a : Js) :
    evalJs S ρ (callJs "P" a) = S.P (evalJs S ρ a) := by simp [callJs, evalJs, evalJsList, constOf, he.hP]

theorem own_self {n m : Nat} (h : n < m) : Own n m (privName n) := ⟨n, Nat.le_refl n, h, rfl⟩

variable {S} in
/-- an operand followed by further statements that use higher temporaries -/
theorem seq_first {scopes D sc} (hf : Fresh S scopes) {ρ : String → V} {n m2 : Nat} {o1 : Out} {v1 : V} {s2 : List Stmt}
    (h1 : OutOk S scopes D sc ρ n o1 v1) (h2 : Good S scopes (runStmts S ρ o1.stmts) o1.next m2 s2) :
    Good S scopes ρ n m2 (o1.stmts ++ s2) ∧ evalJs S (runStmts S ρ (o1.stmts ++ s2)) o1.js = v1 ∧
    Reads scopes n m2 (ids o1.js) := by
  refine ⟨good_append S h1.1 h2, ?_, reads_mono h1.2.2 (Nat.le_refl _) h2.le⟩
  rw [runStmts_append, stable hf h1.2.2 h2.frame]; exact h1.2.1

def ArgsOk (scopes : List ScopeInfo) (D : V) (sc : Nat → V) (args : Exprs) : Prop :=
  ∀ (n : Nat) (ρ : String → V), EnvOk S scopes D sc ρ →
    Good S scopes ρ n (genArgs scopes args n).next (genArgs scopes args n).stmts ∧
    evalJsList S (runStmts S ρ (genArgs scopes args n).stmts) (genArgs scopes args n).js = evalWxList S D sc args ∧
    Reads scopes n (genArgs scopes args n).next (idsList (genArgs scopes args n).js)

def ObjOk (scopes : List ScopeInfo) (D : V) (sc : Nat → V) (fs : ObjFields) : Prop :=
  ∀ (n : Nat) (ρ : String → V), EnvOk S scopes D sc ρ →
    Good S scopes ρ n (genObj scopes fs n).next (genObj scopes fs n).stmts ∧ (genObj scopes fs n).hasSpread = false ∧
    evalJsFields S (runStmts S ρ (genObj scopes fs n).stmts) (genObj scopes fs n).seg = evalWxObj S D sc fs ∧
    Reads scopes n (genObj scopes fs n).next (idsFields (genObj scopes fs n).seg)

def ArrOk (scopes : List ScopeInfo) (D : V) (sc : Nat → V) (fs : ArrFields) : Prop :=
  ∀ (n : Nat) (ρ : String → V), EnvOk S scopes D sc ρ →
    Good S scopes ρ n (genArr scopes fs n).next (genArr scopes fs n).stmts ∧ (genArr scopes fs n).hasSpread = false ∧
    evalJsItems S (runStmts S ρ (genArr scopes fs n).stmts) (genArr scopes fs n).seg = evalWxArr S D sc fs ∧
    Reads scopes n (genArr scopes fs n).next (idsItems (genArr scopes fs n).seg)

mutual
theorem body_sem (hl : NeNullLaw S) (scopes : List ScopeInfo) (hf : Fresh S scopes) (D : V) (sc : Nat → V) :
    ∀ (e : Expr), NoSpread e = true → BodyOk S scopes D sc e
  | .scope i, _ => fun n ρ he => by
    simp only [genBody, evalWx]
    exact outOk_leaf S ρ n _ _ _ (he.hsc i) (fun x hx => by simp [ids] at hx; subst hx; exact base_scope i)
  | .data x, _ => fun n ρ he => by
    simp only [genBody, evalWx]
    exact outOk_leaf S ρ n _ _ _ (by simp [evalJs, constOf, he.hD]) (fun y hy => by simp [ids] at hy; subst hy; exact base_D)
  | .undef, _ => fun n ρ he => by
    simp only [genBody, evalWx]
    exact outOk_leaf S ρ n _ _ _ (by simp [evalJs, constOf]) (fun y hy => by simp [ids] at hy; subst hy; exact base_const (by simp))
  | .null, _ => fun n ρ he => by
    simp only [genBody, evalWx]
    exact outOk_leaf S ρ n _ _ _ (by simp [evalJs, constOf]) (fun y hy => by simp [ids] at hy; subst hy; exact base_const (by simp))
  | .str s, _ => fun n ρ he => by
    simp only [genBody, evalWx]
    exact outOk_leaf S ρ n _ _ _ (by simp [evalJs]) (fun y hy => by simp [ids] at hy)
  | .int v, _ => fun n ρ he => by
    simp only [genBody, evalWx]
    exact outOk_leaf S ρ n _ _ _ (by simp [evalJs]) (fun y hy => by simp [ids] at hy)
  | .float t, _ => fun n ρ he => by
    simp only [genBody, evalWx, floatToks]
    by_cases ht : t = "inf" ∨ t = "-inf"
    · simp only [ht, if_true]
      exact outOk_leaf S ρ n _ _ _ (by simp [evalJs, constOf]) (fun y hy => by simp [ids] at hy; subst hy; exact base_const (by simp))
    · simp only [ht, if_false]
      exact outOk_leaf S ρ n _ _ _ (by simp [evalJs]) (fun y hy => by simp [ids] at hy)
  | .bool b, _ => fun n ρ he => by
    simp only [genBody, evalWx]
    have hf' : toString false = "false" := rfl
    have ht' : toString true = "true" := rfl
    cases b
    · rw [hf']
      exact outOk_leaf S ρ n _ _ _ (by simp [evalJs, constOf]) (fun y hy => by simp [ids] at hy; subst hy; exact base_const (by simp))
    · rw [ht']
      exact outOk_leaf S ρ n _ _ _ (by simp [evalJs, constOf]) (fun y hy => by simp [ids] at hy; subst hy; exact base_const (by simp))
  | .toStr x, hs => fun n ρ he => by
    have hx := genOk_of_body S (body_sem hl scopes hf D sc x (by simpa [NoSpread] using hs)) condLevel n ρ he
    have he' := envOk_good hf he hx.1
    simp only [genBody, evalWx]
    refine outOk_wrap _ _ hx ?_ ?_
    · simp [callJs, evalJs, evalJsList, constOf, hx.2.1, he'.hY]
    · intro y hy
      simp [callJs, ids, idsList] at hy
      rcases hy with rfl | hy
      · exact Or.inr base_Y
      · exact Or.inl hy
  | .smember o f, hs => fun n ρ he => by
    have ho := genOk_of_body S (body_sem hl scopes hf D sc o (by simpa [NoSpread] using hs)) condLevel n ρ he
    have he' := envOk_good hf he ho.1
    simp only [genBody, evalWx]
    refine outOk_wrap _ _ ho ?_ ?_
    · simp [callJs, evalJs, evalJsList, constOf, ho.2.1, he'.hX]
    · intro y hy
      simp [callJs, ids, idsList] at hy
      rcases hy with rfl | hy
      · exact Or.inr base_X
      · exact Or.inl hy
  | .un op x, hs => fun n ρ he => by
    have hx := genOk_of_body S (body_sem hl scopes hf D sc x (by simpa [NoSpread] using hs)) (unArm op).2 n ρ he
    simp only [genBody, evalWx]
    refine outOk_wrap _ _ hx ?_ ?_
    · simp [evalJs, hx.2.1]
    · intro y hy; exact Or.inl (by simpa [ids] using hy)
  | .bin op x y, hs => fun n ρ he => by
    have hsx : NoSpread x = true := by simp [NoSpread] at hs; exact hs.1
    have hsy : NoSpread y = true := by simp [NoSpread] at hs; exact hs.2
    by_cases hop : op = .NullishCoalescing
    · subst hop
      have hx := genOk_of_body S (body_sem hl scopes hf D sc x hsx) condLevel (n + 1) ρ he
      have hgT := good_tmp S (gen scopes x condLevel (n + 1)).js (gen scopes x condLevel (n + 1)).toks hx.1
      have heT := envOk_good hf he hgT
      have hy := genOk_of_body S (body_sem hl scopes hf D sc y hsy) condLevel (gen scopes x condLevel (n + 1)).next _ heT
      have hlt : n < (gen scopes x condLevel (n + 1)).next := by have := hx.1.le; omega
      simp only [genBody, evalWx, if_true]
      have hst : ∀ (a : List Stmt) (t : Stmt) (b : List Stmt), a ++ t :: b = (a ++ [t]) ++ b := by intro a t b; simp
      rw [hst]
      refine ⟨good_append S hgT hy.1, ?_, ?_⟩
      · rw [runStmts_append]
        have hid : runStmts S (runStmts S ρ ((gen scopes x condLevel (n + 1)).stmts ++
            [⟨privName n, (gen scopes x condLevel (n + 1)).js, (gen scopes x condLevel (n + 1)).toks⟩]))
            (gen scopes y condLevel (gen scopes x condLevel (n + 1)).next).stmts (privName n) = evalWx S D sc x := by
          rw [tmp_kept hf hy.1 hlt, run_tmp]
          simp [upd, hx.2.1]
        rw [evalJs_cond, evalJs_bin, tmp_id hf, evalJs_null, hid, hy.2.1, hl (evalWx S D sc x)]
        cases S.isNullish (evalWx S D sc x) <;> simp
      · intro z hz
        simp only [ids, List.mem_append, List.mem_cons, List.mem_nil_iff, or_false] at hz
        rcases hz with ((rfl | rfl) | rfl) | hz
        · exact Or.inr (own_self (Nat.lt_of_lt_of_le hlt hy.1.le))
        · exact Or.inl (base_const (by simp))
        · exact Or.inr (own_self (Nat.lt_of_lt_of_le hlt hy.1.le))
        · exact reads_mono hy.2.2 (by omega) (Nat.le_refl _) z hz
    · have hx := genOk_of_body S (body_sem hl scopes hf D sc x hsx) (binArm op).1 n ρ he
      have he1 := envOk_good hf he hx.1
      have hy := genOk_of_body S (body_sem hl scopes hf D sc y hsy) (binArm op).2.2 (gen scopes x (binArm op).1 n).next _ he1
      obtain ⟨hg, e1, e2, r1, r2⟩ := outOk_seq hf hx hy
      simp only [genBody, evalWx, hop, if_false]
      refine ⟨hg, by simp [evalJs, e1, e2], ?_⟩
      intro z hz
      simp only [ids, List.mem_append] at hz
      rcases hz with hz | hz
      · exact r1 z hz
      · exact r2 z hz
  | .cond c t f, hs => fun n ρ he => by
    have hsc' : NoSpread c = true := by simp [NoSpread] at hs; exact hs.1.1
    have hst' : NoSpread t = true := by simp [NoSpread] at hs; exact hs.1.2
    have hsf' : NoSpread f = true := by simp [NoSpread] at hs; exact hs.2
    have hc := genOk_of_body S (body_sem hl scopes hf D sc c hsc') condLevel (n + 1) ρ he
    have hgT := good_tmp S (gen scopes c condLevel (n + 1)).js (gen scopes c condLevel (n + 1)).toks hc.1
    have heT := envOk_good hf he hgT
    have ht := genOk_of_body S (body_sem hl scopes hf D sc t hst') condLevel (gen scopes c condLevel (n + 1)).next _ heT
    have heT2 := envOk_good hf heT ht.1
    have hfl := genOk_of_body S (body_sem hl scopes hf D sc f hsf') condLevel
      (gen scopes t condLevel (gen scopes c condLevel (n + 1)).next).next _ heT2
    obtain ⟨hg2, e1, e2, r1, r2⟩ := outOk_seq hf ht hfl
    have hlt : n < (gen scopes c condLevel (n + 1)).next := by have := hc.1.le; omega
    simp only [genBody, evalWx]
    have hst : ∀ (a : List Stmt) (t : Stmt) (b : List Stmt), a ++ t :: b = (a ++ [t]) ++ b := by intro a t b; simp
    rw [hst]
    refine ⟨good_append S hgT hg2, ?_, ?_⟩
    · have hT : runStmts S ρ ((gen scopes c condLevel (n + 1)).stmts ++
          [⟨privName n, (gen scopes c condLevel (n + 1)).js, (gen scopes c condLevel (n + 1)).toks⟩]) (privName n) = evalWx S D sc c := by
        rw [run_tmp]; simp [upd, hc.2.1]
      rw [runStmts_append, evalJs_cond, e1, e2, tmp_id hf, tmp_kept hf hg2 hlt, hT]
    · intro z hz
      simp only [ids, List.mem_append, List.mem_cons, List.mem_nil_iff, or_false] at hz
      rcases hz with (rfl | hz) | hz
      · exact Or.inr (own_self (Nat.lt_of_lt_of_le hlt hg2.le))
      · exact reads_mono r1 (by omega) (Nat.le_refl _) z hz
      · exact reads_mono r2 (by omega) (Nat.le_refl _) z hz
  | .dmember o i, hs => fun n ρ he => by
    have hso : NoSpread o = true := by simp [NoSpread] at hs; exact hs.1
    have hsi : NoSpread i = true := by simp [NoSpread] at hs; exact hs.2
    have hi := genOk_of_body S (body_sem hl scopes hf D sc i hsi) condLevel (n + 1) ρ he
    have hgT := good_tmp S (gen scopes i condLevel (n + 1)).js (gen scopes i condLevel (n + 1)).toks hi.1
    have heT := envOk_good hf he hgT
    have ho := genOk_of_body S (body_sem hl scopes hf D sc o hso) condLevel (gen scopes i condLevel (n + 1)).next _ heT
    have heT2 := envOk_good hf heT ho.1
    have hlt : n < (gen scopes i condLevel (n + 1)).next := by have := hi.1.le; omega
    simp only [genBody, evalWx]
    have hst : ∀ (a : List Stmt) (t : Stmt) (b : List Stmt), a ++ t :: b = (a ++ [t]) ++ b := by intro a t b; simp
    rw [hst]
    refine ⟨good_append S hgT ho.1, ?_, ?_⟩
    · have hT : runStmts S ρ ((gen scopes i condLevel (n + 1)).stmts ++
          [⟨privName n, (gen scopes i condLevel (n + 1)).js, (gen scopes i condLevel (n + 1)).toks⟩]) (privName n) = evalWx S D sc i := by
        rw [run_tmp]; simp [upd, hi.2.1]
      rw [runStmts_append, evalJs_index, evalJs_callX S heT2, ho.2.1, tmp_id hf, tmp_kept hf ho.1 hlt, hT]
    · intro z hz
      simp only [ids, callJs, idsList, List.mem_append, List.mem_cons, List.mem_nil_iff, or_false] at hz
      rcases hz with (rfl | hz) | rfl
      · exact Or.inl base_X
      · exact reads_mono ho.2.2 (by omega) (Nat.le_refl _) z hz
      · exact Or.inr (own_self (Nat.lt_of_lt_of_le hlt ho.1.le))
  | .call f args, hs => fun n ρ he => by
    have hsf : NoSpread f = true := by simp [NoSpread] at hs; exact hs.1
    have hsa : NoSpreadList args = true := by simp [NoSpread] at hs; exact hs.2
    have hfn := genOk_of_body S (body_sem hl scopes hf D sc f hsf) condLevel n ρ he
    have he1 := envOk_good hf he hfn.1
    have ha := args_sem hl scopes hf D sc args hsa (gen scopes f condLevel n).next _ he1
    obtain ⟨hg, e1, r1⟩ := seq_first hf hfn ha.1
    have he2 := envOk_good hf he hg
    simp only [genBody, evalWx]
    refine ⟨hg, ?_, ?_⟩
    · have e2 : evalJsList S (runStmts S ρ ((gen scopes f condLevel n).stmts ++ (genArgs scopes args (gen scopes f condLevel n).next).stmts))
          (genArgs scopes args (gen scopes f condLevel n).next).js = evalWxList S D sc args := by
        rw [runStmts_append]; exact ha.2.1
      simp only [evalJs]
      rw [evalJs_callP S he2, e1, e2]
    · intro z hz
      simp only [ids, callJs, idsList, List.mem_append, List.mem_cons, List.mem_nil_iff, or_false] at hz
      rcases hz with (rfl | hz) | hz
      · exact Or.inl base_P
      · exact r1 z hz
      · exact reads_mono ha.2.2 hfn.1.le (Nat.le_refl _) z hz
  | .obj fs, hs => fun n ρ he => by
    have ho := obj_sem hl scopes hf D sc fs (by simpa [NoSpread] using hs) n ρ he
    simp only [genBody, evalWx, ho.2.1]
    exact ⟨ho.1, by simp [evalJs, ho.2.2.1], fun z hz => ho.2.2.2 z (by simpa [ids] using hz)⟩
  | .arr fs, hs => fun n ρ he => by
    have ho := arr_sem hl scopes hf D sc fs (by simpa [NoSpread] using hs) n ρ he
    simp only [genBody, evalWx, ho.2.1]
    exact ⟨ho.1, by simp [evalJs, ho.2.2.1], fun z hz => ho.2.2.2 z (by simpa [ids] using hz)⟩
theorem args_sem (hl : NeNullLaw S) (scopes : List ScopeInfo) (hf : Fresh S scopes) (D : V) (sc : Nat → V) :
    ∀ (args : Exprs), NoSpreadList args = true → ArgsOk S scopes D sc args
  | .nil, _ => fun n ρ _ => by
    simp only [genArgs, evalWxList]
    exact ⟨good_nil S ρ n, rfl, fun z hz => by simp [idsList] at hz⟩
  | .cons e r, hs => fun n ρ he => by
    have hse : NoSpread e = true := by simp [NoSpreadList] at hs; exact hs.1
    have hsr : NoSpreadList r = true := by simp [NoSpreadList] at hs; exact hs.2
    have h1 := genOk_of_body S (body_sem hl scopes hf D sc e hse) condLevel n ρ he
    have he1 := envOk_good hf he h1.1
    have h2 := args_sem hl scopes hf D sc r hsr (gen scopes e condLevel n).next _ he1
    obtain ⟨hg, e1, r1⟩ := seq_first hf h1 h2.1
    simp only [genArgs, evalWxList]
    refine ⟨hg, ?_, ?_⟩
    · simp only [evalJsList, e1]
      rw [runStmts_append, h2.2.1]
    · intro z hz
      simp only [idsList, List.mem_append] at hz
      rcases hz with hz | hz
      · exact r1 z hz
      · exact reads_mono h2.2.2 h1.1.le (Nat.le_refl _) z hz
theorem obj_sem (hl : NeNullLaw S) (scopes : List ScopeInfo) (hf : Fresh S scopes) (D : V) (sc : Nat → V) :
    ∀ (fs : ObjFields), NoSpreadObj fs = true → ObjOk S scopes D sc fs
  | .nil, _ => fun n ρ _ => by
    simp only [genObj, evalWxObj]
    exact ⟨good_nil S ρ n, trivial, rfl, fun z hz => by simp [idsFields] at hz⟩
  | .spread v r, hs => by simp [NoSpreadObj] at hs
  | .named k b v r, hs => fun n ρ he => by
    have hsv : NoSpread v = true := by simp [NoSpreadObj] at hs; exact hs.1
    have hsr : NoSpreadObj r = true := by simp [NoSpreadObj] at hs; exact hs.2
    have h1 := genOk_of_body S (body_sem hl scopes hf D sc v hsv) condLevel n ρ he
    have he1 := envOk_good hf he h1.1
    have h2 := obj_sem hl scopes hf D sc r hsr (gen scopes v condLevel n).next _ he1
    obtain ⟨hg, e1, r1⟩ := seq_first hf h1 h2.1
    simp only [genObj, evalWxObj]
    refine ⟨hg, h2.2.1, ?_, ?_⟩
    · simp only [evalJsFields, e1]
      rw [runStmts_append, h2.2.2.1]
    · intro z hz
      simp only [idsFields, List.mem_append] at hz
      rcases hz with hz | hz
      · exact r1 z hz
      · exact reads_mono h2.2.2.2 h1.1.le (Nat.le_refl _) z hz
theorem arr_sem (hl : NeNullLaw S) (scopes : List ScopeInfo) (hf : Fresh S scopes) (D : V) (sc : Nat → V) :
    ∀ (fs : ArrFields), NoSpreadArr fs = true → ArrOk S scopes D sc fs
  | .nil, _ => fun n ρ _ => by
    simp only [genArr, evalWxArr]
    exact ⟨good_nil S ρ n, trivial, rfl, fun z hz => by simp [idsItems] at hz⟩
  | .spread v r, hs => by simp [NoSpreadArr] at hs
  | .hole r, hs => fun n ρ he => by
    have h2 := arr_sem hl scopes hf D sc r (by simpa [NoSpreadArr] using hs) n ρ he
    simp only [genArr, evalWxArr]
    exact ⟨h2.1, h2.2.1, by simp [evalJsItems, h2.2.2.1], fun z hz => h2.2.2.2 z (by simpa [idsItems] using hz)⟩
  | .item v r, hs => fun n ρ he => by
    have hsv : NoSpread v = true := by simp [NoSpreadArr] at hs; exact hs.1
    have hsr : NoSpreadArr r = true := by simp [NoSpreadArr] at hs; exact hs.2
    have h1 := genOk_of_body S (body_sem hl scopes hf D sc v hsv) condLevel n ρ he
    have he1 := envOk_good hf he h1.1
    have h2 := arr_sem hl scopes hf D sc r hsr (gen scopes v condLevel n).next _ he1
    obtain ⟨hg, e1, r1⟩ := seq_first hf h1 h2.1
    simp only [genArr, evalWxArr]
    refine ⟨hg, h2.2.1, ?_, ?_⟩
    · simp only [evalJsItems, e1]
      rw [runStmts_append, h2.2.2.1]
    · intro z hz
      simp only [idsItems, List.mem_append] at hz
      rcases hz with hz | hz
      · exact r1 z hz
      · exact reads_mono h2.2.2.2 h1.1.le (Nat.le_refl _) z hz
end

/-! ## the temporaries really are fresh -/

theorem privName_toList (k : Nat) : (privName k).toList = '$' :: GE.VarName.varName k := by
  simp [privName, GE.VarName.privateName]

theorem privName_ne_of_head {s : String} (h : s.toList.head? ≠ some '$') (k : Nat) : privName k ≠ s := by
  intro he
  apply h
  rw [← he, privName_toList]
  rfl

/-- `$…` names are pairwise distinct (`private_injective`) and start with `$`, unlike `D`, `X`, `Y`, `P` and the literal
keywords; the scope variables are assumed not to be `$…` names (they are `varName`s: `private_disjoint`) -/
theorem fresh_of_scopes (scopes : List ScopeInfo) (hsv : ∀ i k, (scopeAt scopes i).var ≠ privName k) : Fresh S scopes := by
  refine ⟨?_, ?_, ?_⟩
  · intro a b h
    have := congrArg String.toList h
    rw [privName_toList, privName_toList] at this
    exact GE.VarName.private_injective a b (by simpa [GE.VarName.privateName] using this)
  · intro k hb
    rcases hb with h | h | h | h | ⟨i, h⟩ | h
    · exact privName_ne_of_head (by decide) k h
    · exact privName_ne_of_head (by decide) k h
    · exact privName_ne_of_head (by decide) k h
    · exact privName_ne_of_head (by decide) k h
    · exact hsv i k h.symm
    · simp only [List.mem_cons, List.mem_nil_iff, or_false] at h
      rcases h with h | h | h | h | h
      all_goals exact privName_ne_of_head (by decide) k h
  · intro k
    have h1 := privName_ne_of_head (s := "undefined") (by decide) k
    have h2 := privName_ne_of_head (s := "null") (by decide) k
    have h3 := privName_ne_of_head (s := "true") (by decide) k
    have h4 := privName_ne_of_head (s := "false") (by decide) k
    have h5 := privName_ne_of_head (s := "Infinity") (by decide) k
    simp [constOf, h1, h2, h3, h4, h5]

/-- **C03, `gen_preserves`.** After the hoisted statements of `to_proc_gen_prepare` have run (in any environment that
provides the data as `D`, the helpers `X` `Y` `P` and the scope variables), the emitted value expression has the value
of the WXML expression, and nothing but the temporaries `$0 … $(next-1)` has been assigned. -/
theorem gen_preserves (hl : NeNullLaw S) (scopes : List ScopeInfo) (hsv : ∀ i k, (scopeAt scopes i).var ≠ privName k)
    (D : V) (sc : Nat → V) (ρ : String → V) (he : EnvOk S scopes D sc ρ) (e : Expr) (hs : NoSpread e = true) :
    evalJs S (runStmts S ρ (prepare scopes e).stmts) (prepare scopes e).js = evalWx S D sc e ∧
    ∀ x, ¬ Own 0 (prepare scopes e).next x → runStmts S ρ (prepare scopes e).stmts x = ρ x := by
  have hf := fresh_of_scopes S scopes hsv
  have h := genOk_of_body S (body_sem S hl scopes hf D sc e hs) condLevel 0 ρ he
  exact ⟨h.2.1, h.1.frame⟩

/-! non-vacuity: an interpretation (values are strings, every operation builds a description) in which `v != null` is
truthy exactly for the non-nullish values, and an environment that provides what `EnvOk` asks for -/
def exOps : Ops String where
  undef := "undefined"; null := "null"; str s := "s:" ++ s; num t := "n:" ++ t; bool b := toString b; infinity := "inf"
  member o f := o ++ "." ++ f; index o i := o ++ "[" ++ i ++ "]"
  call f args := if f = "X" then args.headD "" else if f = "Y" then "Y" ++ args.headD "" else if f = "P" then "P" ++ args.headD "" else f ++ "(" ++ String.intercalate "," args ++ ")"
  un op x := op.name ++ x
  bin op a b := if op = .Ne ∧ b = "null" then (if a = "null" ∨ a = "undefined" then "" else "T") else a ++ op.name ++ b
  truthy v := v ≠ ""
  isNullish v := v = "null" ∨ v = "undefined"
  X v := v; Y v := "Y" ++ v; P v := "P" ++ v
  obj fs := "{" ++ String.intercalate "," (fs.map fun p => p.1 ++ ":" ++ p.2) ++ "}"
  arr xs := "[" ++ String.intercalate "," (xs.map fun x => x.getD "") ++ "]"

example : NeNullLaw exOps := by
  intro v
  by_cases h1 : v = "null" <;> by_cases h2 : v = "undefined" <;> simp [exOps, h1, h2]

example : EnvOk exOps [] "D" (fun i => evalJs exOps (fun x => x) (.id (scopeAt [] i).var)) (fun x => x) := by
  refine ⟨rfl, fun v => by simp [exOps], fun v => by simp [exOps], fun v => by simp [exOps], fun i => rfl⟩

end GE.Sem
