/-
C06 — guard soundness (value level) for the expressions without object / array literals (`Simple`): data
fields, scope references (for-items, indexes, slot values, script modules), literals, member and index
chains, calls, unary / binary operators, string conversion and conditionals — over the REAL analysis
function `GE.PA.analyze` (whose printed guards are compared byte for byte with the implementation).

Semantics.  Values `V` are atoms or objects; member reads are null-safe (`X(o)[k]`); operators and calls
are arbitrary pure functions of their operand values.  An update-path tree `UT` is `none` (undefined),
`all` (`true`) or a node; `Z` is the runtime helper of that name.  `covers U D D'` is the premise of
C06: every difference between the old data `D` and the new data `D'` lies below a marked node.
The hoisted temporaries hold the NEW values of their index expressions / conditions (`TempsOk`); every scope
variable comes with a tree that covers its change (`ScopesOk`: what `F(...)` hands to a for-item, `undefined`
for a script module, whose value never changes).

`guard_sound`: if no path recorded by the analysis (the `path_calc` list and the returned path: exactly
the operands of the emitted guard `!!(p₁||p₂…)||p`) evaluates to a truthy tree, the expression has the same
value under the old and the new data — so skipping the update is correct.
-/
import GE.Model.PathAnalysis

namespace GE.PA.Guard
open GE GE.Gen GE.PA

/-! ## values and update-path trees -/

inductive V where
  | undef
  | atom (n : Nat)
  | obj (m : String → V)

def V.get : V → String → V
  | .obj m, k => m k
  | _, _ => .undef

/-- property key of a value used as an index -/
def V.toKey : V → String
  | .atom n => toString n
  | _ => "undefined"

inductive UT where
  | none
  | all
  | node (f : String → UT)

def Z : UT → String → UT
  | .all, _ => .all
  | .node f, k => f k
  | .none, _ => .none

def UT.truthy : UT → Prop
  | .none => False
  | _ => True

def V.isObj : V → Prop
  | .obj _ => True
  | _ => False

/-- every difference between `d` and `d'` lies below a marked node of `u` -/
def covers : UT → V → V → Prop
  | .none, d, d' => d = d'
  | .all, _, _ => True
  | .node f, d, d' => d = d' ∨ (d.isObj ∧ d'.isObj ∧ ∀ k, covers (f k) (d.get k) (d'.get k))

theorem covers_refl (u : UT) (d : V) : covers u d d := by
  cases u <;> simp [covers]

theorem covers_Z {u d d'} (h : covers u d d') (k : String) : covers (Z u k) (d.get k) (d'.get k) := by
  cases u with
  | none => simp [covers] at h; subst h; simp [Z, covers]
  | all => simp [Z, covers]
  | node f =>
    simp only [covers] at h
    rcases h with h | ⟨_, _, h⟩
    · subst h; exact covers_refl _ _
    · exact h k

theorem not_truthy_none {u : UT} (h : ¬u.truthy) : u = .none := by
  cases u <;> simp [UT.truthy] at h ⊢

/-! ## expressions -/

/-- pure interpretations of the operators -/
structure Ops where
  un : UnOp → V → V
  bin : BinOp → V → V → V
  call : V → List V → V
  toStr : V → V
  lit : Expr → V          -- value of a literal
  truthy : V → Bool

mutual
/-- no object / array literal -/
def Simple : Expr → Bool
  | .data _ | .scope _ | .undef | .null | .str _ | .int _ | .float _ | .bool _ => true
  | .obj _ | .arr _ => false
  | .cond c t f => Simple c && Simple t && Simple f
  | .toStr e => Simple e
  | .smember o _ => Simple o
  | .dmember o f => Simple o && Simple f
  | .call f args => Simple f && SimpleList args
  | .un _ e => Simple e
  | .bin _ l r => Simple l && Simple r
def SimpleList : Exprs → Bool
  | .nil => true
  | .cons e r => Simple e && SimpleList r
end

/-- the data and the values of the scope variables -/
structure Env where
  data : V
  scope : Nat → V

instance : Coe Env V := ⟨Env.data⟩

mutual
def evalE (F : Ops) (D : Env) : Expr → V
  | .data x => D.data.get x
  | .scope i => D.scope i
  | .cond c t f => if F.truthy (evalE F D c) then evalE F D t else evalE F D f
  | .toStr e => F.toStr (evalE F D e)
  | .smember o f => (evalE F D o).get f
  | .dmember o f => (evalE F D o).get (evalE F D f).toKey
  | .call f args => F.call (evalE F D f) (evalList F D args)
  | .un op e => F.un op (evalE F D e)
  | .bin op l r => F.bin op (evalE F D l) (evalE F D r)
  | e => F.lit e
def evalList (F : Ops) (D : Env) : Exprs → List V
  | .nil => []
  | .cons e r => evalE F D e :: evalList F D r
end

/-! ## meaning of the recorded paths -/

/-- run-time values of the hoisted temporaries: an index temporary as a property key, a condition temporary
as its truthiness; `tree i` is the update-path tree variable of scope `i` -/
structure Temps where
  key : String → String
  cond : String → Bool
  tree : Nat → UT

instance : CoeFun Temps (fun _ => String → String) := ⟨Temps.key⟩

mutual
/-- walk the update-path tree along a recorded path (`U.x`, tree variable, `Z(…,"k")`, `Z(…,$i)`,
`($c ? T : F)` with `T`, `F` of the form `!!(sub₁||sub₂…)||path`) -/
def descend (U : UT) (τ : Temps) : Psl → UT → UT
  | .nil, acc => acc
  | .cons s r, acc => descend U τ r (sliceTree U τ s acc)
def sliceTree (U : UT) (τ : Temps) : Slice → UT → UT
  | .ident x, _ => Z U x
  | .scopeIndex i, _ => τ.tree i
  | .staticMember s, acc => Z acc s
  | .indirect i, acc => Z acc (τ.key i)
  | .condition c tp ts fp fs, _ =>
    if τ.cond c then (if anyTruthy U τ ts then .all else pasTree U τ tp)
    else (if anyTruthy U τ fs then .all else pasTree U τ fp)
  | .combineObj _, acc => acc
  | .combineArr _ _, acc => acc
def pasTree (U : UT) (τ : Temps) : Pas → UT
  | .inPath l => descend U τ l .none
  | .notInPath => .none
def anyTruthy (U : UT) (τ : Temps) : PslList → Bool
  | .nil => false
  | .cons l r => (match descend U τ l .none with | .none => false | _ => true) || anyTruthy U τ r
end

def pathTree (U : UT) (τ : Temps) (l : Psl) : UT := descend U τ l .none

def _root_.GE.PA.PslList.toList : PslList → List Psl
  | .nil => []
  | .cons l r => l :: r.toList

theorem toList_append : ∀ (a b : PslList), (a.append b).toList = a.toList ++ b.toList
  | .nil, b => rfl
  | .cons l r, b => by simp [PslList.append, PslList.toList, toList_append r b]

theorem endPath_toList (pas : Pas) (pc : PslList) :
    (endPath pas pc).toList = pc.toList ++ (match pas with | .inPath l => [l] | .notInPath => []) := by
  cases pas <;> simp [endPath, toList_append, PslList.toList]

/-- the operands of the emitted guard: every recorded sub-path and the returned path -/
def guardPaths (r : Res) : List Psl := (endPath r.pas r.pc).toList

def guardOn (U : UT) (τ : Temps) (r : Res) : Prop := ∃ l ∈ guardPaths r, (pathTree U τ l).truthy

theorem descend_snoc (U τ) : ∀ (l : Psl) (acc : UT) (x : Slice),
    descend U τ (l.snoc x) acc = sliceTree U τ x (descend U τ l acc)
  | .nil, acc, x => by simp [Psl.snoc, descend]
  | .cons y r, acc, x => by simp [Psl.snoc, descend, descend_snoc U τ r]

theorem anyTruthy_false {U τ} : ∀ {subs : PslList}, anyTruthy U τ subs = false →
    ∀ l ∈ subs.toList, ¬(pathTree U τ l).truthy
  | .nil, _, l, hl => by simp [PslList.toList] at hl
  | .cons x r, h, l, hl => by
    simp only [anyTruthy, Bool.or_eq_false_iff] at h
    simp only [PslList.toList, List.mem_cons] at hl
    rcases hl with rfl | hl
    · intro ht
      unfold pathTree at ht
      cases hd : descend U τ l .none with
      | none => rw [hd] at ht; exact ht
      | all => simp [hd] at h
      | node f => simp [hd] at h
    · exact anyTruthy_false h.2 l hl

/-! ## the temporaries hold the new index values -/

mutual
def TempsOk (scopes : List ScopeInfo) (F : Ops) (D' : Env) (τ : Temps) : Expr → Nat → Prop
  | .toStr e, n => TempsOk scopes F D' τ e n
  | .smember o _, n => TempsOk scopes F D' τ o n
  | .dmember o f, n =>
    τ.key (privName n) = (evalE F D' f).toKey ∧ TempsOk scopes F D' τ f (n + 1) ∧
      TempsOk scopes F D' τ o (analyze scopes f (n + 1)).next
  | .call f args, n => TempsOk scopes F D' τ f n ∧ TempsOkList scopes F D' τ args (analyze scopes f n).next
  | .un _ e, n => TempsOk scopes F D' τ e n
  | .bin op l r, n =>
    if op = .NullishCoalescing then
      TempsOk scopes F D' τ l (n + 1) ∧ TempsOk scopes F D' τ r (analyze scopes l (n + 1)).next
    else TempsOk scopes F D' τ l n ∧ TempsOk scopes F D' τ r (analyze scopes l n).next
  | .cond c t f, n =>
    τ.cond (privName n) = F.truthy (evalE F D' c) ∧ TempsOk scopes F D' τ c (n + 1) ∧
      TempsOk scopes F D' τ t (analyze scopes c (n + 1)).next ∧
      TempsOk scopes F D' τ f (analyze scopes t (analyze scopes c (n + 1)).next).next
  | _, _ => True
def TempsOkList (scopes : List ScopeInfo) (F : Ops) (D' : Env) (τ : Temps) : Exprs → Nat → Prop
  | .nil, _ => True
  | .cons e r, n => TempsOk scopes F D' τ e n ∧ TempsOkList scopes F D' τ r (analyze scopes e n).next
end

/-- every scope variable comes with a tree that covers its change; a scope without a tree (and that is not
a script module) does not change -/
def ScopesOk (scopes : List ScopeInfo) (τ : Temps) (D D' : Env) : Prop :=
  ∀ i, if (scopeAt scopes i).lv = 3 ∨ (scopeAt scopes i).lv = 4 ∨ (scopeAt scopes i).tree.isSome = true
       then covers (τ.tree i) (D.scope i) (D'.scope i) else D.scope i = D'.scope i

/-! ## soundness -/

/-- what the analysis result says about the two values -/
def Related (U : UT) (τ : Temps) (pas : Pas) (v v' : V) : Prop :=
  match pas with
  | .inPath l => covers (pathTree U τ l) v v'
  | .notInPath => v = v'

/-- an operand whose own paths are all unmarked is unchanged -/
theorem unchanged_of_related {U τ pas pc v v'} (hrel : Related U τ pas v v')
    (hno : ∀ l ∈ (endPath pas pc).toList, ¬(pathTree U τ l).truthy) : v = v' := by
  cases pas with
  | notInPath => exact hrel
  | inPath l =>
    have hn := hno l (by simp [endPath_toList])
    simp only [Related] at hrel
    rw [not_truthy_none hn] at hrel
    simpa [covers] using hrel

/-- a conditional's branch: a marked sub-path makes the slice `true`; otherwise the branch's own relation -/
theorem branch_covers (F : Ops) (U : UT) (τ : Temps) (D D' : Env) (scopes : List ScopeInfo) (x : Expr) (m : Nat)
    (h : (∀ l ∈ (analyze scopes x m).pc.toList, ¬(pathTree U τ l).truthy) →
      Related U τ (analyze scopes x m).pas (evalE F D x) (evalE F D' x)) :
    covers (if anyTruthy U τ (analyze scopes x m).pc then .all else pasTree U τ (analyze scopes x m).pas)
      (evalE F D x) (evalE F D' x) := by
  by_cases ha : anyTruthy U τ (analyze scopes x m).pc = true
  · simp [ha, covers]
  · simp only [ha]
    have hrel := h (anyTruthy_false (by simpa using ha))
    cases hp : (analyze scopes x m).pas with
    | notInPath => rw [hp] at hrel; simp only [Related] at hrel; simp [pasTree, covers, hrel]
    | inPath l => rw [hp] at hrel; simpa [Related, pathTree, pasTree] using hrel

mutual
theorem analyze_sound (scopes : List ScopeInfo) (F : Ops) (U : UT) (τ : Temps) (D D' : Env)
    (hc : covers U D.data D'.data) (hsc : ScopesOk scopes τ D D') :
    ∀ (e : Expr) (n : Nat), Simple e = true → TempsOk scopes F D' τ e n →
      (∀ l ∈ (analyze scopes e n).pc.toList, ¬(pathTree U τ l).truthy) →
      Related U τ (analyze scopes e n).pas (evalE F D e) (evalE F D' e)
  | .data x, n, _, _, _ => by
    simp only [analyze, Related, pathTree, descend, sliceTree, evalE]
    exact covers_Z hc x
  | .scope i, n, _, _, _ => by
    have h := hsc i
    simp only [analyze, evalE]
    by_cases hp : (scopeAt scopes i).lv = 3 ∨ (scopeAt scopes i).lv = 4 ∨ (scopeAt scopes i).tree.isSome = true
    · simp only [hp, if_true] at h ⊢
      simpa [Related, pathTree, descend, sliceTree] using h
    · simp only [hp, if_false] at h ⊢
      simpa [Related] using h
  | .obj _, _, h, _, _ => by simp [Simple] at h
  | .arr _, _, h, _, _ => by simp [Simple] at h
  | .undef, _, _, _, _ => by simp [analyze, Related, evalE]
  | .null, _, _, _, _ => by simp [analyze, Related, evalE]
  | .str _, _, _, _, _ => by simp [analyze, Related, evalE]
  | .int _, _, _, _, _ => by simp [analyze, Related, evalE]
  | .float _, _, _, _, _ => by simp [analyze, Related, evalE]
  | .bool _, _, _, _, _ => by simp [analyze, Related, evalE]
  | .toStr e, n, hs, ht, hno => by
    have he := analyze_sound scopes F U τ D D' hc hsc e n (by simpa [Simple] using hs) (by simpa [TempsOk] using ht)
      (fun l hl => hno l (by simp only [analyze, endPath_toList]; exact List.mem_append_left _ hl))
    have := unchanged_of_related he (fun l hl => hno l (by simpa [analyze] using hl))
    simp only [analyze, Related, evalE, this]
  | .smember o f, n, hs, ht, hno => by
    have ho := analyze_sound scopes F U τ D D' hc hsc o n (by simpa [Simple] using hs) (by simpa [TempsOk] using ht)
      (fun l hl => hno l (by
        simp only [analyze]
        cases (analyze scopes o n).pas <;> simpa using hl))
    simp only [analyze, evalE]
    cases hp : (analyze scopes o n).pas with
    | notInPath =>
      rw [hp] at ho
      simp only [Related] at ho ⊢
      rw [ho]
    | inPath l =>
      rw [hp] at ho
      simp only [Related, pathTree] at ho ⊢
      rw [descend_snoc]
      exact covers_Z ho f
  | .dmember o f, n, hs, ht, hno => by
    have hs' : Simple o = true ∧ Simple f = true := by simpa [Simple] using hs
    have ht' : τ.key (privName n) = (evalE F D' f).toKey ∧ TempsOk scopes F D' τ f (n + 1) ∧
        TempsOk scopes F D' τ o (analyze scopes f (n + 1)).next := by simpa [TempsOk] using ht
    have hpc : ∀ l, (l ∈ (endPath (analyze scopes f (n + 1)).pas (analyze scopes f (n + 1)).pc).toList ∨
        l ∈ (analyze scopes o (analyze scopes f (n + 1)).next).pc.toList) → ¬(pathTree U τ l).truthy := by
      intro l hl
      apply hno l
      simp only [analyze]
      cases (analyze scopes o (analyze scopes f (n + 1)).next).pas <;> simpa [toList_append] using hl
    have hf := analyze_sound scopes F U τ D D' hc hsc f (n + 1) hs'.2 ht'.2.1
      (fun l hl => hpc l (Or.inl (by rw [endPath_toList]; exact List.mem_append_left _ hl)))
    have hkey : evalE F D f = evalE F D' f := unchanged_of_related hf (fun l hl => hpc l (Or.inl hl))
    have ho := analyze_sound scopes F U τ D D' hc hsc o (analyze scopes f (n + 1)).next hs'.1 ht'.2.2
      (fun l hl => hpc l (Or.inr hl))
    simp only [analyze, evalE]
    cases hp : (analyze scopes o (analyze scopes f (n + 1)).next).pas with
    | notInPath =>
      rw [hp] at ho
      simp only [Related] at ho ⊢
      rw [ho, hkey]
    | inPath l =>
      rw [hp] at ho
      simp only [Related, pathTree] at ho ⊢
      rw [descend_snoc]
      simp only [sliceTree, ht'.1, hkey]
      exact covers_Z ho _
  | .call f args, n, hs, ht, hno => by
    have hs' : Simple f = true ∧ SimpleList args = true := by simpa [Simple] using hs
    have ht' : TempsOk scopes F D' τ f n ∧ TempsOkList scopes F D' τ args (analyze scopes f n).next := by
      simpa [TempsOk] using ht
    have hpc : ∀ l, (l ∈ (endPath (analyze scopes f n).pas (analyze scopes f n).pc).toList ∨
        l ∈ (analyzeList scopes args (analyze scopes f n).next).pc.toList) → ¬(pathTree U τ l).truthy := by
      intro l hl
      apply hno l
      simpa [analyze, toList_append] using hl
    have hf := analyze_sound scopes F U τ D D' hc hsc f n hs'.1 ht'.1
      (fun l hl => hpc l (Or.inl (by rw [endPath_toList]; exact List.mem_append_left _ hl)))
    have hfe := unchanged_of_related hf (fun l hl => hpc l (Or.inl hl))
    have ha := list_sound scopes F U τ D D' hc hsc args (analyze scopes f n).next hs'.2 ht'.2 (fun l hl => hpc l (Or.inr hl))
    simp only [analyze, Related, evalE, hfe, ha]
  | .un op e, n, hs, ht, hno => by
    have he := analyze_sound scopes F U τ D D' hc hsc e n (by simpa [Simple] using hs) (by simpa [TempsOk] using ht)
      (fun l hl => hno l (by simp only [analyze, endPath_toList]; exact List.mem_append_left _ hl))
    have := unchanged_of_related he (fun l hl => hno l (by simpa [analyze] using hl))
    simp only [analyze, Related, evalE, this]
  | .bin op x y, n, hs, ht, hno => by
    have hs' : Simple x = true ∧ Simple y = true := by simpa [Simple] using hs
    by_cases hop : op = .NullishCoalescing
    · subst hop
      have ht' : TempsOk scopes F D' τ x (n + 1) ∧ TempsOk scopes F D' τ y (analyze scopes x (n + 1)).next := by
        simpa [TempsOk] using ht
      have hpc : ∀ l, (l ∈ (endPath (analyze scopes x (n + 1)).pas (analyze scopes x (n + 1)).pc).toList ∨
          l ∈ (endPath (analyze scopes y (analyze scopes x (n + 1)).next).pas
            (analyze scopes y (analyze scopes x (n + 1)).next).pc).toList) → ¬(pathTree U τ l).truthy := by
        intro l hl
        apply hno l
        simpa [analyze, toList_append] using hl
      have hx := analyze_sound scopes F U τ D D' hc hsc x (n + 1) hs'.1 ht'.1
        (fun l hl => hpc l (Or.inl (by rw [endPath_toList]; exact List.mem_append_left _ hl)))
      have hy := analyze_sound scopes F U τ D D' hc hsc y _ hs'.2 ht'.2
        (fun l hl => hpc l (Or.inr (by rw [endPath_toList]; exact List.mem_append_left _ hl)))
      have ex := unchanged_of_related hx (fun l hl => hpc l (Or.inl hl))
      have ey := unchanged_of_related hy (fun l hl => hpc l (Or.inr hl))
      simp only [analyze, if_true, Related, evalE, ex, ey]
    · have ht' : TempsOk scopes F D' τ x n ∧ TempsOk scopes F D' τ y (analyze scopes x n).next := by
        simpa [TempsOk, hop] using ht
      have hpc : ∀ l, (l ∈ (endPath (analyze scopes x n).pas (analyze scopes x n).pc).toList ∨
          l ∈ (endPath (analyze scopes y (analyze scopes x n).next).pas
            (analyze scopes y (analyze scopes x n).next).pc).toList) → ¬(pathTree U τ l).truthy := by
        intro l hl
        apply hno l
        simpa [analyze, hop, toList_append] using hl
      have hx := analyze_sound scopes F U τ D D' hc hsc x n hs'.1 ht'.1
        (fun l hl => hpc l (Or.inl (by rw [endPath_toList]; exact List.mem_append_left _ hl)))
      have hy := analyze_sound scopes F U τ D D' hc hsc y _ hs'.2 ht'.2
        (fun l hl => hpc l (Or.inr (by rw [endPath_toList]; exact List.mem_append_left _ hl)))
      have ex := unchanged_of_related hx (fun l hl => hpc l (Or.inl hl))
      have ey := unchanged_of_related hy (fun l hl => hpc l (Or.inr hl))
      simp only [analyze, hop, if_false, Related, evalE, ex, ey]
  | .cond c t f, n, hs, ht, hno => by
    have hs' : (Simple c = true ∧ Simple t = true) ∧ Simple f = true := by simpa [Simple] using hs
    have ht' : τ.cond (privName n) = F.truthy (evalE F D' c) ∧ TempsOk scopes F D' τ c (n + 1) ∧
        TempsOk scopes F D' τ t (analyze scopes c (n + 1)).next ∧
        TempsOk scopes F D' τ f (analyze scopes t (analyze scopes c (n + 1)).next).next := by simpa [TempsOk] using ht
    -- the condition's paths are the recorded sub-paths: the condition is unchanged
    have hpc : ∀ l ∈ (endPath (analyze scopes c (n + 1)).pas (analyze scopes c (n + 1)).pc).toList, ¬(pathTree U τ l).truthy := by
      intro l hl
      apply hno l
      simpa [analyze] using hl
    have hcnd := analyze_sound scopes F U τ D D' hc hsc c (n + 1) hs'.1.1 ht'.2.1
      (fun l hl => hpc l (by rw [endPath_toList]; exact List.mem_append_left _ hl))
    have ec : evalE F D c = evalE F D' c := unchanged_of_related hcnd hpc
    simp only [analyze, Related, pathTree, descend, sliceTree, evalE, ht'.1, ec]
    by_cases hb : F.truthy (evalE F D' c) = true
    · simp only [hb, if_true]
      exact branch_covers F U τ D D' scopes t _ (fun h => analyze_sound scopes F U τ D D' hc hsc t _ hs'.1.2 ht'.2.2.1 h)
    · simp only [hb]
      exact branch_covers F U τ D D' scopes f _ (fun h => analyze_sound scopes F U τ D D' hc hsc f _ hs'.2 ht'.2.2.2 h)
theorem list_sound (scopes : List ScopeInfo) (F : Ops) (U : UT) (τ : Temps) (D D' : Env)
    (hc : covers U D.data D'.data) (hsc : ScopesOk scopes τ D D') :
    ∀ (args : Exprs) (n : Nat), SimpleList args = true → TempsOkList scopes F D' τ args n →
      (∀ l ∈ (analyzeList scopes args n).pc.toList, ¬(pathTree U τ l).truthy) →
      evalList F D args = evalList F D' args
  | .nil, _, _, _, _ => rfl
  | .cons e r, n, hs, ht, hno => by
    have hs' : Simple e = true ∧ SimpleList r = true := by simpa [SimpleList] using hs
    have ht' : TempsOk scopes F D' τ e n ∧ TempsOkList scopes F D' τ r (analyze scopes e n).next := by
      simpa [TempsOkList] using ht
    have hpc : ∀ l, (l ∈ (endPath (analyze scopes e n).pas (analyze scopes e n).pc).toList ∨
        l ∈ (analyzeList scopes r (analyze scopes e n).next).pc.toList) → ¬(pathTree U τ l).truthy := by
      intro l hl
      apply hno l
      simpa [analyzeList, toList_append] using hl
    have he := analyze_sound scopes F U τ D D' hc hsc e n hs'.1 ht'.1
      (fun l hl => hpc l (Or.inl (by rw [endPath_toList]; exact List.mem_append_left _ hl)))
    have ee := unchanged_of_related he (fun l hl => hpc l (Or.inl hl))
    have er := list_sound scopes F U τ D D' hc hsc r _ hs'.2 ht'.2 (fun l hl => hpc l (Or.inr hl))
    simp only [evalList, ee, er]
end

/-- **C06, guard soundness.** If the update-path tree covers the difference between the old and the new
data (and the scope trees cover the scope variables' changes) and none of the guard's operands is truthy,
the binding expression has the same value before and after: not re-evaluating it is correct. -/
theorem guard_sound (scopes : List ScopeInfo) (F : Ops) (U : UT) (τ : Temps) (D D' : Env)
    (hc : covers U D.data D'.data) (hsc : ScopesOk scopes τ D D')
    (e : Expr) (hs : Simple e = true) (ht : TempsOk scopes F D' τ e 0)
    (hg : ¬ guardOn U τ (prepareAnalysis scopes e)) : evalE F D e = evalE F D' e := by
  have hall : ∀ l ∈ (endPath (analyze scopes e 0).pas (analyze scopes e 0).pc).toList, ¬(pathTree U τ l).truthy :=
    fun l hl ht' => hg ⟨l, hl, ht'⟩
  have hrel := analyze_sound scopes F U τ D D' hc hsc e 0 hs ht
    (fun l hl => hall l (by rw [endPath_toList]; exact List.mem_append_left _ hl))
  exact unchanged_of_related hrel hall

/-! non-vacuity: `a.b[c]` with the tree `{c: true}` (only `c` changed): the guard is on -/
example : guardOn (.node fun k => if k = "c" then .all else .none) ⟨fun _ => "1", fun _ => true, fun _ => .none⟩
    (prepareAnalysis [] (.dmember (.smember (.data "a") "b") (.data "c"))) := by
  refine ⟨.cons (.ident "c") .nil, ?_, ?_⟩
  · simp [guardPaths, prepareAnalysis, analyze, endPath, PslList.append, PslList.toList]
  · simp [pathTree, descend, sliceTree, Z, UT.truthy]

end GE.PA.Guard
