"""Abstract templates: random generation from a grammar over every element kind and attribute family,
printing to WXML in varied concrete syntax, and a REFERENCE renderer written from the WXML semantics
(it is emitted as straightforward JavaScript that builds the expected node tree for given data; names
are resolved lexically by this module itself, innermost scope first).  Independent of the Lean model
and of the compiler."""
import json, os
from . import exprgen as eg

# ---------------------------------------------------------------------------------------------
# abstract syntax
#  value:  None | ("static", s) | ("expr", tree) | ("mixed", [("s", str) | ("e", tree), ...])
#  nodes:  ("text", value)                      value is static or expr or mixed
#          ("elem", tag, attrs, children)       attrs: [(family, name, value)]
#          ("block", children)
#          ("for", list_value, item|None, index|None, key|None, carrier)      carrier: elem or block node
#          ("if", [(cond_value, carrier)], else_carrier|None)
#          ("tref", is_value, data|None)        data: [("named", k, tree) | ("short", k) | ("spread", tree)]
#          ("include", src) ("import", src) ("slot", name_value|None, [(name, value)])
#          ("comment", text) ("wxs", module, content)
#  attribute family "slot:" : ("slot:", slot_value_name, None | ("static", alias)) introduces the scope variable alias-or-name
#  template: {"nodes": [...], "subs": {name: [nodes]}, "path": str, "modules": [(name, content)]}
#  script modules are file-level scopes (visible in the main template and in every <template name> body)

MODULE_POOL = [("m", "exports.tag='wxs-m';exports.wrap=function(v){return '['+v+']'};exports.o={p:7,k:'mk'}"),
               ("fmt", "exports.tag='wxs-fmt';exports.wrap=function(v){return '<'+v+'>'};exports.o={p:8,k:'fk'}"),
               ("a", "exports.tag='wxs-a';exports.wrap=function(v){return '('+v+')'};exports.o={p:9,k:'ak'}")]

FAMILIES = ["plain", "class", "style", "id", "slot", "data-", "data:", "mark:", "bind:", "catch:", "mut-bind:",
            "capture-bind:", "capture-catch:", "capture-mut-bind:", "model:", "change:", "worklet:", "generic:", "extra-attr:"]


def camel(s):
    o, up = [], False
    for c in s:
        if c == "-":
            up = True
        elif up:
            up = False
            o.append(c.upper() if "a" <= c <= "z" else c)
        else:
            o.append(c)
    return "".join(o)


class TmplGen:
    def __init__(self, rng, data_names=None, max_depth=3, exprs="safe", src_modules=False, dyn=False):
        self.rng = rng
        self.data_names = data_names or ["a", "b", "c", "d", "l", "o", "f", "n", "item", "index", "x", "k"]
        self.max_depth = max_depth
        self.subs = {}
        self.uid = 0
        # file-level script modules (sometimes named like a data field / a usual scope variable)
        self.modules = []
        if rng.chance(1, 3):
            k = 1 + rng.below(2)
            start = rng.below(len(MODULE_POOL))
            self.modules = [MODULE_POOL[(start + i) % len(MODULE_POOL)] for i in range(k)]
        self.slot_values = rng.chance(1, 4)    # elements may carry `slot:` value references
        self.dyn = dyn                         # `cmp-dyn` (a component with dynamic slots: its content is rendered once per slot instance)
        # some modules live in script files (<wxs module="m" src="./m_mod"/>); callers that ask for them register the scripts (group_request)
        self.src_modules = [n for (n, _) in self.modules if rng.chance(1, 2)] if src_modules else []

    def module_expr(self, k):
        r = self.rng
        mod = ("data", r.choice(self.modules)[0])
        c = r.below(4)
        if c == 0:
            return ("smember", mod, "tag")
        if c == 1:
            return ("call", ("smember", mod, "wrap"), [k()])
        if c == 2:
            return ("smember", ("smember", mod, "o"), r.choice(["p", "k"]))
        return ("dmember", ("smember", mod, "o"), ("str", r.choice(["p", "k"]), '"'))

    # ---- expressions (a fragment whose values the reference evaluates with native JS) ----
    def expr(self, scope_names, depth=2):
        r = self.rng
        names = list(self.data_names) + list(scope_names) * 2
        if self.modules and r.chance(1, 5):
            return self.module_expr(lambda: self.expr(scope_names, min(depth, 1) - 1))
        if depth <= 0 or r.chance(2, 5):
            c = r.below(10)
            if c < 6:
                return ("data", r.choice(names))
            if c == 6:
                return ("int", r.choice([0, 1, 2, 5]))
            if c == 7:
                return ("str", r.choice(["", "s", "a b", "<&>", "é", "\"q\""]), '"')
            if c == 8:
                return ("bool", r.chance(1, 2))
            return ("smember", ("data", r.choice(names)), r.choice(["p", "k", "length", "q"]))
        k = lambda: self.expr(scope_names, depth - 1)
        c = r.below(14)
        if c == 0:
            return ("bin", r.choice(["Plus", "Minus", "Multiply"]), k(), k())
        if c == 1:
            return ("bin", r.choice(["Lt", "Gte", "EqFull", "Ne"]), k(), k())
        if c == 2:
            return ("bin", r.choice(["LogicAnd", "LogicOr", "NullishCoalescing"]), k(), k())
        if c == 3:
            return ("cond", k(), k(), k())
        if c == 4:
            return ("un", r.choice(["Reverse", "Negative", "TypeOf"]), k())
        if c == 5:
            return ("smember", k(), r.choice(["p", "k", "q", "length"]))
        if c == 6:
            return ("dmember", ("data", r.choice(names)), k())
        if c == 7:
            return ("call", ("data", r.choice(["f", "g"] + list(scope_names))), [k() for _ in range(r.below(3))])
        if c == 8:
            return ("arr", [r.choice([("item", k()), ("item", k()), ("hole",), ("item", ("int", 7))]) for _ in range(1 + r.below(4))])
        if c == 9:
            # fields with and without data dependencies, in every order (a constant field between two dependent ones, ...)
            return ("obj", [("named", r.choice(["p", "q", "k"]) + str(i), False, k() if r.chance(2, 3) else r.choice([("int", 1), ("str", "c", '"'), ("bool", True)]))
                            for i in range(1 + r.below(4))])
        if c == 10:
            return ("smember", ("obj", [("named", "p", False, k()), ("named", "q", False, k())]), r.choice(["p", "q"]))
        if c == 11:
            return ("dmember", ("arr", [("hole",), ("item", k())]), ("int", 1))
        return ("data", r.choice(names))

    def value(self, scope_names, kinds=("static", "expr", "mixed")):
        r = self.rng
        kind = r.choice(list(kinds))
        if kind == "static":
            return ("static", r.choice(["", "v", "a b", "x-1", "é中", "1 < 2 & 3", " < 2", " <= b ", "\n< 3 <", "say \"hi\"", "it's", "  pad  ", "\U0001F600", "½ cup", "5m² ∴ ¾"]))
        if kind == "expr":
            return ("expr", self.expr(scope_names))
        parts = []
        style = r.below(3)
        for i in range(2 + r.below(3)):
            if style == 0:
                # strictly alternating, starting with a static piece
                is_static = i % 2 == 0
            elif style == 1:
                # starting with a binding
                is_static = i % 2 == 1
            else:
                # free: bindings may be adjacent ({{a}}{{b}}) and may lead
                is_static = r.chance(1, 3)
            if is_static:
                parts.append(("s", r.choice(["a", " ", "x-", "é", "&", "<", "-", "1"])))
            else:
                parts.append(("e", self.expr(scope_names, 1)))
        if not any(p[0] == "e" for p in parts):
            parts.append(("e", self.expr(scope_names, 1)))
        # adjacent static pieces are one piece in the source text
        merged = []
        for p in parts:
            if merged and merged[-1][0] == "s" and p[0] == "s":
                merged[-1] = ("s", merged[-1][1] + p[1])
            else:
                merged.append(p)
        if len(merged) == 1 and merged[0][0] == "e":
            return ("expr", merged[0][1])
        return ("mixed", merged)

    def slot_refs(self):
        """`slot:` value references of a plain element: [("slot:", name, alias)]"""
        r = self.rng
        if not self.slot_values or not r.chance(1, 3):
            return []
        res, seen = [], set()
        for _ in range(1 + r.below(3)):
            name = r.choice(["a", "b", "sv", "item", "x-y"])
            if name in seen:
                continue
            seen.add(name)
            alias = r.choice([None, None, ("static", r.choice(["a", "b", "c", "item", "index", "it"]))])
            if alias is None and "-" in name:
                alias = ("static", "xy")
            res.append(("slot:", name, alias))
        return res

    @staticmethod
    def slot_scope(refs):
        return [(a[2][1] if a[2] is not None else a[1]) for a in refs]

    def attrs(self, scope_names, on_slot=False):
        r = self.rng
        res, used = [], set()
        for _ in range(r.below(5)):
            fam = r.choice(FAMILIES)
            if on_slot and fam in ("class", "style", "model:", "change:", "worklet:", "generic:", "extra-attr:"):
                continue
            if fam in ("class", "style", "id", "slot"):
                name = fam
                v = self.value(scope_names, ("static", "mixed") if fam == "slot" else ("static", "expr", "mixed"))
            elif fam == "plain":
                name = r.choice(["title", "hidden", "foo-bar", "value", "aB", "x1", "hover-class", "x-1", "a-B"])
                v = r.choice([None, self.value(scope_names), self.value(scope_names)])
            elif fam in ("data-", "data:"):
                name = r.choice(["a", "a-b", "xy", "k1"])
                v = r.choice([None, self.value(scope_names), self.value(scope_names)])
            elif fam == "mark:":
                name = r.choice(["m", "m-n", "mK"])
                v = r.choice([None, self.value(scope_names)])
            elif fam in ("bind:", "catch:", "mut-bind:", "capture-bind:", "capture-catch:", "capture-mut-bind:"):
                name = r.choice(["tap", "touch-start", "customEv"])
                v = r.choice([("static", "onTap"), ("expr", ("data", "f")), ("expr", self.expr(scope_names, 1)), None])
            elif fam == "model:":
                # (names that look like legacy event attributes once camel-cased — `on…`, `bind…`, `catch…` — are NOT generated: where the element has no such
                # property the runtime's compatibility path turns the attribute into an event listener, which this reference does not describe: round 12, §14)
                name = r.choice(["value", "checked-v"])
                v = ("expr", r.choice([("data", "a"), ("smember", ("data", "o"), "p"), ("dmember", ("data", "l"), ("data", "n")),
                                       self.expr(scope_names, 1)]))
            elif fam == "change:":
                name = r.choice(["prop", "some-prop"])
                v = ("expr", ("data", "f"))
            elif fam in ("worklet:", "generic:", "extra-attr:"):
                name = r.choice(["w", "g-h", "ea"])
                v = ("static", r.choice(["v", "comp-a", ""]))
            key = (fam if fam not in ("data-", "data:") else "data", camel(name.lower()) if fam == "data-" else name)
            if fam in ("bind:", "catch:", "mut-bind:", "capture-bind:", "capture-catch:", "capture-mut-bind:"):
                key = ("ev", name)   # one binding per event name and element (the runtime keys dynamic listeners by name)
            # (two attributes that name the same component property after dash-to-camel — `a-B` and `aB`, `x-1` and `x1` — give that property two values:
            # which one a fresh creation shows is an accident of attribute order, and an update re-applies only the dynamic one; such templates denote
            # nothing definite and are not generated: thorough tier, seed 7, C06 / C07)
            pname = camel(name) if fam in ("plain", "model:") else name
            if key in used or (fam in ("plain", "model:") and (("plain", pname) in used or ("model:", pname) in used)):
                continue
            used.add(key)
            if fam in ("plain", "model:"):
                used.add(("plain", pname)); used.add(("model:", pname))
            res.append((fam, name, v))
        return res

    def children(self, scope_names, depth, in_sub=False):
        r = self.rng
        n = r.below(4) if depth > 0 else r.below(2)
        out = []
        for _ in range(n):
            nd = self.node(scope_names, depth, in_sub)
            if nd[0] == "text" and out and out[-1][0] == "text":
                continue  # adjacent text would be ONE text node in the source
            out.append(nd)
        return out

    def dyn_child(self, n):
        """a direct child element of a dynamic-slot component: often aimed at the named slot `s1`, often reading slot values"""
        r = self.rng
        if n[0] in ("elem", "text") and r.chance(1, 6):
            # <block slot="…"> around ordinary content
            return ("block", [n, ("elem", "v", [], [])] if n[0] == "text" else [n], r.choice(["s1", "s1", "", "zz"]))
        # a <block> that carries wx:if / wx:elif / wx:else / wx:for may carry `slot` too: the branch / item content is aimed at that slot
        sc = lambda car: car + (r.choice(["s1", "s1", "", "zz"]),) if car[0] == "block" and len(car) == 2 and r.chance(1, 2) else car
        if n[0] == "if":
            return ("if", [(c, sc(car)) for c, car in n[1]], None if n[2] is None else sc(n[2]))
        if n[0] == "for":
            return n[:5] + (sc(n[5]),)
        if n[0] != "elem":
            return n
        attrs = list(n[2])
        if not any(a[0] == "slot" for a in attrs) and r.chance(1, 3):
            attrs.append(("slot", "slot", ("static", "s1")))
        have = {a[1] for a in attrs if a[0] == "slot:"}
        if r.chance(1, 2):
            for nm in r.choice([["a"], ["b", "a"], ["sv"], ["item"]]):
                if nm not in have:
                    attrs.insert(0, ("slot:", nm, None))
        return (n[0], n[1], attrs, n[3])

    def carrier(self, scope_names, depth, in_sub):
        r = self.rng
        if r.chance(1, 3):
            return ("block", self.children(scope_names, depth - 1, in_sub))
        return ("elem", r.choice(["view", "text", "v"]), self.attrs(scope_names), self.children(scope_names, depth - 1, in_sub))

    def node(self, scope_names, depth, in_sub=False):
        r = self.rng
        c = r.below(16) if depth > 0 else r.below(5)
        if c < 3:
            v = self.value(scope_names)
            if v[0] == "static" and v[1].strip(" \t\r\n\x0b\x0c") == "":
                v = ("static", "t" + v[1])
            return ("text", v)
        if c < 6:
            refs = self.slot_refs()
            inner = scope_names + self.slot_scope(refs)
            tag = r.choice(["view", "text", "cmp-x", "v", "cmp-y", "cmp-dyn" if self.dyn else "cmp-x"])
            kids = self.children(inner, depth - 1, in_sub)
            if tag == "cmp-dyn":
                kids = [self.dyn_child(k) for k in dyn_sanitize(kids)]
            return ("elem", tag, refs + self.attrs(inner), kids)
        if c == 6:
            return ("block", self.children(scope_names, depth - 1, in_sub))
        if c in (7, 8):
            item = r.choice([None, None, "it", "item", "a"])
            index = r.choice([None, None, "ix", "index", "b"])
            if item is not None and item == index:
                index = None
            key = r.choice([None, "k", "*this", "id"])
            lst = r.choice([("expr", ("data", "l")), ("expr", ("data", "o")), ("expr", self.expr(scope_names, 1)),
                            ("expr", ("bin", "LogicAnd", ("data", r.choice(["o", "c", "a"])), ("data", "l"))),
                            ("expr", ("bin", "LogicOr", ("data", r.choice(["d", "x"])), ("data", r.choice(["l", "o"])))),
                            ("expr", ("arr", [("item", ("int", 1)), ("item", ("data", "a"))])), ("static", "ab"),
                            ("static", "a\U0001F600b"), ("expr", ("data", "b"))])      # strings are lists of UTF-16 code units
            inner = scope_names + [item or "item", index or "index"]
            return ("for", lst, item, index, key, self.carrier(inner, depth, in_sub))
        if c in (9, 10):
            branches = []
            for _ in range(1 + r.below(3)):
                branches.append((self.value(scope_names, ("expr", "expr", "expr", "static")), self.carrier(scope_names, depth, in_sub)))
            els = self.carrier(scope_names, depth, in_sub) if r.chance(1, 2) else None
            return ("if", branches, els)
        if c == 11 and in_sub:
            c = 3
        if c == 11:
            name = "t%d" % r.below(3)
            if name not in self.subs:
                self.subs[name] = None  # reserve
                body = self.children([], min(depth, 2) - 1 if depth > 0 else 0, True)
                self.subs[name] = body
            data = []
            for i in range(r.below(3)):
                ch = r.below(3)
                if ch == 0:
                    data.append(("named", r.choice(["a", "b", "c"]), r.choice([self.expr(scope_names, 1), self.expr(scope_names, 1),
                                 ("bin", "LogicAnd", ("data", "o"), ("data", r.choice(["l", "o"]))),
                                 ("bin", "LogicOr", ("data", "d"), ("data", "o"))])))
                elif ch == 1:
                    data.append(("short", r.choice(["a", "l", "o"])))
                else:
                    data.append(("spread", ("data", r.choice(["o", "a"]))))
            isv = ("static", name) if r.chance(3, 4) else ("expr", ("cond", ("data", "c"), ("str", name, '"'), ("str", "t0", '"')))
            if isv[0] == "expr" and "t0" not in self.subs:
                self.subs["t0"] = [("text", ("static", "T0"))]
            return ("tref", isv, data)
        if c == 12:
            # a `<slot>` may carry `slot:` value references of its own: they scope over the slot element only (it has no children)
            own = [("slot:" + nm_, al) for (_, nm_, al) in self.slot_refs()]
            # properties handed to the slot: with a value, and written without one (the empty string, not `true` as on an element: round 12, C04-16)
            if r.chance(1, 3):
                own.append(("selected", None))
            if r.chance(1, 3):
                own.append(("row-id", r.choice([("static", "r1"), ("expr", ("data", "a"))])))
            return ("slot", r.choice([None, ("static", "s1"), ("expr", ("data", "n"))]), own)
        if c == 13:
            return ("comment", r.choice([" c ", "x--y", "<view>", ""]))
        refs = self.slot_refs()
        inner = scope_names + self.slot_scope(refs)
        return ("elem", "view", refs + self.attrs(inner), self.children(inner, depth - 1, in_sub))

    def template(self, path="p"):
        nodes = self.children([], self.max_depth)
        if not nodes:
            nodes = [("text", ("static", "empty"))]
        subs = {k: v for k, v in self.subs.items() if v is not None}
        return {"path": path, "nodes": nodes, "subs": subs, "modules": list(self.modules), "slot_values": self.slot_values,
                "src_modules": list(self.src_modules)}


def dyn_sanitize(nodes):
    """content of a dynamic-slot component, as far as it is matched against slot names (through <block>, wx:if, wx:for carriers): only
    text, elements, blocks, conditionals, loops and <slot> (template-is / include there are not part of the reference)"""
    out = []
    for n in nodes:
        k = n[0]
        if k in ("text", "elem", "slot"):
            nd = n
        elif k == "block":
            nd = ("block", dyn_sanitize(n[1])) + tuple(n[2:])
        elif k == "for":
            nd = n[:5] + (dyn_carrier(n[5]),)
        elif k == "if":
            nd = ("if", [(c, dyn_carrier(car)) for c, car in n[1]], None if n[2] is None else dyn_carrier(n[2]))
        else:
            continue
        if nd[0] == "text" and out and out[-1][0] == "text":
            continue
        out.append(nd)
    return out


def dyn_carrier(c):
    return ("block", dyn_sanitize(c[1])) + tuple(c[2:]) if c[0] == "block" else c


def group_request(t, src):
    """the `group` request of a printed template: its file and the script files of its `src` modules"""
    srcm = t.get("src_modules", [])
    return {"files": [[t["path"], src]], "scripts": [[n + "_mod", c] for (n, c) in t.get("modules", []) if n in srcm]}


# ---------------------------------------------------------------------------------------------
# printing to WXML
NAMED_REFS = {"½": "frac12", "²": "sup2", "¾": "frac34", "∴": "there4", "é": "eacute", "©": "copy", "¹": "sup1", "³": "sup3", "¼": "frac14", "⅓": "frac13"}


def esc_text(s, quote=None, rng=None):
    o = []
    for i, c in enumerate(s):
        if c == "<" and rng is not None and s[i + 1:i + 2] in (" ", "=", "1", "2", "3", "\n") and s[i + 1:i + 2] != "" and rng.chance(1, 2):
            o.append("<")                            # a `<` that cannot start a tag is text as it stands
        elif c in NAMED_REFS and (rng is None or rng.chance(3, 4)):
            o.append("&" + NAMED_REFS[c] + ";")     # named references, several with digits in the name
        elif c == "<":
            o.append("&lt;")
        elif c == "&":
            o.append("&amp;")
        elif quote is not None and c == quote:
            o.append("&quot;" if c == '"' else "&#39;")
        elif rng is not None and c not in "{}" and rng.chance(1, 12) and c > " ":
            o.append("&#x%X;" % ord(c) if rng.chance(1, 2) else "&#%d;" % ord(c))
        else:
            o.append(c)
    return "".join(o)


class Printer:
    def __init__(self, rng=None, vary=False):
        self.rng, self.vary = rng, vary

    def ws(self):
        if self.vary and self.rng.chance(1, 3):
            return self.rng.choice(["  ", "\n", "\t", " \n  "])
        return " "

    def expr_src(self, tree):
        mode = "min"
        if self.vary:
            mode = self.rng.choice(["min", "full", "rand"])
        return eg.src(tree, mode, self.rng)

    def binding(self, tree):
        s = self.expr_src(tree)
        pad = self.rng.choice(["", " ", "  "]) if self.vary else ""
        # `{{ {..} }}` needs a blank so the object brace is not read as part of the mustache
        if s.startswith("{"):
            s = " " + s
        if s.endswith("}"):
            s = s + " "
        return "{{" + pad + s + pad + "}}"

    def value_text(self, v, quote):
        if v[0] == "static":
            return esc_text(v[1], quote, self.rng if self.vary else None)
        if v[0] == "expr":
            return self.binding_quoted(v[1], quote)
        out = []
        for p in v[1]:
            out.append(esc_text(p[1], quote, self.rng if self.vary else None) if p[0] == "s" else self.binding_quoted(p[1], quote))
        return "".join(out)

    def binding_quoted(self, tree, quote):
        s = self.binding(tree)
        if quote is not None and quote in s:
            # the expression text contains the attribute's quote character: use the other one inside string literals
            other = "'" if quote == '"' else '"'
            s = "{{" + eg.src(requote(tree, other), "min") + "}}"
            s = s.replace("{{{", "{{ {").replace("}}}", "} }}")
        return s

    def attr(self, fam, name, v):
        if fam == "slot:":
            return "slot:" + name if v is None else 'slot:%s="%s"' % (name, v[1])
        full = name if fam in ("plain", "class", "style", "id", "slot") else fam + name
        if fam in ("class", "style", "id", "slot"):
            full = fam
        if v is None:
            return full
        q = self.rng.choice(['"', "'"]) if self.vary else '"'
        return full + "=" + q + self.value_text(v, q) + q

    def nodes(self, ns):
        return "".join(self.node(n) for n in ns)

    def open_close(self, tag, attrs_text, inner, allow_self_close=True):
        a = "".join(self.ws() + t for t in attrs_text)
        if inner == "" and allow_self_close and (not self.vary or self.rng.chance(1, 2)):
            return "<" + tag + a + (" " if self.vary and self.rng.chance(1, 2) else "") + "/>"
        return "<" + tag + a + ">" + inner + "</" + tag + ">"

    def carrier_parts(self, n):
        """(tag, attr texts, inner text) of an elem / block node used as carrier of wx:for / wx:if"""
        if n[0] == "block":
            return "block", ['slot="%s"' % n[2]] if len(n) > 2 else [], self.nodes(n[1])
        return n[1], [self.attr(*a) for a in n[2]], self.nodes(n[3])

    def node(self, n):
        k = n[0]
        if k == "text":
            v = n[1]
            return self.value_text(v, None)
        if k == "elem":
            return self.open_close(n[1], [self.attr(*a) for a in n[2]], self.nodes(n[3]))
        if k == "block":
            # a plain <block> only contributes its children (with a static slot name it aims them at a slot of the enclosing component)
            at = [' slot="%s"' % n[2]] if len(n) > 2 and n[2] is not None else []
            # (4th component: `slot:` value references of the block itself, [(name, alias or None)])
            at += [self.attr("slot:", nm, None if al is None else ("static", al)) for nm, al in (n[3] if len(n) > 3 else [])]
            return self.open_close("block", at, self.nodes(n[1]))
        if k == "for":
            _, lst, item, index, key, car = n
            tag, at, inner = self.carrier_parts(car)
            extra = ["wx:for=" + '"' + self.value_text(lst, '"') + '"']
            if item is not None:
                extra.append('wx:for-item="%s"' % item)
            if index is not None:
                extra.append('wx:for-index="%s"' % index)
            if key is not None:
                extra.append('wx:key="%s"' % key)
            allat = extra + at
            if self.vary and self.rng.chance(1, 2):
                allat = at + extra
            return self.open_close(tag, allat, inner)
        if k == "if":
            out = []
            for i, (cond, car) in enumerate(n[1]):
                tag, at, inner = self.carrier_parts(car)
                kw = "wx:if" if i == 0 else "wx:elif"
                out.append(self.open_close(tag, [kw + '="' + self.value_text(cond, '"') + '"'] + at, inner))
                if self.vary and self.rng.chance(1, 3):
                    # between the members of a group: runs of comments and white space (the group goes on over any number of them)
                    more = i + 1 < len(n[1]) or n[2] is not None      # (white space after the last member would belong to a text that follows the group)
                    for _ in range(1 + self.rng.below(4)):
                        out.append(self.rng.choice(["<!-- between -->", "<!---->", " ", "\n  ", "<!-- between -->"] if more else ["<!-- between -->", "<!---->"]))
            if n[2] is not None:
                tag, at, inner = self.carrier_parts(n[2])
                out.append(self.open_close(tag, ["wx:else"] + at, inner))
            return "".join(out)
        if k == "tref":
            at = ['is="' + self.value_text(n[1], '"') + '"']
            if n[2] is not None and len(n[2]) > 0:
                parts = []
                for d in n[2]:
                    if d[0] == "named":
                        parts.append(d[1] + ": " + eg.src(requote(d[2], "'"), "min"))
                    elif d[0] == "short":
                        parts.append(d[1])
                    else:
                        parts.append("..." + eg.src(requote(d[1], "'"), "min"))
                at.append('data="{{ ' + ", ".join(parts) + ' }}"')
            return self.open_close("template", at, "")
        if k == "include":
            return '<include src="%s"/>' % n[1]
        if k == "import":
            return '<import src="%s"/>' % n[1]
        if k == "slot":
            at = []
            if n[1] is not None:
                at.append('name="' + self.value_text(n[1], '"') + '"')
            for (nm, v) in n[2]:
                at.append(self.attr("slot:", nm[5:], v) if nm.startswith("slot:") else self.attr("plain", nm, v))
            return self.open_close("slot", at, "")
        if k == "comment":
            return "<!--" + n[1] + "-->"
        if k == "wxs":
            return '<wxs module="%s">%s</wxs>' % (n[1], n[2])
        raise ValueError(k)

    def template(self, t):
        out = []
        subs = list(t["subs"].items())
        for name, body in subs:
            out.append('<template name="%s">%s</template>' % (name, self.nodes(body)))
        body = self.nodes(t["nodes"])
        srcm = t.get("src_modules", [])
        mods = "".join(('<wxs module="%s" src="./%s_mod"/>' % (n, n)) if n in srcm else ('<wxs module="%s">%s</wxs>' % (n, c)) for n, c in t.get("modules", []))
        if self.vary and self.rng.chance(1, 2):
            return body + "".join(out) + mods
        if self.vary and self.rng.chance(1, 2):
            return "".join(out) + body + mods
        return mods + "".join(out) + body


def requote(tree, q):
    """same tree with string literals printed using quote q"""
    if isinstance(tree, tuple):
        if tree and tree[0] == "str":
            return ("str", tree[1], q)
        return tuple(requote(x, q) for x in tree)
    if isinstance(tree, list):
        return [requote(x, q) for x in tree]
    return tree


# ---------------------------------------------------------------------------------------------
# reference renderer, emitted as JavaScript
class RefJs:
    """Builds `function(D){...; return tree}` for one abstract template; helpers M/CALL/TOSTR come from the caller."""

    def __init__(self, t):
        self.t = t
        self.n = 0
        self.lines = []

    def fresh(self, p="v"):
        self.n += 1
        return "%s%d" % (p, self.n)

    def ex(self, tree, scopes, D="D"):
        """JS for an expression: names resolve to the innermost scope variable, else to the data field"""
        return expr_js(tree, scopes, D)

    def val(self, v, scopes, D="D"):
        """raw value of an attribute value"""
        if v is None:
            return "true"
        if v[0] == "static":
            return eg.js_str(v[1])
        if v[0] == "expr":
            return self.ex(v[1], scopes, D)
        return "(" + "+".join(eg.js_str(p[1]) if p[0] == "s" else "TOSTR(" + self.ex(p[1], scopes, D) + ")" for p in v[1]) + ")"

    def emit(self, s):
        self.lines.append(s)

    def nodes(self, ns, out, scopes, D):
        for n in ns:
            self.node(n, out, scopes, D)

    def dyn_nodes(self, ns, out, scopes, D, j, sname, real_v=True):
        """`real_v`: do `slot:` references at this level read the slot values of the instance (only the children function of the component itself is
        handed them) or the parameter of a nested function (wx:if branch, <block>, wx:for item), which nobody supplies"""
        js = eg.js_str
        for n in ns:
            k = n[0]
            if k == "text":
                if sname == "":
                    self.node(n, out, scopes, D)
            elif k == "elem":
                # slot values reach the DIRECT content only; the element is not given a slot attribute (it is tied to the slot instance); its own
                # `slot:` names are in scope for its `slot` attribute too
                sv = (lambda nm: js("SV%d:%s" % (j, camel(nm)))) if real_v else None
                inner = list(scopes)
                for fam, name, v in n[2]:
                    if fam == "slot:":
                        inner.append((v[1] if v is not None else name, sv(name) if sv else js("SV:" + camel(name))))
                slot = [a for a in n[2] if a[0] == "slot"]
                want = "''" if not slot else f"TOSTR({self.val(slot[0][2], inner, D)})"
                self.emit(f"if({want}==={js(sname)}){{")
                self.elem(n, out, scopes, D, slot_values=sv, no_slot_attr=True)
                self.emit("}")
            elif k == "block" and len(n) > 2:
                # <block slot="name">: all of its content goes to that slot (and is rendered as ordinary content)
                if n[2] == sname:
                    self.nodes(n[1], out, scopes, D)
            elif k == "block":
                self.dyn_nodes(n[1], out, scopes, D, j, sname, False)
            elif k == "for":
                _, lst, item, index, key, car = n
                iv, xv = self.fresh("$it"), self.fresh("$ix")
                self.emit(f"FOR({self.val(lst, scopes, D)},function({iv},{xv}){{")
                self.dyn_nodes([car] if car[0] != "block" or len(car) > 2 else car[1], out, scopes + [(item or "item", iv), (index or "index", xv)], D, j, sname, False)
                self.emit("});")
            elif k == "if":
                first = True
                for cond, car in n[1]:
                    self.emit(("if(" if first else "else if(") + self.val(cond, scopes, D) + "){")
                    self.dyn_nodes([car] if car[0] != "block" or len(car) > 2 else car[1], out, scopes, D, j, sname, False)
                    self.emit("}")
                    first = False
                if n[2] is not None:
                    self.emit("else{")
                    self.dyn_nodes([n[2]] if n[2][0] != "block" or len(n[2]) > 2 else n[2][1], out, scopes, D, j, sname, False)
                    self.emit("}")
            elif k == "slot":
                self.node(n, out, scopes, D)     # a <slot> in the content is created for every slot instance
            else:
                raise ValueError("dyn content: " + k)

    def elem(self, n, out, scopes, D, slot_values=None, no_slot_attr=False):
        _, tag, attrs, children = n
        e = self.fresh("e")
        self.emit(f"var {e}={{tag:{eg.js_str(tag)},calls:[]}};")
        # slot values: the value of slot value `n` is the probe string "SV:n" (see js/runner.mjs, "slotValues")
        for fam, name, v in attrs:
            if fam == "slot:":
                # the slot value is looked up by the camel-cased name; the scope variable is the alias, else the name as written
                scopes = scopes + [(v[1] if v is not None else name, slot_values(name) if slot_values else eg.js_str("SV:" + camel(name)))]
        self.attr_calls(e, attrs, scopes, D, on_slot=False, no_slot_attr=no_slot_attr)
        ch = self.fresh("c")
        self.emit(f"var {ch}=[];")
        if tag == "cmp-dyn":
            # a component with dynamic slots: its content is rendered once per slot instance, each time keeping only what aims at that slot
            for j, sname in enumerate(COMPONENT_DEFS["cmp-dyn"]["slots"]):
                self.dyn_nodes(children, ch, scopes, D, j, sname)
        else:
            self.nodes(children, ch, scopes, D)
        self.emit(f"if({ch}.length){e}.children={ch};")
        self.emit(f"{out}.push({e});")

    def attr_calls(self, e, attrs, scopes, D, on_slot, no_slot_attr=False):
        js = eg.js_str
        for fam, name, v in attrs:
            if fam == "slot:" or (fam == "slot" and no_slot_attr):
                continue
            val = self.val(v, scopes, D)
            if fam == "plain":
                if on_slot:
                    sv = js("") if v is None else val
                    self.emit(f"{e}.calls.push(['l',{js(camel(name))},{sv}]);")
                else:
                    self.emit(f"{e}.calls.push(['r',{js(name)},{val}]);")
            elif fam == "model:":
                self.emit(f"{e}.calls.push(['r',{js(camel(name))},{val}]);")
            elif fam == "class":
                self.emit(f"{e}.calls.push(['c',{val}]);")
            elif fam == "style":
                self.emit(f"{e}.calls.push(['y',{val}]);")
            elif fam == "id":
                self.emit(f"{e}.calls.push(['i',{val}]);")
            elif fam == "slot":
                # (the slot of an element is `Y(value)`: null and undefined select the default slot, as for virtual nodes)
                self.emit(f"{e}.calls.push(['=slot',TOSTR({val})]);")
            elif fam == "data-":
                self.emit(f"{e}.calls.push(['d',{js(camel(name.lower()))},{val}]);")
            elif fam == "data:":
                self.emit(f"{e}.calls.push(['d',{js(name)},{val}]);")
            elif fam == "mark:":
                self.emit(f"{e}.calls.push(['m',{js(name)},{val}]);")
            elif fam in ("bind:", "catch:", "mut-bind:", "capture-bind:", "capture-catch:", "capture-mut-bind:"):
                is_catch = "catch" in fam
                is_mut = "mut" in fam
                is_cap = fam.startswith("capture")
                handler = js("") if v is None else val
                dyn = "true" if (v is not None and v[0] != "static") else "false"
                self.emit(f"{e}.calls.push(['v',{js(name)},{handler},{str(is_catch).lower()},{str(is_mut).lower()},{str(is_cap).lower()},{dyn}]);")
            elif fam == "change:":
                if v is not None and v[0] != "static":
                    self.emit(f"{e}.calls.push(['p',{js(camel(name))},{val}]);")
            elif fam == "worklet:":
                self.emit(f"{e}.calls.push(['wl',{js(camel(name))},{val}]);")
            elif fam == "generic:":
                self.emit(f"A({e},'generics',{js(name)},{val});")
            elif fam == "extra-attr:":
                self.emit(f"{e}.calls.push(['a',{js(name)},{val}]);")

    def carrier(self, n, out, scopes, D):
        if n[0] == "block":
            self.nodes(n[1], out, scopes, D)
        else:
            self.elem(n, out, scopes, D)

    def node(self, n, out, scopes, D):
        k = n[0]
        if k == "text":
            v = n[1]
            if v[0] == "static":
                self.emit(f"{out}.push({{text:{eg.js_str(v[1])}}});")
            elif v[0] == "expr":
                self.emit(f"{out}.push({{text:TOSTR({self.ex(v[1], scopes, D)})}});")
            else:
                self.emit(f"{out}.push({{text:{self.val(v, scopes, D)}}});")
        elif k == "elem":
            self.elem(n, out, scopes, D)
        elif k == "block":
            # a <block> may introduce slot value names of its own (probe values, like an element's)
            inner = scopes + [((al if al is not None else nm), eg.js_str("SV:" + camel(nm))) for nm, al in (n[3] if len(n) > 3 else [])]
            self.nodes(n[1], out, inner, D)
        elif k == "for":
            _, lst, item, index, key, car = n
            iv, xv = self.fresh("$it"), self.fresh("$ix")
            self.emit(f"FOR({self.val(lst, scopes, D)},function({iv},{xv}){{")
            self.carrier(car, out, scopes + [(item or "item", iv), (index or "index", xv)], D)
            self.emit("});")
        elif k == "if":
            first = True
            for cond, car in n[1]:
                self.emit(("if(" if first else "else if(") + self.val(cond, scopes, D) + "){")
                self.carrier(car, out, scopes, D)
                self.emit("}")
                first = False
            if n[2] is not None:
                self.emit("else{")
                self.carrier(n[2], out, scopes, D)
                self.emit("}")
        elif k == "tref":
            _, isv, data = n
            nm = self.fresh("t")
            self.emit(f"var {nm}={self.val(isv, scopes, D)};")
            # template data: an object built from the data attribute (null-prototype like the runtime's)
            parts = []
            for d in data or []:
                if d[0] == "named":
                    parts.append(f"{eg.js_str(d[1])}:{self.ex(d[2], scopes, D)}")
                elif d[0] == "short":
                    parts.append(f"{eg.js_str(d[1])}:{self.ex(('data', d[1]), scopes, D)}")
                else:
                    parts.append(f"...SPREADOBJ({self.ex(d[1], scopes, D)})")
            dd = self.fresh("d")
            self.emit(f"var {dd}={{{','.join(parts)}}};")
            self.emit(f"if({nm}&&SUBS[{nm}])SUBS[{nm}]({dd},{out});")
        elif k == "slot":
            # (the `slot:` value references a <slot> element carries are in scope for its OWN name and passed values: slot forwarding)
            scopes = scopes + [((v[1] if v is not None else nm[5:]), eg.js_str("SV:" + camel(nm[5:]))) for (nm, v) in n[2] if nm.startswith("slot:")]
            nmv = "''" if n[1] is None else f"TOSTR({self.val(n[1], scopes, D)})"
            e = self.fresh("e")
            self.emit(f"var {e}={{slot:{nmv},calls:[]}};")
            self.attr_calls(e, [("plain", nm, v) for (nm, v) in n[2] if not nm.startswith("slot:")], scopes, D, on_slot=True)
            self.emit(f"{out}.push({e});")
        elif k in ("comment", "wxs", "import"):
            pass
        elif k == "include":
            self.emit(f"if(INCLUDES[{eg.js_str(n[1])}])INCLUDES[{eg.js_str(n[1])}]({D},{out});")
        else:
            raise ValueError(k)

    def build(self):
        subs_js = []
        # script modules: file-level scopes, the outermost ones, in the main template and in every named template
        mods = self.t.get("modules", [])
        base = [(n, "MOD%d" % i) for i, (n, c) in enumerate(mods)]
        mods_js = "".join("var MOD%d=(function(){var module={exports:{}};var exports=module.exports;%s;return module.exports})();" % (i, c)
                          for i, (n, c) in enumerate(mods))
        for name, body in self.t["subs"].items():
            self.lines = []
            self.nodes(body, "out", list(base), "D")
            subs_js.append(f"SUBS[{eg.js_str(name)}]=function(D,out){{" + "".join(self.lines) + "};")
        self.lines = []
        self.nodes(self.t["nodes"], "out", list(base), "D")
        main = "".join(self.lines)
        return ("(function(D){var SUBS=Object.create(null),INCLUDES=Object.create(null);" + mods_js + "".join(subs_js) +
                "var out=[];" + main + "return out})")


REF_PRELUDE = r"""
var M=function(o,k){return o==null?undefined:o[k]};
var CALL=function(f){var a=Array.prototype.slice.call(arguments,1);return typeof f==='function'?f.apply(undefined,a):undefined};
var TOSTR=function(a){return a==null?'':String(a)};
var STR=function(a){return a==null?'':String(a)};
var CLS=function(a){return a==null?'':String(a)};
var SPREADOBJ=function(a){return a==null?{}:a};
var A=function(e,g,k,v){if(!e[g])e[g]={};e[g][k]=v};
var EV=function(e,n,h,c,m,cap,dyn){if(!e.events)e.events=[];e.events.push([n,h,c,m,cap,dyn])};
var FOR=function(l,f){
  if(Array.isArray(l)){for(var i=0;i<l.length;i++)f(l[i],i)}
  else if(typeof l==='object'&&l!==null){Object.keys(l).forEach(function(k){f(l[k],k)})}
  else if(typeof l==='string'){for(var j=0;j<l.length;j++)f(l[j],j)}
  else if(typeof l==='number'){var n=(Number.isSafeInteger(l)&&l>=0&&l<4294967296)?l:0;for(var q=0;q<n;q++)f(q,q)}
};
"""


def expr_js(t, scopes, D="D"):
    """reference JS for a tree; `scopes` = [(name, jsvar)] innermost last"""
    k = t[0]
    r = lambda x: expr_js(x, scopes, D)
    if k == "data":
        for name, var in reversed(scopes):
            if name == t[1]:
                return var
        return f"{D}[{eg.js_str(t[1])}]"
    if k == "scope":
        return scopes[t[1]][1]
    if k in ("undef", "null", "str", "int", "float", "bool"):
        return eg.js_ref(t)
    if k == "obj":
        parts = []
        for f in t[1]:
            parts.append(f"{eg.js_str(f[1])}:{r(f[3])}" if f[0] == "named" else f"...SPREADOBJ({r(f[1])})")
        return "({" + ",".join(parts) + "})"
    if k == "arr":
        parts = [r(f[1]) if f[0] == "item" else ("...(" + r(f[1]) + ")" if f[0] == "spread" else "") for f in t[1]]
        s = ",".join(parts)
        if t[1] and t[1][-1][0] == "hole":
            s += ","
        return "[" + s + "]"
    if k == "smember":
        return f"M({r(t[1])},{eg.js_str(t[2])})"
    if k == "dmember":
        return f"M({r(t[1])},{r(t[2])})"
    if k == "call":
        return "CALL(" + ",".join([r(t[1])] + [r(a) for a in t[2]]) + ")"
    if k == "un":
        return "(" + eg.UNOPS[t[1]] + " " + r(t[2]) + ")"
    if k == "bin":
        return "(" + r(t[2]) + " " + eg.BINOPS[t[1]][0] + " " + r(t[3]) + ")"
    if k == "cond":
        return "(" + r(t[1]) + " ? " + r(t[2]) + " : " + r(t[3]) + ")"
    raise ValueError(k)


def ref_program(t):
    return REF_PRELUDE + "return " + RefJs(t).build() + "(D)"


ARITY = {"a": 3, "c": 2, "y": 2, "i": 2, "=slot": 2, "wl": 3, "p": 3, "r": 3, "d": 3, "m": 3, "v": 7, "l": 3, "s": 2}


COMPONENT_DEFS = json.load(open(os.path.join(os.path.dirname(os.path.abspath(__file__)), "..", "js", "stubs", "components.json")))


def expected_effects(tag, calls):
    """what the setter calls of the reference must have done to the node (ProcGenWrapper r / c / y): a component takes a declared property
    under its camel-cased name, else an external class under the name as written, else nothing; a native node takes the attribute as written"""
    o = {}
    if tag.startswith("cmp-"):
        d = COMPONENT_DEFS.get(tag, {"props": [], "externalClasses": []})
        props, ext = {}, {}
        for c in calls:
            if c[0] == "r":
                if camel(c[1]) in d["props"]:
                    props[camel(c[1])] = c[2]
                elif c[1] in d["externalClasses"]:
                    ext[c[1]] = c[2]
            elif c[0] == "c" and "class" in d["externalClasses"]:
                ext["class"] = c[1]
            elif c[0] == "y" and "style" in d["props"]:
                props["style"] = c[1]
        o["comp"] = True
        if props:
            o["props"] = props
        if ext:
            o["extClasses"] = ext
    # (`extra-attr:` always writes the attribute; call order = attribute order, the later write wins)
    attrs = {c[1]: c[2] for c in calls if c[0] == "a" or (c[0] == "r" and not tag.startswith("cmp-"))}
    if attrs:
        o["attrs"] = attrs
    return o


def norm_calls(calls):
    out = []
    for c in calls:
        m = c[0]
        if m not in ARITY:
            continue
        c = list(c[:ARITY[m]])
        if m in ("=slot", "s"):
            c = ["=slot", c[1] if isinstance(c[1], str) else json.dumps(c[1])]
        out.append(c)
    return sorted(out, key=lambda x: json.dumps(x))


def project(tree, real=False):
    """comparison form of a dumped tree: tag / text / slot name, the multiset of setter calls (method + raw
    arguments, trailing l-value paths cut), generics, children"""
    if isinstance(tree, list):
        return [project(x, real) for x in tree]
    if isinstance(tree, dict):
        if "$" in tree:
            return tree
        o = {}
        for k in ("tag", "text", "slot"):
            if k in tree:
                o[k] = tree[k]
        if "tag" in tree or "slot" in tree:
            calls = norm_calls(tree.get("log" if real else "calls", []))
            if calls:
                o["calls"] = calls
        if "tag" in tree:
            if real:
                for k in ("comp", "props", "extClasses", "attrs", "pending"):
                    if k in tree:
                        o[k] = tree[k]
            else:
                o.update(expected_effects(tree["tag"], tree.get("calls", [])))
            for k in ("props", "extClasses", "attrs"):
                if k in o:
                    o[k] = dict(sorted(o[k].items()))
        if tree.get("generics"):
            o["generics"] = tree["generics"]
        ch = project(tree.get("children", []), real)
        if ch:
            o["children"] = ch
        return o
    return tree


# ---------------------------------------------------------------------------------------------
# which data fields are read where (for the binding-map oracle)
def tree_fields(t, bound=()):
    out = set()
    if isinstance(t, tuple):
        if t and t[0] == "data":
            if t[1] not in bound:
                out.add(t[1])
            return out
        if t and t[0] == "str":
            return out
        for x in t:
            out |= tree_fields(x, bound)
    elif isinstance(t, list):
        for x in t:
            out |= tree_fields(x, bound)
    return out


def value_fields(v, bound=()):
    if v is None or v[0] == "static":
        return set()
    if v[0] == "expr":
        return tree_fields(v[1], bound)
    out = set()
    for p in v[1]:
        if p[0] == "e":
            out |= tree_fields(p[1], bound)
    return out


def field_uses(t):
    """(reachable, unreachable, has_include): data fields of the MAIN template read in statically reachable value positions /
    in dynamic subtrees or structural positions"""
    reach, unreach = set(), set()
    has_include = [False]

    def nodes(ns, dyn, bound):
        for n in ns:
            node(n, dyn, bound)

    def elem(n, dyn, bound):
        for fam, name, v in n[2]:
            if fam == "slot:":
                bound = tuple(bound) + ((v[1] if v is not None else name),)
        for fam, name, v in n[2]:
            if fam == "slot:":
                continue
            (unreach if dyn else reach).update(value_fields(v, bound))
        nodes(n[3], dyn, bound)

    def carrier(n, bound):
        if n[0] == "block":
            nodes(n[1], True, bound)
        else:
            elem(n, True, bound)

    def node(n, dyn, bound):
        k = n[0]
        if k == "text":
            (unreach if dyn else reach).update(value_fields(n[1], bound))
        elif k == "elem":
            elem(n, dyn, bound)
        elif k == "block":
            nodes(n[1], dyn, bound)
        elif k == "for":
            unreach.update(value_fields(n[1], bound))
            carrier(n[5], tuple(bound) + (n[2] or "item", n[3] or "index"))
        elif k == "if":
            for cond, car in n[1]:
                unreach.update(value_fields(cond, bound))
                carrier(car, bound)
            if n[2] is not None:
                carrier(n[2], bound)
        elif k == "tref":
            unreach.update(value_fields(n[1], bound))
            for d in n[2] or []:
                if d[0] == "named":
                    unreach.update(tree_fields(d[2], bound))
                elif d[0] == "short":
                    if d[1] not in bound:
                        unreach.add(d[1])
                else:
                    unreach.update(tree_fields(d[1], bound))
        elif k == "slot":
            unreach.update(value_fields(n[1], bound))
            for nm, v in n[2]:
                if not nm.startswith("slot:"):
                    unreach.update(value_fields(v, bound))
        elif k == "include":
            has_include[0] = True

    nodes(t["nodes"], False, tuple(n for n, _ in t.get("modules", [])))
    return reach, unreach, has_include[0]
