/-!
Model of `escape_html_body` / `escape_html_quote` (`escape.rs`) and of the entity scanner
`StrName::parse_next_entity` (`parse/tag.rs`) as used for static text and attribute values.
The named-entity table is a parameter (`entities::decode`); numeric references are decoded by `num`.
-/
namespace GE.Esc

def escBodyChar (c : Char) : List Char :=
  if c = '<' then "&lt;".toList else if c = '"' then "&quot;".toList else if c = '&' then "&amp;".toList else [c]

def escQuoteChar (c : Char) : List Char :=
  if c = '"' then "&quot;".toList else if c = '&' then "&amp;".toList else [c]

/-- `escape_html_body` -/
def escBody (s : List Char) : List Char := s.flatMap escBodyChar
/-- `escape_html_quote` -/
def escQuote (s : List Char) : List Char := s.flatMap escQuoteChar

def isAlpha (c : Char) : Bool := ('a' ≤ c && c ≤ 'z') || ('A' ≤ c && c ≤ 'Z')
def isDigit (c : Char) : Bool := '0' ≤ c && c ≤ '9'
def isHex (c : Char) : Bool := isDigit c || ('a' ≤ c && c ≤ 'f') || ('A' ≤ c && c ≤ 'F')

/-- characters of a reference body up to `;` (`none` = malformed: the `&` stays literal) -/
def scanName (ok : Char → Bool) : List Char → List Char → Option (List Char × List Char)
  | [], _ => none
  | c :: r, acc => if c = ';' then some (acc.reverse, r) else if ok c then scanName ok r (c :: acc) else none

/-- what one `&…;` decodes to: `tbl` for named references, `num` for numeric ones -/
structure Tables where
  named : List Char → Option (List Char)
  num : Bool → List Char → Option (List Char)      -- (hex?, digits)

/-- `parse_next_entity` at a `&`: the decoded text and the remaining input, `none` = not an entity -/
def entityAt (t : Tables) : List Char → Option (List Char × List Char)
  | '#' :: 'x' :: r => (match scanName isHex r [] with
      | some (ds, rest) => (t.num true ds).map (·, rest)
      | none => none)
  | '#' :: d :: r => if isDigit d then (match scanName isDigit (d :: r) [] with
      | some (ds, rest) => (t.num false ds).map (·, rest)
      | none => none) else none
  | c :: r => if isAlpha c then (match scanName (fun x => isAlpha x || isDigit x) (c :: r) [] with
      | some (nm, rest) => (t.named nm).map (·, rest)
      | none => none) else none
  | [] => none

/-- decoding of static text (fuel = length of the input; every step consumes at least one character) -/
def decode (t : Tables) : Nat → List Char → List Char
  | 0, _ => []
  | _, [] => []
  | n + 1, c :: r =>
    if c = '&' then
      (match entityAt t r with
       | some (v, rest) => v ++ decode t n rest
       | none => c :: decode t n r)
    else c :: decode t n r

end GE.Esc
