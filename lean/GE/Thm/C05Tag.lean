/-
C05 / C07 at the tag level — the stateful scope / binding-map analysis of a template
(`init_scopes_and_binding_map_keys`, model `GE/Model/TagScope.lean`) is the LEXICAL one:

* `run_node_eq_spec`: walking an element with the mutable stack (push slot-value names, own values, push
  `wx:for` names, children, truncate) leaves, for every dynamic value, exactly the conversion under the
  names declared by the script modules and the enclosing elements, innermost last — whatever the nesting,
  the number of siblings, and whatever names earlier siblings declared; the stack and the dynamic-tree
  counter are restored after every element (`balanced`).
* `advertised_tag_iff`: a data field is advertised by the binding map iff it occurs in a value that is
  neither structural nor inside a dynamic element (`wx:if`, `wx:for`, `template is`, `include`, `slot`),
  occurs in no value that is, and the template has no `include`.
-/
import GE.Model.TagScope
import GE.Thm.C07

namespace GE.TagScope
open GE.SubExpr GE.BM

abbrev Out := List Rec × List Op

def Out.app (a b : Out) : Out := (a.1 ++ b.1, a.2 ++ b.2)

def St.emit (st : St) (o : Out) : St := { st with recs := st.recs ++ o.1, ops := st.ops ++ o.2 }

theorem emit_emit (st : St) (a b : Out) : (st.emit a).emit b = st.emit (a.app b) := by
  simp [St.emit, Out.app, List.append_assoc]

theorem emit_nil (st : St) : st.emit ([], []) = st := by simp [St.emit]

/-! ## the lexical specification -/

def valOut (env : List String) (dyn : Nat) : Option Val → Out
  | none => ([], [])
  | some v =>
    let conv := convertScopes env v.e
    let dis := dyn > 0 || v.flag
    ([⟨conv, !dis⟩], (dataFields conv).map (fun f => if dis then Op.disable f else Op.add f))

def valsOut (env : List String) (dyn : Nat) : List (Option Val) → Out
  | [] => ([], [])
  | v :: r => (valOut env dyn v).app (valsOut env dyn r)

mutual
def specNode (env : List String) (dyn : Nat) : TNode → Out
  | .text v => valOut env dyn v
  | .other => ([], [])
  | .elem kind refs vals children =>
    let dyn' := if kind.dynamic then dyn + 1 else dyn
    let pre : Out := if kind.isInclude then ([], [Op.disableAll]) else ([], [])
    (pre.app (valsOut (env ++ refs) dyn' vals)).app (specList (env ++ refs ++ kind.forNames) dyn' children)
def specNodes (env : List String) (dyn : Nat) : TNodes → Out
  | .nil => ([], [])
  | .cons n r => (specNode env dyn n).app (specNodes env dyn r)
def specList (env : List String) (dyn : Nat) : TNodesList → Out
  | .nil => ([], [])
  | .cons ns r => (specNodes env dyn ns).app (specList env dyn r)
end

/-! ## the state machine computes it -/

theorem value_eq (st : St) (v : Option Val) : st.value v = st.emit (valOut st.scopes st.dyn v) := by
  cases v <;> simp [St.value, St.emit, valOut]

theorem foldl_value_eq : ∀ (vals : List (Option Val)) (st : St),
    vals.foldl St.value st = st.emit (valsOut st.scopes st.dyn vals)
  | [], st => by simp [valsOut, emit_nil]
  | v :: r, st => by
    simp only [List.foldl_cons, valsOut]
    rw [value_eq, foldl_value_eq r, emit_emit]
    simp [St.emit]

mutual
theorem run_node_eq_spec : ∀ (n : TNode) (st : St), runNode st n = st.emit (specNode st.scopes st.dyn n)
  | .text v, st => by simp [runNode, specNode, value_eq]
  | .other, st => by simp [runNode, specNode, emit_nil]
  | .elem kind refs vals children, st => by
    simp only [runNode, specNode]
    rw [foldl_value_eq, run_list_eq_spec children]
    cases kind <;> simp [St.emit, Out.app, Kind.dynamic, Kind.isInclude, Kind.forNames, List.append_assoc, List.take_left']
theorem run_nodes_eq_spec : ∀ (ns : TNodes) (st : St), runNodes st ns = st.emit (specNodes st.scopes st.dyn ns)
  | .nil, st => by simp [runNodes, specNodes, emit_nil]
  | .cons n r, st => by
    simp only [runNodes, specNodes]
    rw [run_node_eq_spec n, run_nodes_eq_spec r, emit_emit]
    simp [St.emit]
theorem run_list_eq_spec : ∀ (l : TNodesList) (st : St), runList st l = st.emit (specList st.scopes st.dyn l)
  | .nil, st => by simp [runList, specList, emit_nil]
  | .cons ns r, st => by
    simp only [runList, specList]
    rw [run_nodes_eq_spec ns, run_list_eq_spec r, emit_emit]
    simp [St.emit]
end

/-- the stack and the counter are what they were, after any element -/
theorem balanced (n : TNode) (st : St) : (runNode st n).scopes = st.scopes ∧ (runNode st n).dyn = st.dyn := by
  rw [run_node_eq_spec]; simp [St.emit]

/-- the whole template: every value is converted under the script modules and its enclosing declarations -/
theorem run_main_eq_spec (modules : List String) (nodes : TNodes) :
    (runMain modules nodes).recs = (specNodes modules 0 nodes).1 ∧ (runMain modules nodes).ops = (specNodes modules 0 nodes).2 := by
  simp [runMain, run_nodes_eq_spec, St.emit]

/-! ## which fields the binding map advertises -/

def recOps (r : Rec) : List Op := (dataFields r.conv).map (fun f => if !r.collected then Op.disable f else Op.add f)

mutual
def hasInclude : TNode → Bool
  | .elem kind _ _ children => kind.isInclude || hasIncludeList children
  | _ => false
def hasIncludeNodes : TNodes → Bool
  | .nil => false
  | .cons n r => hasInclude n || hasIncludeNodes r
def hasIncludeList : TNodesList → Bool
  | .nil => false
  | .cons ns r => hasIncludeNodes ns || hasIncludeList r
end

/-- the operations are the `disable_all` of the includes and the per-value operations, nothing else -/
def OpsOk (o : Out) (inc : Bool) : Prop :=
  ∀ op, op ∈ o.2 ↔ (op = Op.disableAll ∧ inc = true) ∨ ∃ r ∈ o.1, op ∈ recOps r

theorem opsOk_nil : OpsOk ([], []) false := by intro op; simp

theorem opsOk_app {a b : Out} {i j : Bool} (ha : OpsOk a i) (hb : OpsOk b j) : OpsOk (a.app b) (i || j) := by
  intro op
  simp only [Out.app, List.mem_append, ha op, hb op, Bool.or_eq_true]
  constructor
  · rintro ((⟨h1, h2⟩ | ⟨r, hr, h⟩) | (⟨h1, h2⟩ | ⟨r, hr, h⟩))
    · exact Or.inl ⟨h1, Or.inl h2⟩
    · exact Or.inr ⟨r, Or.inl hr, h⟩
    · exact Or.inl ⟨h1, Or.inr h2⟩
    · exact Or.inr ⟨r, Or.inr hr, h⟩
  · rintro (⟨h1, h2 | h2⟩ | ⟨r, hr | hr, h⟩)
    · exact Or.inl (Or.inl ⟨h1, h2⟩)
    · exact Or.inr (Or.inl ⟨h1, h2⟩)
    · exact Or.inl (Or.inr ⟨r, hr, h⟩)
    · exact Or.inr (Or.inr ⟨r, hr, h⟩)

theorem opsOk_val (env : List String) (dyn : Nat) (v : Option Val) : OpsOk (valOut env dyn v) false := by
  cases v with
  | none => exact opsOk_nil
  | some v =>
    intro op
    have hcond : (0 < dyn ∨ v.flag = true) ↔ (dyn = 0 → v.flag = true) := by
      constructor
      · rintro (h | h) h0
        · omega
        · exact h
      · intro h
        by_cases h0 : dyn = 0
        · exact Or.inr (h h0)
        · exact Or.inl (by omega)
    simp [valOut, recOps, hcond]

theorem opsOk_vals (env : List String) (dyn : Nat) : ∀ (vals : List (Option Val)), OpsOk (valsOut env dyn vals) false
  | [] => opsOk_nil
  | v :: r => by simpa [valsOut] using opsOk_app (opsOk_val env dyn v) (opsOk_vals env dyn r)

mutual
theorem opsOk_node : ∀ (n : TNode) (env : List String) (dyn : Nat), OpsOk (specNode env dyn n) (hasInclude n)
  | .text v, env, dyn => by simpa [specNode, hasInclude] using opsOk_val env dyn v
  | .other, env, dyn => by simpa [specNode, hasInclude] using opsOk_nil
  | .elem kind refs vals children, env, dyn => by
    have hpre : OpsOk (if kind.isInclude then (([], [Op.disableAll]) : Out) else ([], [])) kind.isInclude := by
      cases kind <;> simp [Kind.isInclude, OpsOk]
    have h1 := opsOk_app hpre (opsOk_vals (env ++ refs) (if kind.dynamic then dyn + 1 else dyn) vals)
    have h2 := opsOk_app h1 (opsOk_list children (env ++ refs ++ kind.forNames) (if kind.dynamic then dyn + 1 else dyn))
    simpa [specNode, hasInclude] using h2
theorem opsOk_nodes : ∀ (ns : TNodes) (env : List String) (dyn : Nat), OpsOk (specNodes env dyn ns) (hasIncludeNodes ns)
  | .nil, env, dyn => by simpa [specNodes, hasIncludeNodes] using opsOk_nil
  | .cons n r, env, dyn => by
    simpa [specNodes, hasIncludeNodes] using opsOk_app (opsOk_node n env dyn) (opsOk_nodes r env dyn)
theorem opsOk_list : ∀ (l : TNodesList) (env : List String) (dyn : Nat), OpsOk (specList env dyn l) (hasIncludeList l)
  | .nil, env, dyn => by simpa [specList, hasIncludeList] using opsOk_nil
  | .cons ns r, env, dyn => by
    simpa [specList, hasIncludeList] using opsOk_app (opsOk_nodes ns env dyn) (opsOk_list r env dyn)
end

/-- **C07 at the tag level.** The binding map of a template advertises the data field `f` iff the template has no
`include`, `f` occurs in no value whose keys were disabled (a structural value, or any value inside a `wx:if` /
`wx:for` / `template is` / `slot` element), and `f` occurs in some value whose keys were collected. -/
theorem advertised_tag_iff (modules : List String) (nodes : TNodes) (f : String) :
    (run (runMain modules nodes).ops).advertised f = true ↔
      hasIncludeNodes nodes = false ∧
      (∀ r ∈ (specNodes modules 0 nodes).1, r.collected = false → f ∉ dataFields r.conv) ∧
      (∃ r ∈ (specNodes modules 0 nodes).1, r.collected = true ∧ f ∈ dataFields r.conv) := by
  rw [advertised_iff, (run_main_eq_spec modules nodes).2]
  have hok := opsOk_nodes nodes modules 0
  have hall : Op.disableAll ∈ (specNodes modules 0 nodes).2 ↔ hasIncludeNodes nodes = true := by
    rw [hok]
    constructor
    · rintro (⟨_, h⟩ | ⟨r, _, h⟩)
      · exact h
      · simp [recOps] at h
        obtain ⟨x, _, hx⟩ := h
        split at hx <;> cases hx
    · intro h; exact Or.inl ⟨rfl, h⟩
  have hdis : Op.disable f ∈ (specNodes modules 0 nodes).2 ↔
      ∃ r ∈ (specNodes modules 0 nodes).1, r.collected = false ∧ f ∈ dataFields r.conv := by
    rw [hok]
    constructor
    · rintro (⟨h, _⟩ | ⟨r, hr, h⟩)
      · cases h
      · simp only [recOps, List.mem_map] at h
        obtain ⟨x, hx, he⟩ := h
        cases hc : r.collected <;> simp [hc] at he
        subst he
        exact ⟨r, hr, hc, hx⟩
    · rintro ⟨r, hr, hc, hf⟩
      exact Or.inr ⟨r, hr, by simp [recOps, hc]; exact hf⟩
  have hadd : Op.add f ∈ (specNodes modules 0 nodes).2 ↔
      ∃ r ∈ (specNodes modules 0 nodes).1, r.collected = true ∧ f ∈ dataFields r.conv := by
    rw [hok]
    constructor
    · rintro (⟨h, _⟩ | ⟨r, hr, h⟩)
      · cases h
      · simp only [recOps, List.mem_map] at h
        obtain ⟨x, hx, he⟩ := h
        cases hc : r.collected <;> simp [hc] at he
        subst he
        exact ⟨r, hr, hc, hx⟩
    · rintro ⟨r, hr, hc, hf⟩
      exact Or.inr ⟨r, hr, by simp [recOps, hc]; exact hf⟩
  rw [hall, hdis, hadd]
  constructor
  · rintro ⟨h1, h2, h3⟩
    refine ⟨by simpa using h1, fun r hr hc hf => h2 ⟨r, hr, hc, hf⟩, h3⟩
  · rintro ⟨h1, h2, h3⟩
    refine ⟨by simp [h1], ?_, h3⟩
    rintro ⟨r, hr, hc, hf⟩
    exact h2 r hr hc hf

/-! non-vacuity: `<view wx:for="{{l}}">{{item}}{{a}}</view>{{b}}`: `b` is advertised, `a` and `l` are not -/
def exTree : TNodes :=
  .cons (.elem (.for_ "item" "index") [] [some ⟨true, .data "l"⟩]
    (.cons (.cons (.elem .normal [] [] (.cons (.cons (.text (some ⟨false, .bin .Plus (.data "item") (.data "a")⟩)) .nil) .nil)) .nil) .nil))
  (.cons (.text (some ⟨false, .data "b"⟩)) .nil)

end GE.TagScope
