"""C19 — stylesheet source maps point each output token at its source token (DESIGN.md §9 C19)."""
from . import csscheck

THEOREMS = ["GE.CssOut.utf16_len_invariant", "GE.CssOut.dst_col_exact", "GE.CssOut.entries_nondecreasing", "GE.CssOut.output_shape_ok"]


def extra_cases(rng, quick):
    """`:host` rules (converted: they go to the low-priority output behind the REPLAYED preludes of their at-rules) under at-rules whose preludes contain
    multi-byte and astral characters, strings and comments: the columns of everything written after a replayed wrapper count its UTF-16 units"""
    from . import cssgen
    out = []
    pre = ["@layer \U0001F600ui", "@layer é中.x\U00010000", "@media screen and (min-width:1px)", "@supports (--\U0001F600: 1)", "@container \U0001F600c (min-width: 1px)",
           "@supports (content: \"\U0001F600\")", "@media /*\U0001F600*/ print", "@layer a"]
    for i, p1 in enumerate(pre):
        p2 = pre[(i + 3) % len(pre)]
        for css in ("%s {\n  :host { color: red }\n  .a\\:b { width: 75rpx }\n}" % p1,
                    "%s{%s{.c{x:1} :host{y:2;z:1rpx} :host .q{w:3}}} :host{v:4}" % (p1, p2),
                    ".\U0001F600{a:b} %s { :host{color:pink} %s{ :host{margin:2rpx} } }" % (p1, p2)):
            for o in ({"convert_host": True, "class_prefix": "p"}, {"convert_host": True, "class_prefix": "\U0001F600", "host_is": "comp/\U0001F600"}, {"convert_host": False, "class_prefix": "p"}):
                base = cssgen.gen_options(rng.fork(("o", len(out))))
                base.update(o)
                out.append((base, css))
    # two or more comments in a row before a token, in every context that is read token by token including white space (selectors, the blocks and functions
    # of selectors and at-rule preludes, calc()): the position recorded for the token is the token's, not a comment's (round 11, C19-12)
    for css in (".a/* one *//* two */.b{color:red}",
                ".a/*1*//*2*//*3*/.b /*x*//*y*/ .c{w:calc(1px/*a*//*b*/+ 2px);h:calc(/*a*//*b*/1rpx)}",
                ":is(/*a*//*b*/.x,/*c*/ /*d*/.y)[/*a*//*b*/href]/*e*//*f*/:hover{a:b}",
                "@media /*a*//*b*/screen and (/*c*//*d*/min-width:1px){.q/*e*//*f*/.r{x:1rpx}}",
                ".\U0001F600/*\U0001F600*//*é*/.b\n/*1*//*2*/\n.c/**//**/>/**//**/.d{x:y}",
                "@supports (/*a*//*b*/display:grid) and (not (/*c*//*d*/.a)){/*g*//*h*/.s/*i*//*j*/{k:l}}"):
        for o in ({"class_prefix": "p"}, {"class_prefix": None}, {"class_prefix": "p", "class_prefix_sign": "sg"}):
            base = cssgen.gen_options(rng.fork(("oc", len(out))))
            base.update(o)
            out.append((base, css))
    return out


def run(chk):
    chk.rule = ("generated multi-line stylesheets with multi-byte characters and every rewrite kind x option sets; (1) model vs implementation: "
                "source positions and names of every source-map entry of both outputs; (2) oracle: for each entry the token at the generated "
                "column corresponds to the token at the source position, names carry the original spelling, entries non-decreasing, map survives JSON")
    chk.trusted = csscheck.TRUSTED
    chk.assumptions = ["utf16_len_invariant / dst_col_exact: the column recorded for a token equals the UTF-16 length of everything written before "
                       "it, for every sequence of writes (GE/Model/CssOutput.lean; that StylesheetOutputWriter has this shape is the extracted "
                       "obligation output_shape_ok); source positions are tied by correspondence; PARTIAL: serde/sourcemap crate's VLQ encoding is trusted, "
                       "checked by the oracle's JSON round trip"]
    csscheck.run_property(chk, "C19", "GE.Thm.C19", THEOREMS, 600, 10000, extra_cases=extra_cases)


def replay(chk, path):
    return csscheck.replay(chk, "C19", path)
