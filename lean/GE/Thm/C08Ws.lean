/-
C08 — which whitespace survives in selector context.

`marks` projects the written items to a sequence over two symbols: `w` (a whitespace item) and `t`
(any other token; separators and sign comments are not counted).  Theorems:

  * `convCls_marks` / `qualLoop_marks`: for every token tree, the selector loops write exactly the marks
    `selMarks` states (nested selector functions recursively; `calc()` bodies by `valMarks`);
  * `selMarks_flat`: on a block without nested blocks, `selMarks` is the *collapse* of the input:
    leading and trailing whitespace removed, every inner run of whitespace becomes ONE whitespace, every
    token stays.  Hence a descendant combinator (whitespace between two compound selectors) always
    survives, at every nesting depth of selector functions, and no whitespace appears where none was;
  * `calc_keeps_space_before_sign` / `calc_keeps_space_after_sign`: inside `calc()` a whitespace directly
    before or after a `+` / `-` delimiter is written.
-/
import GE.Thm.C09

namespace GE.Css

inductive Mark | t | w
deriving DecidableEq, Repr

def markOfK : OutK → List Mark
  | .leaf .ws => [.w]
  | .leaf (.comment _) => []
  | .sep => []
  | _ => [.t]

def marks (l : List Out) : List Mark := l.flatMap (fun o => markOfK o.k)

theorem marks_append (a b : List Out) : marks (a ++ b) = marks a ++ marks b := by simp [marks]

/-- `st'` was obtained from `st` by appending items whose marks are `ms` to the current output -/
structure WroteM (st st' : St) (ms : List Mark) : Prop where
  opts : st'.opts = st.opts
  ul : st'.usingLow = st.usingLow
  ms : marks st'.cur.items = marks st.cur.items ++ ms

theorem WroteM.refl (st : St) : WroteM st st [] := ⟨rfl, rfl, by simp⟩

theorem WroteM.trans {a b c : St} {m1 m2} (h1 : WroteM a b m1) (h2 : WroteM b c m2) : WroteM a c (m1 ++ m2) :=
  ⟨h2.opts.trans h1.opts, h2.ul.trans h1.ul, by rw [h2.ms, h1.ms, List.append_assoc]⟩

theorem wroteM_congr {a b : St} {m m'} (h : WroteM a b m) (e : m = m') : WroteM a b m' := by subst e; exact h

theorem marks_sep : marks [⟨.sep, none, none⟩] = [] := rfl

theorem wroteM_tok (st : St) (k : OutK) (pos : Pos) (name : Option String) :
    WroteM st (st.tok k pos name) (markOfK k) := by
  obtain ⟨f1, _, _, _⟩ := setCur_facts st (st.cur.token k pos name)
  refine ⟨opts_setCur _ _, f1, ?_⟩
  simp only [St.tok, cur_setCur]
  by_cases h : needsSep st.cur.prev (serOut k) = true
  · simp [Sink.token, h, marks, markOfK]
  · simp [Sink.token, h, marks]

theorem wroteM_tokSp (st : St) (k : OutK) (pos : Pos) (name : Option String) :
    WroteM st (st.tokSp k pos name) (markOfK k) := by
  by_cases hk : k = .leaf .ws
  · subst hk
    obtain ⟨f1, _, _, _⟩ := setCur_facts st (st.cur.tokenSp (.leaf .ws) pos name)
    refine ⟨opts_setCur _ _, f1, ?_⟩
    simp [St.tokSp, cur_setCur, Sink.tokenSp, marks, markOfK]
  · have : st.tokSp k pos name = st.tok k pos name := by
      unfold St.tokSp St.tok Sink.tokenSp
      split
      · exact absurd rfl hk
      · rfl
    rw [this]; exact wroteM_tok st k pos name

def flushMarks (hw : Bool) : List Mark := if hw then [.w] else []

theorem wroteM_flushWs (st : St) (hw : Bool) (pos : Pos) : WroteM st (flushWs st hw pos) (flushMarks hw) := by
  unfold flushWs flushMarks
  split
  · simpa [markOfK] using wroteM_tokSp st (.leaf .ws) pos none
  · exact WroteM.refl st

theorem wroteM_open (st : St) (k : BK) (name : String) (pos : Pos) : WroteM st (openTok st k name pos) [.t] := by
  simpa [openTok, markOfK] using wroteM_tok st (.open k name) pos none

theorem wroteM_close (st : St) (k : BK) (pos : Pos) : WroteM st (closeTok st k pos) [.t] := by
  simpa [closeTok, markOfK] using wroteM_tok st (.close (closeOf k)) pos none

theorem wroteM_writeIdent (st : St) (s : String) (pos : Pos) (ic : Bool) :
    WroteM st (writeIdent st s pos ic) [.t] := by
  unfold writeIdent
  have hsign : ∀ st0 : St, WroteM st0 (if ic then
        (match st0.opts.classPrefixSign with
         | some sign => st0.tok (.leaf (.comment sign)) pos
         | none => st0) else st0) [] := by
    intro st0
    split
    · split
      · simpa [markOfK] using wroteM_tok st0 (.leaf (.comment _)) pos none
      · exact WroteM.refl _
    · exact WroteM.refl _
  have h1 := hsign st
  generalize (if ic then
        (match st.opts.classPrefixSign with
         | some sign => st.tok (.leaf (.comment sign)) pos
         | none => st) else st) = st1 at h1
  simp only
  cases ic with
  | false => simpa [markOfK] using h1.trans (wroteM_tokSp st1 (.leaf (.ident s)) pos none)
  | true =>
    cases hp : st1.opts.classPrefix with
    | none => simpa [markOfK, hp] using h1.trans (wroteM_tokSp st1 (.leaf (.ident s)) pos none)
    | some p => simpa [markOfK, hp] using h1.trans (wroteM_tokSp st1 (.leaf (.ident (p ++ "--" ++ s))) pos (some s))

theorem wroteM_writeDim (st : St) (n : Num) (unit : String) (pos : Pos) : WroteM st (writeDim st n unit pos) [.t] := by
  unfold writeDim rpxDim
  split
  · simpa [markOfK] using wroteM_tok st (.leaf (.dim _ "vw")) pos _
  · simpa [markOfK] using wroteM_tok st (.leaf (.dim n unit)) pos none

/-! ## what the loops write, as marks -/

def isWsLeaf : Leaf → Bool
  | .ws => true
  | _ => false

mutual
/-- value context (`convert_rpx_in_block`): whitespace is written only inside `calc()` next to `+` / `-` -/
def valMarks (inCalc : Bool) : List Tok → Option Tok → List Mark
  | [], _ => []
  | t :: ts, prev =>
    match t with
    | .block k name body _ =>
      let inner := match k with
        | .fn => name = "calc" || inCalc
        | _ => inCalc
      .t :: (valMarks inner body none ++ .t :: valMarks inCalc ts (some t))
    | .leaf .ws _ =>
      if inCalc then
        let keep := (match ts with
            | n :: _ => isPlusMinus n
            | [] => false) || (match prev with
            | some p => isPlusMinus p
            | none => false)
        (if keep then [.w] else []) ++ valMarks inCalc ts (some t)
      else valMarks inCalc ts prev
    | .leaf k _ => markOfK (.leaf k) ++ valMarks inCalc ts (some t)
/-- selector context (`convert_class_names_and_rpx_in_block`) -/
def selMarks : List Tok → (start hw : Bool) → List Mark
  | [], _, _ => []
  | t :: ts, start, hw =>
    match t with
    | .leaf .ws _ => selMarks ts start (!start)
    | .block k name body _ =>
      (match k with
       | .curly => []
       | _ => flushMarks hw) ++ .t ::
      ((match k with
        | .fn => if name = "calc" then valMarks true body none else selMarks body true false
        | _ => selMarks body true false) ++ .t :: selMarks ts false false)
    | .leaf k _ => flushMarks hw ++ (markOfK (.leaf k) ++ selMarks ts false false)
end

theorem convRpx_marks : ∀ (ts : List Tok) (st : St) (inCalc : Bool) (prev : Option Tok),
    WroteM st (convRpx st inCalc ts prev) (valMarks inCalc ts prev)
  | [], st, _, _ => by simpa [convRpx, valMarks] using WroteM.refl st
  | .block k name body pos :: ts, st, inCalc, prev => by
    have key : ∀ inner : Bool, WroteM st
        (convRpx (closeTok (convRpx (openTok st k name pos) inner body none) k pos) inCalc ts (some (.block k name body pos)))
        (.t :: (valMarks inner body none ++ .t :: valMarks inCalc ts (some (.block k name body pos)))) := by
      intro inner
      have h1 := wroteM_open st k name pos
      have h2 := convRpx_marks body (openTok st k name pos) inner none
      have h3 := wroteM_close (convRpx (openTok st k name pos) inner body none) k pos
      have h4 := convRpx_marks ts (closeTok (convRpx (openTok st k name pos) inner body none) k pos) inCalc (some (.block k name body pos))
      exact wroteM_congr (((h1.trans h2).trans h3).trans h4) (by simp)
    cases k <;> simp only [convRpx, valMarks] <;> exact key _
  | .leaf k pos :: ts, st, inCalc, prev => by
    cases k with
    | dim n unit =>
      simp only [convRpx, valMarks]
      exact wroteM_congr ((wroteM_writeDim st n unit pos).trans (convRpx_marks ts _ inCalc _)) (by simp [markOfK])
    | ws =>
      have hkeep : ∀ keep : Bool, WroteM st
          (convRpx (if keep then st.tok (.leaf .ws) pos else st) inCalc ts (some (.leaf .ws pos)))
          ((if keep then [.w] else []) ++ valMarks inCalc ts (some (.leaf .ws pos))) := by
        intro keep
        have hw : WroteM st (if keep then st.tok (.leaf .ws) pos else st) (if keep then [.w] else []) := by
          cases keep
          · exact WroteM.refl st
          · simpa [markOfK] using wroteM_tok st (.leaf .ws) pos none
        exact hw.trans (convRpx_marks ts _ inCalc _)
      have hskip : WroteM st (convRpx st inCalc ts prev) (valMarks inCalc ts prev) := convRpx_marks ts st inCalc prev
      cases inCalc <;> cases ts <;> cases prev <;> simp only [convRpx, valMarks] <;>
        first
          | exact hskip
          | exact hkeep _
          | (simpa [convRpx, valMarks] using hskip)
          | (simpa [convRpx, valMarks] using hkeep false)
          | (simpa [convRpx, valMarks] using hkeep true)
          | (rename_i v; simpa [convRpx, valMarks] using hkeep (isPlusMinus v))
    | _ =>
      simp only [convRpx, valMarks]
      exact wroteM_congr ((wroteM_tok st (.leaf _) pos none).trans (convRpx_marks ts _ inCalc _)) (by simp)

theorem convCls_marks : ∀ (ts : List Tok) (st : St) (start hw ic : Bool),
    WroteM st (convCls st ts start hw ic) (selMarks ts start hw)
  | [], st, _, _, _ => by simpa [convCls, selMarks] using WroteM.refl st
  | .block k name body pos :: ts, st, start, hw, ic => by
    have key : ∀ (st1 : St) (inner : St → St) (pre mi : List Mark),
        WroteM st st1 pre →
        (∀ s0 : St, WroteM s0 (inner s0) mi) →
        WroteM st (convCls (closeTok (inner (openTok st1 k name pos)) k pos) ts false false false)
          (pre ++ .t :: (mi ++ .t :: selMarks ts false false)) := by
      intro st1 inner pre mi h0 hin
      have h1 := wroteM_open st1 k name pos
      have h2 := hin (openTok st1 k name pos)
      have h3 := wroteM_close (inner (openTok st1 k name pos)) k pos
      have h4 := convCls_marks ts (closeTok (inner (openTok st1 k name pos)) k pos) false false false
      exact wroteM_congr ((((h0.trans h1).trans h2).trans h3).trans h4) (by simp)
    cases k with
    | curly =>
      simp only [convCls, selMarks]
      exact wroteM_congr (key st (fun s => convCls s body true false false) [] _ (WroteM.refl st)
        (fun s0 => convCls_marks body s0 true false false)) (by simp)
    | fn =>
      simp only [convCls, selMarks]
      by_cases hc : name = "calc"
      · subst hc
        simp only [if_true]
        exact key (flushWs st hw pos) (fun s => convRpx s true body none) _ _ (wroteM_flushWs st hw pos)
          (fun s0 => convRpx_marks body s0 true none)
      · simp only [hc, if_false]
        exact key (flushWs st hw pos) (fun s => convCls s body true false false) _ _ (wroteM_flushWs st hw pos)
          (fun s0 => convCls_marks body s0 true false false)
    | paren =>
      simp only [convCls, selMarks]
      exact key (flushWs st hw pos) (fun s => convCls s body true false false) _ _ (wroteM_flushWs st hw pos)
        (fun s0 => convCls_marks body s0 true false false)
    | square =>
      simp only [convCls, selMarks]
      exact key (flushWs st hw pos) (fun s => convCls s body true false false) _ _ (wroteM_flushWs st hw pos)
        (fun s0 => convCls_marks body s0 true false false)
  | .leaf k pos :: ts, st, start, hw, ic => by
    cases k with
    | ws => simpa [convCls, selMarks] using convCls_marks ts st start (!start) false
    | delim c =>
      simp only [convCls, selMarks]
      exact wroteM_congr (((wroteM_flushWs st hw pos).trans (wroteM_tok _ (.leaf (.delim c)) pos none)).trans
        (convCls_marks ts _ false false (c = "."))) (by simp)
    | ident s =>
      simp only [convCls, selMarks]
      exact wroteM_congr (((wroteM_flushWs st hw pos).trans (wroteM_writeIdent _ s pos ic)).trans
        (convCls_marks ts _ false false false)) (by simp [markOfK])
    | dim n unit =>
      simp only [convCls, selMarks]
      exact wroteM_congr (((wroteM_flushWs st hw pos).trans (wroteM_writeDim _ n unit pos)).trans
        (convCls_marks ts _ false false false)) (by simp [markOfK])
    | _ =>
      simp only [convCls, selMarks]
      exact wroteM_congr (((wroteM_flushWs st hw pos).trans (wroteM_tok _ (.leaf _) pos none)).trans
        (convCls_marks ts _ false false false)) (by simp)

/-- the selector of a style rule up to and including its `{}` block (`parse_qualified_rule`'s loop) -/
def ruleMarks : List Tok → (start hw : Bool) → List Mark
  | [], _, _ => []
  | t :: ts, start, hw =>
    match t with
    | .leaf .ws _ => ruleMarks ts start (!start)
    | .block .curly _ body _ => .t :: (valMarks false body none ++ [.t])
    | .block _ _ body _ => flushMarks hw ++ .t :: (selMarks body true false ++ .t :: ruleMarks ts false false)
    | .leaf k _ => flushMarks hw ++ (markOfK (.leaf k) ++ ruleMarks ts false false)

theorem qualLoop_marks : ∀ (ts : List Tok) (st : St) (start hw ic : Bool),
    WroteM st (qualLoop st ts start hw ic).1 (ruleMarks ts start hw)
  | [], st, _, _, _ => by simpa [qualLoop, ruleMarks] using WroteM.refl st
  | .block k name body pos :: ts, st, start, hw, ic => by
    have hf := wroteM_flushWs st hw pos
    have other : ∀ k' : BK, WroteM st
        (qualLoop (closeTok (convCls (openTok (flushWs st hw pos) k' name pos) body true false false) k' pos) ts false false false).1
        (flushMarks hw ++ .t :: (selMarks body true false ++ .t :: ruleMarks ts false false)) := by
      intro k'
      have h1 := wroteM_open (flushWs st hw pos) k' name pos
      have h2 := convCls_marks body (openTok (flushWs st hw pos) k' name pos) true false false
      have h3 := wroteM_close (convCls (openTok (flushWs st hw pos) k' name pos) body true false false) k' pos
      have h4 := qualLoop_marks ts (closeTok (convCls (openTok (flushWs st hw pos) k' name pos) body true false false) k' pos) false false false
      exact wroteM_congr ((((hf.trans h1).trans h2).trans h3).trans h4) (by simp)
    cases k with
    | curly =>
      simp only [qualLoop, ruleMarks]
      have h1 := wroteM_open st .curly name pos
      have h2 := convRpx_marks body (openTok st .curly name pos) false none
      have h3 := wroteM_close (convRpx (openTok st .curly name pos) false body none) .curly pos
      exact wroteM_congr ((h1.trans h2).trans h3) (by simp)
    | fn => simp only [qualLoop, ruleMarks]; exact other .fn
    | paren => simp only [qualLoop, ruleMarks]; exact other .paren
    | square => simp only [qualLoop, ruleMarks]; exact other .square
  | .leaf k pos :: ts, st, start, hw, ic => by
    have hf := wroteM_flushWs st hw pos
    cases k with
    | ws => simpa [qualLoop, ruleMarks] using qualLoop_marks ts st start (!start) false
    | delim c =>
      simp only [qualLoop, ruleMarks]
      exact wroteM_congr ((hf.trans (wroteM_tokSp (flushWs st hw pos) (.leaf (.delim c)) pos none)).trans
        (qualLoop_marks ts _ false false (c = "."))) (by simp)
    | ident s =>
      simp only [qualLoop, ruleMarks]
      exact wroteM_congr ((hf.trans (wroteM_writeIdent (flushWs st hw pos) s pos ic)).trans
        (qualLoop_marks ts _ false false false)) (by simp [markOfK])
    | _ =>
      simp only [qualLoop, ruleMarks]
      exact wroteM_congr ((hf.trans (wroteM_tokSp (flushWs st hw pos) (.leaf _) pos none)).trans
        (qualLoop_marks ts _ false false false)) (by simp)

/-! ## the declarative reading of `selMarks` on a flat block -/

/-- the input as marks: whitespace tokens are `w`, everything else `t` -/
def inMarks : List Tok → List Mark
  | [] => []
  | .leaf k _ :: ts => markOfK (.leaf k) ++ inMarks ts
  | .block .. :: ts => .t :: inMarks ts

/-- no nested blocks (and no comment tokens: the tokenizer drops them from the input) -/
def isFlat : List Tok → Bool
  | [] => true
  | .block .. :: _ => false
  | .leaf (.comment _) _ :: _ => false
  | .leaf _ _ :: ts => isFlat ts

/-- collapse: drop leading whitespace; then every token is kept, and a run of whitespace is kept as ONE
whitespace iff a token follows it -/
def collapseFrom : List Mark → (seenTok pendingWs : Bool) → List Mark
  | [], _, _ => []
  | .w :: r, seen, _ => collapseFrom r seen seen
  | .t :: r, _, pending => (if pending then [.w] else []) ++ .t :: collapseFrom r true false

def collapse (l : List Mark) : List Mark := collapseFrom l false false

theorem selMarks_flat_from : ∀ (ts : List Tok) (start hw : Bool), isFlat ts = true → (hw = true → start = false) →
    selMarks ts start hw = collapseFrom (inMarks ts) (!start) hw
  | [], _, _, _, _ => by simp [selMarks, inMarks, collapseFrom]
  | .block .. :: _, _, _, h, _ => by simp [isFlat] at h
  | .leaf k pos :: ts, start, hw, h, hhw => by
    cases k with
    | comment c => simp [isFlat] at h
    | ws =>
      have hf : isFlat ts = true := by simpa [isFlat] using h
      have := selMarks_flat_from ts start (!start) hf (by intro h1; simpa using h1)
      simp [selMarks, inMarks, markOfK, collapseFrom, this]
    | _ =>
      have hf : isFlat ts = true := by simpa [isFlat] using h
      have := selMarks_flat_from ts false false hf (by intro h1; cases h1)
      simp [selMarks, inMarks, collapseFrom, this, flushMarks, markOfK]

/-- **C08, selector whitespace.** In a selector (or selector-function argument list) without nested
blocks the written marks are the collapse of the input marks. -/
theorem selMarks_flat (ts : List Tok) (h : isFlat ts = true) : selMarks ts true false = collapse (inMarks ts) := by
  simpa [collapse] using selMarks_flat_from ts true false h (by intro h1; cases h1)

/-- the selector of a rule (flat tokens `sel`, then the declaration block): its marks are the collapse of the
selector's input marks, followed by the block -/
theorem ruleMarks_flat_from : ∀ (sel : List Tok) (name : String) (body : List Tok) (pos : Pos) (rest : List Tok) (start hw : Bool),
    isFlat sel = true → (hw = true → start = false) →
    ruleMarks (sel ++ .block .curly name body pos :: rest) start hw =
      collapseFrom (inMarks sel) (!start) hw ++ .t :: (valMarks false body none ++ [.t])
  | [], name, body, pos, rest, _, _, _, _ => by simp [ruleMarks, inMarks, collapseFrom]
  | .block .. :: _, _, _, _, _, _, _, h, _ => by simp [isFlat] at h
  | .leaf k p :: ts, name, body, pos, rest, start, hw, h, hhw => by
    cases k with
    | comment c => simp [isFlat] at h
    | ws =>
      have hf : isFlat ts = true := by simpa [isFlat] using h
      have := ruleMarks_flat_from ts name body pos rest start (!start) hf (by intro h1; simpa using h1)
      simp [ruleMarks, inMarks, markOfK, collapseFrom, this]
    | _ =>
      have hf : isFlat ts = true := by simpa [isFlat] using h
      have := ruleMarks_flat_from ts name body pos rest false false hf (by intro h1; cases h1)
      simp [ruleMarks, inMarks, collapseFrom, this, flushMarks, markOfK]

/-- **C08, rule selectors.** `sel { body }`: the selector is written as the collapse of its input (leading /
trailing whitespace dropped, inner runs kept as one whitespace, every token kept). -/
theorem ruleMarks_flat (sel : List Tok) (name : String) (body : List Tok) (pos : Pos) (rest : List Tok) (h : isFlat sel = true) :
    ruleMarks (sel ++ .block .curly name body pos :: rest) true false =
      collapse (inMarks sel) ++ .t :: (valMarks false body none ++ [.t]) := by
  simpa [collapse] using ruleMarks_flat_from sel name body pos rest true false h (by intro h1; cases h1)

/-- a descendant combinator survives: tokens, whitespace, tokens ⇒ ... t, w, t ... -/
theorem collapse_keeps_inner_ws (b : List Mark) : collapseFrom (.t :: .w :: .t :: b) true false = .t :: .w :: .t :: collapseFrom b true false := by
  simp [collapseFrom]

/-- no whitespace is invented: between two adjacent tokens nothing is written -/
theorem collapse_adjacent (b : List Mark) : collapseFrom (.t :: .t :: b) true false = .t :: .t :: collapseFrom b true false := by
  simp [collapseFrom]

/-! ## calc() -/

theorem calc_keeps_space_before_sign (pos : Pos) (sign : Tok) (rest : List Tok) (prev : Option Tok)
    (h : isPlusMinus sign = true) :
    valMarks true (.leaf .ws pos :: sign :: rest) prev = .w :: valMarks true (sign :: rest) (some (.leaf .ws pos)) := by
  cases prev <;> simp only [valMarks, h, if_true, Bool.true_or] <;> rfl

theorem calc_keeps_space_after_sign (pos : Pos) (sign : Tok) (rest : List Tok)
    (h : isPlusMinus sign = true) :
    valMarks true (.leaf .ws pos :: rest) (some sign) = .w :: valMarks true rest (some (.leaf .ws pos)) := by
  cases rest <;> simp only [valMarks, h, if_true, Bool.or_true] <;> rfl

/-! non-vacuity: `.a  .b` (two compound selectors separated by whitespace) -/
example : selMarks [.leaf (.delim ".") ⟨0,0⟩, .leaf (.ident "a") ⟨0,1⟩, .leaf .ws ⟨0,2⟩, .leaf (.delim ".") ⟨0,4⟩,
    .leaf (.ident "b") ⟨0,5⟩, .leaf .ws ⟨0,6⟩] true false = [.t, .t, .w, .t, .t] := by
  rw [selMarks_flat _ (by decide)]; decide

end GE.Css
