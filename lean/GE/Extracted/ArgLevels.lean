/-! GENERATED from /repo/glass-easel-template-compiler/src/proc_gen/tag.rs (to_proc_gen_function_args) by checklib/extractors.py — do not edit. -/
namespace GE.Extracted
def argLevels : List (String × Nat) := [("None", 0), ("TextNode", 1), ("Element", 2), ("IfGroup", 3), ("ForLoop", 4), ("Slot", 5), ("PureVirtualNode", 6), ("WithSlotValues", 7)]
def childLevel : List (String × String) := [("Comment", "None"), ("For", "ForLoop"), ("If", "IfGroup"), ("Include", "PureVirtualNode"), ("Normal", "Element"), ("Pure", "PureVirtualNode"), ("Slot", "Slot"), ("TemplateRef", "PureVirtualNode"), ("Text", "TextNode"), ("UnknownMetaTag", "None")]
def levelArgs : List (String × String) := [("None", "C"), ("TextNode", "C,T"), ("Element", "C,T,E"), ("IfGroup", "C,T,E,B"), ("ForLoop", "C,T,E,B,F"), ("Slot", "C,T,E,B,F,S"), ("PureVirtualNode", "C,T,E,B,F,S,J"), ("WithSlotValues", "C,T,E,B,F,S,J,V,W")]
def levelParams : List (String × List String) := [("None", ["C"]), ("TextNode", ["C", "T"]), ("Element", ["C", "T", "E"]), ("IfGroup", ["C", "T", "E", "B"]), ("ForLoop", ["C", "T", "E", "B", "F"]), ("Slot", ["C", "T", "E", "B", "F", "S"]), ("PureVirtualNode", ["C", "T", "E", "B", "F", "S", "J"]), ("WithSlotValues", ["C", "T", "E", "B", "F", "S", "J", "V", "W"])]
end GE.Extracted
