import GE.Model.PathAnalysis
/-!
Model of the l-value path emission of `proc_gen/expr.rs`:
`PathSliceList::is_legal_lvalue_path`, `PathSliceList::to_lvalue_path_arr`,
`PathAnalysisState::write_lvalue_path`, and the flags `has_model_lvalue_path` /
`has_script_lvalue_path` of `ExpressionProcGen`.

The emitted path is built as a small JavaScript tree (`PJ`) so that it can be given a meaning
(`evalPJ`) and printed (`PJ.print`, compared with the implementation's text).
-/
namespace GE.PA
open GE.Gen

/-- `model: Option<bool>` of the Rust code -/
inductive Mode | model | script | general
deriving DecidableEq, Repr

/-- one element of an emitted path array -/
inductive Item where
  | lit (s : String)        -- a string literal
  | num (n : Nat)           -- the tags 0 / 1 / 2
  | var (name : String)     -- a hoisted index temporary
deriving DecidableEq, Repr

/-- the emitted path expression -/
inductive PJ where
  | null
  /-- `[items]`, `[items].slice(1)`, or with a scope path variable `(v?[...v,items]:null)` (optionally `.slice(1)`) -/
  | arr (spread : Option String) (items : List Item) (slice1 : Bool)
  | cond (c : String) (t f : PJ)
deriving Repr

/-- the slices after the head: static members and index temporaries (`_ => break` otherwise) -/
def tailItems : Psl → List Item
  | .nil => []
  | .cons (.staticMember s) r => .lit s :: tailItems r
  | .cons (.indirect i) r => .var i :: tailItems r
  | .cons _ _ => []

def tailOk : Psl → Bool
  | .nil => true
  | .cons (.staticMember _) r => tailOk r
  | .cons (.indirect _) r => tailOk r
  | .cons _ _ => false

def modeOkVar (m : Mode) (fromData : Bool) : Bool :=
  match m with
  | .model => fromData
  | .script => !fromData
  | .general => true

mutual
/-- `is_legal_lvalue_path` -/
def legal (scopes : List ScopeInfo) (m : Mode) : Psl → Bool
  | .nil => false
  | .cons s r => legalHead scopes m s && tailOk r
def legalHead (scopes : List ScopeInfo) (m : Mode) : Slice → Bool
  | .ident _ => m != .script
  | .scopeIndex i =>
    let lv := (scopeAt scopes i).lv
    if lv = 1 then modeOkVar m true
    else if lv = 2 then modeOkVar m false
    else if lv = 3 ∨ lv = 4 then m != .model
    else false
  | .condition _ tp _ fp _ => legalPas scopes m tp || legalPas scopes m fp
  | _ => false
def legalPas (scopes : List ScopeInfo) (m : Mode) : Pas → Bool
  | .inPath l => legal scopes m l
  | .notInPath => false
end

mutual
/-- `to_lvalue_path_arr` (`suffix` = the slices an enclosing conditional pushes into its branches) -/
def pathJ (scopes : List ScopeInfo) (m : Mode) : Psl → List Item → PJ
  | .nil, _ => .null
  | .cons s r, suffix => headJ scopes m s (tailItems r ++ suffix)
def headJ (scopes : List ScopeInfo) (m : Mode) : Slice → List Item → PJ
  | .condition c tp _ fp _, rest => .cond c (pasJ scopes m tp rest) (pasJ scopes m fp rest)
  | .ident s, rest =>
    (match m with
     | .model => .arr none (.lit s :: rest) false
     | _ => .arr none (.num 0 :: .lit s :: rest) false)
  | .scopeIndex i, rest =>
    let sc := scopeAt scopes i
    if sc.lv = 1 ∨ sc.lv = 2 then .arr (some sc.lvName) rest (m == .model)
    else if sc.lv = 3 then .arr none (.num 1 :: .lit sc.absPath :: rest) false
    else if sc.lv = 4 then .arr none (.num 2 :: .lit sc.absPath :: .lit sc.modName :: rest) false
    else .null
  | _, _ => .null
/-- `write_lvalue_path` -/
def pasJ (scopes : List ScopeInfo) (m : Mode) : Pas → List Item → PJ
  | .inPath l, suffix => if legal scopes m l then pathJ scopes m l suffix else .null
  | .notInPath, _ => .null
end

def Item.print : Item → String
  | .lit s => GE.PA.lit s
  | .num n => toString n
  | .var v => v

def PJ.print : PJ → String
  | .null => "null"
  | .arr none items sl =>
    "[" ++ String.intercalate "," (items.map Item.print) ++ "]" ++ (if sl then ".slice(1)" else "")
  | .arr (some v) items sl =>
    "(" ++ v ++ "?[" ++ String.intercalate "," (("..." ++ v) :: items.map Item.print) ++ "]" ++
      (if sl then ".slice(1)" else "") ++ ":null)"
  | .cond c t f => "(" ++ c ++ "?" ++ t.print ++ ":" ++ f.print ++ ")"

/-- `ExpressionProcGen::lvalue_path` -/
def lvaluePath (scopes : List ScopeInfo) (m : Mode) (pas : Pas) : PJ := pasJ scopes m pas []

/-- `has_model_lvalue_path`, `has_script_lvalue_path`, `has_general_lvalue_path` -/
def hasLvalue (scopes : List ScopeInfo) (m : Mode) (pas : Pas) : Bool := legalPas scopes m pas

/-! ### meaning of an emitted path -/

/-- a path element at run time -/
inductive Key where
  | s (v : String)
  | n (v : Nat)
deriving DecidableEq, Repr

/-- run-time environment of the emitted code: truthiness of the hoisted condition temporaries, value
of the hoisted index temporaries, value of the scope path variables (`null` or an array) -/
structure Env where
  cond : String → Bool
  idx : String → Key
  lvar : String → Option (List Key)

def Item.eval (ρ : Env) : Item → Key
  | .lit s => .s s
  | .num n => .n n
  | .var v => ρ.idx v

def PJ.eval (ρ : Env) : PJ → Option (List Key)
  | .null => none
  | .arr none items sl => some ((items.map (Item.eval ρ)).drop (if sl then 1 else 0))
  | .arr (some v) items sl =>
    (match ρ.lvar v with
     | none => none
     | some p => some ((p ++ items.map (Item.eval ρ)).drop (if sl then 1 else 0)))
  | .cond c t f => if ρ.cond c then t.eval ρ else f.eval ρ

end GE.PA
