/-!
Model of the *structure* of a template at the level of tags: what `Element::parse` / `Node::parse_vec_node`
(`parse/tag.rs`) make of a sequence of sibling tags, and what `Element::stringify_write` (`stringify/tag.rs`)
prints for the resulting tree.

Below the resolution of this model (each has a model and theorems of its own): the characters of a start tag
and of an attribute value (`AttrLoop`, `Mixture`, `Escape`), binding expressions (`ExprParse`, `ExprStr`).  A
start tag is therefore what the attribute loop leaves of it:

* its own kind (`Base`): an ordinary element or `<slot>` with everything that is not a control attribute as an
  opaque payload, a `<block>` with its `slot` attribute, a `<template is>` / `<include>` (a leaf: children are
  not kept); the `slot:` references are kept apart because `wx:if` / `wx:for` invalidate them;
* its control attributes (`Ctl`): `wx:if`, `wx:elif`, `wx:else`, `wx:for`, `wx:for-item`, `wx:for-index`, `wx:key`.

A text is the string of its characters (it is dropped when it is white space only), a comment has no content,
`gone` is a tag that leaves nothing in place (`<import>`, `<wxs>`, `<template name>`).

What is modelled is the bookkeeping: the priority among the control attributes, `wx:for` outside `wx:if`,
a `<block>` without `slot` dissolving into the `wx:if` / `wx:for` it carries, `wx:elif` / `wx:else` looking
backwards over comments for the `wx:if` group they continue (and staying an ordinary element when there is
none), the comments passed over moving into the branch, a second `wx:else` replacing the first; and on the
printing side one `<block>` per branch, the default `wx:for` names omitted, comments and empty texts not printed.
-/
namespace GE.TagTree

/-- the control attributes of a start tag (absent: `none` / `false`) -/
structure Ctl where
  wxIf : Option String := none
  wxElif : Option String := none
  wxElse : Bool := false
  wxFor : Option String := none
  item : Option String := none
  index : Option String := none
  key : Option String := none
deriving DecidableEq, Repr, Inhabited

/-- the own kind of a start tag -/
inductive Base where
  | normal (p : String) (refs : List String)
  | pure (slot : Option String) (refs : List String)
  | slotEl (p : String) (refs : List String)
  | leaf (p : String)
deriving DecidableEq, Repr, Inhabited

mutual
/-- a tag with what is between its start and end tag, a text, a comment -/
inductive X where
  | text (s : String)
  | comment
  | gone
  | el (b : Base) (c : Ctl) (kids : XS)
inductive XS where
  | nil
  | cons (x : X) (r : XS)
end

mutual
/-- `Node` / `ElementKind` of `parse/tag.rs`, locations dropped -/
inductive A where
  | text (s : String)
  | comment
  | normal (p : String) (refs : List String) (kids : AS)
  | pure (slot : Option String) (refs : List String) (kids : AS)
  | slotEl (p : String) (refs : List String)
  | leaf (p : String)
  /-- `ElementKind::For` -/
  | loop (list item index key : String) (kids : AS)
  /-- `ElementKind::If`: the first branch, the `wx:elif` branches, the `wx:else` branch -/
  | cond (c : String) (kids : AS) (more : Brs) (els : Els)
inductive AS where
  | nil
  | cons (a : A) (r : AS)
inductive Brs where
  | nil
  | cons (c : String) (kids : AS) (r : Brs)
inductive Els where
  | none
  | some (kids : AS)
end

instance : Inhabited A := ⟨.comment⟩
instance : Inhabited AS := ⟨.nil⟩
instance : Inhabited XS := ⟨.nil⟩

/-- `is_template_whitespace` -/
def isWs (c : Char) : Bool := c == ' ' || (9 ≤ c.toNat && c.toNat ≤ 13)

/-- a static text the parser does not keep -/
def isBlank (s : String) : Bool := s.toList.all isWs

/-- reverse the first list onto the second -/
def AS.revAppend : AS → AS → AS
  | .nil, k => k
  | .cons a r, k => AS.revAppend r (.cons a k)

def AS.rev (a : AS) : AS := a.revAppend .nil

def Brs.snoc : Brs → String → AS → Brs
  | .nil, c, k => .cons c k .nil
  | .cons c0 k0 r, c, k => .cons c0 k0 (r.snoc c k)

def Brs.append : Brs → Brs → Brs
  | .nil, b => b
  | .cons c k r, b => .cons c k (r.append b)

/-! ### parsing -/

/-- `wrap_children`: a `<block>` that carries neither `slot` nor `slot:` references dissolves into the group built around it -/
def wrapChildren : A → AS
  | .pure none [] kids => kids
  | a => .cons a .nil

/-- the condition a start tag ends up with -/
inductive IfC where
  | none
  | if_ (v : String)
  | elif (v : String)
  | else_
deriving DecidableEq, Repr

/-- with `wx:for` only `wx:if` counts; otherwise `wx:if`, then `wx:elif`, then `wx:else` -/
def ifCond (c : Ctl) : IfC :=
  if c.wxFor.isSome then
    match c.wxIf with
    | some v => .if_ v
    | none => .none
  else
    match c.wxIf with
    | some v => .if_ v
    | none =>
      match c.wxElif with
      | some v => .elif v
      | none => if c.wxElse then .else_ else .none

/-- `slot:` references are dropped (with a diagnostic) from a tag that has a condition or a list -/
def dropRefs : Base → Base
  | .normal p _ => .normal p []
  | .pure s _ => .pure s []
  | .slotEl p _ => .slotEl p []
  | .leaf p => .leaf p

def mkElem : Base → AS → A
  | .normal p r, k => .normal p r k
  | .pure s r, k => .pure s r k
  | .slotEl p r, _ => .slotEl p r
  | .leaf p, _ => .leaf p

/-- `find_if_element_index` on the nodes so far (most recent first): the comments passed over (most recent first), the
`wx:if` group found, the older nodes -/
def findIf : AS → Option (AS × (String × AS × Brs × Els) × AS)
  | .cons .comment r =>
    match findIf r with
    | some (cs, g, older) => some (.cons .comment cs, g, older)
    | none => none
  | .cons (.cond c k m e) r => some (.nil, (c, k, m, e), r)
  | _ => none

/-- the end of `Element::parse`: what a start tag with these children adds to the nodes so far (most recent first) -/
def stepEl (acc : AS) (b : Base) (c : Ctl) (kids : AS) : AS :=
  let ic := ifCond c
  let plain := ic == .none && c.wxFor.isNone
  let e := mkElem (if plain then b else dropRefs b) kids
  let w : Option A × AS :=
    match ic with
    | .none => (some e, acc)
    | .if_ v => (some (.cond v (wrapChildren e) .nil .none), acc)
    | .elif v =>
      match findIf acc with
      | some (cs, (c0, k0, m0, e0), older) => (none, .cons (.cond c0 k0 (m0.snoc v (cs.revAppend (wrapChildren e))) e0) older)
      | none => (some e, acc)
    | .else_ =>
      match findIf acc with
      | some (cs, (c0, k0, m0, _), older) => (none, .cons (.cond c0 k0 m0 (.some (cs.revAppend (wrapChildren e)))) older)
      | none => (some e, acc)
  match w with
  | (some e', acc') =>
    match c.wxFor with
    | some l => .cons (.loop l (c.item.getD "item") (c.index.getD "index") (c.key.getD "") (wrapChildren e')) acc'
    | none => .cons e' acc'
  | (none, acc') => acc'

mutual
/-- one step of `Node::parse_vec_node` on the nodes so far (most recent first) -/
def parseX (acc : AS) : X → AS
  | .text s => if isBlank s then acc else .cons (.text s) acc
  | .comment => .cons .comment acc
  | .gone => acc
  | .el b c kids => stepEl acc b c (parseXS .nil kids).rev
def parseXS (acc : AS) : XS → AS
  | .nil => acc
  | .cons x r => parseXS (parseX acc x) r
end

/-- `Node::parse_vec_node` -/
def parse (xs : XS) : AS := (parseXS .nil xs).rev

/-! ### printing (each function writes in front of what follows) -/

def ctlFor (l item index key : String) : Ctl :=
  { wxFor := some l
    item := if item = "item" then none else some item
    index := if index = "index" then none else some index
    key := if key = "" then none else some key }

mutual
def printA : A → XS → XS
  | .text s, k => if s = "" then k else .cons (.text s) k
  | .comment, k => k
  | .normal p refs kids, k => .cons (.el (.normal p refs) {} (printAS kids .nil)) k
  | .pure s refs kids, k => .cons (.el (.pure s refs) {} (printAS kids .nil)) k
  | .slotEl p refs, k => .cons (.el (.slotEl p refs) {} .nil) k
  | .leaf p, k => .cons (.el (.leaf p) {} .nil) k
  | .loop l it ix key kids, k => .cons (.el (.pure none []) (ctlFor l it ix key) (printAS kids .nil)) k
  | .cond c kids more els, k =>
    .cons (.el (.pure none []) { wxIf := some c } (printAS kids .nil)) (printBrs more (printEls els k))
def printAS : AS → XS → XS
  | .nil, k => k
  | .cons a r, k => printA a (printAS r k)
def printBrs : Brs → XS → XS
  | .nil, k => k
  | .cons c kids r, k => .cons (.el (.pure none []) { wxElif := some c } (printAS kids .nil)) (printBrs r k)
def printEls : Els → XS → XS
  | .none, k => k
  | .some kids, k => .cons (.el (.pure none []) { wxElse := true } (printAS kids .nil)) k
end

/-- `Template::stringify_write` on the content -/
def print (a : AS) : XS := printAS a .nil

/-! ### what a round trip keeps: everything but comments and white-space-only texts -/

mutual
def stripA : A → AS → AS
  | .text s, k => if isBlank s then k else .cons (.text s) k
  | .comment, k => k
  | .normal p refs kids, k => .cons (.normal p refs (stripAS kids .nil)) k
  | .pure s refs kids, k => .cons (.pure s refs (stripAS kids .nil)) k
  | .slotEl p refs, k => .cons (.slotEl p refs) k
  | .leaf p, k => .cons (.leaf p) k
  | .loop l it ix key kids, k => .cons (.loop l it ix key (stripAS kids .nil)) k
  | .cond c kids more els, k => .cons (.cond c (stripAS kids .nil) (stripBrs more) (stripEls els)) k
def stripAS : AS → AS → AS
  | .nil, k => k
  | .cons a r, k => stripA a (stripAS r k)
def stripBrs : Brs → Brs
  | .nil => .nil
  | .cons c kids r => .cons c (stripAS kids .nil) (stripBrs r)
def stripEls : Els → Els
  | .none => .none
  | .some kids => .some (stripAS kids .nil)
end

def strip (a : AS) : AS := stripAS a .nil

/-! ### canonical text forms for the line protocol -/

def q (s : String) : String := "\"" ++ s ++ "\""
def qo : Option String → String
  | none => "-"
  | some s => q s
def ql (l : List String) : String := "[" ++ " ".intercalate (l.map q) ++ "]"

mutual
def A.show : A → String
  | .text s => "(text " ++ q s ++ ")"
  | .comment => "(comment)"
  | .normal p refs kids => "(normal " ++ q p ++ " " ++ ql refs ++ AS.show kids ++ ")"
  | .pure s refs kids => "(pure " ++ qo s ++ " " ++ ql refs ++ AS.show kids ++ ")"
  | .slotEl p refs => "(slot " ++ q p ++ " " ++ ql refs ++ ")"
  | .leaf p => "(leaf " ++ q p ++ ")"
  | .loop l it ix key kids => "(for " ++ q l ++ " " ++ q it ++ " " ++ q ix ++ " " ++ q key ++ AS.show kids ++ ")"
  | .cond c kids more els => "(if (" ++ q c ++ AS.show kids ++ ")" ++ Brs.show more ++ Els.show els ++ ")"
def AS.show : AS → String
  | .nil => ""
  | .cons a r => " " ++ A.show a ++ AS.show r
def Brs.show : Brs → String
  | .nil => ""
  | .cons c kids r => " (" ++ q c ++ AS.show kids ++ ")" ++ Brs.show r
def Els.show : Els → String
  | .none => ""
  | .some kids => " (else" ++ AS.show kids ++ ")"
end

def Base.show : Base → String
  | .normal p refs => "normal " ++ q p ++ " " ++ ql refs
  | .pure s refs => "pure " ++ qo s ++ " " ++ ql refs
  | .slotEl p refs => "slot " ++ q p ++ " " ++ ql refs
  | .leaf p => "leaf " ++ q p

def Ctl.show (c : Ctl) : String :=
  "{" ++ qo c.wxIf ++ " " ++ qo c.wxElif ++ " " ++ (if c.wxElse then "else" else "-") ++ " " ++ qo c.wxFor ++ " " ++ qo c.item ++ " "
    ++ qo c.index ++ " " ++ qo c.key ++ "}"

mutual
def X.show : X → String
  | .text s => "(text " ++ q s ++ ")"
  | .comment => "(comment)"
  | .gone => "(gone)"
  | .el b c kids => "(el " ++ b.show ++ " " ++ c.show ++ XS.show kids ++ ")"
def XS.show : XS → String
  | .nil => ""
  | .cons x r => " " ++ X.show x ++ XS.show r
end

end GE.TagTree
