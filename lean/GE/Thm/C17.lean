/-
C17 — `:host` conversion partitions rules without loss.  Theorems about `qualRule` / `writeLow` of
GE/Model/Css.lean (tied to glass-easel-stylesheet-compiler by the `css` correspondence stream).

  * conversion off, or a rule that does not start with `:host`: the rule is the generic rule and the
    low-priority output is untouched (`host_off_generic`, `generic_keeps_low`);
  * `:host { … }`: nothing is written to the normal output, no warning; the low-priority output
    receives the replayed at-rule chain (one `{` per enclosing at-rule), the attribute selector(s),
    the block transformed by the same function as any other block (`convRpx`), and as many `}` as
    at-rules were opened (`host_rule_moves`);
  * `:host` combined with anything: both outputs untouched, exactly one warning (`host_combination_dropped`).
-/
import GE.Thm.C09

namespace GE.Css

/-- conversion off ⇒ every rule is the generic rule -/
theorem host_off_generic (st : St) (ts : List Tok) (h : st.opts.convertHost = false) :
    qualRule st ts = qualLoop st (dropWs ts) true false false := by
  simp [qualRule, h]

/-- a rule that does not begin with `:host` is the generic rule, whatever the options -/
theorem not_host_generic (st : St) (ts : List Tok) (h : hostHead (dropWs ts) = none) :
    qualRule st ts = qualLoop st (dropWs ts) true false false := by
  unfold qualRule
  simp only [h]
  split <;> rfl

/-- the generic rule writes to the current output only: while writing the normal output, the
low-priority output, the at-rule chain and the warnings are untouched -/
theorem generic_keeps_low (st : St) (ts : List Tok) (h : st.usingLow = false) :
    let st' := (qualLoop st ts true false false).1
    st'.low = st.low ∧ st'.usingLow = false ∧ st'.stacks = st.stacks ∧ st'.warnings = st.warnings := by
  have w := qualLoop_wrote ts st true false false
  have o := w.other
  simp only [h] at o
  exact ⟨by simpa using o, by rw [w.ul, h], w.stacks, w.warns⟩

/-- `:host` combined with other selectors (or `:host(...)`): dropped from both outputs, one warning -/
theorem host_combination_dropped (st : St) (ts r sel rest : List Tok) (isFn : Bool) (curly : Tok)
    (hc : st.opts.convertHost = true)
    (hh : hostHead (dropWs ts) = some (isFn, r))
    (hs : splitAtCurly r [] = some (sel, curly, rest))
    (hbad : (isFn || sel.any (fun t => !t.isWs)) = true) :
    ∃ p, qualRule st ts = (st.warn .hostSelectorCombination p, rest) := by
  unfold qualRule
  simp only [hc, hh, hs, hbad, if_true]
  exact ⟨_, rfl⟩

theorem warn_outputs (st : St) (k : WarnK) (p : Pos) :
    (st.warn k p).normal = st.normal ∧ (st.warn k p).low = st.low ∧
    (st.warn k p).warnings = st.warnings ++ [(k, p)] := by
  simp [St.warn]

/-! ### the moved rule -/

theorem shapes_raw (s : Sink) (items : List Out) : shapes (s.raw items).items = shapes s.items ++ shapes items := by
  simp only [Sink.raw, shapes_append]
  congr 1
  simp [shapes, List.flatMap_map]

theorem idents_raw (s : Sink) (items : List Out) : idents (s.raw items).items = idents s.items ++ idents items := by
  simp only [Sink.raw, idents_append]
  congr 1
  simp [idents, List.flatMap_map]

/-- shapes of the replayed at-rule chain: each enclosing at-rule's prelude followed by `{` -/
def chainShapes (stacks : List (List Out)) : List Shape :=
  stacks.flatMap fun seg => shapes seg ++ [.open .curly]

theorem shapes_open_chain (stacks : List (List Out)) (s : Sink) :
    shapes (stacks.foldl (fun (s : Sink) seg => (s.raw seg).raw [⟨.open .curly "", none, none⟩]) s).items
      = shapes s.items ++ chainShapes stacks := by
  induction stacks generalizing s with
  | nil => simp [chainShapes]
  | cons seg rest ih =>
    simp only [List.foldl_cons, ih, shapes_raw, chainShapes, List.flatMap_cons]
    simp [shapes, shapeOfK, List.append_assoc]

theorem shapes_close_chain (stacks : List (List Out)) (s : Sink) :
    shapes (stacks.foldl (fun (s : Sink) _ => s.raw [⟨.close .curly, none, none⟩]) s).items
      = shapes s.items ++ List.replicate stacks.length (.close .curly) := by
  induction stacks generalizing s with
  | nil => simp
  | cons seg rest ih =>
    simp only [List.foldl_cons, ih, shapes_raw, List.length_cons, List.replicate_succ]
    simp [shapes, shapeOfK, List.append_assoc]

theorem wrote_attrSelector (st : St) (name value : String) (pos : Pos) :
    Wrote st (attrSelector st name value pos) [name]
      [.open .square, .leaf "ident", .leaf "delim=", .leaf "str", .close .square] := by
  unfold attrSelector
  have h1 := wrote_tok st (.open .square "") pos none
  have h2 := wrote_tok (st.tok (.open .square "") pos) (.leaf (.ident name)) pos none
  have h3 := wrote_tok ((st.tok (.open .square "") pos).tok (.leaf (.ident name)) pos) (.leaf (.delim "=")) pos none
  have h4 := wrote_tok (((st.tok (.open .square "") pos).tok (.leaf (.ident name)) pos).tok (.leaf (.delim "=")) pos)
    (.leaf (.str value)) pos none
  have h5 := wrote_tok ((((st.tok (.open .square "") pos).tok (.leaf (.ident name)) pos).tok (.leaf (.delim "=")) pos).tok
    (.leaf (.str value)) pos) (.close .square) pos none
  simpa [identOfK, shapeOfK, leafTag] using (((h1.trans h2).trans h3).trans h4).trans h5

/-- what the body of `write_in_low_priority` writes for a `:host` rule -/
def hostBody (name : String) (body : List Tok) (pos : Pos) (st : St) : St :=
  let st := attrSelector st "wx-host" (st.opts.classPrefix.getD "") pos
  let st := match st.opts.hostIs with
    | some h => attrSelector (st.tok (.leaf .comma) pos) "is" h pos
    | none => st
  let st := openTok st .curly name pos
  let st := convRpx st false body none
  closeTok st .curly pos

/-- token kinds of the emitted host selector -/
def hostSelShapes (opts : Opts) : List Shape :=
  [.open .square, .leaf "ident", .leaf "delim=", .leaf "str", .close .square] ++
  (match opts.hostIs with
   | some _ => [.leaf "comma", .open .square, .leaf "ident", .leaf "delim=", .leaf "str", .close .square]
   | none => [])

def hostSelIdents (opts : Opts) : List String :=
  "wx-host" :: (match opts.hostIs with | some _ => ["is"] | none => [])

theorem wrote_hostBody (name : String) (body : List Tok) (pos : Pos) (st : St) :
    Wrote st (hostBody name body pos st) (hostSelIdents st.opts ++ valueIdentsL body)
      (hostSelShapes st.opts ++ inShape (.block .curly name body pos)) := by
  unfold hostBody
  have h1 := wrote_attrSelector st "wx-host" (st.opts.classPrefix.getD "") pos
  have ho1 := h1.opts
  cases hi : st.opts.hostIs with
  | none =>
    simp only [ho1, hi]
    have h3 := wrote_open (attrSelector st "wx-host" (st.opts.classPrefix.getD "") pos) .curly name pos
    have h4 := convRpx_wrote body (openTok (attrSelector st "wx-host" (st.opts.classPrefix.getD "") pos) .curly name pos) false none
    have h5 := wrote_close (convRpx (openTok (attrSelector st "wx-host" (st.opts.classPrefix.getD "") pos) .curly name pos) false body none) .curly pos
    exact wrote_congr ((((h1.trans h3).trans h4).trans h5))
      (by simp [hostSelIdents, hi]) (by simp [hostSelShapes, hi, inShape, closeOf])
  | some hval =>
    simp only [ho1, hi]
    have h2 := wrote_tok (attrSelector st "wx-host" (st.opts.classPrefix.getD "") pos) (.leaf .comma) pos none
    have h2' := wrote_attrSelector ((attrSelector st "wx-host" (st.opts.classPrefix.getD "") pos).tok (.leaf .comma) pos) "is" hval pos
    have h3 := wrote_open (attrSelector ((attrSelector st "wx-host" (st.opts.classPrefix.getD "") pos).tok (.leaf .comma) pos) "is" hval pos) .curly name pos
    have h4 := convRpx_wrote body (openTok (attrSelector ((attrSelector st "wx-host" (st.opts.classPrefix.getD "") pos).tok (.leaf .comma) pos) "is" hval pos) .curly name pos) false none
    have h5 := wrote_close (convRpx (openTok (attrSelector ((attrSelector st "wx-host" (st.opts.classPrefix.getD "") pos).tok (.leaf .comma) pos) "is" hval pos) .curly name pos) false body none) .curly pos
    exact wrote_congr ((((((h1.trans h2).trans h2').trans h3).trans h4).trans h5))
      (by simp [hostSelIdents, hi, identOfK]) (by simp [hostSelShapes, hi, inShape, closeOf, shapeOfK, leafTag])

/-- `write_in_low_priority` around any writer `f`: the normal output is untouched, and the low-priority
output receives the replayed at-rule chain, what `f` writes, and one `}` per replayed at-rule -/
theorem writeLow_spec (st : St) (f : St → St) (ids : List String) (shs : List Shape)
    (hf : ∀ s0 : St, s0.opts = st.opts → Wrote s0 (f s0) ids shs) :
    let st' := writeLow st f
    st'.normal = st.normal ∧ st'.warnings = st.warnings ∧ st'.stacks = st.stacks ∧ st'.usingLow = false ∧
    st'.opts = st.opts ∧
    shapes st'.low.items = shapes st.low.items ++ chainShapes st.stacks ++ shs ++
      List.replicate st.stacks.length (.close .curly) := by
  let lowOpen : Sink := st.stacks.foldl (fun (s : Sink) seg => (s.raw seg).raw [⟨.open .curly "", none, none⟩]) st.low
  let st1 : St := ⟨st.opts, st.normal, lowOpen, true, st.warnings, st.stacks⟩
  have w := hf st1 rfl
  have hcur1 : st1.cur = lowOpen := by simp [St.cur, st1]
  have hul : (f st1).usingLow = true := by rw [w.ul]
  have hcur2 : (f st1).cur = (f st1).low := by simp [St.cur, hul]
  have hother : (f st1).normal = st.normal := by
    have := w.other
    simpa [st1] using this
  have hshs := w.shs
  rw [hcur1, hcur2] at hshs
  have hst : (f st1).stacks = st.stacks := w.stacks
  have hwarn : (f st1).warnings = st.warnings := w.warns
  have hopts : (f st1).opts = st.opts := w.opts
  have e1 : writeLow st f =
      { (f st1) with low := (f st1).stacks.foldl (fun (s : Sink) _ => s.raw [⟨.close .curly, none, none⟩]) (f st1).low,
                     usingLow := false } := rfl
  show _ ∧ _ ∧ _ ∧ _ ∧ _ ∧ _
  rw [e1]
  refine ⟨hother, hwarn, hst, rfl, hopts, ?_⟩
  simp only [shapes_close_chain, hshs, hst, lowOpen, shapes_open_chain, List.append_assoc]

/-- **C17, the moved rule.** For `:host { body }` (only whitespace between `:host` and the block): the
normal output, the warnings and the at-rule chain are unchanged, and the low-priority output grows by
exactly: the enclosing at-rule chain replayed (`prelude {` each), the host attribute selector(s), `{`, the
block's tokens transformed by the ordinary declaration-block function, `}`, and one `}` per enclosing
at-rule. -/
theorem host_rule_moves (st : St) (ts r sel rest : List Tok) (name : String) (body : List Tok) (pos : Pos)
    (hc : st.opts.convertHost = true)
    (hh : hostHead (dropWs ts) = some (false, r))
    (hs : splitAtCurly r [] = some (sel, .block .curly name body pos, rest))
    (hws : sel.any (fun t => !t.isWs) = false) :
    let st' := (qualRule st ts).1
    (qualRule st ts).2 = rest ∧
    st'.normal = st.normal ∧ st'.warnings = st.warnings ∧ st'.stacks = st.stacks ∧ st'.usingLow = false ∧
    shapes st'.low.items = shapes st.low.items ++ chainShapes st.stacks ++ (hostSelShapes st.opts ++
      inShape (.block .curly name body pos)) ++ List.replicate st.stacks.length (.close .curly) := by
  have e : qualRule st ts = (writeLow st (hostBody name body pos), rest) := by
    unfold qualRule
    simp only [hc, hh, hs, hws, if_true, Bool.false_or, Bool.false_eq_true, if_false]
    rfl
  have w := writeLow_spec st (hostBody name body pos) (hostSelIdents st.opts ++ valueIdentsL body)
    (hostSelShapes st.opts ++ inShape (.block .curly name body pos))
    (fun s0 h0 => by have := wrote_hostBody name body pos s0; rw [h0] at this; exact this)
  rw [e]
  exact ⟨rfl, w.1, w.2.1, w.2.2.1, w.2.2.2.1, w.2.2.2.2.2⟩

/-! non-vacuity: `:host{a}` inside one at-rule whose prelude was `@media` meets the hypotheses of
`host_rule_moves`, and the low-priority output is `@media{[wx-host="p"]{a}}` -/
def exSt : St := ⟨⟨some "p", none, 0x443b8000, none, true, none⟩, Sink.empty, Sink.empty, false, [],
  [[⟨.leaf (.at "media"), none, none⟩]]⟩
def exBlock : Tok := .block .curly "" [.leaf (.ident "a") ⟨0,6⟩] ⟨0,5⟩
def exRule : List Tok := [.leaf .colon ⟨0,0⟩, .leaf (.ident "host") ⟨0,1⟩, exBlock]

example : hostHead (dropWs exRule) = some (false, [exBlock]) := rfl
example : splitAtCurly [exBlock] [] = some ([], exBlock, []) := rfl
example : (qualRule exSt exRule).1.normal = exSt.normal :=
  (host_rule_moves exSt exRule [exBlock] [] [] "" [.leaf (.ident "a") ⟨0,6⟩] ⟨0,5⟩ rfl rfl rfl rfl).2.1

end GE.Css
