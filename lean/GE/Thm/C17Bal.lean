/-
C17 / C08 — both outputs of the stylesheet transformer are BALANCED in `{` / `}`, for every input.

`sheet_partition` (GE/Thm/C17Sheet.lean) identifies the token kinds of the two outputs of `transform` with the reading `go`.
Here: whatever the token tree, both components of `go` are balanced sequences (`bal`, GE/Thm/C18Wrap.lean: read from any depth they never
close below it and end at it).  For the low-priority output this is the property's "wrapped in the same chain of enclosing
at-rules": every `:host` rule re-opens the chain and closes exactly as many blocks as it opened, at any nesting, however many
`:host` rules, at-rules without rule list or nested blocks stand around it.
-/
import GE.Thm.C17Sheet
import GE.Thm.C18Wrap

namespace GE.Css
open GE.Extracted

def BalL (s : List Shape) : Prop := ∀ d, bal s d = some d

theorem BalL.nil : BalL [] := fun d => by simp [bal]

theorem BalL.append {a b : List Shape} (ha : BalL a) (hb : BalL b) : BalL (a ++ b) := fun d => by
  rw [bal_append, ha d]; exact hb d

theorem BalL.inShape (t : Tok) : BalL (inShape t) := bal_inShape t
theorem BalL.inShapes (ts : List Tok) : BalL (inShapes ts) := bal_inShapes ts

theorem BalL.leaf (x : String) : BalL [.leaf x] := fun d => by simp [bal]

theorem BalL.braces {s : List Shape} (h : BalL s) : BalL ([.open .curly] ++ s ++ [.close .curly]) := fun d => by
  simp [bal_append, bal, h (d + 1)]

theorem bal_chainOpen (chain : List (List Shape)) (h : ∀ c ∈ chain, BalL c) (d : Nat) :
    bal (chainOpen chain) d = some (d + chain.length) := by
  induction chain generalizing d with
  | nil => simp [chainOpen, bal]
  | cons c cs ih =>
    have hc := h c (by simp)
    have := ih (fun x hx => h x (by simp [hx])) (d + 1)
    simp only [chainOpen, List.flatMap_cons] at this ⊢
    rw [bal_append, bal_append, hc d]
    simp only [Option.bind_some, bal]
    rw [this]; simp; omega

theorem bal_closes (n d : Nat) : bal (List.replicate n (.close .curly)) (d + n) = some d := by
  induction n generalizing d with
  | zero => simp [bal]
  | succ n ih =>
    have : d + (n + 1) = (d + n) + 1 := by omega
    rw [this, List.replicate_succ]
    simp [bal, ih]

theorem BalL.hostSel (opts : Opts) : BalL (hostSelShapes opts) := fun d => by
  unfold GE.Css.hostSelShapes
  cases opts.hostIs <;> simp [bal]

theorem BalL.hostLow (opts : Opts) (chain : List (List Shape)) (h : ∀ c ∈ chain, BalL c) (t : Tok) : BalL (hostLow opts chain t) := fun d => by
  unfold GE.Css.hostLow
  rw [bal_append, bal_append, bal_chainOpen chain h d]
  simp only [Option.bind_some]
  rw [(BalL.append (BalL.hostSel opts) (BalL.inShape t)) (d + chain.length)]
  exact bal_closes chain.length d

def modeBal : Mode → Prop
  | .atPre _ acc => BalL acc
  | _ => True

/-- both components of the reading are balanced, in every mode, for every chain of balanced preludes -/
theorem go_balanced (opts : Opts) : ∀ (ts : List Tok) (chain : List (List Shape)) (mode : Mode),
    (∀ c ∈ chain, BalL c) → modeBal mode → BalL (go opts chain mode ts).1 ∧ BalL (go opts chain mode ts).2
  | [], _, _, _, _ => by simp [go, BalL.nil]
  | t :: ts, chain, mode, hch, hm => by
    have top := go_balanced opts ts chain .top hch trivial
    have qual := go_balanced opts ts chain .qual hch trivial
    have addn : ∀ {p : List Shape × List Shape} (n : List Shape), BalL n → BalL p.1 ∧ BalL p.2 → BalL (addN n p).1 ∧ BalL (addN n p).2 :=
      fun n hn hp => ⟨BalL.append hn hp.1, hp.2⟩
    cases mode with
    | top =>
      have hostm : ∀ legal, BalL (go opts chain (.host legal) ts).1 ∧ BalL (go opts chain (.host legal) ts).2 :=
        fun legal => go_balanced opts ts chain (.host legal) hch trivial
      cases t with
      | leaf k p =>
        cases k with
        | ws => simpa [go] using top
        | «at» name =>
          have := go_balanced opts ts chain (.atPre (containRuleList.contains (lower name)) [.leaf "at"]) hch (BalL.leaf "at")
          simpa [go] using addn _ (BalL.leaf "at") this
        | _ => (simp only [go]; split <;> first | exact hostm _ | exact addn _ (BalL.inShape _) qual)
      | block k n b p =>
        cases k with
        | curly => simpa [go] using addn _ (BalL.inShape (.block .curly n b p)) top
        | _ => (simp only [go]; split <;> first | exact hostm _ | exact addn _ (BalL.inShape _) qual)
    | qual =>
      cases t with
      | leaf k p => simpa [go] using addn _ (BalL.inShape (.leaf k p)) qual
      | block k n b p =>
        cases k with
        | curly => simpa [go] using addn _ (BalL.inShape (.block .curly n b p)) top
        | _ => simpa [go] using addn _ (BalL.inShape (.block _ n b p)) qual
    | host legal =>
      have hostm := go_balanced opts ts chain (.host legal) hch trivial
      cases t with
      | leaf k p => simpa [go] using hostm
      | block k n b p =>
        cases k with
        | curly =>
          cases legal with
          | false => simpa [go] using top
          | true =>
            simp only [go, if_true, addL]
            exact ⟨top.1, BalL.append (BalL.hostLow opts chain hch _) top.2⟩
        | _ => simpa [go] using hostm
    | atPre cr acc =>
      have hacc : BalL acc := hm
      have same := go_balanced opts ts chain (.atPre cr acc) hch hacc
      have ext : ∀ tk, BalL (go opts chain (.atPre cr (acc ++ inShape tk)) ts).1 ∧ BalL (go opts chain (.atPre cr (acc ++ inShape tk)) ts).2 :=
        fun tk => go_balanced opts ts chain (.atPre cr (acc ++ inShape tk)) hch (BalL.append hacc (BalL.inShape tk))
      cases t with
      | leaf k p =>
        cases k with
        | ws => simpa [go] using same
        | semi => simpa [go] using addn _ (BalL.leaf "semi") top
        | _ => simpa [go] using addn _ (BalL.inShape (.leaf _ p)) (ext (.leaf _ p))
      | block k n b p =>
        cases k with
        | curly =>
          have inner : BalL (if cr then go opts (chain ++ [acc]) .top b else (inShapes b, [])).1 ∧
              BalL (if cr then go opts (chain ++ [acc]) .top b else (inShapes b, [])).2 := by
            cases cr with
            | true =>
              simpa using go_balanced opts b (chain ++ [acc]) .top
                (fun c hc => by rcases List.mem_append.mp hc with h | h; exact hch c h; simp at h; subst h; exact hacc) trivial
            | false => simpa using And.intro (BalL.inShapes b) BalL.nil
          simp only [go]
          refine ⟨?_, BalL.append inner.2 top.2⟩
          have := BalL.append (BalL.braces inner.1) top.1
          simpa [List.append_assoc] using this
        | _ => simpa [go] using addn _ (BalL.inShape (.block _ n b p)) (ext (.block _ n b p))

/-- **both outputs of the transformer are balanced**, for every token tree (no import sign) -/
theorem outputs_balanced (opts : Opts) (ts : List Tok) (hi : opts.importSign = none) (d : Nat) :
    bal (shapes (transform opts ts).normal.items) d = some d ∧ bal (shapes (transform opts ts).low.items) d = some d := by
  have h := sheet_partition opts ts hi
  have g := go_balanced opts ts [] .top (by simp) trivial
  rw [h.1, h.2]
  exact ⟨g.1 d, g.2 d⟩

end GE.Css
