/-!
Model of `escape::gen_lit_str` (the double-quoted literal used for every constant string in the
generated JavaScript and in re-printed WXML expressions).
-/
namespace GE.JsLit

def hexDigitU (n : Nat) : Char :=
  if n < 10 then Char.ofNat (48 + n) else Char.ofNat (55 + n)

/-- `format!("{:04X}", n)` for `n < 65536` -/
def hex4 (n : Nat) : List Char :=
  [hexDigitU (n / 4096 % 16), hexDigitU (n / 256 % 16), hexDigitU (n / 16 % 16), hexDigitU (n % 16)]

/-- the `'\0'..='\x1f' | '\x7f' | '\u{2028}' | '\u{2029}'` arm -/
def needsUnicodeEscape (c : Char) : Bool :=
  c.toNat < 32 || c.toNat = 127 || c.toNat = 0x2028 || c.toNat = 0x2029

/-- one iteration of the `for c in s.chars()` loop -/
def escChar (c : Char) : List Char :=
  if c = '"' then ['\\', '"']
  else if c = '\\' then ['\\', '\\']
  else if c = '\n' then ['\\', 'n']
  else if c = '\r' then ['\\', 'r']
  else if c = '\t' then ['\\', 't']
  else if needsUnicodeEscape c then '\\' :: 'u' :: hex4 c.toNat
  else [c]

def escBody : List Char → List Char
  | [] => []
  | c :: cs => escChar c ++ escBody cs

def genLitStr (s : List Char) : List Char := '"' :: (escBody s ++ ['"'])

end GE.JsLit
