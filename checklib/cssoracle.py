"""Oracles for the stylesheet-compiler properties C01 C08 C09 C10 C17 C18 C19.

Everything here is INDEPENDENT of any model of the compiler: the only inputs are
  * the cssparser token trees the harness dumps for the input and for both (re-tokenised) outputs,
  * the raw source-map entries / warnings the harness reports,
  * the property statements (properties.jsonl), from which `expected_rewrite` is derived.

`expected_rewrite(tokens_in, opts)` computes, from the INPUT token tree alone, the token tree the
normal output must re-tokenise to and the list of rules the low-priority output must contain.
`analyze(opts, res)` aligns it with what the outputs re-tokenise to and files every difference
under one property with a stable `classification`.  `check_cXX(opts, res)` return the problems
of one property (empty list = the property holds on this case).

A problem is a dict: {prop, classification, what, at:[line,col] (input position, 0-based, UTF-16),
expected, got, context}.  Replaying needs only (opts, res["source"]).

Conservative choices (places where the property statements leave room) are marked `AMBIGUITY`.

Classifications (stable identifiers; `<where>` = `-in-` + `+`-joined parts among
`nested-selector-function` (selector function depth >= 2), `at-prelude:<name>` (inside a block of
that at-rule's prelude), `at-rule:<chain>` (enclosing rule-bearing at-rules, outermost first,
joined by `>`; a name not written in lower case is suffixed `(uppercase)`); `<ctx>` =
`-in-<mode>[-of-import|-of-host][-in-at-rule:<chain>]`):
  C01  panic | output-missing:<key> | harness-answer-malformed
  C08  ws-lost<where> (ws-lost-in-selector at top level) | ws-inserted-in-selector<where>
       calc-ws-lost | calc-ws-lost-in-nested-paren | calc-ws-lost-in-nested-fn:<name> | calc-ws-lost-in-nested-<block>
       unicode-range-split | unicode-range-value-changed | anb-sign-changed | comment-kept
       token-dropped<ctx> | token-added<ctx> | token-changed<ctx>
  C09  class-not-prefixed<where> | class-name-wrong<where> | class-sign-missing<where>
       non-class-ident-prefixed-in-(import-layer-name | at-prelude:<name> | declaration-value… | <mode>)
       class-sign-at-non-class-position-in-(…same…)
  C10  int-lost-digits | non-integer-6-digits | number-value-changed | number-sign-changed |
       number-kind-or-unit-changed | rpx-6-digits | rpx-wrong | rpx-underflow | rpx-not-converted<ctx>
  C17  host-rule-left-in-normal-output[-in-at-rule:<chain>] | host-combination-left-in-normal-output[…]
       host-rule-missing-from-low-output[…] | low-output-extra-rule | low-output-nonempty-with-conversion-off
       host-wrapper-chain-differs | host-wrapper-differs:token-… | host-combination-warning-missing[…]
       host-combination-warning-spurious | token-dropped/added/changed<ctx> (inside a converted rule)
  C18  import-url-dropped | import-layer-keyword-as-media | import-rewrite-differs |
       import-comment-format | import-comment-unterminated | import-path-not-recoverable | import-path-not-encoded |
       import-position-warning-missing | import-flagged-though-legal-position (only if STRICT_IMPORT_POSITION)
       token-dropped/added/changed<ctx> with `-of-import`
  C19  map-json-roundtrip | map-not-monotonic | map-dst-col-not-token-start | map-missing-entry |
       map-position-before-comment | map-src-wrong[-in-import-rewrite|-in-host-rewrite] |
       map-name-missing | map-name-wrong
"""
import difflib
import re
from fractions import Fraction
from urllib.parse import unquote

# ----------------------------------------------------------------------------------------------
# S-expression token trees
# ----------------------------------------------------------------------------------------------

_SX = re.compile(r'\(|\)|"(?:[^"\\]|\\.)*"|[^\s()"]+')
_QUN = re.compile(r'\\(\\|"|t|n|r|u\{([0-9A-Fa-f]+)\})')
_QMAP = {"\\": "\\", '"': '"', "t": "\t", "n": "\n", "r": "\r"}


def _unq(s):
    s = s[1:-1]
    if "\\" not in s:
        return s
    return _QUN.sub(lambda m: _QMAP[m.group(1)] if m.group(2) is None else chr(int(m.group(2), 16)), s)


BLOCKS = ("fn", "paren", "square", "curly")
NUMERIC = ("num", "pct", "dim")
STRINGY = ("ident", "at", "hash", "idhash", "str", "url", "delim", "ws", "comment", "badurl", "badstr")


class Tok:
    """One cssparser token (block tokens own their children)."""
    __slots__ = ("kind", "val", "children", "line", "col", "sign", "text", "bits", "int", "unit",
                 "parent", "index")

    def __init__(self, kind):
        self.kind = kind
        self.val = None
        self.children = None
        self.line = self.col = 0
        self.sign = self.text = self.bits = self.int = self.unit = None
        self.parent = None
        self.index = 0

    @property
    def pos(self):
        return (self.line, self.col)

    def value(self):
        """exact value of a numeric token (pct: the unit value) as a Fraction; None for inf/nan"""
        return f32_fraction(self.bits)

    def short(self):
        k = self.kind
        if k in NUMERIC:
            u = "%" if k == "pct" else (self.unit or "")
            return "%s(%s%s%s int=%s)" % (k, "+" if self.sign == "+" else "", self.text, u, self.int)
        if k == "fn":
            return "fn(%s)" % self.val
        if self.val is not None:
            return "%s(%r)" % (k, self.val)
        return k

    def __repr__(self):
        return "<%s @%d:%d>" % (self.short(), self.line, self.col)


def parse_tree(sx):
    """S-expression dump -> list of Tok (children nested, parent/index links set)."""
    stack = [[]]
    for m in _SX.finditer(sx):
        a = m.group(0)
        if a == "(":
            stack.append([])
        elif a == ")":
            x = stack.pop()
            stack[-1].append(x)
        else:
            stack[-1].append(a)
    top = stack[0][0] if stack and stack[0] else []
    return _conv_list(top, None)


def _conv_list(items, parent):
    res = []
    for it in items:
        if isinstance(it, list):
            t = _conv(it)
            t.parent = parent
            t.index = len(res)
            res.append(t)
    return res


def _conv(l):
    k = l[0]
    t = Tok(k)
    p = l[-1]
    ln, _, co = p[1:].partition(":")
    t.line, t.col = int(ln), int(co)
    if k in NUMERIC:
        t.sign = l[1]
        t.text = _unq(l[2])
        t.bits = int(l[3])
        t.int = None if l[4] == "none" else int(l[4])
        if k == "dim":
            t.unit = _unq(l[5])
    elif k in BLOCKS:
        i = 1
        if k == "fn":
            t.val = _unq(l[1])
            i = 2
        t.children = _conv_list(l[i:-1], t)
    elif k in STRINGY:
        t.val = _unq(l[1])
    return t


def f32_fraction(bits):
    s = -1 if bits >> 31 else 1
    e = (bits >> 23) & 0xFF
    m = bits & 0x7FFFFF
    if e == 255:
        return None
    if e == 0:
        return Fraction(s * m, 1 << 149)
    return s * Fraction((1 << 23) | m, 1 << 23) * (Fraction(2) ** (e - 127))


def f32_round(x):
    import struct
    return struct.unpack("<f", struct.pack("<f", x))[0]


# ----------------------------------------------------------------------------------------------
# source text addressing (cssparser line/UTF-16 column positions)
# ----------------------------------------------------------------------------------------------

class Text:
    """Maps (line, utf16 col) to an index in a Python string, with cssparser's line breaks
    (LF, CRLF, CR, FF)."""

    def __init__(self, s):
        self.s = s
        self.starts = [0]
        i, n = 0, len(s)
        while i < n:
            c = s[i]
            if c == "\r" and i + 1 < n and s[i + 1] == "\n":
                i += 2
                self.starts.append(i)
            elif c in "\n\r\f":
                i += 1
                self.starts.append(i)
            else:
                i += 1

    def index(self, line, col):
        if line >= len(self.starts):
            return len(self.s)
        i = self.starts[line]
        u = 0
        n = len(self.s)
        while u < col and i < n:
            u += 2 if ord(self.s[i]) > 0xFFFF else 1
            i += 1
        return i

    def slice(self, a, b):
        return self.s[self.index(*a):self.index(*b)]

    def end(self):
        line = len(self.starts) - 1
        col = sum(2 if ord(c) > 0xFFFF else 1 for c in self.s[self.starts[-1]:])
        return (line, col)


def closer_map(closers):
    return {(c[0], c[1]): ((c[2], c[3]), bool(c[4])) for c in closers or []}


def tok_end(t, top, closers, text_end):
    """position where token `t` ends = start of the next sibling, else the closer of the parent"""
    sibs = t.parent.children if t.parent is not None else top
    if t.kind in BLOCKS:
        c = closers.get(t.pos)
        if c is not None:
            (l, co), closed = c
            return (l, co + (1 if closed else 0))
    if t.index + 1 < len(sibs):
        return sibs[t.index + 1].pos
    if t.parent is not None:
        c = closers.get(t.parent.pos)
        if c is not None:
            return c[0]
    return text_end


# ----------------------------------------------------------------------------------------------
# options
# ----------------------------------------------------------------------------------------------

class Opts:
    def __init__(self, d):
        d = d or {}
        self.prefix = d.get("class_prefix")
        self.sign = d.get("class_prefix_sign")
        self.ratio = d.get("rpx_ratio", 750)
        self.import_sign = d.get("import_sign")
        self.convert_host = bool(d.get("convert_host", False))
        self.host_is = d.get("host_is")
        self.ratio_f32 = Fraction(f32_round(float(self.ratio)))


# ----------------------------------------------------------------------------------------------
# expected rewrite (derived from the property statements only)
# ----------------------------------------------------------------------------------------------

# at-rules whose block holds rules (CSS Conditional 3-5, Cascade 5/6, Transitions 2)
RULE_BEARING = {"media", "supports", "layer", "container", "scope", "document", "-moz-document",
                "starting-style"}
KEYFRAMES = {"keyframes", "-webkit-keyframes", "-moz-keyframes"}


class Ctx:
    """Where an expected token stands (used only to name failure classes)."""
    __slots__ = ("mode", "chain", "fdepth", "prelude_of", "calc", "special", "rule_at")

    def __init__(self, mode, chain=(), fdepth=0, prelude_of=None, calc=None, special=None, rule_at=None):
        self.mode = mode              # rules | selector | attr | value | atprelude | keyframe-selector
        self.chain = chain            # enclosing rule-bearing at-rule names, outermost first
        self.fdepth = fdepth          # nesting depth of selector functions / blocks
        self.prelude_of = prelude_of  # at-rule whose prelude we are in
        self.calc = calc              # None, or tuple of containers entered since the outermost calc(
        self.special = special        # None | "import" | "host"
        self.rule_at = rule_at        # input position of the rule this token belongs to

    def with_(self, **kw):
        c = Ctx(self.mode, self.chain, self.fdepth, self.prelude_of, self.calc, self.special, self.rule_at)
        for k, v in kw.items():
            setattr(c, k, v)
        return c

    def where(self):
        """suffix naming the nesting context, e.g. `-in-at-rule:layer>media`"""
        parts = []
        if self.fdepth >= 2:
            parts.append("nested-selector-function")
        if self.prelude_of:
            parts.append("at-prelude:" + self.prelude_of)
        if self.chain:
            parts.append("at-rule:" + ">".join(self.chain))
        if not parts:
            return ""
        return "-in-" + "+".join(parts)

    def describe(self):
        d = self.mode
        if self.chain:
            d += " in @" + " > @".join(self.chain)
        if self.prelude_of:
            d += " (prelude of @%s)" % self.prelude_of
        if self.fdepth:
            d += " fn-depth %d" % self.fdepth
        if self.calc is not None:
            d += " calc" + "".join("/" + x for x in self.calc)
        return d


class E:
    """One expected output token.  `src` is the input token it is copied/rewritten from (or the
    construct that triggers it, for synthesised tokens)."""
    __slots__ = ("kind", "val", "children", "src", "gap", "role", "ctx", "span", "close_src", "urange")

    def __init__(self, kind, val=None, children=None, src=None, role=None, ctx=None, span=None):
        self.kind = kind
        self.val = val
        self.children = children
        self.src = src
        self.gap = None        # None | "req" (whitespace must precede) | "forbid" (must not)
        self.role = role       # None | class | sign | rpx | rpx-optional | anb | synth
        self.ctx = ctx
        self.span = span       # for synthesised tokens: (lo, hi) input positions of the construct
        self.close_src = None  # for blocks copied from an input block: that block
        self.urange = None     # id of the unicode-range run this token belongs to

    def short(self):
        if self.kind in NUMERIC and self.src is not None:
            s = self.src.short()
            return s + ("->vw" if self.role == "rpx" else "")
        if self.kind == "fn":
            return "fn(%s)" % self.val
        if self.val is not None:
            return "%s(%r)" % (self.kind, self.val)
        return self.kind


def _ends_compound(t):
    k = t.kind
    return k in ("ident", "idhash", "hash", "square", "fn") or (k == "delim" and t.val in ("*", "&"))


def _starts_compound(t):
    k = t.kind
    return k in ("ident", "idhash", "hash", "square", "colon") or (k == "delim" and t.val in (".", "*", "&"))


def _is_pm(t):
    return t.kind == "delim" and t.val in ("+", "-")


class Rewriter:
    def __init__(self, opts):
        self.o = opts
        self.low = []            # [(wrappers:[ [E..] ], rule:[E..], src_rule_pos)]
        self.imports = []        # info about every @import rule met (for C18)
        self.host_rules = []     # info about every :host rule met (for C17)
        self.uranges = []        # [[E..]] unicode-range runs
        self.unspecified = False  # an @import the statement says nothing about was met

    # -- generic copy ------------------------------------------------------------------------
    def copy(self, t, ctx, role=None):
        k = t.kind
        e = E(k, t.val, None, t, role, ctx)
        return e

    # -- rule lists --------------------------------------------------------------------------
    def rules(self, toks, chain, wrap, top=False):
        out = []
        i, n = 0, len(toks)
        seen_other = False     # a rule other than @charset/@import/@layer-statement was seen
        seen_any = False
        while i < n:
            t = toks[i]
            if t.kind in ("ws", "comment"):
                i += 1
                continue
            if t.kind == "at":
                j = i + 1
                while j < n and toks[j].kind not in ("semi", "curly"):
                    j += 1
                term = toks[j] if j < n else None
                lname = t.val.lower()
                is_stmt = term is None or term.kind == "semi"
                out += self.at_rule(t, toks[i + 1:j], term, chain, wrap,
                                    dict(top=top, after_other=seen_other, after_any=seen_any))
                if not (lname in ("charset", "import") or (lname == "layer" and is_stmt)):
                    seen_other = True
                seen_any = True
                i = j + 1
            else:
                j = i
                while j < n and toks[j].kind != "curly":
                    j += 1
                block = toks[j] if j < n else None
                out += self.qualified(toks[i:j], block, chain, wrap)
                seen_other = True
                seen_any = True
                i = j + 1
        return out

    # -- at-rules ------------------------------------------------------------------------------
    def at_rule(self, at, prelude, term, chain, wrap, where):
        lname = at.val.lower()
        if lname == "import" and self.o.import_sign is not None:
            return self.import_rule(at, prelude, term, chain, where)
        pctx = Ctx("atprelude", chain, 0, lname, rule_at=at.pos)
        if lname == "import":
            self.imports.append(dict(at=at, rewritten=False, **where))
        head = [E("at", at.val, None, at, None, pctx)] + self.at_prelude(lname, prelude, pctx)
        items = list(head)
        if term is None:
            return items
        if term.kind == "semi":
            items.append(self.copy(term, pctx))
            return items
        # at-keywords are ASCII case-insensitive; a non-lowercase spelling is marked in the chain so
        # that failures it causes get their own class
        cname = _chain_name(at.val)
        if lname in RULE_BEARING:
            kids = self.rules(term.children, chain + (cname,), wrap + [head])
        elif lname in KEYFRAMES:
            kids = self.keyframes(term.children, chain + (cname,))
        else:
            kids = self.values(term.children, Ctx("value", chain + (cname,), rule_at=at.pos))
        b = E("curly", None, kids, term, None, pctx)
        b.close_src = term
        items.append(b)
        return items

    def at_prelude(self, lname, toks, pctx):
        """Prelude of an at-rule: tokens are kept; inside its blocks rpx is converted; class
        selectors exist only where the prelude holds selectors (@scope (...), selector(...))."""
        out = []
        for t in toks:
            if t.kind in ("ws", "comment"):
                continue
            if t.kind in BLOCKS:
                selectorish = (lname == "scope" and t.kind == "paren") or \
                              (t.kind == "fn" and t.val.lower() == "selector")
                if selectorish:
                    kids = self.selector(t.children, Ctx("selector", pctx.chain, 1, lname, rule_at=pctx.rule_at))
                else:
                    kids = self.values(t.children, Ctx("value", pctx.chain, 0, lname, rule_at=pctx.rule_at),
                                       prelude_block_of=lname)
                b = E(t.kind, t.val, kids, t, None, pctx)
                b.close_src = t
                out.append(b)
            elif t.kind == "dim" and t.unit == "rpx":
                # AMBIGUITY: C10 says rpx is converted in "at-rule preludes", the pinned unit test
                # `transform_rpx_in_simple_at_rules` keeps a bare `@a 75rpx;`.  Either is accepted
                # for an rpx token standing directly in the prelude (not inside a block).
                out.append(self.copy(t, pctx, "rpx-optional"))
            else:
                out.append(self.copy(t, pctx))
        return out

    def keyframes(self, toks, chain):
        out = []
        i, n = 0, len(toks)
        while i < n:
            j = i
            while j < n and toks[j].kind != "curly":
                j += 1
            kctx = Ctx("keyframe-selector", chain)
            for t in toks[i:j]:
                if t.kind in ("ws", "comment"):
                    continue
                kctx.rule_at = kctx.rule_at or t.pos
                if t.kind in BLOCKS:
                    b = E(t.kind, t.val, self.values(t.children, Ctx("value", chain)), t, None, kctx)
                    b.close_src = t
                    out.append(b)
                else:
                    out.append(self.copy(t, kctx))
            if j < n:
                b = E("curly", None, self.values(toks[j].children, Ctx("value", chain, rule_at=kctx.rule_at)),
                      toks[j], None, kctx)
                b.close_src = toks[j]
                out.append(b)
            i = j + 1
        return out

    # -- @import with an import sign (C18) ----------------------------------------------------
    def import_rule(self, at, prelude, term, chain, where):
        o = self.o
        sig = [t for t in prelude if t.kind not in ("ws", "comment")]
        hi = term.pos if term is not None else (sig[-1].pos if sig else at.pos)
        span = (at.pos, hi)
        ictx = Ctx("atprelude", chain, 0, "import", special="import", rule_at=at.pos)
        info = dict(at=at, rewritten=True, form=None, path=None, ok=False, span=span, **where)
        self.imports.append(info)
        if not sig:
            return []
        first = sig[0]
        path = None
        if first.kind == "str":
            path, info["form"] = first.val, "string"
        elif first.kind == "url":
            path, info["form"] = first.val, "url"
        elif first.kind == "fn" and first.val.lower() == "url":
            inner = [t for t in first.children if t.kind not in ("ws", "comment")]
            if len(inner) >= 1 and inner[0].kind == "str":
                path, info["form"] = inner[0].val, "url-quoted"
        if path is None:
            info["form"] = "malformed"
            self.unspecified = True   # not a well-formed import: nothing is demanded
            return []
        info["path"] = path
        rest = sig[1:]
        wrappers = []   # (at-name, prelude E list, trigger token)
        k = 0
        if k < len(rest) and rest[k].kind == "ident" and rest[k].val.lower() == "layer":
            wrappers.append(("layer", [], rest[k]))
            info["layer"] = "keyword"
            k += 1
        elif k < len(rest) and rest[k].kind == "fn" and rest[k].val.lower() == "layer":
            f = rest[k]
            # a layer name is a dotted identifier list, never a class selector
            kids = [self.copy(t, ictx) for t in f.children if t.kind not in ("ws", "comment")]
            wrappers.append(("layer", kids, f))
            info["layer"] = "function"
            k += 1
        if k < len(rest) and rest[k].kind == "fn" and rest[k].val.lower() == "supports":
            f = rest[k]
            inner = self.values(f.children, Ctx("value", chain, 0, "import", special="import", rule_at=at.pos),
                                prelude_block_of="supports")
            p = E("paren", None, inner, f, "synth", ictx, span)
            wrappers.append(("supports", [p], f))
            info["supports"] = True
            k += 1
        mq = rest[k:]
        if mq:
            wrappers.append(("media", self.at_prelude("media", mq, ictx), mq[0]))
            info["media"] = True
        comment = E("comment", None, None, at, "import-comment", ictx, span)
        comment.val = (o.import_sign, path)
        inner = [comment]
        for name, pre, trig in reversed(wrappers):
            b = E("curly", None, inner, trig, "synth", ictx, span)
            a = E("at", name, None, trig, "synth", ictx, span)
            inner = [a] + pre + [b]
        for e in _walk_e(inner):
            if e.span is None:
                e.span = span
            if e.ctx is None or e.ctx.special != "import":
                e.ctx = (e.ctx or ictx).with_(special="import")
        info["ok"] = True
        return inner

    # -- qualified rules -------------------------------------------------------------------------
    def qualified(self, prelude, block, chain, wrap):
        o = self.o
        sig = [t for t in prelude if t.kind not in ("ws", "comment")]
        rule_at = sig[0].pos if sig else (block.pos if block is not None else None)
        # (a comment is no token: `:/**/host` IS `:host`; only white space between the colon and the name makes it something else)
        def _no_ws_between(a, b):
            i, j = prelude.index(a), prelude.index(b)
            return all(t.kind == "comment" for t in prelude[i + 1:j])
        if o.convert_host and len(sig) >= 2 and sig[0].kind == "colon" and \
                sig[1].kind in ("ident", "fn") and sig[1].val == "host" and _no_ws_between(sig[0], sig[1]):
            pure = len(sig) == 2 and sig[1].kind == "ident"
            info = dict(at=sig[0], pure=pure, chain=chain, block=block)
            self.host_rules.append(info)
            if block is None:
                return []
            if not pure:
                return []   # dropped from both outputs, with a warning
            hi = block.pos
            span = (sig[0].pos, hi)
            hctx = Ctx("selector", chain, 0, None, special="host", rule_at=rule_at)

            def attr(name, value):
                kids = [E("ident", name, None, block, "synth", hctx, span),
                        E("delim", "=", None, block, "synth", hctx, span),
                        E("str", value, None, block, "synth", hctx, span)]
                return E("square", None, kids, block, "synth", hctx, span)

            rule = [attr("wx-host", o.prefix if o.prefix is not None else "")]
            if o.host_is is not None:
                rule.append(E("comma", None, None, block, "synth", hctx, span))
                rule.append(attr("is", o.host_is))
            b = E("curly", None, self.values(block.children, Ctx("value", chain, special="host", rule_at=rule_at)),
                  block, None, hctx)
            b.close_src = block
            rule.append(b)
            self.low.append((list(wrap), rule, rule_at))
            return []
        sctx = Ctx("selector", chain, 0, None, rule_at=rule_at)
        out = self.selector(prelude, sctx)
        if block is not None:
            b = E("curly", None, self.values(block.children, Ctx("value", chain, rule_at=rule_at)), block, None, sctx)
            b.close_src = block
            out.append(b)
        return out

    def selector(self, toks, sctx):
        o = self.o
        out = []
        prev = None
        gap_ws = gap_comment = False
        for t in toks:
            if t.kind == "ws":
                gap_ws = True
                continue
            if t.kind == "comment":
                gap_comment = True
                continue
            adjacent = prev is not None and not gap_ws      # (a comment is no token: `./**/name` IS the class selector `.name`)
            first_index = len(out)
            is_class = t.kind == "ident" and adjacent and prev.kind == "delim" and prev.val == "."
            if is_class:
                if o.sign is not None:
                    out.append(E("comment", o.sign, None, t, "sign", sctx, (prev.pos, t.pos)))
                name = t.val if o.prefix is None else o.prefix + "--" + t.val
                out.append(E("ident", name, None, t, "class", sctx))
            elif t.kind == "square":
                kids = [self.copy(c, sctx.with_(mode="attr")) for c in t.children if c.kind not in ("ws", "comment")]
                for c in kids:
                    if c.kind in BLOCKS:   # not valid CSS; keep the shape
                        c.children = self.values(c.src.children, Ctx("value", sctx.chain))
                        c.close_src = c.src
                b = E("square", None, kids, t, None, sctx)
                b.close_src = t
                out.append(b)
            elif t.kind in ("fn", "paren"):
                # every functional pseudo (and, by the pinned test `g:e(.f)`, every unknown
                # function) in selector context holds selectors: class positions and descendant
                # combinators are meaningful at every depth
                b = E(t.kind, t.val, self.selector(t.children, sctx.with_(fdepth=sctx.fdepth + 1)), t, None, sctx)
                b.close_src = t
                out.append(b)
            elif t.kind == "curly":
                b = E("curly", None, self.values(t.children, Ctx("value", sctx.chain)), t, None, sctx)
                b.close_src = t
                out.append(b)
            elif t.kind in NUMERIC:
                role = "anb"
                if t.kind == "dim" and t.unit == "rpx":
                    # AMBIGUITY: an rpx length standing in a selector (pinned test `[1rpx] (7.5rpx)`)
                    # is not meaningful CSS; converted or not are both accepted.
                    role = "rpx-optional"
                out.append(self.copy(t, sctx, role))
            else:
                out.append(self.copy(t, sctx))
            if prev is not None and len(out) > first_index:
                sig = _ends_compound(prev) and _starts_compound(t)
                if sig and gap_ws:
                    out[first_index].gap = "req"
                elif sig and adjacent:
                    out[first_index].gap = "forbid"
            prev = t
            gap_ws = gap_comment = False
        return out

    # -- declaration values / everything that is not a selector -----------------------------------
    def values(self, toks, vctx, prelude_block_of=None):
        out = []
        prev = None
        gap_ws = gap_comment = False
        run = None    # current unicode-range run
        for t in toks:
            if t.kind == "ws":
                gap_ws = True
                continue
            if t.kind == "comment":
                gap_comment = True
                continue
            adjacent = prev is not None and not gap_ws      # (a comment is no token: `./**/name` IS the class selector `.name`)
            if t.kind == "dim" and t.unit == "rpx":
                e = self.copy(t, vctx, "rpx")
            elif t.kind in BLOCKS:
                c = vctx
                if t.kind == "fn" and t.val.lower() == "calc":
                    c = vctx.with_(calc=() if vctx.calc is None else vctx.calc + ("calc",))
                elif vctx.calc is not None:
                    c = vctx.with_(calc=vctx.calc + (("fn:" + t.val.lower()) if t.kind == "fn" else t.kind,))
                e = E(t.kind, t.val, self.values(t.children, c), t, None, vctx)
                e.close_src = t
            else:
                e = self.copy(t, vctx)
            # spaces around + and - inside calc() at any depth
            if prev is not None and vctx.calc is not None and gap_ws and (_is_pm(prev) or _is_pm(t)):
                e.gap = "req"
            # unicode-range micro-syntax: U+26, U+0-7F, U+4?? are spelled without spaces
            if run is not None and adjacent and (t.kind in ("num", "dim", "ident") or (t.kind == "delim" and t.val in "+?")):
                run.append(e)
                e.urange = run
                e.gap = "forbid"
            else:
                run = None
                if t.kind == "ident" and t.val in ("u", "U"):
                    run = [e]
                    e.urange = run
                    self.uranges.append(run)
            out.append(e)
            prev = t
            gap_ws = gap_comment = False
        return out


def _chain_name(name):
    l = name.lower()
    return l if l == name else l + "(uppercase)"


def _after(t):
    """position right after a one-character token"""
    return (t.line, t.col + 1)


def _walk_e(es):
    for e in es:
        yield e
        if e.children:
            for x in _walk_e(e.children):
                yield x


def expected_rewrite(tokens_in, opts):
    """tokens_in: list of Tok (or the S-expression string); opts: options dict or Opts.
    Returns (expected_normal: [E], expected_low: [(wrappers, rule, pos)], rewriter)."""
    if isinstance(tokens_in, str):
        tokens_in = parse_tree(tokens_in)
    if not isinstance(opts, Opts):
        opts = Opts(opts)
    rw = Rewriter(opts)
    normal = rw.rules(tokens_in, (), [], top=True)
    return normal, rw.low, rw


# ----------------------------------------------------------------------------------------------
# comparison
# ----------------------------------------------------------------------------------------------

EXACT, SOFT, NONE = 2, 1, 0


def _import_comment_path(sign, text):
    """the path a placeholder comment `<sign> <percent-encoded path>` denotes (None if it is not one)"""
    if not text.startswith(sign + " "):
        return None
    try:
        return unquote(text[len(sign) + 1:], errors="strict")
    except Exception:
        return None

TWO_ULP = Fraction(2, 1 << 23)
# half a unit of the 6th significant digit (5e-6) plus the roundings of printing `unit_value*100`
# and of re-reading the printed text as f32 (4 ulp)
SIX_DIGITS = Fraction(5, 10 ** 6) + Fraction(4, 1 << 23)


class Analysis:
    def __init__(self, opts, res):
        self.o = opts if isinstance(opts, Opts) else Opts(opts)
        self.res = res
        self.problems = []
        self.pairs = {"normal": [], "low": []}     # (E, Tok) aligned pairs
        self.closer_pairs = {"normal": [], "low": []}
        self.low_wrapper_tokens = set()            # ids of output tokens that are replayed wrappers
        self.aligned_fully = True

    # -- problems ------------------------------------------------------------------------------
    def add(self, prop, classification, what, e=None, got=None, at=None, **extra):
        if at is None and e is not None:
            if e.src is not None:
                at = list(e.src.pos)
            elif e.span:
                at = list(e.span[0])
        p = dict(prop=prop, classification=classification, what=what, at=at,
                 expected=e.short() if isinstance(e, E) else e,
                 got=got.short() if isinstance(got, Tok) else got,
                 context=(e.ctx.describe() if isinstance(e, E) and e.ctx else None))
        src = self.res.get("source")
        if src is not None and at is not None:
            tx = self.res.get("_text")
            if tx is None:
                tx = self.res["_text"] = Text(src)
            i = tx.index(at[0], at[1])
            p["excerpt"] = src[max(0, i - 30):i] + "→" + src[i:i + 50]
        p.update(extra)
        self.problems.append(p)

    def prop_of(self, e, default="C08"):
        if e is not None and e.ctx is not None and e.ctx.special == "import":
            return "C18"
        if e is not None and e.ctx is not None and e.ctx.special == "host":
            return "C17" if default == "C08" else default
        return default

    # -- token matching ------------------------------------------------------------------------
    def match(self, e, o):
        if e.kind != o.kind:
            return NONE
        k = e.kind
        if k == "ident":
            if e.val == o.val:
                return EXACT
            if e.role == "class":
                return SOFT     # a class selector with another name: judged by C09
            if e.role != "class" and self.o.prefix is not None and o.val == self.o.prefix + "--" + e.val:
                return SOFT
            return NONE
        if k == "comment":
            if e.role == "import-comment":
                return EXACT if _import_comment_path(e.val[0], o.val) == e.val[1] else NONE
            return EXACT if e.val == o.val else NONE
        if k in NUMERIC:
            if k == "dim":
                if e.role == "rpx":
                    return EXACT if o.unit == "vw" else (SOFT if o.unit == "rpx" else NONE)
                if e.role == "rpx-optional":
                    return EXACT if o.unit in ("vw", "rpx") else NONE
                if e.src.unit != o.unit:
                    return NONE
            return EXACT if e.src.bits == o.bits and e.role not in ("rpx", "rpx-optional") else SOFT
        if k in BLOCKS:
            if k == "fn" and e.val != o.val:
                return NONE
            return EXACT
        if k == "at" and e.role == "synth":
            # the wrapper synthesised for `layer(` / `supports(` of an @import: at-keywords are ASCII case-insensitive, any spelling of it is equivalent
            return EXACT if e.val.lower() == o.val.lower() else NONE
        if k in STRINGY:
            return EXACT if e.val == o.val else NONE
        return EXACT

    # -- alignment keys ------------------------------------------------------------------------------
    def _strip(self, name):
        # canonical form for alignment only: the class prefix (possibly repeated) is taken off
        p = self.o.prefix
        if p is not None:
            while name.startswith(p + "--") and len(name) > len(p) + 2:
                name = name[len(p) + 2:]
        return name

    def ekey(self, e, shallow=False, deep=False):
        k = e.kind
        if deep and k in BLOCKS:
            return (k, e.val, tuple(self.ekey(c, deep=True) for c in (e.children or [])))
        if k == "ident":
            return (k, self._strip(e.val))
        if k == "comment":
            return (k,) + tuple(e.val) if e.role == "import-comment" else (k, e.val)
        if k in NUMERIC:
            u = e.src.unit if k == "dim" else None
            return (k, "rpx|vw" if u in ("rpx", "vw") else u)
        if k in BLOCKS:
            if shallow:
                return (k, e.val)
            return (k, e.val, self.ekey(e.children[0], True) if e.children else None)
        if k == "at":
            return (k, e.val.lower())
        return (k, e.val)

    def okey(self, o, shallow=False, deep=False):
        k = o.kind
        if deep and k in BLOCKS:
            return (k, o.val, tuple(self.okey(c, deep=True) for c in o.children if c.kind != "ws"))
        if k == "ident":
            return (k, self._strip(o.val))
        if k == "comment":
            sign = self.o.import_sign
            # (a class-sign comment that happens to start with the import sign, e.g. signs "é" and "é sign", is the class sign)
            if sign is not None and not (self.o.sign is not None and o.val == self.o.sign):
                pth = _import_comment_path(sign, o.val)
                if pth is not None:
                    return (k, sign, pth)
            return (k, o.val)
        if k in NUMERIC:
            u = o.unit if k == "dim" else None
            return (k, "rpx|vw" if u in ("rpx", "vw") else u)
        if k in BLOCKS:
            if shallow:
                return (k, o.val)
            first = next((c for c in o.children if c.kind != "ws"), None)
            return (k, o.val, self.okey(first, True) if first is not None else None)
        if k == "at":
            return (k, o.val.lower())       # at-keywords are ASCII case-insensitive (alignment only; `match` decides)
        return (k, o.val)

    def align(self, exp, osig):
        """diff opcodes between expected and actual tokens of one level: subtrees that agree
        completely are matched first, the remaining stretches are diffed on shallow keys"""
        ek = [self.ekey(e, deep=True) for e in exp]
        ok_ = [self.okey(o, deep=True) for o in osig]
        if ek == ok_:
            return [("equal", 0, len(ek), 0, len(ok_))]
        res = []
        for tag, i1, i2, j1, j2 in difflib.SequenceMatcher(None, ek, ok_, autojunk=False).get_opcodes():
            if tag != "replace":
                res.append((tag, i1, i2, j1, j2))
                continue
            ek2 = [self.ekey(e) for e in exp[i1:i2]]
            ok2 = [self.okey(o) for o in osig[j1:j2]]
            for tag2, a1, a2, b1, b2 in difflib.SequenceMatcher(None, ek2, ok2, autojunk=False).get_opcodes():
                res.append((tag2, i1 + a1, i1 + a2, j1 + b1, j1 + b2))
        return res

    # -- level comparison --------------------------------------------------------------------------
    def cmp_level(self, exp, out, which, enclosing=None):
        """exp: [E]; out: [Tok] (children of one block or top level).
        Both sides are cut into chunks (a chunk ends with `;` or a `{}` block: a rule or a
        declaration); chunks are aligned first (equal ones, then the most similar ones in order),
        and the tokens of two aligned chunks by a longest-common-subsequence diff over token keys
        (kind + decoded value; class prefix and numeric value left out).  A dropped or added rule
        thus does not derail the comparison of the others."""
        osig = []
        ws_before = []
        had_ws = False
        for t in out:
            if t.kind == "ws":
                had_ws = True
            else:
                osig.append(t)
                ws_before.append(had_ws)
                had_ws = False
        sign = self.o.import_sign
        ech = _chunks(exp, lambda e: e.role == "import-comment")
        och = _chunks(osig, lambda t: sign is not None and t.kind == "comment" and t.val.startswith(sign + " ")
                      and not (self.o.sign is not None and t.val == self.o.sign))
        if len(ech) <= 1 and len(och) <= 1:
            ok = self.cmp_tokens(exp, osig, ws_before, which, enclosing, 0, len(exp), 0, len(osig))
        else:
            ok = True
            al = self.align_chunks(exp, osig, ech, och)
            # an @import whose expected rewrite is absent, next to an unexpected `@media layer …`
            # chunk: that chunk is the (wrong) rewrite of the same @import, not a second finding
            consumed = {}
            for n, ((i1, i2), (j1, j2)) in enumerate(al):
                if j1 == j2 and i1 < i2 and exp[i1].ctx is not None and exp[i1].ctx.special == "import" \
                        and exp[i1].kind == "at" and exp[i1].val == "layer":
                    for nb in range(max(0, n - 3), min(len(al), n + 4)):
                        (a1, a2), (b1, b2) = al[nb]
                        if a1 == a2 and b1 < b2 and nb not in consumed.values() and osig[b1].kind == "at" \
                                and osig[b1].val == "media" and b1 + 1 < b2 and osig[b1 + 1].kind == "ident" \
                                and osig[b1 + 1].val.lower() == "layer":
                            consumed[n] = nb
                            break
            skip = set(consumed.values())
            for n, ((i1, i2), (j1, j2)) in enumerate(al):
                if n in skip:
                    continue
                if i1 == i2:
                    ok = False
                    self.report_extra(osig[j1:j2], exp[i2] if i2 < len(exp) else None, which, enclosing)
                elif j1 == j2:
                    ok = False
                    o = osig[al[consumed[n]][1][0]] if n in consumed else None
                    self.report_dropped_runs(exp[i1:i2], o, which)
                else:
                    ok = self.cmp_tokens(exp, osig, ws_before, which, enclosing, i1, i2, j1, j2) and ok
        if not ok:
            self.aligned_fully = False
        return ok

    def align_chunks(self, exp, osig, ech, och):
        """-> [((i1,i2),(j1,j2))] in order; an empty range on one side = chunk without partner"""
        ekd = [tuple(self.ekey(e, deep=True) for e in exp[a:b]) for a, b in ech]
        okd = [tuple(self.okey(o, deep=True) for o in osig[a:b]) for a, b in och]
        res = []
        for tag, a1, a2, b1, b2 in difflib.SequenceMatcher(None, ekd, okd, autojunk=False).get_opcodes():
            if tag == "equal":
                for k in range(a2 - a1):
                    res.append((ech[a1 + k], och[b1 + k]))
                continue
            # stretch without exact partners: pair the most similar chunks, keeping the order
            es, os_ = ech[a1:a2], och[b1:b2]
            eks = [[self.ekey(e) for e in exp[a:b]] for a, b in es]
            oks = [[self.okey(o) for o in osig[a:b]] for a, b in os_]
            n, m = len(es), len(os_)
            sim = [[0.0] * m for _ in range(n)]
            for x in range(n):
                for y in range(m):
                    r = difflib.SequenceMatcher(None, eks[x], oks[y], autojunk=False).ratio()
                    # a rule is recognised by its head (at-keyword / first selector tokens) too
                    if eks[x][:1] != oks[y][:1]:
                        r *= 0.6
                    sim[x][y] = r if r >= 0.45 else 0.0
            best = [[0.0] * (m + 1) for _ in range(n + 1)]
            for x in range(n - 1, -1, -1):
                for y in range(m - 1, -1, -1):
                    v = max(best[x + 1][y], best[x][y + 1])
                    if sim[x][y] > 0 and sim[x][y] + best[x + 1][y + 1] > v:
                        v = sim[x][y] + best[x + 1][y + 1]
                    best[x][y] = v
            x = y = 0
            while x < n or y < m:
                if x < n and y < m and sim[x][y] > 0 and best[x][y] == sim[x][y] + best[x + 1][y + 1]:
                    res.append((es[x], os_[y]))
                    x += 1
                    y += 1
                elif x < n and (y >= m or best[x][y] == best[x + 1][y]):
                    pos = os_[y][0] if y < m else (os_[-1][1] if os_ else (och[b1 - 1][1] if b1 > 0 else 0))
                    res.append((es[x], (pos, pos)))
                    x += 1
                else:
                    pos = es[x][0] if x < n else (es[-1][1] if es else (ech[a1 - 1][1] if a1 > 0 else 0))
                    res.append(((pos, pos), os_[y]))
                    y += 1
        return res

    def report_dropped_runs(self, es, o, which):
        """one report per input rule concerned"""
        run = [es[0]]
        runs = [run]
        for e in es[1:]:
            if (e.ctx.rule_at if e.ctx else None) == (run[-1].ctx.rule_at if run[-1].ctx else None):
                run.append(e)
            else:
                run = [e]
                runs.append(run)
        for run in runs:
            self.report_dropped(run, o, which)
        return runs

    def cmp_tokens(self, exp, osig, ws_before, which, enclosing, lo_i, hi_i, lo_j, hi_j):
        """token-level comparison of exp[lo_i:hi_i] with osig[lo_j:hi_j]"""
        sub_e, sub_o = exp[lo_i:hi_i], osig[lo_j:hi_j]
        ops = [(t, lo_i + a, lo_i + b, lo_j + c, lo_j + d) for t, a, b, c, d in self.align(sub_e, sub_o)]
        ok = True
        last = (None, None)     # indexes of the last pair made
        for tag, i1, i2, j1, j2 in ops:
            if tag == "equal":
                for i, j in zip(range(i1, i2), range(j1, j2)):
                    e, o = exp[i], osig[j]
                    m = self.match(e, o)
                    if m == NONE:
                        ok = False
                        self.report_mismatch(e, o, which)
                        continue
                    consecutive = last == (i - 1, j - 1)
                    self.pair(e, o, which, ws_before[j] if consecutive else None, m)
                    last = (i, j)
                continue
            ok = False
            i, j = i1, j1
            if tag == "replace" and (i2 - i1) == (j2 - j1) and \
                    all(exp[i1 + k].kind == osig[j1 + k].kind for k in range(i2 - i1)):
                # same kinds in a row: substitutions, judged one by one
                while i < i2 and j < j2:
                    e, o = exp[i], osig[j]
                    m = self.match(e, o)
                    if m != NONE:
                        self.pair(e, o, which, None, m)
                        last = (i, j)
                    else:
                        self.report_mismatch(e, o, which)
                    i += 1
                    j += 1
            if i < i2:
                runs = self.report_dropped_runs(exp[i:i2], osig[j] if j < j2 else None, which)
                if j < j2 and any(r[0].ctx is not None and r[0].ctx.special == "import" for r in runs):
                    continue   # what stands there instead is the (wrong) rewrite of the same @import
            if j < j2:
                self.report_extra(osig[j:j2], exp[i2] if i2 < hi_i else None, which, enclosing)
        return ok

    def pair(self, e, o, which, ws_before, m):
        self.pairs[which].append((e, o))
        cx = e.ctx
        # whitespace that carries meaning
        if ws_before is not None:
            if e.gap == "req" and not ws_before:
                if cx is not None and cx.calc is not None:
                    inner = cx.calc[-1] if cx.calc else None
                    if inner is None or inner == "calc":
                        cls = "calc-ws-lost"
                    elif inner.startswith("fn:"):
                        cls = "calc-ws-lost-in-nested-fn:" + inner[3:]
                    else:
                        cls = "calc-ws-lost-in-nested-" + inner
                    self.add("C08", cls,
                             "the space next to a + or - inside calc() is gone (the operator is no longer an operator)", e, o)
                else:
                    self.add("C08", "ws-lost" + (cx.where() if cx and cx.where() else "-in-selector"),
                             "descendant combinator (whitespace between two compound selectors) is gone", e, o)
            elif e.gap == "forbid" and ws_before:
                if e.urange is not None:
                    pass   # judged per run in check_uranges
                else:
                    self.add("C08", "ws-inserted-in-selector" + (cx.where() if cx else ""),
                             "whitespace (a descendant combinator) appears inside a compound selector", e, o)
        k = e.kind
        if k == "ident" and m == SOFT:
            if e.role == "class" and o.val == e.src.val:
                self.add("C09", "class-not-prefixed" + cx.where(),
                         "class selector .%s is not emitted as .%s" % (e.src.val, e.val), e, o)
            elif e.role == "class":
                self.add("C09", "class-name-wrong" + cx.where(),
                         "class selector .%s is emitted as .%s instead of .%s" % (e.src.val, o.val, e.val), e, o)
            else:
                self.add("C09", "non-class-ident-prefixed" + self.ident_where(e),
                         "identifier %r is not a class selector but got the class prefix" % e.val, e, o)
        elif k == "comment" and e.role == "import-comment":
            self.check_import_comment(e, o, which)
        elif k in NUMERIC:
            self.check_number(e, o)
        if k in BLOCKS:
            self.cmp_level(e.children or [], o.children, which, e)
            if e.close_src is not None or e.role == "synth":
                self.closer_pairs[which].append((e, o))

    def ident_where(self, e):
        cx = e.ctx
        if cx is None:
            return ""
        if cx.special == "import" or cx.prelude_of == "import":
            return "-in-import-layer-name" if self._inside_layer_fn(e) else "-in-at-prelude:import"
        if cx.mode == "atprelude" or cx.prelude_of:
            return "-in-at-prelude:" + (cx.prelude_of or "?")
        if cx.mode == "value":
            return "-in-declaration-value" + (("-in-at-rule:" + ">".join(cx.chain)) if cx.chain else "")
        return "-in-" + cx.mode

    @staticmethod
    def _inside_layer_fn(e):
        p = e.src.parent if e.src is not None else None
        return p is not None and p.kind == "fn" and p.val.lower() == "layer"

    # -- reports -----------------------------------------------------------------------------------
    def report_dropped(self, es, o, which):
        e = es[0]
        cx = e.ctx
        names = " ".join(x.short() for x in es[:6])
        if cx is not None and cx.special == "import":
            info = next((x for x in self._rw.imports if x["at"].pos == cx.rule_at), {})
            form = info.get("form")
            # AMBIGUITY: when several imports name the same path and fewer placeholders appear,
            # any of them may be called the missing one; a url() form is named if there is one.
            same = [x for x in self._rw.imports if x.get("path") == info.get("path") and x.get("top") == info.get("top")]
            alt = next((x for x in same if x.get("form") in ("url", "url-quoted")), None)
            if form not in ("url", "url-quoted") and alt is not None and es[0].role == "import-comment":
                form = alt["form"]
                self.add("C18", "import-url-dropped", "the @import rule left no placeholder in the output (form: %s)" % form,
                         e, o, at=list(alt["at"].pos))
            elif form in ("url", "url-quoted"):
                self.add("C18", "import-url-dropped", "the @import rule left no placeholder in the output (form: %s)" % form, e, o)
            elif info.get("layer") == "keyword" and e.kind == "at" and e.val == "layer" and o is not None \
                    and o.kind == "at" and o.val == "media":
                self.add("C18", "import-layer-keyword-as-media",
                         "`@import … layer` (anonymous layer) is wrapped in `@media layer …` instead of `@layer`", e, o)
            else:
                self.add("C18", "import-rewrite-differs", "the placeholder of the @import rule (or a wrapper of it) is missing or different: %s" % names, e, o)
            return
        if e.role == "sign":
            self.add("C09", "class-sign-missing" + cx.where(),
                     "no prefix-sign comment before class selector .%s" % e.src.val, e, o)
            if len(es) > 1:
                self.report_dropped(es[1:], o, which)
            return
        prop = "C17" if which == "low" or (cx is not None and cx.special == "host") else "C08"
        self.add(prop, "token-dropped" + self.generic_where(e), "expected tokens missing from the %s output: %s" % (which, names), e, o)

    def report_extra(self, os_, e, which, enclosing=None):
        o = os_[0]
        names = " ".join(x.short() for x in os_[:6])
        ref = e if e is not None else enclosing
        if self.o.convert_host and which == "normal":
            # `:host` rules that were left where they stood
            rest = []
            for kind, pre, term in _rules_of(os_):
                sig = [t for t in pre if t.kind != "comment"]
                if kind == "q" and len(sig) >= 2 and sig[0].kind == "colon" and sig[1].kind in ("ident", "fn") and sig[1].val == "host":
                    pure = len(sig) == 2 and sig[1].kind == "ident"
                    chain = _out_chain(sig[0], self.tn)
                    self.add("C17", ("host-rule" if pure else "host-combination") + "-left-in-normal-output"
                             + (("-in-at-rule:" + ">".join(chain)) if chain else ""),
                             "a `:host` rule is still in the normal output although host conversion is on", ref, sig[0])
                else:
                    rest += pre + ([term] if term is not None else [])
            if not rest:
                return
            os_ = rest
            o = os_[0]
            names = " ".join(x.short() for x in os_[:6])
        if o.kind == "comment" and self.o.sign is not None and o.val == self.o.sign:
            self.add("C09", "class-sign-at-non-class-position" + (self.ident_where(ref) if ref is not None else ""),
                     "the prefix-sign comment marks a position that is not a class selector", ref, o)
            if len(os_) > 1:
                self.report_extra(os_[1:], e, which, enclosing)
            return
        if o.kind == "comment":
            self.add("C08", "comment-kept", "a comment survives in the %s output: %r" % (which, o.val), ref, o)
            if len(os_) > 1:
                self.report_extra(os_[1:], e, which, enclosing)
            return
        prop = "C17" if which == "low" else self.prop_of(ref)
        self.add(prop, "token-added" + self.generic_where(ref), "unexpected tokens in the %s output: %s" % (which, names), ref, o)

    def report_mismatch(self, e, o, which):
        cx = e.ctx
        if e.role == "import-comment" and o.kind == "comment":
            self.check_import_comment(e, o, which)
            return
        if e.kind in NUMERIC and o.kind in NUMERIC:
            self.add("C10", "number-kind-or-unit-changed", "numeric token changed kind or unit", e, o)
            return
        if e.kind == "at" and o.kind == "at" and e.role == "synth" and cx is not None and cx.special == "import" \
                and e.val == "layer" and o.val == "media":
            self.add("C18", "import-layer-keyword-as-media",
                     "`@import … layer` (anonymous layer) is wrapped in `@media layer` instead of `@layer`", e, o)
            return
        prop = "C17" if which == "low" else self.prop_of(e)
        self.add(prop, "token-changed" + self.generic_where(e), "output token differs from the expected rewrite", e, o)

    def generic_where(self, e):
        if e is None or e.ctx is None:
            return ""
        cx = e.ctx
        s = "-in-" + cx.mode
        if cx.special:
            s += "-of-" + cx.special
        if cx.chain:
            s += "-in-at-rule:" + ">".join(cx.chain)
        return s

    # -- numbers (C10) -----------------------------------------------------------------------------
    def check_number(self, e, o):
        s = e.src
        role = e.role
        if e.kind == "dim" and role in ("rpx", "rpx-optional"):
            if o.unit == "rpx":
                if role == "rpx":
                    self.add("C10", "rpx-not-converted" + self.generic_where(e), "an rpx length is emitted unconverted", e, o)
                    return
                role = None   # kept verbatim: judged like any other number
            else:
                self.check_rpx(e, o)
                return
        if role == "anb" and s.sign != o.sign and (s.sign == "n" or o.sign == "n"):
            self.add("C08", "anb-sign-changed", "An+B: the explicit sign of a number was lost/added (changes the micro-syntax)", e, o)
        if s.bits == o.bits and (s.int is None or s.int == o.int):
            return
        vi, vo = s.value(), o.value()
        if s.int is not None:
            if e.kind == "pct":
                # the integer of a percentage is carried by int_value
                if o.int == s.int:
                    return
            elif o.int == s.int:
                return
            # an integer whose text is re-read as the same integral value is fine too
            if vo is not None and vo == s.int and (o.int is None or o.int == s.int):
                return
            self.add("C10", "int-lost-digits", "integer %d is emitted as %s" % (s.int, o.text if e.kind != "pct" else o.int), e, o)
            return
        if vi is None or vo is None:
            if vi != vo:
                self.add("C10", "number-value-changed", "non-finite numeric value", e, o)
            return
        if vi == vo:
            return
        if vi == 0 or vo == 0:
            self.add("C10", "number-value-changed", "zero / non-zero", e, o)
            return
        rel = abs(vo - vi) / abs(vi)
        if (vi < 0) != (vo < 0):
            self.add("C10", "number-sign-changed", "sign flipped", e, o)
        elif rel <= TWO_ULP / 2:
            return
        elif rel <= SIX_DIGITS:
            self.add("C10", "non-integer-6-digits",
                     "non-integer %s re-read as %s (relative error %.3g: 6-significant-digit printing)" % (s.text, o.text, float(rel)), e, o)
        else:
            self.add("C10", "number-value-changed", "value %s became %s (relative error %.3g)" % (s.text, o.text, float(rel)), e, o)

    def check_rpx(self, e, o):
        s = e.src
        vi, vo = s.value(), o.value()
        if vi is None or vo is None:
            self.add("C10", "rpx-wrong", "non-finite rpx value", e, o)
            return
        if self.o.ratio_f32 == 0:
            return
        exact = vi * 100 / self.o.ratio_f32
        if exact == 0:
            if vo != 0:
                self.add("C10", "rpx-wrong", "0rpx must stay 0", e, o)
            return
        if vo == 0 or (exact < 0) != (vo < 0):
            # AMBIGUITY: a result below the f32 subnormal range may round to zero; not generated
            self.add("C10", "rpx-wrong" if vo != 0 else "rpx-underflow",
                     "%srpx -> %svw, exact %.9g" % (s.text, o.text, float(exact)), e, o)
            return
        rel = abs(vo - exact) / abs(exact)
        if rel <= TWO_ULP:
            pass
        elif rel <= SIX_DIGITS + TWO_ULP:
            self.add("C10", "rpx-6-digits", "%srpx -> %svw, exact %.9g (relative error %.3g: 6-significant-digit printing)"
                     % (s.text, o.text, float(exact), float(rel)), e, o)
        else:
            self.add("C10", "rpx-wrong", "%srpx -> %svw, exact %.9g (relative error %.3g)" % (s.text, o.text, float(exact), float(rel)), e, o)
        if s.sign != "n" and o.sign == "n" or (s.sign == "n" and o.sign == "+"):
            # AMBIGUITY: "with its sign" is read as the sign of the value; an explicit `+` is
            # spelling, so this is not reported.
            pass

    # -- @import comment (C18) -----------------------------------------------------------------------
    def check_import_comment(self, e, o, which="normal"):
        sign, path = e.val
        txt = o.val
        out = self.res.get(which)
        if out is not None:
            tx = Text(out)
            raw = out[tx.index(*o.pos):]
            if not raw.startswith("/*" + txt + "*/"):
                self.add("C18", "import-comment-unterminated", "the placeholder comment is not closed by `*/`", e, o)
        if not txt.startswith(sign + " "):
            self.add("C18", "import-comment-format", "placeholder comment is not `<sign> <encoded path>`: %r" % txt, e, o)
            return
        enc = txt[len(sign) + 1:]
        try:
            dec = unquote(enc, errors="strict")
        except Exception:
            dec = None
        if dec != path:
            self.add("C18", "import-path-not-recoverable", "decoding %r gives %r, the import path was %r" % (enc, dec, path), e, o)
        elif any(c.isspace() for c in enc) or "*/" in enc:
            self.add("C18", "import-path-not-encoded", "the path is written raw in the comment: %r" % enc, e, o)


def _chunks(items, also=lambda x: False):
    """index ranges of the chunks of a token list; a chunk ends with `;` or a `{}` block (or an
    @import placeholder comment)"""
    res = []
    start = 0
    for k, x in enumerate(items):
        if x.kind in ("semi", "curly") or also(x):
            res.append((start, k + 1))
            start = k + 1
    if start < len(items):
        res.append((start, len(items)))
    return res


def _out_chain(t, top):
    """names of the at-rules whose blocks enclose output token `t`, outermost first"""
    chain = []
    b = t.parent
    while b is not None:
        if b.kind == "curly":
            sibs = b.parent.children if b.parent is not None else top
            i = b.index - 1
            name = None
            while i >= 0 and sibs[i].kind not in ("semi", "curly"):
                if sibs[i].kind == "at":
                    name = _chain_name(sibs[i].val)
                i -= 1
            if name:
                chain.append(name)
        b = b.parent
    return list(reversed(chain))


def _rules_of(toks):
    """split an OUTPUT token list into rules: [(kind 'at'|'q', prelude toks, block|None|semi)]"""
    res = []
    i, n = 0, len(toks)
    while i < n:
        t = toks[i]
        if t.kind == "ws":
            i += 1
            continue
        if t.kind == "at":
            j = i + 1
            while j < n and toks[j].kind not in ("semi", "curly"):
                j += 1
            res.append(("at", toks[i:j], toks[j] if j < n else None))
            i = j + 1
        else:
            j = i
            while j < n and toks[j].kind != "curly":
                j += 1
            res.append(("q", toks[i:j], toks[j] if j < n else None))
            i = j + 1
    return res


def _flatten_low(toks, chain, out):
    for kind, pre, term in _rules_of(toks):
        if kind == "at" and term is not None and term.kind == "curly":
            _flatten_low(term.children, chain + [(pre, term)], out)
        else:
            out.append((chain, pre, term))


def analyze(opts, res):
    """Full comparison of one harness answer with the expected rewrite; cached in res['_an']."""
    an = res.get("_an")
    if an is not None:
        return an
    o = opts if isinstance(opts, Opts) else Opts(opts)
    an = Analysis(o, res)
    res["_an"] = an
    if "panic" in res or "tokens_in" not in res or "tokens_normal" not in res:
        an.ok = False
        return an
    an.ok = True
    tin = parse_tree(res["tokens_in"])
    tn = parse_tree(res["tokens_normal"])
    tl = parse_tree(res["tokens_low"])
    an.tin, an.tn, an.tl = tin, tn, tl
    exp_n, exp_l, rw = expected_rewrite(tin, o)
    an._rw = rw
    an.exp_n, an.exp_l = exp_n, exp_l
    an.unspecified = rw.unspecified
    if rw.unspecified:
        # an @import that is not `<url-or-string> …` with an import sign: the statement says nothing
        return an
    an.cmp_level(exp_n, tn, "normal")
    # low-priority output: list of (wrapper chain, rule)
    flat = []
    _flatten_low(tl, [], flat)
    an.low_flat = flat
    if not o.convert_host:
        if any(t.kind != "ws" for t in tl):
            an.add("C17", "low-output-nonempty-with-conversion-off", "host conversion is off but the low-priority output is not empty",
                   None, tl[0], at=[0, 0])
    else:
        def first_key(kids, keyf, is_ws):
            f = next((c for c in kids if not is_ws(c)), None)
            return keyf(f, True) if f is not None else None

        ekeys = []
        for wrap, rule, pos in exp_l:
            blk = rule[-1]
            ekeys.append((tuple(w[0].val.lower() for w in wrap), first_key(blk.children or [], an.ekey, lambda c: False)))
        okeys = []
        for chain, pre, term in flat:
            names = tuple(cpre[0].val.lower() for cpre, _ in chain)
            okeys.append((names, first_key(term.children if term is not None and term.children else [], an.okey,
                                           lambda c: c.kind == "ws")))
        matched_e, matched_o = set(), set()
        for tag, i1, i2, j1, j2 in difflib.SequenceMatcher(None, ekeys, okeys, autojunk=False).get_opcodes():
            if tag == "replace" and i2 - i1 == j2 - j1:
                tag = "equal"    # same count of rules in a row: compare them one to one
            if tag != "equal":
                continue
            for k, kk in zip(range(i1, i2), range(j1, j2)):
                matched_e.add(k)
                matched_o.add(kk)
                wrap, rule, pos = exp_l[k]
                chain, pre, term = flat[kk]
                if len(chain) != len(wrap):
                    an.add("C17", "host-wrapper-chain-differs", "the :host rule is wrapped in %d at-rules, expected %d" % (len(chain), len(wrap)),
                           rule[0], None, at=list(pos) if pos else None)
                else:
                    for w, (cpre, cterm) in zip(wrap, chain):
                        # the same prelude is judged in the normal output; here only its shape counts
                        before = len(an.problems)
                        an.cmp_level(w, cpre, "low")
                        new = an.problems[before:]
                        del an.problems[before:]
                        for p in new:
                            if p["classification"].startswith("token-"):
                                p["prop"] = "C17"
                                p["classification"] = "host-wrapper-differs:" + p["classification"]
                                an.problems.append(p)
                # wrappers are replayed raw: they are exempt from the source-map demands
                for cpre, cterm in chain:
                    for t in cpre:
                        for x in _walk_t([t]):
                            an.low_wrapper_tokens.add(id(x))
                    an.low_wrapper_tokens.add(id(cterm))
                an.pairs["low"] = [(e, t) for (e, t) in an.pairs["low"] if id(t) not in an.low_wrapper_tokens]
                an.closer_pairs["low"] = [(e, t) for (e, t) in an.closer_pairs["low"] if id(t) not in an.low_wrapper_tokens]
                an.cmp_level(rule, pre + ([term] if term is not None else []), "low")
        for k, (wrap, rule, pos) in enumerate(exp_l):
            if k not in matched_e:
                names = [_chain_name(w[0].val) for w in wrap]
                an.add("C17", "host-rule-missing-from-low-output" + (("-in-at-rule:" + ">".join(names)) if names else ""),
                       "a `:host {}` rule has no counterpart in the low-priority output",
                       rule[0], None, at=list(pos) if pos else None)
        for kk, (chain, pre, term) in enumerate(flat):
            if kk not in matched_o:
                an.aligned_fully = False
                t0 = (pre or [term])[0]
                an.add("C17", "low-output-extra-rule", "the low-priority output holds a rule no `:host {}` rule accounts for", None, t0, at=[0, 0])
    an.check_uranges_done = False
    return an


def _walk_t(ts):
    for t in ts:
        yield t
        if t.children:
            for x in _walk_t(t.children):
                yield x


# ----------------------------------------------------------------------------------------------
# the checks
# ----------------------------------------------------------------------------------------------

def _of(an, prop):
    return [p for p in an.problems if p["prop"] == prop]


def check_c01(opts, res):
    """C01 (stylesheet part): no panic; outputs and warnings present."""
    ps = []
    if not isinstance(res, dict):
        return [dict(prop="C01", classification="harness-answer-malformed", what="answer is not a JSON object")]
    if "panic" in res:
        ps.append(dict(prop="C01", classification="panic", what="the stylesheet transformer panicked: %s" % res["panic"],
                       panic=res["panic"]))
        return ps
    for k in ("normal", "low", "warnings"):
        if k not in res:
            ps.append(dict(prop="C01", classification="output-missing:" + k, what="no %r in the answer" % k))
    return ps


def _urange_parse(s):
    m = re.fullmatch(r"[uU]\+([0-9a-fA-F?]{1,6})(?:-([0-9a-fA-F]{1,6}))?", s)
    if not m:
        return None
    a, b = m.group(1), m.group(2)
    if "?" in a:
        if b is not None or not re.fullmatch(r"[0-9a-fA-F]*\?+", a):
            return None
        return (int(a.replace("?", "0"), 16), int(a.replace("?", "F"), 16))
    return (int(a, 16), int(b, 16) if b is not None else int(a, 16))


def _check_uranges(an):
    if an.check_uranges_done:
        return
    an.check_uranges_done = True
    res = an.res
    if res.get("source") is None:
        return
    tin_text = Text(res["source"])
    cin = closer_map(res.get("closers_in"))
    for which, outkey, ckey, top in (("normal", "normal", "closers_normal", an.tn), ("low", "low", "closers_low", an.tl)):
        pairs = {id(e): t for e, t in an.pairs[which]}
        otext = Text(res[outkey])
        cout = closer_map(res.get(ckey))
        for run in an._rw.uranges:
            if len(run) < 2 or not all(id(e) in pairs for e in run):
                continue
            s_in = tin_text.slice(run[0].src.pos, tok_end(run[-1].src, an.tin, cin, tin_text.end())).rstrip()
            s_in = re.sub(r"/\*.*?\*/", "", s_in, flags=re.S).rstrip()
            want = _urange_parse(s_in)
            if want is None:
                continue   # not a unicode-range in the input
            o0, o1 = pairs[id(run[0])], pairs[id(run[-1])]
            s_out = otext.slice(o0.pos, tok_end(o1, top, cout, otext.end())).rstrip()
            if re.search(r"\s", s_out):
                an.add("C08", "unicode-range-split", "unicode-range %s is emitted as %r (no longer one <urange>)" % (s_in, s_out), run[0], o0)
            elif _urange_parse(s_out) != want:
                an.add("C08", "unicode-range-value-changed", "unicode-range %s is emitted as %r" % (s_in, s_out), run[0], o0)


def check_c08(opts, res):
    an = analyze(opts, res)
    if not an.ok or an.unspecified:
        return []
    _check_uranges(an)
    # tokens lost from (or invented in) the low-priority output are a loss of the token stream as well as a partition defect (C17)
    return _of(an, "C08") + [p for p in an.problems if p["prop"] == "C17" and p["classification"].startswith(("token-dropped", "token-extra", "host-wrapper-chain-differs"))]


def check_c09(opts, res):
    an = analyze(opts, res)
    if not an.ok or an.unspecified:
        return []
    return _of(an, "C09")


def check_c10(opts, res):
    an = analyze(opts, res)
    if not an.ok or an.unspecified:
        return []
    return _of(an, "C10")


HOST_WARNING = "`:host` selector combined with other selectors are not supported"
IMPORT_WARNING = "`@import` should be placed at the start of the stylesheet (according to CSS standard)"


def _is_kind(w, msg):
    return w[0] == msg or w[0] == repr(msg) or w[0].strip('"') == msg


def check_c17(opts, res):
    an = analyze(opts, res)
    if not an.ok or an.unspecified:
        return []
    ps = list(_of(an, "C17"))
    o = an.o
    if not o.convert_host:
        return ps
    n_illegal = sum(1 for h in an._rw.host_rules if not h["pure"] and h["block"] is not None)
    warns = [w for w in res.get("warnings", []) if _is_kind(w, HOST_WARNING)]
    if len(warns) < n_illegal:
        ill = [h for h in an._rw.host_rules if not h["pure"] and h["block"] is not None]
        h = next((h for h in ill if h["chain"]), ill[0])
        ps.append(dict(prop="C17", classification="host-combination-warning-missing"
                       + (("-in-at-rule:" + ">".join(h["chain"])) if h["chain"] else ""),
                       what="%d `:host` combinations were dropped but only %d warnings were given" % (n_illegal, len(warns)),
                       at=list(h["at"].pos)))
    elif len(warns) > n_illegal:
        ps.append(dict(prop="C17", classification="host-combination-warning-spurious",
                       what="%d host-combination warnings for %d such rules" % (len(warns), n_illegal), at=None))
    return ps


def check_c18(opts, res):
    an = analyze(opts, res)
    if not an.ok or an.unspecified:
        return []
    ps = list(_of(an, "C18"))
    o = an.o
    if o.import_sign is None:
        return ps
    top_imports = [i for i in an._rw.imports if i.get("top") and i.get("rewritten")]
    must = [i for i in top_imports if i.get("after_other")]
    warns = [w for w in res.get("warnings", []) if _is_kind(w, IMPORT_WARNING)]
    if len(warns) < len(must):
        ps.append(dict(prop="C18", classification="import-position-warning-missing",
                       what="%d imports stand after other rules, %d warnings" % (len(must), len(warns)),
                       at=list(must[0]["at"].pos)))
    elif STRICT_IMPORT_POSITION and len(warns) > len(must):
        legal = [i for i in top_imports if not i.get("after_other") and i.get("after_any")]
        ps.append(dict(prop="C18", classification="import-flagged-though-legal-position",
                       what="%d position warnings but only %d imports stand after a rule other than @charset/@import/@layer-statement"
                            % (len(warns), len(must)), at=list(legal[0]["at"].pos) if legal else None))
    return ps


# AMBIGUITY: C18 says imports "after other rules" are flagged; it does not say that an import
# that follows only @charset / other @import / @layer statements (legal in CSS) must NOT be
# flagged.  The current code flags every import but the very first rule.  Off by default.
STRICT_IMPORT_POSITION = False


def _pos_le(a, b):
    return a[0] < b[0] or (a[0] == b[0] and a[1] <= b[1])


_IDENT_ESC = re.compile(r"\\(?:([0-9a-fA-F]{1,6})[ \t\n\r\f]?|(.))", re.S)


def css_serialize_ident(v):
    """the canonical spelling of an identifier (CSSOM `serialize an identifier`, which is what cssparser's `to_css_string` writes)"""
    def hexesc(c):
        return "\\%x " % ord(c)
    def name(rest):
        out = ""
        for c in rest:
            if c == "\0":
                out += "\ufffd"
            elif c.isascii() and (c.isalnum() or c in "_-"):
                out += c
            elif not c.isascii():
                out += c
            elif ord(c) < 0x20 or ord(c) == 0x7f:
                out += hexesc(c)
            else:
                out += "\\" + c
        return out
    if v == "":
        return ""
    if v.startswith("--"):
        return "--" + name(v[2:])
    if v == "-":
        return "\\-"
    out = ""
    if v[0] == "-":
        out, v = "-", v[1:]
    if v[:1].isascii() and v[:1].isdigit():
        out += hexesc(v[0])
        v = v[1:]
    return out + name(v)


def css_unescape(s):
    return _IDENT_ESC.sub(lambda m: chr(int(m.group(1), 16)) if m.group(1) else m.group(2), s)


def check_c19(opts, res):
    an = analyze(opts, res)
    if not an.ok:
        return []
    ps = []

    def add(cls, what, **kw):
        ps.append(dict(prop="C19", classification=cls, what=what, **kw))

    src_text = Text(res["source"]) if res.get("source") is not None else None
    cin = closer_map(res.get("closers_in"))
    # predecessor table of the input: token start -> the comment that directly precedes it
    for which, mkey, rkey, ckey, top, okey in (("normal", "map_normal", "map_normal_json_roundtrip_equal", "closers_normal", an.tn, "normal"),
                                               ("low", "map_low", "map_low_json_roundtrip_equal", "closers_low", an.tl, "low")):
        entries = res.get(mkey) or []
        if res.get(rkey) is False:
            add("map-json-roundtrip", "the %s source map does not survive serialisation + parsing" % which, output=which)
        prev = None
        for en in entries:
            key = (en[0], en[1])
            if prev is not None and key < prev:
                add("map-not-monotonic", "entries of the %s map go backwards: %s after %s" % (which, key, prev), output=which, entry=en)
                break
            prev = key
        by_dst = {}
        for en in entries:
            by_dst.setdefault((en[0], en[1]), []).append(en)
        cout = closer_map(res.get(ckey))
        starts = set()
        for t in _walk_t(top):
            starts.add(t.pos)
            if t.kind in BLOCKS:
                c = cout.get(t.pos)
                if c is not None and c[1]:
                    starts.add(c[0])
        stray = [en for en in entries if (en[0], en[1]) not in starts]
        if stray:
            add("map-dst-col-not-token-start", "%d entries of the %s map have a generated position where no output token starts, first %s"
                % (len(stray), which, stray[0]), output=which, entry=stray[0])
        # every non-whitespace token written through the token path has an entry at its column
        missing = []
        for t in _walk_t(top):
            if t.kind == "ws" or (which == "low" and id(t) in an.low_wrapper_tokens):
                continue
            if t.pos not in by_dst:
                missing.append(("open", t))
            if t.kind in BLOCKS:
                c = cout.get(t.pos)
                if c is not None and c[1] and c[0] not in by_dst:
                    missing.append(("close", t))
        if which == "low" and not an.aligned_fully:
            missing = []    # wrapper tokens could not be told apart reliably
        if missing:
            kind, t = missing[0]
            add("map-missing-entry", "%d tokens of the %s output have no source-map entry at their column, first: %s%s at col %d"
                % (len(missing), which, "closer of " if kind == "close" else "", t.short(), t.col), output=which, out_col=t.col)
        if an.unspecified:
            continue
        # source positions and names, for tokens that could be aligned with the expected rewrite
        for e, t in an.pairs[which]:
            ens = by_dst.get(t.pos)
            if not ens:
                continue
            _check_src(an, add, which, e, t, ens, src_text, False, cin)
        for e, t in an.closer_pairs[which]:
            c = cout.get(t.pos)
            if c is None or not c[1]:
                continue
            ens = by_dst.get(c[0])
            if not ens:
                continue
            _check_src(an, add, which, e, t, ens, src_text, True, cin)
            # a synthesized block (wrapper of an @import rewrite) has no closing bracket in the source: its closer is mapped to where its opener is
            eo = by_dst.get(t.pos)
            if e.role == "synth" and e.close_src is None and eo:
                so, sc = (eo[0][2], eo[0][3]), (ens[-1][2], ens[-1][3])
                if so != sc:
                    add("map-closer-not-at-opener", "%s output: the closer of the synthesized block %s at col %d is mapped to source %d:%d, its opener to %d:%d"
                        % (which, t.short(), ens[-1][1], sc[0], sc[1], so[0], so[1]), output=which, entry=ens[-1], at=list(so))
    return ps


def _comment_before(an, pos):
    """start of the run of comments that directly precedes the input token starting at `pos`"""
    idx = getattr(an, "_pos_index", None)
    if idx is None:
        idx = an._pos_index = {}
        for t in _walk_t(an.tin):
            idx[t.pos] = t
    t = idx.get(pos)
    res = []
    while t is not None:
        sibs = t.parent.children if t.parent is not None else an.tin
        if t.index == 0:
            break
        p = sibs[t.index - 1]
        if p.kind != "comment":
            break
        res.append(p.pos)
        t = p
    return res


def _check_src(an, add, which, e, t, ens, src_text, closer, cin):
    """one aligned output token (or the closer of an aligned block) against its map entries"""
    allowed = []
    span = None
    spans = []
    if closer:
        if e.close_src is not None:
            c = cin.get(e.close_src.pos)
            if c is not None:
                allowed.append(c[0])
            allowed.append(e.close_src.pos)
        if e.span is not None:
            span = e.span
        elif e.role == "synth" and e.src is not None:
            allowed.append(e.src.pos)
    else:
        if e.role in ("synth", "import-comment", "sign") and e.span is not None:
            span = e.span
            if e.role == "import-comment":
                # imports naming the same path are interchangeable
                spans = [x["span"] for x in an._rw.imports if x.get("path") == e.val[1] and x.get("span")]
        elif e.src is not None:
            allowed.append(e.src.pos)
    en = ens[-1] if closer else ens[0]
    sp = (en[2], en[3])
    if span is not None:
        spans.append(span)
    ok = sp in allowed or any(_pos_le(a, sp) and _pos_le(sp, b) for a, b in spans)
    if not ok:
        exp = allowed[0] if allowed else span[0]
        before = any(sp in _comment_before(an, a) for a in allowed)
        cls = "map-position-before-comment" if before else "map-src-wrong"
        if cls == "map-src-wrong" and e.ctx is not None and e.ctx.special:
            cls += "-in-" + e.ctx.special + "-rewrite"
        add(cls, "%s output token %s%s at col %d is mapped to source %d:%d, expected %d:%d%s"
            % (which, "closer of " if closer else "", t.short(), en[1], sp[0], sp[1], exp[0], exp[1],
               " (that is the comment before it)" if before else ""),
            output=which, entry=en, at=list(exp))
    if closer:
        return
    # names of rewritten tokens
    name = en[4]
    if e.role == "class" and an.o.prefix is not None and t.val == e.val:
        if name is None:
            add("map-name-missing", "prefixed class %s has no name in the %s map" % (t.short(), which), output=which, entry=en, at=list(e.src.pos))
        else:
            spelled = src_text.slice(e.src.pos, tok_end(e.src, an.tin, cin, src_text.end())) if src_text else None
            # AMBIGUITY: "original spelling" — the canonical spelling of the same identifier (`\73 m` -> `sm`, what the token serializer writes) is accepted
            # next to the literal source text; the bare identifier VALUE (`sm:flex` for `sm\:flex`) is not a spelling of it
            if name != spelled and name != css_serialize_ident(e.src.val):
                add("map-name-wrong", "prefixed class %s carries the name %r, original spelling %r" % (t.short(), name, spelled),
                    output=which, entry=en, at=list(e.src.pos))
    elif e.role in ("rpx", "rpx-optional") and e.kind == "dim" and t.unit == "vw":
        if name is None:
            add("map-name-missing", "converted length %s has no name in the %s map" % (t.short(), which), output=which, entry=en, at=list(e.src.pos))
        else:
            spelled = src_text.slice(e.src.pos, tok_end(e.src, an.tin, cin, src_text.end())) if src_text else None
            good = name == spelled
            if not good and name.endswith("rpx"):
                # AMBIGUITY: "original spelling" — the re-serialised source token (`1.50rpx` ->
                # `1.5rpx`) is accepted as long as it denotes the same number (6 digits)
                try:
                    v = Fraction(name[:-3]) if re.fullmatch(r"[+-]?[0-9.]+", name[:-3]) else Fraction(float(name[:-3]))
                    vi = e.src.value()
                    good = vi is not None and (v == vi or (vi != 0 and abs(v - vi) / abs(vi) <= SIX_DIGITS))
                except Exception:
                    good = False
            if not good:
                add("map-name-wrong", "converted length %s carries the name %r, original spelling %r" % (t.short(), name, spelled),
                    output=which, entry=en, at=list(e.src.pos))


ALL_CHECKS = [("C01", check_c01), ("C08", check_c08), ("C09", check_c09), ("C10", check_c10),
              ("C17", check_c17), ("C18", check_c18), ("C19", check_c19)]


def run_all(opts, res):
    """{prop: [problems]} for one harness answer (already json-decoded)."""
    return {pid: f(opts, res) for pid, f in ALL_CHECKS}
