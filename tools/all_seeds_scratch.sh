#!/bin/sh
# usage: tools/all_seeds_scratch.sh <workers> [seed dirs...] — every kept seeded change against its property's quick check, in scratch
# worktrees / scratch copies of /verif (slots s1…sN); one line per seed: CAUGHT-INPUT (a VIOLATION line with a concrete failing input),
# CAUGHT-NOINPUT (VIOLATION … no-failing-input-found), MISSED (exit 0) or NOAPPLY
W="$1"; shift
cd "$(dirname "$0")/.." || exit 2
[ $# -gt 0 ] || set -- $(ls seeded)
i=0
for S in "$@"; do
  i=$((i + 1))
  echo "$S" >> /tmp/seedq.$((i % W))
done
for k in $(seq 0 $((W - 1))); do
  (
    [ -f /tmp/seedq.$k ] || exit 0
    for S in $(cat /tmp/seedq.$k); do
      ID=$(echo "$S" | cut -d- -f1)
      PATCH="$PWD/seeded/$S/patch.diff"; [ -f "$PWD/seeded/$S/patch.rebased.diff" ] && PATCH="$PWD/seeded/$S/patch.rebased.diff"   # (rebased onto later fix: commits where they touch the same lines)
      OUT=$(tools/benign_scratch.sh "$PATCH" s$k "$ID" 2>&1)
      case "$OUT" in
        *"patch does not apply"*) echo "$S NOAPPLY" ;;
        *"no-failing-input-found"*) echo "$S CAUGHT-NOINPUT" ;;
        *"VIOLATION property="*) echo "$S CAUGHT-INPUT" ;;
        *"OK property="*) echo "$S MISSED" ;;
        *) echo "$S ??? $(echo "$OUT" | cut -c1-200)" ;;
      esac
    done
    rm -f /tmp/seedq.$k
  ) &
done
wait
