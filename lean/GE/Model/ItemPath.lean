import GE.Model.TagSem
/-!
The l-value paths of `model:` bindings at the tag level (`proc_gen/tag.rs` + `proc_gen_wrapper.ts`): the generated code hands
`F` (the `wx:for` definer) the data path of the list expression, the runtime gives every item the path
`list path ++ [index]` (and the index variable none), and a binding inside reads its path off the scope paths.
`mpaths` lists, in document order, the path and the value of every `model:` binding (attributes named `value`) that creation
reaches: first truthy branch of a `wx:if` chain, every item of a list.  What an expression's own path is (`lpath`: member and
index chains over data fields and scope variables, the taken branch of a conditional) is the expression-level model
(`GE/Model/LvaluePath.lean`, theorem `path_denotes`); here it is a parameter.
-/
namespace GE.TagSem

variable {E V T K : Type}

/-- paths: keys `K`, one step of reading (`get`), the key an index value stands for, the path of an expression given the
paths of the scope variables in reach -/
structure PSem (E V T K : Type) where
  sem : Sem E V T
  get : V → K → V
  keyOf : V → K
  lpath : E → V → List V → List (Option (List K)) → Option (List K)

def getPath (p : PSem E V T K) (D : V) : List K → V
  | [] => D
  | k :: r => getPath p (p.get D k) r

def isModel (a : String × E) : Bool := a.1 == "value"

/-- a binding: is it inside a `<template name>` body, its path, its value -/
abbrev Binding (V K : Type) := Bool × Option (List K) × V

mutual
def mpaths (p : PSem E V T K) (D : V) (sc : List V) (sp : List (Option (List K))) : Tpl E → List (Binding V K)
  | .text _ => []
  | .elem _ attrs ch => (attrs.filter isModel).map (fun a => (false, p.lpath a.2 D sc sp, p.sem.eval a.2 D sc)) ++ mpathsL p D sc sp ch
  | .block inc ch => mpathsL p D (if inc then [] else sc) (if inc then [] else sp) ch
  | .cond bs => mpathsBr p D sc sp bs (branchKey p.sem D sc bs) 1
  | .loop l body =>
    (p.sem.items (p.sem.eval l D sc)).flatMap fun ax =>
      mpathsL p D (sc ++ [ax.1, ax.2]) (sp ++ [(p.lpath l D sc sp).map (· ++ [p.keyOf ax.2]), none]) body
  | .loopK l _ body =>
    (p.sem.items (p.sem.eval l D sc)).flatMap fun ax =>
      mpathsL p D (sc ++ [ax.1, ax.2]) (sp ++ [(p.lpath l D sc sp).map (· ++ [p.keyOf ax.2]), none]) body
  | .tref is fields cases =>
    -- the bindings of the selected template: their paths are relative to ITS data object (and the runtime applies them to the host's data)
    (mpathsT p (p.sem.mkObj (evalAttrs p.sem D sc fields)) cases (selOf p.sem (p.sem.eval is D sc))).map fun b => (true, b.2.1, b.2.2)
def mpathsL (p : PSem E V T K) (D : V) (sc : List V) (sp : List (Option (List K))) : Tpls E → List (Binding V K)
  | .nil => []
  | .cons t r => mpaths p D sc sp t ++ mpathsL p D sc sp r
def mpathsBr (p : PSem E V T K) (D : V) (sc : List V) (sp : List (Option (List K))) : Branches E → Nat → Nat → List (Binding V K)
  | .last he els, k, _ => if he && k == 0 then mpathsL p D sc sp els else []
  | .cons _ body r, k, i => if k == i then mpathsL p D sc sp body else mpathsBr p D sc sp r k (i + 1)
def mpathsT (p : PSem E V T K) (D : V) : TCases E → Option String → List (Binding V K)
  | .nil, _ => []
  | .cons name body r, sel => if sel = some name then mpathsL p D [] [] body else mpathsT p D r sel
end

end GE.TagSem
