import GE.Model.ExprGen
/-!
Denotational semantics for the `gen_preserves` theorem (C03): the JavaScript expression trees the generator
emits (`GE.Spec.Js`) under an environment for identifiers, the hoisted `var` statements as environment
updates, and the WXML expressions themselves.  Values and primitive operations are abstract (`Ops`): the
theorem holds for every interpretation of member reads, calls, operators, literals and of the run-time
helpers `X` (null-safe receiver), `Y` (string conversion without `undefined`) and `P` (callable or no-op) —
every interpretation in which operations are total and have no side effects (an operation that throws is
outside this model: finding D26 lives there).
-/
namespace GE.Sem
open GE.Spec (Js JsList JsItems JsFields)
open GE.Gen

structure Ops (V : Type) where
  undef : V
  null : V
  str : String → V
  num : String → V
  bool : Bool → V
  infinity : V
  member : V → String → V
  index : V → V → V
  call : V → List V → V
  un : UnOp → V → V
  bin : BinOp → V → V → V
  truthy : V → Bool
  isNullish : V → Bool
  X : V → V
  Y : V → V
  P : V → V
  obj : List (String × V) → V
  arr : List (Option V) → V

variable {V : Type}

/-- identifiers that denote themselves in every environment -/
def constOf (S : Ops V) (s : String) : Option V :=
  if s = "undefined" then some S.undef else if s = "null" then some S.null
  else if s = "true" then some (S.bool true) else if s = "false" then some (S.bool false)
  else if s = "Infinity" then some S.infinity else none

mutual
def evalJs (S : Ops V) (ρ : String → V) : Js → V
  | .id s => (constOf S s).getD (ρ s)
  | .num t => S.num t
  | .str s => S.str s
  | .member o n => S.member (evalJs S ρ o) n
  | .index o i => S.index (evalJs S ρ o) (evalJs S ρ i)
  | .call f args => S.call (evalJs S ρ f) (evalJsList S ρ args)
  | .un op e => S.un op (evalJs S ρ e)
  | .bin op a b => S.bin op (evalJs S ρ a) (evalJs S ρ b)
  | .cond c t f => if S.truthy (evalJs S ρ c) then evalJs S ρ t else evalJs S ρ f
  | .arr items => S.arr (evalJsItems S ρ items)
  | .obj fs => S.obj (evalJsFields S ρ fs)
def evalJsList (S : Ops V) (ρ : String → V) : JsList → List V
  | .nil => []
  | .cons e r => evalJs S ρ e :: evalJsList S ρ r
def evalJsItems (S : Ops V) (ρ : String → V) : JsItems → List (Option V)
  | .nil => []
  | .item e r => some (evalJs S ρ e) :: evalJsItems S ρ r
  | .hole r => none :: evalJsItems S ρ r
def evalJsFields (S : Ops V) (ρ : String → V) : JsFields → List (String × V)
  | .nil => []
  | .field k v r => (k, evalJs S ρ v) :: evalJsFields S ρ r
end

/-! identifiers read by a tree -/
mutual
def ids : Js → List String
  | .id s => [s]
  | .num _ | .str _ => []
  | .member o _ => ids o
  | .index o i => ids o ++ ids i
  | .call f args => ids f ++ idsList args
  | .un _ e => ids e
  | .bin _ a b => ids a ++ ids b
  | .cond c t f => ids c ++ ids t ++ ids f
  | .arr items => idsItems items
  | .obj fs => idsFields fs
def idsList : JsList → List String
  | .nil => []
  | .cons e r => ids e ++ idsList r
def idsItems : JsItems → List String
  | .nil => []
  | .item e r => ids e ++ idsItems r
  | .hole r => idsItems r
def idsFields : JsFields → List String
  | .nil => []
  | .field _ v r => ids v ++ idsFields r
end

def upd (ρ : String → V) (x : String) (v : V) : String → V := fun y => if y = x then v else ρ y

/-- `var name = js;` statements in order -/
def runStmts (S : Ops V) (ρ : String → V) : List Stmt → (String → V)
  | [] => ρ
  | s :: r => runStmts S (upd ρ s.name (evalJs S ρ s.js)) r

/-! the WXML expression itself (object / array literals without spread operands) -/
mutual
def evalWx (S : Ops V) (D : V) (sc : Nat → V) : Expr → V
  | .scope i => sc i
  | .data x => S.member D x
  | .toStr e => S.Y (evalWx S D sc e)
  | .undef => S.undef
  | .null => S.null
  | .str s => S.str s
  | .int v => S.num (toString v)
  | .float t => if t = "inf" ∨ t = "-inf" then S.infinity else S.num t
  | .bool b => S.bool b
  | .obj fs => S.obj (evalWxObj S D sc fs)
  | .arr fs => S.arr (evalWxArr S D sc fs)
  | .smember o f => S.member (S.X (evalWx S D sc o)) f
  | .dmember o i => S.index (S.X (evalWx S D sc o)) (evalWx S D sc i)
  | .call f args => S.call (S.P (evalWx S D sc f)) (evalWxList S D sc args)
  | .un op x => S.un op (evalWx S D sc x)
  | .bin op x y =>
    if op = .NullishCoalescing then
      (if S.isNullish (evalWx S D sc x) then evalWx S D sc y else evalWx S D sc x)
    else S.bin op (evalWx S D sc x) (evalWx S D sc y)
  | .cond c t f => if S.truthy (evalWx S D sc c) then evalWx S D sc t else evalWx S D sc f
def evalWxList (S : Ops V) (D : V) (sc : Nat → V) : Exprs → List V
  | .nil => []
  | .cons e r => evalWx S D sc e :: evalWxList S D sc r
def evalWxObj (S : Ops V) (D : V) (sc : Nat → V) : ObjFields → List (String × V)
  | .nil => []
  | .named k _ v r => (k, evalWx S D sc v) :: evalWxObj S D sc r
  | .spread _ r => evalWxObj S D sc r
def evalWxArr (S : Ops V) (D : V) (sc : Nat → V) : ArrFields → List (Option V)
  | .nil => []
  | .item v r => some (evalWx S D sc v) :: evalWxArr S D sc r
  | .spread _ r => evalWxArr S D sc r
  | .hole r => none :: evalWxArr S D sc r
end

/-! no spread operand in any object / array literal (those are emitted through `Object.assign` / `concat`: oracle only) -/
mutual
def NoSpread : Expr → Bool
  | .obj fs => NoSpreadObj fs
  | .arr fs => NoSpreadArr fs
  | .toStr e | .smember e _ | .un _ e => NoSpread e
  | .dmember a b | .bin _ a b => NoSpread a && NoSpread b
  | .call f args => NoSpread f && NoSpreadList args
  | .cond a b c => NoSpread a && NoSpread b && NoSpread c
  | _ => true
def NoSpreadList : Exprs → Bool
  | .nil => true
  | .cons e r => NoSpread e && NoSpreadList r
def NoSpreadObj : ObjFields → Bool
  | .nil => true
  | .named _ _ v r => NoSpread v && NoSpreadObj r
  | .spread _ _ => false
def NoSpreadArr : ArrFields → Bool
  | .nil => true
  | .item v r => NoSpread v && NoSpreadArr r
  | .spread _ _ => false
  | .hole r => NoSpreadArr r
end

end GE.Sem
