import GE.Model.Escape
/-!
Model of the text-mixture part of the stringifier and of the value parser (`stringify/tag.rs`:
`escape_text`, `impl Stringify for Value`; `parse/tag.rs`: `Value::parse_until_before`).

A value is a sequence of pieces: static text and `{{ … }}` bindings.  The printer writes a text piece with
`escape_html_body`, writes every `{{` of the text as `&#123;&#123;`, and writes a final `{` as `&#123;` when a
binding follows.  The parser tries a binding wherever `{{` starts, and otherwise reads text (one character
or character reference at a time) until the input ends or `{{` follows.

The binding parser is a parameter `P` (input starting at `{{` ↦ the binding's inner text, or nothing for a binding
that is dropped, and the input after its `}}`); the round-trip theorem assumes only that `P` reads back what the expression printer wrote.
-/
namespace GE.Mix
open GE.Esc

inductive Piece where
  | text (s : List Char)
  | bind (inner : List Char)
deriving DecidableEq, Repr

/-- the text written for a text piece; `fb` = a binding follows -/
def printText : List Char → Bool → List Char
  | [], _ => []
  | c :: r, fb =>
    if c = '{' then
      match r with
      | [] => if fb then "&#123;".toList else ['{']
      | d :: r' => if d = '{' then "&#123;&#123;".toList ++ printText r' fb else '{' :: printText (d :: r') fb
    else escBodyChar c ++ printText r fb
termination_by s => s.length

def startsBind : List Piece → Bool
  | .bind _ :: _ => true
  | _ => false

def printPieces : List Piece → List Char
  | [] => []
  | .text s :: r => printText s (startsBind r) ++ printPieces r
  | .bind e :: r => "{{".toList ++ e ++ "}}".toList ++ printPieces r

/-- the printer on a whole value; `litOnly`: the value is one string literal binding (`{{ " " }}`): printed like text, except when it is
only white space (the parser would drop such a text between tags), which stays a binding -/
def printValue (litOnly : Bool) (spellStr : List Char → List Char) (ps : List Piece) : List Char :=
  match litOnly, ps with
  | true, [.text s] =>
    if !s.isEmpty && s.all (fun c => c = ' ' || (9 ≤ c.toNat && c.toNat ≤ 13)) then "{{".toList ++ spellStr s ++ "}}".toList else printPieces ps
  | _, _ => printPieces ps

/-- does the input start with `{{` -/
def startsBB : List Char → Bool
  | '{' :: '{' :: _ => true
  | _ => false

/-- one step of the text loop (`parse_next_entity`): a character reference or one character -/
def stepText (t : Tables) : List Char → List Char × List Char
  | [] => ([], [])
  | c :: r =>
    if c = '&' then
      (match entityAt t r with
       | some (v, rest) => (v, rest)
       | none => ([c], r))
    else ([c], r)

/-- the text loop: steps until the input ends or `{{` follows -/
def scanText (t : Tables) : Nat → List Char → List Char × List Char
  | 0, inp => ([], inp)
  | n + 1, inp =>
    let s := stepText t inp
    if s.2.isEmpty || startsBB s.2 then s
    else
      let w := scanText t n s.2
      (s.1 ++ w.1, w.2)

/-- text is appended to the text piece before it -/
def pushText (v : List Char) : List Piece → List Piece
  | .text w :: r => .text (v ++ w) :: r
  | r => .text v :: r

/-- `Value::parse_until_before` on a complete value.  `P` stands for `parse_data_binding` at a `{{`: the inner text of
the binding (`none`: nothing is kept — an empty or malformed binding is reported and dropped) and the input after it -/
def scan (t : Tables) (P : List Char → Option (List Char) × List Char) : Nat → List Char → List Piece
  | 0, _ => []
  | _, [] => []
  | n + 1, c :: inp =>
    if startsBB (c :: inp) then
      (match P (c :: inp) with
       | (some e, rest) => .bind e :: scan t P n rest
       | (none, rest) => scan t P n rest)
    else
      let s := scanText t (inp.length + 1) (c :: inp)
      pushText s.1 (scan t P n s.2)

/-- an executable stand-in for the expression parser at `{{`: the inner text up to the `}}` that closes the binding
(braces nest, string literals are skipped) -/
def closeAt : Nat → Option Char → List Char → List Char → Option (List Char × List Char)
  | _, _, [], _ => none
  | d, some q, c :: r, acc =>
    if c = '\\' then
      (match r with
       | [] => none
       | x :: r' => closeAt d (some q) r' (x :: c :: acc))
    else if c = q then closeAt d none r (c :: acc)
    else closeAt d (some q) r (c :: acc)
  | d, none, c :: r, acc =>
    if c = '"' || c = '\'' then closeAt d (some c) r (c :: acc)
    else if c = '{' then closeAt (d + 1) none r (c :: acc)
    else if c = '}' then
      (match d with
       | 0 => (match r with
          | '}' :: r' => some (acc.reverse, r')
          | _ => none)
       | d' + 1 => closeAt d' none r (c :: acc))
    else closeAt d none r (c :: acc)
termination_by _ _ inp _ => inp.length

/-- blank inner text is an empty expression (dropped); an unclosed binding drops the rest of the input -/
def bindAt : List Char → Option (List Char) × List Char
  | '{' :: '{' :: r =>
    (match closeAt 0 none r [] with
     | some (e, rest) => if e.all (fun c => c = ' ' || c = '\n' || c = '\t' || c = '\r') then (none, rest) else (some e, rest)
     | none => (none, []))
  | inp => (none, inp)

end GE.Mix
