/-
C11, tag level — `mpaths_sound`: every path handed to a `model:` binding OUTSIDE `<template name>` bodies addresses the value the
binding's expression reads, through any nesting of `wx:if` chains, `<block>`s and `wx:for` loops (with or without key).  Inside a
`<template name>` body the path is relative to the template's own data object while the runtime applies it to the host's data:
that is finding D69 (`sub_binding_unsound` exhibits it on the model).

The expression-level fact is a hypothesis (`PLaw.lpath_sound`: if the scope paths address the scope variables' values, the
path of an expression addresses its value — what `path_denotes` proves of the emitted path arrays); the tag level adds the
composition the runtime performs, `item path = list path ++ [index]` (`PLaw.item_get`: reading the list at an index's key gives
the item), and that an index variable has no path.  The scope invariant is re-established at every loop, so the statement
holds for bindings at any depth.
-/
import GE.Model.ItemPath

namespace GE.TagSem

variable {E V T K : Type}

/-- every scope variable that has a path is the value at that path -/
def ScInv (p : PSem E V T K) (D : V) : List V → List (Option (List K)) → Prop
  | [], [] => True
  | v :: vs, q :: qs => (∀ path, q = some path → getPath p D path = v) ∧ ScInv p D vs qs
  | _, _ => False

theorem ScInv.append {p : PSem E V T K} {D : V} : ∀ {vs : List V} {qs : List (Option (List K))} {vs' : List V} {qs' : List (Option (List K))},
    ScInv p D vs qs → ScInv p D vs' qs' → ScInv p D (vs ++ vs') (qs ++ qs')
  | [], [], _, _, _, h => h
  | v :: vs, q :: qs, _, _, h, h' => ⟨h.1, ScInv.append h.2 h'⟩
  | [], _ :: _, _, _, h, _ => by simp [ScInv] at h
  | _ :: _, [], _, _, h, _ => by simp [ScInv] at h

theorem getPath_append (p : PSem E V T K) : ∀ (D : V) (a b : List K), getPath p D (a ++ b) = getPath p (getPath p D a) b
  | _, [], _ => rfl
  | D, k :: r, b => by simp only [List.cons_append, getPath]; exact getPath_append p _ r b

structure PLaw (p : PSem E V T K) : Prop where
  lpath_sound : ∀ e D sc sp path, ScInv p D sc sp → p.lpath e D sc sp = some path → getPath p D path = p.sem.eval e D sc
  item_get : ∀ l a x, (a, x) ∈ p.sem.items l → p.get l (p.keyOf x) = a

/-- entering a loop keeps the invariant: the item is at `list path ++ [index]`, the index has no path -/
theorem loop_inv (p : PSem E V T K) (law : PLaw p) (D : V) (sc : List V) (sp : List (Option (List K))) (l : E)
    (h : ScInv p D sc sp) (a x : V) (hm : (a, x) ∈ p.sem.items (p.sem.eval l D sc)) :
    ScInv p D (sc ++ [a, x]) (sp ++ [(p.lpath l D sc sp).map (· ++ [p.keyOf x]), none]) := by
  refine ScInv.append h ?_
  simp only [ScInv]
  refine ⟨?_, by simp⟩
  intro path hq
  cases hl : p.lpath l D sc sp with
  | none => simp [hl] at hq
  | some lp =>
    simp only [hl, Option.map_some, Option.some.injEq] at hq
    subst hq
    rw [getPath_append, law.lpath_sound l D sc sp lp h hl]
    simp only [getPath]
    exact law.item_get _ a x hm

mutual
theorem mpaths_sound (p : PSem E V T K) (law : PLaw p) (D : V) : ∀ (t : Tpl E) (sc : List V) (sp : List (Option (List K))), ScInv p D sc sp →
    ∀ q v, (false, some q, v) ∈ mpaths p D sc sp t → getPath p D q = v
  | .text _, _, _, _, _, _, h => by simp [mpaths] at h
  | .elem _ attrs ch, sc, sp, hi, q, v, h => by
    simp only [mpaths, List.mem_append, List.mem_map, List.mem_filter] at h
    rcases h with ⟨a, _, ha⟩ | h
    · simp only [Prod.mk.injEq] at ha
      rw [← ha.2.2]
      exact law.lpath_sound a.2 D sc sp q hi ha.2.1
    · exact mpathsL_sound p law D ch sc sp hi q v h
  | .block inc ch, sc, sp, hi, q, v, h => by
    simp only [mpaths] at h
    cases inc with
    | false => exact mpathsL_sound p law D ch sc sp hi q v h
    | true => exact mpathsL_sound p law D ch [] [] trivial q v h
  | .cond bs, sc, sp, hi, q, v, h => mpathsBr_sound p law D bs _ 1 sc sp hi q v h
  | .loop l body, sc, sp, hi, q, v, h => by
    simp only [mpaths, List.mem_flatMap] at h
    obtain ⟨⟨a, x⟩, hm, hin⟩ := h
    exact mpathsL_sound p law D body _ _ (loop_inv p law D sc sp l hi a x hm) q v hin
  | .loopK l _ body, sc, sp, hi, q, v, h => by
    simp only [mpaths, List.mem_flatMap] at h
    obtain ⟨⟨a, x⟩, hm, hin⟩ := h
    exact mpathsL_sound p law D body _ _ (loop_inv p law D sc sp l hi a x hm) q v hin
  | .tref _ _ _, _, _, _, _, _, h => by simp [mpaths] at h      -- (every binding of a sub-template carries the flag `true`)
theorem mpathsL_sound (p : PSem E V T K) (law : PLaw p) (D : V) : ∀ (ts : Tpls E) (sc : List V) (sp : List (Option (List K))), ScInv p D sc sp →
    ∀ q v, (false, some q, v) ∈ mpathsL p D sc sp ts → getPath p D q = v
  | .nil, _, _, _, _, _, h => by simp [mpathsL] at h
  | .cons t r, sc, sp, hi, q, v, h => by
    simp only [mpathsL, List.mem_append] at h
    rcases h with h | h
    · exact mpaths_sound p law D t sc sp hi q v h
    · exact mpathsL_sound p law D r sc sp hi q v h
theorem mpathsBr_sound (p : PSem E V T K) (law : PLaw p) (D : V) : ∀ (bs : Branches E) (k i : Nat) (sc : List V) (sp : List (Option (List K))),
    ScInv p D sc sp → ∀ q v, (false, some q, v) ∈ mpathsBr p D sc sp bs k i → getPath p D q = v
  | .last he els, k, i, sc, sp, hi, q, v, h => by
    simp only [mpathsBr] at h
    split at h
    · exact mpathsL_sound p law D els sc sp hi q v h
    · simp at h
  | .cons _ body r, k, i, sc, sp, hi, q, v, h => by
    simp only [mpathsBr] at h
    split at h
    · exact mpathsL_sound p law D body sc sp hi q v h
    · exact mpathsBr_sound p law D r k (i + 1) sc sp hi q v h
end

/-- C11 at the tag level: for the whole template (no scope variable in reach at the top) -/
theorem model_paths_sound (p : PSem E V T K) (law : PLaw p) (D : V) (t : Tpl E) (q : List K) (v : V)
    (h : (false, some q, v) ∈ mpaths p D [] [] t) : getPath p D q = v :=
  mpaths_sound p law D t [] [] trivial q v h


/-! ## inside a `<template name>` body the statement fails (finding D69)

`<template name="t"><input model:value="{{a}}"/></template><template is="t" data="{{ a: b }}"/>` with the host data `{a: 1, b: 2}`: the
binding shows 2 (the template's own `a`), its path is `["a"]`, and the host's `a` is 1. -/

inductive TV where
  | leaf (n : Nat)
  | pair (a b : Nat)
deriving DecidableEq

def tvGet : TV → Bool → TV
  | .pair a _, false => .leaf a
  | .pair _ b, true => .leaf b
  | .leaf _, _ => .leaf 0

def toyP : PSem Bool TV Unit Bool where
  sem :=
    { eval := fun e D _ => tvGet D e, truthy := fun _ => true, str := fun _ => "", items := fun _ => [], same := fun _ _ => false, all := (), none := (),
      dirty := fun _ _ _ => true, treeOf := fun _ _ _ => (), child := fun _ _ => (), rawKey := fun _ _ => "", isAll := fun _ => true, isNone := fun _ => false,
      keyMarks := fun _ _ => true, anyMarked := fun _ _ => true, reads := fun _ _ => true, keyStr := fun _ => "t",
      mkObj := fun fs =>
        let field (n : String) : Nat := match fs.find? (·.1 == n) with | some (_, .leaf k) => k | _ => 0
        .pair (field "a") (field "b"),
      mkTree := fun _ _ => () }
  get := tvGet
  keyOf := fun _ => false
  lpath := fun e _ _ _ => some [e]

theorem sub_binding_unsound :
    let t : Tpl Bool := .tref false [("a", true)] (.cons "t" (.cons (.elem "input" [("value", false)] .nil) .nil) .nil)
    let D : TV := .pair 1 2
    mpaths toyP D [] [] t = [(true, some [false], .leaf 2)] ∧ getPath toyP D [false] = .leaf 1 := by
  decide

end GE.TagSem
