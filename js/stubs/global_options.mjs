// Stub of glass-easel/src/global_options.ts: only ENV is used by the template runtime.
export const ENV = { DEV: true }
