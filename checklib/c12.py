"""C12 — static strings reach the runtime character for character (DESIGN.md §9 C12)."""
import json, subprocess
from . import core

THEOREMS = [
    "GE.JsLit.decode_genLitStr",
    "GE.JsLit.decBody_escChar",
    "GE.JsLit.decBody_escBody",
    "GE.JsLit.decEsc_u_hex4",
]
CHUNK = 4096
CONTEXTS_QUICK = [("", ""), ("a", ""), ("", "1"), ("", "a"), ("", '"'), ("", "\\")]
CONTEXTS_MORE = [("", "{"), ("", "}"), ("", "0"), ("", "F"), ("\\", ""), ("\u0000", "7"), ("퟿", "\U0010ffff"), ("", "\n")]


def node_lits(batches):
    """batches: list of list-of-literal-source. returns list of {"sloppy":..,"strict":..}"""
    data = "\n".join(json.dumps({"lits": b}) for b in batches) + "\n"
    p = subprocess.run([core.NODE22, core.VERIF + "/js/litcheck.mjs"], input=data.encode(), stdout=subprocess.PIPE,
                       stderr=subprocess.PIPE, timeout=3600)
    if p.returncode != 0:
        raise core.BrokenTie("node-litcheck", p.stderr.decode()[-2000:])
    return [json.loads(l) for l in p.stdout.decode().split("\n") if l.strip()]


def scalars(lo, hi):
    return [v for v in range(lo, hi) if not (0xD800 <= v < 0xE000) and v < 0x110000]


def run(chk):
    chk.rule = ("every Unicode scalar value (1,112,064) in each of N contexts (alone, after a letter, before digit / hex letter / "
                "quote / backslash / brace …): model literal == gen_lit_str literal (hook), and V8 (sloppy+strict) decodes the real literal "
                "to the intended code points; non-trivial = scalar that is escaped or is a delimiter/control/separator/astral")
    chk.trusted = ["Lean 4.33 kernel", "axioms ⊆ {propext, Classical.choice, Quot.sound}",
                   "GE/Spec/JsString.lean: hand-written reading of ECMA-262 string literals (strict+sloppy)",
                   "GE/Model/JsLit.lean tied to escape::gen_lit_str by exhaustive per-scalar differential run",
                   "V8 as the meaning of JavaScript (oracle)", "harness codec"]
    chk.assumptions = ["gen_lit_str is a per-character map (its loop has no state): exhaustive single-scalar agreement in several "
                       "contexts + random strings is taken to tie the model for all strings",
                       "embedding contexts (which constants go through gen_lit_str) are covered by C02 no_raw_interpolation / C04 oracle"]
    failed, log = chk.prove("GE.Thm.C12", THEOREMS)
    for t in failed:
        chk.violation("proof", f"obligation {t} no longer checks", theorem=t, log=log[-2000:])
    ok, log = core.lake_build(["gedriver"])
    if not ok:
        raise core.BrokenTie("driver-build", log)
    ctxs = CONTEXTS_QUICK + (CONTEXTS_MORE if chk.tier == "thorough" else [])
    reqs, meta = [], []
    for (pre, suf) in ctxs:
        for lo in range(0, 0x110000, CHUNK):
            reqs.append(core.req("lit_str_range", str(lo), str(lo + CHUNK), pre, suf))
            meta.append((pre, suf, lo))
    # random strings (state-freeness of the loop)
    rng = chk.rng.fork("c12-random")
    pool = [0, 1, 9, 10, 13, 31, 34, 39, 48, 55, 92, 123, 125, 127, 0x80, 0x9f, 0xa0, 0xad, 0x300, 0x2028, 0x2029, 0xfeff, 0xffff, 0x10000, 0x1f600, 0x10ffff, 65, 97]
    rand_reqs, rand_strs = [], []
    for i in range(3000 if chk.tier == "quick" else 30000):
        n = rng.below(8)
        s = "".join(chr(rng.choice(pool)) if rng.chance(3, 4) else chr(rng.below(0xD800)) for _ in range(n))
        rand_strs.append(s)
        rand_reqs.append(core.req("lit_str", s))
    real = core.run_harness(reqs + rand_reqs)
    model = core.run_driver(reqs + rand_reqs)
    chk.programs = len(reqs) + len(rand_reqs)

    def on_diff(i, r, a, b):
        if i < len(reqs):
            pre, suf, lo = meta[i]
            aa, bb = core.unesc(a).split("\x1f"), core.unesc(b).split("\x1f")
            sc = scalars(lo, lo + CHUNK)
            for v, x, y in zip(sc, aa, bb):
                if x != y:
                    chk.violation("correspondence", f"gen_lit_str model/implementation differ for U+{v:04X} in context ({pre!r},{suf!r})",
                                  stream="lit_str", scalar=v, pre=pre, suf=suf, real=x, model=y)
                    return
        chk.violation("correspondence", "gen_lit_str model/implementation differ", stream="lit_str", request=r, real=a, model=b)

    nd = core.diff_streams(chk, "lit_str", reqs + rand_reqs, real, model, on_diff=on_diff)
    # oracle: V8 decodes the REAL literal to the intended code points
    jreqs = []
    for (pre, suf, lo), a in zip(meta, real[:len(reqs)]):
        jreqs.append({"range": [lo, lo + CHUNK], "pre": pre, "suf": suf, "lits": core.unesc(a).split("\x1f") if a != "" else []})
    rand_lits = [core.unesc(a) for a in real[len(reqs):]]
    jreqs.append({"lits": rand_lits})
    data = "\n".join(json.dumps(j) for j in jreqs) + "\n"
    p = subprocess.run([core.NODE22, core.VERIF + "/js/litcheck.mjs"], input=data.encode(), stdout=subprocess.PIPE,
                       stderr=subprocess.PIPE, timeout=3600)
    if p.returncode != 0:
        raise core.BrokenTie("node-litcheck", p.stderr.decode()[-2000:])
    outs = [json.loads(l) for l in p.stdout.decode().split("\n") if l.strip()]
    if len(outs) != len(jreqs):
        raise core.BrokenTie("node-litcheck", "answer count")
    nbad = 0
    total = 0
    for j, out in zip(jreqs[:-1], outs[:-1]):
        if "error" in out:
            raise core.BrokenTie("node-litcheck", out["error"])
        total += out["n"] * 2
        if len(chk.samples) < 4 and j["lits"]:
            chk.samples.append(dict(range=j["range"], pre=j["pre"], suf=j["suf"], first_literal=j["lits"][0]))
        for b in out["bad"]:
            nbad += 1
            if nbad <= 5:
                if "codepoints" in b:
                    chk.violation("input", f"JavaScript ({b['mode']}) reads the literal emitted for code points {b['codepoints']} as {b['got']}",
                                  codepoints=b["codepoints"], literal=b["literal"], mode=b["mode"], got=b["got"])
                else:
                    chk.violation("correspondence", "literal count mismatch in range", detail=b)
    chk.evaluations += total
    # distinct non-trivial: (scalar-in-context whose literal needed an escape, mode) pairs, counted by the oracle; distinct by construction
    chk.distinct_extra += 2 * sum(o.get("escaped", 0) for o in outs[:-1])
    out = outs[-1]
    for mode in ("sloppy", "strict"):
        for s_, l, g in zip(rand_strs, rand_lits, out[mode]):
            e = [ord(c) for c in s_]
            chk.case((s_, mode), nontrivial=len(l) != len(e) + 2,
                     sample=dict(codepoints=e, literal=l, mode=mode, decoded=g) if len(l) > len(e) + 6 else None)
            if g != e:
                nbad += 1
                if nbad <= 5:
                    chk.violation("input", f"JavaScript ({mode}) reads the literal emitted for code points {e} as {g}",
                                  codepoints=e, literal=l, mode=mode, got=g)
    batches = [j["lits"] for j in jreqs]
    chk.bump("oracle:v8-decoded-literals", sum(len(b) for b in batches) * 2)
    chk.exhaustive = True
    table = entity_stream(chk)
    constant_stream(chk, table, chk.tier != "thorough")


# ---------------------------------------------------------------------------------------------------------
# entity decoding (independent table: Python's html.entities.html5, the WHATWG named character references)
def entity_stream(chk):
    import html.entities
    table = {k[:-1]: v for k, v in html.entities.html5.items() if k.endswith(";")}
    names = sorted(table)
    reqs = [core.req("entity", "&" + n + ";") for n in names]
    outs = core.run_harness(reqs)
    nb = 0
    for n, a in zip(names, outs):
        want = table[n]
        got = core.unesc(a.split("\t")[1]) if a.startswith("some\t") else None
        chk.case(("entity", n), nontrivial=len(want) > 1)
        if got != want:
            nb += 1
            if nb <= 5:
                chk.violation("input", f"named entity &{n}; denotes {[hex(ord(c)) for c in want]} but decodes to "
                              f"{None if got is None else [hex(ord(c)) for c in got]}", entity=n, expected=want, got=got)
    chk.bump("oracle:named-entities", len(names))
    chk.bump("oracle:named-entities-multi-codepoint", sum(1 for n in names if len(table[n]) > 1))
    return table


# constants end to end: source text -> compiler -> generated JavaScript -> real runtime -> delivered string
def constant_stream(chk, table, quick):
    rng = chk.rng.fork("c12-const")
    cps = [0, 0, 1, 8, 9, 10, 13, 0x1f, 0x20, 0x22, 0x27, 0x5c, 0x60, 0x7f, 0x80, 0x85, 0xa0, 0xad, 0x300, 0x2028, 0x2029, 0xfeff, 0xd7ff, 0xe000,
           0xfffd, 0xffff, 0x10000, 0x1f600, 0x10ffff, 0x24, 0x7b, 0x7d, 0x3c, 0x3e, 0x26, 0x3d, 0x2f, 0x30, 0x37, 0x41]
    multi = [n for n in sorted(table) if len(table[n]) > 1]
    single = [n for n in sorted(table) if len(table[n]) == 1]

    def piece():
        """(source spelling inside a double-quoted attribute / text, denoted string)"""
        c = rng.below(10)
        if c < 4:
            cp = rng.choice(cps)
            form = rng.below(3)
            if cp in (0x22, 0x3c, 0x26, 0x7b, 0x7d, 0x27) or cp < 0x20 or form == 0:
                return ("&#x%X;" % cp if rng.chance(1, 2) else "&#%d;" % cp), chr(cp)
            return chr(cp), chr(cp)
        if c == 4:
            n = rng.choice(multi)
            return "&" + n + ";", table[n]
        if c == 5:
            n = rng.choice(single)
            return "&" + n + ";", table[n]
        if c == 6:
            return rng.choice(["0", "7", "1", "a", "f", "x", "u", "n"]), None
        return rng.choice(["a", "-", "é", "中", " b", "_"]), None

    def text():
        src, den = [], []
        for _ in range(1 + rng.below(4)):
            s_, d = piece()
            src.append(s_)
            den.append(s_ if d is None else d)
        return "".join(src), "".join(den)

    carriers = [
        ("text", lambda s: "<v>x%s</v>" % s, lambda n, d: (n.get("children") or [{}])[0].get("text"), lambda d: "x" + d),
        ("attribute", lambda s: '<v title="%s"/>' % s, lambda n, d: (n.get("attrs") or {}).get("title"), lambda d: d),
        ("class", lambda s: '<v class="%s"/>' % s, lambda n, d: ([c[1] for c in n.get("log", []) if c[0] == "c"] or [None])[0], lambda d: d),   # the raw argument of R.c (the stub splits class lists)
        ("id", lambda s: '<v id="%s"/>' % s, lambda n, d: n.get("id"), lambda d: d),
        ("dataset", lambda s: '<v data-k="%s"/>' % s, lambda n, d: (n.get("dataset") or {}).get("k"), lambda d: d),
        ("mark", lambda s: '<v mark:m="%s"/>' % s, lambda n, d: (n.get("marks") or {}).get("m"), lambda d: d),
        ("mixed", lambda s: '<v title="%s{{b}}"/>' % s, lambda n, d: (n.get("attrs") or {}).get("title"), lambda d: d + "B"),
        ("slot-name", lambda s: '<slot name="%s"/>' % s, lambda n, d: n.get("slot"), lambda d: d),
        # template names: the definition and the reference carry the same constant, so the reference finds the definition (and no other)
        ("template-is", lambda s: '<template name="k%s">hit</template><template name="k">miss</template><template is="k%s"/>' % (s, s),
         lambda n, d: (n.get("children") or [{}])[0].get("text"), lambda d: "hit"),
        ("template-is-key", lambda s: '<template is="k%s"/>z' % s, lambda n, d: n.get("key"), lambda d: "k" + d),
        ("event-handler", lambda s: '<v bind:tap="%s"/>' % s, lambda n, d: ([e[1] for e in n.get("events", []) if e[0] == "tap"] or [None])[0], lambda d: d),
    ]
    cases = []
    for i in range(400 if quick else 8000):
        src, den = text()
        name, mk, _, _ = carriers[i % len(carriers)]
        cases.append((i % len(carriers), src, den))
    # every carrier with the critical neighbourhoods: NUL before a digit (a legacy octal escape in a careless literal), a backslash before a letter,
    # quotes, line separators, an astral character
    for ci in range(len(carriers)):
        for src, den in (("&#0;1", "\x001"), ("a&#0;7b", "a\x007b"), ("&#x0;0", "\x000"), ("&#0;", "\x00"), ("\\n", "\\n"), ("\\u0041", "\\u0041"), ("&#34;&#39;", "\"'"),
                         ("&#x2028;&#x2029;", "\u2028\u2029"), ("\U0001F600&#1;2", "\U0001F600\x012"), ("&#13;&#10;", "\r\n")):
            cases.append((ci, src, den))
    # every named reference whose name is not letters only (frac12, sup2, there4, blk14 …), the longest and the shortest names, one per first letter:
    # the scanner of references, not only its table, is on the path
    digit_names = [n for n in sorted(table) if not n.isalpha()]
    by_len = sorted(table, key=lambda n: (len(n), n))
    firsts = {}
    for n in sorted(table):
        firsts.setdefault(n[0], n)
    for k, n in enumerate(digit_names + by_len[:3] + by_len[-3:] + sorted(firsts.values())):
        for ci in (k % len(carriers), (k + 1) % 2):
            cases.append((ci, "a&%s;1" % n, "a" + table[n] + "1"))
    from . import render
    groups = render.compile_templates([[["p", carriers[ci][1](src)]] for ci, src, den in cases])
    reqs, meta = [], []
    for k, ((ci, src, den), g) in enumerate(zip(cases, groups)):
        if "panic" in g or not isinstance(g.get("gen_groups"), str):
            chk.violation("input", "compiler failed on a constant-carrying template", template=carriers[ci][1](src))
            continue
        reqs.append({"op": "render", "gen_groups": g["gen_groups"], "path": "p", "steps": [{"create": {"b": "B"}}], "flatten": False})
        meta.append(k)
    outs = core.run_node(reqs)
    nb = 0
    for k, o in zip(meta, outs):
        ci, src, den = cases[k]
        name, mk, get, exp = carriers[ci]
        if "error" in o or not o.get("snapshots"):
            nb += 1
            if nb <= 5:
                chk.violation("input", f"rendering a template with a constant in {name} position threw: {o.get('error')}", template=mk(src))
            continue
        tree = o["snapshots"][0]["tree"]
        got = get(tree[0], den) if tree else None
        want = exp(den)
        if name == "event-handler" and want.strip() == "":
            continue
        chk.case(("const", name, src), nontrivial=src != den)
        if got != want:
            nb += 1
            if nb <= 5:
                chk.violation("input", f"constant in {name} position: the source denotes {[hex(ord(c)) for c in want]} but the runtime received "
                              f"{None if got is None else [hex(ord(c)) for c in got] if isinstance(got, str) else got}",
                              template=mk(src), position=name, expected=want, got=got)
    chk.bump("oracle:constants-end-to-end", len(meta))
    path_constants(chk)


def path_constants(chk):
    """resolved paths and module names as constants (round 10, C12-8): the path written in src — entities decoded, the optional suffix removed ONCE,
    resolved — is the very string the registered file is looked up by; near-miss registrations (the suffix removed once more, a character dropped)
    are decoys that render differently"""
    from . import render, c13
    import html
    targets = ["row.wxml", "row.wxml.wxml", "x/c.wxs", "é/中", "r w", "a'b", "q\"x", "a&b", "d.wxml.wxs", "\U0001F600/z", "k.wxmlx", "wxml", ".wxml.wxml"]
    groups, meta = [], []
    for t in targets:
        for sfx_t, sfx_s in ((".wxml", ".wxs"),):
            decoys = {t[:-len(x)] for x in (".wxml", ".wxs") if t.endswith(x) and len(t) > len(x)} | {t[:-1], t + "x"}
            decoys.discard(t); decoys.discard(""); decoys.discard("p")
            files = [["p", '<include src="/%s%s"/><import src="/%s%s"/><template is="t"/><wxs module="m" src="/%s%s"/>{{m.id}}' %
                      (html.escape(t, quote=True), sfx_t, html.escape(t, quote=True), sfx_t, html.escape(t, quote=True), sfx_s)],
                     [t, '<template name="t">[hit]</template>(hit)']]
            files += [[d_, '<template name="t">[miss %d]</template>(miss %d)' % (i, i)] for i, d_ in enumerate(sorted(decoys))]
            scripts = [[t, "exports.id='S:hit'"]] + [[d_, "exports.id='S:miss%d'" % i] for i, d_ in enumerate(sorted(decoys))]
            groups.append({"files": files, "scripts": scripts})
            meta.append(t)
    res = render.compile_templates(groups)
    reqs, keep = [], []
    for t, g in zip(meta, res):
        if "panic" in g or not isinstance(g.get("gen_groups"), str):
            chk.violation("input", "compiler failed on a path-constant group", target=t)
            continue
        reqs.append({"op": "render", "gen_groups": g["gen_groups"], "path": "p", "steps": [{"create": {}}]})
        keep.append(t)
    for t, o in zip(keep, core.run_node(reqs)):
        got = c13.text_of(o["snapshots"][0]["tree"]) if o.get("snapshots") else "ERROR " + str(o.get("error"))
        chk.case(("path-const", t), nontrivial=True)
        if got != "(hit)[hit]S:hit":
            chk.violation("input", f"path constant {t!r} (written with the optional suffix): include / import / wxs src reach {got!r}, the file and script registered under "
                          f"exactly that path render '(hit)[hit]S:hit'", target=t, got=got)
    chk.bump("oracle:path-constants", len(keep))


def replay(chk, path):
    o = json.load(open(path))["first"]
    if "codepoints" in o:
        s = "".join(chr(v) for v in o["codepoints"])
        lit = core.unesc(core.run_harness([core.req("lit_str", s)])[0])
        out = node_lits([[lit]])[0]
        print("literal", lit, "decoded", out)
        for mode in ("sloppy", "strict"):
            if out[mode][0] != o["codepoints"]:
                chk.violation("input", f"replayed: {mode} decodes {lit} to {out[mode][0]}", codepoints=o["codepoints"], literal=lit, mode=mode)
    return chk.finish()
