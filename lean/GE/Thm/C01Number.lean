import GE.Model.Number
/-!
# C01 / C03 — number literals: no overflow, exact integers

For every digit string (any length): the accumulator's 128-bit window never overflows, the value it
represents is exactly the literal's value while nothing is dropped, an integer literal is produced
iff the value fits in `i64`, and then it **is** the value (octal, hexadecimal and decimal alike).
Larger literals take the float path (whose rounding is exercised by the V8 oracle).
-/
namespace GE.Number

def Inv (bits : Nat) (digits : List Nat) (a : Acc) : Prop :=
  a.bits = bits ∧ a.high < u128Bound ∧
  (a.dropped = 0 → a.high = radixValue bits digits ∧ a.sticky = false) ∧
  (a.dropped ≠ 0 → i64Max < radixValue bits digits)

theorem radixValue_snoc (bits : Nat) (ds : List Nat) (d : Nat) :
    radixValue bits (ds ++ [d]) = radixValue bits ds * 2 ^ bits + d := by
  simp [radixValue, List.foldl_append]

theorem window_no_overflow (bits high d : Nat) (hb : bits ≤ 128) (hroom : high * 2 ^ bits < 2 ^ 128)
    (hd : d < 2 ^ bits) : high * 2 ^ bits + d < 2 ^ 128 := by
  have e : (2:Nat) ^ 128 = 2 ^ (128 - bits) * 2 ^ bits := by
    rw [← Nat.pow_add]; congr 1; omega
  rw [e] at hroom ⊢
  have hlt : high < 2 ^ (128 - bits) := Nat.lt_of_mul_lt_mul_right hroom
  have : (high + 1) * 2 ^ bits ≤ 2 ^ (128 - bits) * 2 ^ bits := Nat.mul_le_mul_right _ hlt
  rw [Nat.add_mul, Nat.one_mul] at this
  omega

theorem push_inv (bits : Nat) (hb1 : 1 ≤ bits) (hb : bits ≤ 64) (ds : List Nat) (a : Acc) (d : Nat)
    (hd : d < 2 ^ bits) (h : Inv bits ds a) : Inv bits (ds ++ [d]) (a.push d) := by
  obtain ⟨hbits, hh, hv, hbig⟩ := h
  unfold Acc.push
  split
  · rename_i hc
    obtain ⟨h0, hroom⟩ := hc
    have hroom' : a.high * 2 ^ bits < 2 ^ 128 := by
      simpa [Acc.hasRoom, u128Bound, hbits] using hroom
    refine ⟨hbits, ?_, ?_, ?_⟩
    · simp only [u128Bound]; rw [hbits]
      exact window_no_overflow bits a.high d (by omega) hroom' hd
    · intro _
      have := hv h0
      rw [radixValue_snoc, ← this.1, hbits]
      exact ⟨rfl, this.2⟩
    · intro hne; exact absurd h0 hne
  · rename_i hc
    refine ⟨hbits, hh, ?_, ?_⟩
    · intro h0
      simp only at h0
      omega
    · intro _
      rw [radixValue_snoc]
      by_cases h0 : a.dropped = 0
      · -- no room left: high·2^bits ≥ 2^128 > i64::MAX
        have hnr : ¬ (a.high * 2 ^ bits < 2 ^ 128) := by
          intro hr
          apply hc
          exact ⟨h0, by simpa [Acc.hasRoom, u128Bound, hbits] using hr⟩
        have := (hv h0).1
        rw [← this]
        have : (2:Nat) ^ 128 ≤ a.high * 2 ^ bits := Nat.le_of_not_lt hnr
        have h63 : i64Max < 2 ^ 128 := by decide
        omega
      · have := hbig h0
        have hpos : 1 ≤ 2 ^ bits := Nat.one_le_two_pow
        calc i64Max < radixValue bits ds := this
          _ ≤ radixValue bits ds * 2 ^ bits := Nat.le_mul_of_pos_right _ hpos
          _ ≤ radixValue bits ds * 2 ^ bits + d := Nat.le_add_right _ _

theorem foldl_inv (bits : Nat) (hb1 : 1 ≤ bits) (hb : bits ≤ 64) (pre ds : List Nat) (a : Acc)
    (hds : ∀ d ∈ ds, d < 2 ^ bits) (h : Inv bits pre a) : Inv bits (pre ++ ds) (ds.foldl Acc.push a) := by
  induction ds generalizing pre a with
  | nil => simpa using h
  | cons d r ih =>
    simp only [List.foldl_cons]
    have := ih (pre ++ [d]) (a.push d) (fun x hx => hds x (by simp [hx]))
      (push_inv bits hb1 hb pre a d (hds d (by simp)) h)
    simpa using this

/-- **Octal / hexadecimal literals of any length**: an integer literal is produced exactly when the
value fits `i64`, and it is the value; the 128-bit window never overflows on the way. -/
theorem scanRadix_spec (bits : Nat) (hb1 : 1 ≤ bits) (hb : bits ≤ 64) (ds : List Nat)
    (hds : ∀ d ∈ ds, d < 2 ^ bits) :
    (radixValue bits ds ≤ i64Max → scanRadix bits ds = .int (radixValue bits ds)) ∧
    (i64Max < radixValue bits ds → ∃ h dr s, scanRadix bits ds = .float h dr s ∧ h < u128Bound) := by
  have hinv := foldl_inv bits hb1 hb [] ds (Acc.new bits) hds
    ⟨rfl, by simp [Acc.new, u128Bound], fun _ => ⟨rfl, rfl⟩, fun h => absurd rfl h⟩
  simp only [List.nil_append] at hinv
  obtain ⟨_, hh, hv, hbig⟩ := hinv
  constructor
  · intro hle
    simp only [scanRadix, Acc.finish]
    by_cases h0 : (List.foldl Acc.push (Acc.new bits) ds).dropped = 0
    · have := (hv h0).1
      simp [h0, this, hle]
    · have := hbig h0
      omega
  · intro hgt
    simp only [scanRadix, Acc.finish]
    refine ⟨(List.foldl Acc.push (Acc.new bits) ds).high, (List.foldl Acc.push (Acc.new bits) ds).dropped,
      (List.foldl Acc.push (Acc.new bits) ds).sticky, ?_, hh⟩
    rw [if_neg]
    intro hc
    have := (hv hc.1).1
    omega

theorem decStep_inv (ds : List Nat) (acc : Option Nat) (pre : List Nat)
    (h : match acc with
         | some v => v = decValue pre ∧ v ≤ i64Max
         | none => i64Max < decValue pre) :
    match ds.foldl decStep acc with
    | some v => v = decValue (pre ++ ds) ∧ v ≤ i64Max
    | none => i64Max < decValue (pre ++ ds) := by
  induction ds generalizing acc pre with
  | nil => simpa using h
  | cons d r ih =>
    simp only [List.foldl_cons]
    have key : (match decStep acc d with
         | some v => v = decValue (pre ++ [d]) ∧ v ≤ i64Max
         | none => i64Max < decValue (pre ++ [d])) := by
      have hs : decValue (pre ++ [d]) = decValue pre * 10 + d := by simp [decValue, List.foldl_append]
      cases acc with
      | some x =>
        have h1 : x = decValue pre := h.1
        by_cases hle : x * 10 + d ≤ i64Max
        · have e : decStep (some x) d = some (x * 10 + d) := by simp [decStep, hle]
          rw [e]
          exact ⟨by rw [hs, ← h1], hle⟩
        · have e : decStep (some x) d = none := by simp [decStep, hle]
          rw [e]
          show i64Max < _
          rw [hs, ← h1]; omega
      | none =>
        have h1 : i64Max < decValue pre := h
        have e : decStep none d = none := rfl
        rw [e]
        show i64Max < _
        rw [hs]; omega
    have := ih (decStep acc d) (pre ++ [d]) key
    simpa using this

/-- **Decimal literals of any length**: integer iff the value fits `i64`, and then exact; otherwise
the float path is taken (no wrap-around, no panic). -/
theorem scanDec_spec (ds : List Nat) :
    (decValue ds ≤ i64Max → scanDec ds = .int (decValue ds)) ∧
    (i64Max < decValue ds → scanDec ds = .floatText) := by
  have := decStep_inv ds (some 0) [] (by simp [decValue, i64Max])
  simp only [List.nil_append] at this
  unfold scanDec
  cases h : ds.foldl decStep (some 0) with
  | some v =>
    rw [h] at this
    simp only at this
    exact ⟨fun _ => by rw [this.1], fun hgt => by omega⟩
  | none =>
    rw [h] at this
    simp only at this
    exact ⟨fun hle => by omega, fun _ => rfl⟩

/-! witnesses: the literals that wrapped / panicked before the repair -/
example : scanDec [9,9,9,9,9,9,9,9,9,9,9,9,9,9,9,9,9,9,9,9] = .floatText := by decide
example : scanDec [9,2,2,3,3,7,2,0,3,6,8,5,4,7,7,5,8,0,7] = .int 9223372036854775807 := by decide
example : scanRadix 4 [15,15,15,15,15,15,15,15,15,15,15,15,15,15,15,15] = .float 18446744073709551615 0 false := by decide

end GE.Number
