/-!
Text-level model of `StyleSheetOutput` (`output.rs`): the output string, the running UTF-16 length
and the generated column recorded for every token (`source_map.add_raw(0, self.utf16_len, …)`).
-/
namespace GE.CssOut

def utf16Width (c : Char) : Nat := if c.toNat ≥ 0x10000 then 2 else 1

/-- `str::encode_utf16().count()` -/
def utf16Length : List Char → Nat
  | [] => 0
  | c :: cs => utf16Width c + utf16Length cs

structure Output where
  s : List Char
  utf16Len : Nat
  entries : List Nat          -- generated column of every token appended through `append_token`

def Output.empty : Output := ⟨[], 0, []⟩

/-- `append_raw` -/
def Output.appendRaw (o : Output) (t : List Char) : Output :=
  { o with s := o.s ++ t, utf16Len := o.utf16Len + utf16Length t }

/-- `append_token`: optional separator blank, record the column, write the token text -/
def Output.appendToken (o : Output) (needsSep : Bool) (text : List Char) : Output :=
  let o1 : Output := if needsSep then { o with s := o.s ++ [' '], utf16Len := o.utf16Len + 1 } else o
  { s := o1.s ++ text, utf16Len := o1.utf16Len + utf16Length text, entries := o1.entries ++ [o1.utf16Len] }

/-- the whitespace branch of `append_token_space_preserved` -/
def Output.appendSpace (o : Output) : Output :=
  { o with s := o.s ++ [' '], utf16Len := o.utf16Len + 1 }

inductive Op where
  | raw (t : List Char)
  | token (needsSep : Bool) (text : List Char)
  | space

def Output.step (o : Output) : Op → Output
  | .raw t => o.appendRaw t
  | .token n t => o.appendToken n t
  | .space => o.appendSpace

def run (ops : List Op) : Output := ops.foldl Output.step .empty

end GE.CssOut
