import GE.Model.JsWriter
import GE.Thm.C02VarName
/-!
C02 / C05 — the identifier discipline of the JavaScript writers (`proc_gen/mod.rs`), over `GE/Model/JsWriter.lean`.

`monitor_sound`: for EVERY tree of writer operations (any nesting of functions, blocks, hoisted declarations with initialisers and nested
top-scope writers), if the monitor accepts the run — three comparisons between the counter of a function's own block and the counter of the
top-scope writer, made when an identifier is taken, plus "nothing is allocated after a nested top-scope writer was written out" — then
no public identifier handed out by `gen_ident` / `function_dyn_args` / `declare_var_on_top_scope*` equals an identifier that is visible at the
place it is going to be used: none declared earlier in the same function, none declared in an enclosing function or enclosing top-scope
writer (so no duplicate parameter and no captured outer variable), and a hoisted declaration is usable from the function that asked for it.
`names_fresh` restates it for the names (identifier ids ↦ names is injective, `varName_injective`).

The monitor speaks of counters only; the visible sets are ghost state.  That the runs of the real generators are accepted by the monitor, and
that the model's counters are the real ones, is checked by `corr:js-writer` on every run.
-/
namespace GE.JsWriter
open GE.VarName

/-! ### allocation -/

theorem nextVarName_gt : ∀ (fuel c : Nat) (nm : List Char) (n : Nat), nextVarName fuel c = some (nm, n) → c < n := by
  intro fuel
  induction fuel with
  | zero => intro c nm n h; simp [nextVarName] at h
  | succ f ih =>
    intro c nm n h
    unfold nextVarName at h
    split at h
    · have := ih (c + 1) nm n h; omega
    · simp at h; omega

theorem allocId_spec (c : Nat) : c ≤ (allocId c).1 ∧ (allocId c).2 = (allocId c).1 + 1 := by
  unfold allocId
  split
  · next nm n h => have := nextVarName_gt _ _ _ _ h; simp; omega
  · simp

/-! ### the invariant -/

/-- every visible id is below the counter it could be re-issued from; recorded events are fresh -/
structure Good (s : St) : Prop where
  top : ∀ x ∈ s.topVis, x < s.top.blk.id
  loc : match s.loc with
        | some L => ∀ x ∈ s.locVis, x < L.id
        | none => s.locVis = []
  evs : ∀ e ∈ s.evs, e.id ∉ e.vis

/-- what every operation guarantees: the monitor flag only falls, and while it stands the invariant is kept -/
def Keeps (s s' : St) : Prop := s'.ok = true → s.ok = true ∧ (Good s → Good s')

theorem Keeps.refl (s : St) : Keeps s s := fun h => ⟨h, id⟩

theorem Keeps.trans {a b c : St} (h1 : Keeps a b) (h2 : Keeps b c) : Keeps a c := fun h =>
  have hb := h2 h
  have ha := h1 hb.1
  ⟨ha.1, fun g => hb.2 (ha.2 g)⟩

/-- changes that touch neither ghost state, counters nor the monitor -/
def SameCore (s s' : St) : Prop :=
  s'.ok = s.ok ∧ s'.topVis = s.topVis ∧ s'.locVis = s.locVis ∧ s'.evs = s.evs ∧ s'.top.blk.id = s.top.blk.id ∧
  (s'.loc.map (·.id)) = (s.loc.map (·.id))

theorem SameCore.keeps {s s' : St} (h : SameCore s s') : Keeps s s' := by
  obtain ⟨hok, ht, hl, he, hid, hloc⟩ := h
  intro h'
  refine ⟨hok ▸ h', fun g => ⟨?_, ?_, ?_⟩⟩
  · rw [ht, hid]; exact g.top
  · have gl := g.loc
    rw [hl]
    cases h1 : s.loc <;> cases h2 : s'.loc <;> simp [h1, h2] at hloc gl ⊢
    · exact gl
    · rw [hloc]; exact gl
  · rw [he]; exact g.evs

theorem sameCore_put (s : St) (t : String) : SameCore s (s.put t) := by
  simp [SameCore, St.put]

theorem sameCore_stat (s : St) : SameCore s s.stat := by
  unfold St.stat
  dsimp only
  split
  · exact sameCore_put s _
  · unfold St.setBlk St.blk
    cases h : s.loc <;> simp [SameCore, h]

theorem genPub_keeps (c : Nat) (s : St) : Keeps s (genPub c s).1 := by
  intro h
  have hs := allocId_spec s.blk.id
  simp only [genPub, Bool.and_eq_true] at h
  refine ⟨h.1, fun g => ?_⟩
  have hc1 := h.2
  cases hl : s.loc with
  | none =>
    have gl := g.loc
    simp only [hl] at gl
    have hb : s.blk = s.top.blk := by simp [St.blk, hl]
    rw [hb] at hs
    refine ⟨?_, ?_, ?_⟩
    · simp only [genPub, St.setBlk, hl, hb]
      intro x hx
      simp only [List.mem_append, List.mem_singleton] at hx
      rcases hx with hx | hx
      · have := g.top x hx; omega
      · omega
    · simp [genPub, St.setBlk, hl, gl]
    · simp only [genPub, St.setBlk, hl, hb]
      intro e he
      simp only [List.mem_append, List.mem_singleton] at he
      rcases he with he | he
      · exact g.evs e he
      · subst he
        simp only [gl, List.append_nil]
        intro hx
        have := g.top _ hx; omega
  | some L =>
    have gl := g.loc
    simp only [hl] at gl
    have hb : s.blk = L := by simp [St.blk, hl]
    rw [hb] at hs
    simp only [St.c1, hl, decide_eq_true_eq] at hc1
    refine ⟨?_, ?_, ?_⟩
    · simp only [genPub, St.setBlk, hl, hb]; exact g.top
    · simp only [genPub, St.setBlk, hl, hb]
      intro x hx
      simp only [List.mem_append, List.mem_singleton] at hx
      rcases hx with hx | hx
      · have := gl x hx; omega
      · omega
    · simp only [genPub, St.setBlk, hl, hb]
      intro e he
      simp only [List.mem_append, List.mem_singleton] at he
      rcases he with he | he
      · exact g.evs e he
      · subst he
        simp only [List.mem_append]
        rintro (hx | hx)
        · have := g.top _ hx; omega
        · have := gl _ hx; omega

theorem declPub_keeps (c : Nat) (s : St) : Keeps s (declPub c s).1 := by
  intro h
  have hs := allocId_spec s.top.blk.id
  simp only [declPub, Bool.and_eq_true] at h
  refine ⟨h.1, fun g => ?_⟩
  have hc2 := h.2
  have gl := g.loc
  refine ⟨?_, ?_, ?_⟩
  · simp only [declPub]
    intro x hx
    simp only [List.mem_append, List.mem_singleton] at hx
    rcases hx with hx | hx
    · have := g.top x hx; omega
    · omega
  · simp only [declPub]; exact gl
  · simp only [declPub]
    intro e he
    simp only [List.mem_append, List.mem_singleton] at he
    rcases he with he | he
    · exact g.evs e he
    · subst he
      simp only [List.mem_append]
      rintro (hx | hx)
      · have := g.top _ hx; omega
      · cases hl : s.loc with
        | none => simp [hl] at gl; simp [gl] at hx
        | some L =>
          simp only [hl] at gl
          simp only [St.c2, hl, decide_eq_true_eq] at hc2
          have := gl _ hx; omega

theorem genArgs_keeps : ∀ (cs : List Nat) (s : St), Keeps s (genArgs cs s).1
  | [], s => Keeps.refl s
  | c :: cs, s => (genPub_keeps c s).trans (genArgs_keeps cs (genPub c s).1)

/-! ### entering and leaving scopes -/

theorem enter_keeps (s : St) (w : String) : Keeps s { s with w := w, loc := some s.blk.extend } := by
  intro h
  refine ⟨h, fun g => ⟨g.top, ?_, g.evs⟩⟩
  have gl := g.loc
  show ∀ x ∈ s.locVis, x < s.blk.extend.id
  cases hl : s.loc with
  | none => simp [hl] at gl; simp [gl]
  | some L => simp only [hl] at gl; simpa [St.blk, hl, Blk.extend] using gl

theorem leave_keeps {s s1 : St} (h : Keeps s s1) : Keeps s (s1.leave s) := by
  intro h'
  have := h h'
  exact ⟨this.1, fun g => ⟨(this.2 g).top, g.loc, (this.2 g).evs⟩⟩

theorem openInit_keeps (s : St) (name : String) : Keeps s (s.openInit name) := by
  intro h
  exact ⟨h, fun g => ⟨g.top, rfl, g.evs⟩⟩

theorem closeInit_keeps {s0 s1 : St} (sep : Bool) (h : Keeps s0 s1) : Keeps s0 (s1.closeInit s0 sep) := by
  intro h'
  have := h h'
  exact ⟨this.1, fun g => ⟨(this.2 g).top, g.loc, (this.2 g).evs⟩⟩

theorem decls_keeps (s : St) (d : List String) : Keeps s { s with top := { s.top with decls := d } } := by
  intro h
  exact ⟨h, fun g => ⟨g.top, g.loc, g.evs⟩⟩

theorem subEnter_keeps (s : St) (c p : Nat) :
    Keeps s { s with w := "", loc := none,
                     top := { decls := [], subs := [], blk := { sep := false, id := s.blk.id, priv := s.blk.priv } },
                     topVis := s.topVis ++ s.locVis, locVis := [], ok := s.ok && s.c1,
                     sync := s.sync && (c == s.blk.id) && (p == s.blk.priv) } := by
  intro h
  simp only [Bool.and_eq_true] at h
  refine ⟨h.1, fun g => ⟨?_, rfl, g.evs⟩⟩
  have gl := g.loc
  have hc1 := h.2
  show ∀ x ∈ s.topVis ++ s.locVis, x < s.blk.id
  intro x hx
  cases hl : s.loc with
  | none =>
    simp [hl] at gl
    simp only [gl, List.append_nil] at hx
    simpa [St.blk, hl] using g.top x hx
  | some L =>
    simp only [hl] at gl
    simp only [St.c1, hl, decide_eq_true_eq] at hc1
    simp only [List.mem_append] at hx
    have hb : s.blk = L := by simp [St.blk, hl]
    rw [hb]
    rcases hx with hx | hx
    · have := g.top x hx; omega
    · exact gl x hx

theorem subBack_keeps {s s1 : St} (sv : List Nat) (h : Keeps s s1) :
    Keeps s { s with evs := s1.evs, ok := s1.ok, sync := s1.sync, uses := s1.uses, subVis := sv } := by
  intro h'
  have := h h'
  exact ⟨this.1, fun g => ⟨g.top, g.loc, (this.2 g).evs⟩⟩

theorem seal_keeps (s : St) (b : Bool) : Keeps s { s with ok := s.ok && b } := by
  intro h
  simp only [Bool.and_eq_true] at h
  exact ⟨h.1, fun g => ⟨g.top, g.loc, g.evs⟩⟩

theorem genPriv_keeps (c : Nat) (s : St) :
    Keeps s { s.setBlk { s.blk with priv := s.blk.priv + 1 } with sync := s.sync && (c == s.blk.priv) } := by
  apply SameCore.keeps
  unfold St.setBlk St.blk
  cases h : s.loc <;> simp [SameCore, h]

theorem custom_keeps (t : String) (s : St) :
    Keeps s (if s.blk.sep then (s.put ";").put (t ++ "\n") else (s.setBlk { s.blk with sep := true }).put (t ++ "\n")) := by
  split
  · exact ((sameCore_put s _).keeps).trans (sameCore_put _ _).keeps
  · apply SameCore.keeps
    unfold St.setBlk St.blk St.put
    cases h : s.loc <;> simp [SameCore, h]

/-! ### every operation keeps the invariant -/

mutual
theorem runF_keeps : ∀ (o : FOp) (s : St), Keeps s (runF o s)
  | .genIdent c, s => by simpa [runF] using genPub_keeps c s
  | .genPriv c, s => by simpa [runF] using genPriv_keeps c s
  | .custom t, s => by simpa [runF] using custom_keeps t s
  | .exprStmt es, s => by
    simp only [runF]
    exact (sameCore_stat s).keeps.trans (runEs_keeps es s.stat)
  | .setTop name, s => by simpa [runF] using decls_keeps s _
  | .setTopInit name es, s => by
    simp only [runF]
    exact closeInit_keeps _ ((openInit_keeps s name).trans (runEs_keeps es _))
  | .declTop c, s => by
    simp only [runF]
    exact (declPub_keeps c s).trans (decls_keeps _ _)
  | .declTopInit c es, s => by
    simp only [runF]
    exact (declPub_keeps c s).trans (closeInit_keeps _ ((openInit_keeps _ _).trans (runEs_keeps es _)))
  | .subTop c p body, s => by
    simp only [runF]
    have h1 := (subEnter_keeps s c p).trans (runFs_keeps body _)
    exact ((subBack_keeps _ h1).trans (sameCore_stat _).keeps).trans (sameCore_put _ _).keeps
theorem runFs_keeps : ∀ (os : List FOp) (s : St), Keeps s (runFs os s)
  | [], s => by simpa [runFs] using Keeps.refl s
  | o :: r, s => by
    simp only [runFs]
    refine ((runF_keeps o s).trans ?_).trans (runFs_keeps r _)
    split
    · exact seal_keeps _ _
    · exact Keeps.refl _
theorem runE_keeps : ∀ (o : EOp) (s : St), Keeps s (runE o s)
  | .write t, s => by
    simp only [runE]
    exact (sameCore_put s t).keeps.trans (fun h => ⟨h, fun g => ⟨g.top, g.loc, g.evs⟩⟩)
  | .fn args body, s => by
    simp only [runE]
    exact (leave_keeps ((enter_keeps s _).trans (runFs_keeps body _))).trans (sameCore_put _ _).keeps
  | .fnDyn cs args body, s => by
    simp only [runE]
    have h0 := (enter_keeps s s.w).trans (genArgs_keeps cs _)
    exact (leave_keeps ((h0.trans (sameCore_put _ _).keeps).trans (runFs_keeps body _))).trans (sameCore_put _ _).keeps
  | .brace body, s => by
    simp only [runE]
    exact (leave_keeps ((enter_keeps s _).trans (runFs_keeps body _))).trans (sameCore_put _ _).keeps
  | .paren es, s => by
    simp only [runE]
    exact ((sameCore_put s _).keeps.trans (runEs_keeps es _)).trans (sameCore_put _ _).keeps
  | .declTop c, s => by
    simp only [runE]
    exact (declPub_keeps c s).trans (decls_keeps _ _)
theorem runEs_keeps : ∀ (os : List EOp) (s : St), Keeps s (runEs os s)
  | [], s => by simpa [runEs] using Keeps.refl s
  | o :: r, s => by
    simp only [runEs]
    exact (runE_keeps o s).trans (runEs_keeps r _)
end

/-! ### whole artefacts -/

theorem runScope_keeps (body : List FOp) (s : St) : Keeps s (runScope body s) := by
  unfold runScope
  intro h
  have h0 : Keeps s { s with w := "", loc := none, locVis := [], subVis := [], top := { s.top with blk := { s.top.blk with sep := false } } } :=
    fun h => ⟨h, fun g => ⟨g.top, rfl, g.evs⟩⟩
  have := (h0.trans (runFs_keeps body _)) h
  refine ⟨this.1, fun g => ⟨(this.2 g).top, ?_, (this.2 g).evs⟩⟩
  exact (this.2 g).loc

/-- the function's own block after a run is the one before (scopes are restored) -/
theorem good_init : Good initSt := ⟨by simp [initSt], rfl, by simp [initSt]⟩

/-- `Keeps` along the scopes of an artefact (`loc` stays `none` between scopes: `runScope` starts every scope without own block) -/
theorem runRoot_keeps_aux : ∀ (scopes : List (List FOp)) (s : St), Keeps s (scopes.foldl (fun s b => runScope b s) s)
  | [], s => Keeps.refl s
  | b :: r, s => by
    simp only [List.foldl_cons]
    refine Keeps.trans ?_ (runRoot_keeps_aux r _)
    -- `runScope` does not look at `s.loc` (it starts from `loc := none`)
    intro h
    unfold runScope at h ⊢
    have h0 : Keeps s { s with w := "", loc := none, locVis := [], subVis := [], top := { s.top with blk := { s.top.blk with sep := false } } } :=
      fun h => ⟨h, fun g => ⟨g.top, rfl, g.evs⟩⟩
    have := (h0.trans (runFs_keeps b _)) h
    exact ⟨this.1, fun g => ⟨(this.2 g).top, (this.2 g).loc, (this.2 g).evs⟩⟩

/-- **monitor_sound.**  For every artefact (every list of function scopes, every tree of writer operations in them): if the monitor accepts the run,
no identifier that was handed out equals an identifier visible where it is used. -/
theorem monitor_sound (scopes : List (List FOp)) (h : (runRoot scopes).ok = true) :
    ∀ e ∈ (runRoot scopes).evs, e.id ∉ e.vis :=
  ((runRoot_keeps_aux scopes initSt h).2 good_init).evs

/-- the same for the names: the name of a new identifier differs from the name of every identifier visible where it is used -/
theorem names_fresh (scopes : List (List FOp)) (h : (runRoot scopes).ok = true) :
    ∀ e ∈ (runRoot scopes).evs, ∀ v ∈ e.vis, varName e.id ≠ varName v := by
  intro e he v hv hn
  have := varName_injective _ _ hn
  exact monitor_sound scopes h e he (this ▸ hv)

/-! ### the statement is not vacuous, and the monitor is not decoration -/

/-- a function that takes an identifier from its own block and then hoists one: rejected (the hoisted name may be the parameter's) -/
example : (runRoot [[.exprStmt [.fn none [.genIdent 26, .declTop 26]]]]).ok = false := by
  have h := allocId_spec GE.Extracted.varNameIndexPreserve
  simp [runRoot, runScope, runFs, runF, runEs, runE, isSubTop, genPub, declPub, initSt, St.stat, St.blk, St.setBlk, St.put, St.leave,
    St.c1, St.c2, Blk.extend]
  omega

/-- allocation after a nested top-scope writer was written out: rejected -/
example : (runRoot [[.exprStmt [.fn none [.subTop 26 0 [], .genIdent 26]]]]).ok = false := by
  simp [runRoot, runScope, runFs, runF, runEs, runE, isSubTop, allocFreeFs, allocFreeF, genPub, initSt, St.stat, St.blk, St.setBlk, St.put,
    St.leave, St.c1, Blk.extend]

/-- a hoisted function whose body hoists again: accepted -/
example : (runRoot [[.declTopInit 26 [.fn (some "C") [.declTopInit 27 [.write "x"], .exprStmt [.write "r"]]]]]).ok = true := by
  have h := allocId_spec GE.Extracted.varNameIndexPreserve
  simp [runRoot, runScope, runFs, runF, runEs, runE, isSubTop, declPub, initSt, St.stat, St.blk, St.setBlk, St.put, St.leave, St.openInit,
    St.closeInit, St.c2, Blk.extend]

end GE.JsWriter
