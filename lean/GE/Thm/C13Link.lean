/-
C13 — which template a `<template is>` finds: "templates defined locally before imported ones and later imports
before earlier ones".  Theorem about `GE/Model/Link.lean` (the table `S` the emitted code builds with
`Object.assign({}, G[p1]._, …, G[pn]._, H); delete S[""]`), tied to the compiler + runtime by `corr:link`.
-/
import GE.Model.Link

namespace GE.Link
variable {T : Type}

/-- the definition of `k` that counts in a list of definitions in source order: the last one -/
def lastDef (l : List (String × T)) (k : String) : Option T := (l.reverse.find? (fun e => e.1 == k)).map (·.2)

/-- the specification, written from the property: never the main template (name ""); a local definition if there is one;
otherwise the definition in the LAST import (in source order) whose file is registered and defines the name -/
def specLookup (G : String → Option (File T)) (targets : List String) (self : File T) (P : String) : Option T :=
  if P = "" then none else
  match lastDef self.defs P with
  | some t => some t
  | none => targets.reverse.findSome? fun p => (G p).bind fun f => lastDef f.defs P

theorem get_set (o : Obj T) (k k' : String) (v : T) : get (set o k v) k' = if k == k' then some v else get o k' := by
  simp only [get, set, List.find?_cons]
  split <;> simp_all

theorem get_foldl_set (l : List (String × T)) (o : Obj T) (k : String) :
    get (l.foldl (fun o e => set o e.1 e.2) o) k = (lastDef l k).orElse (fun _ => get o k) := by
  induction l generalizing o with
  | nil => simp [lastDef]
  | cons e l ih =>
    simp only [List.foldl_cons, ih, get_set, lastDef, List.reverse_cons, List.find?_append, List.find?_cons, List.find?_nil]
    cases h : (l.reverse.find? (fun e => e.1 == k)) with
    | some x => simp
    | none => by_cases hk : e.1 == k <;> simp [hk]

theorem get_assign (o src : Obj T) (k : String) : get (assign o src) k = (get src k).orElse (fun _ => get o k) := by
  rw [assign, get_foldl_set]
  simp only [lastDef, List.reverse_reverse, get]

theorem get_delete (o : Obj T) (k P : String) : get (delete o k) P = if P = k then none else get o P := by
  simp only [get, delete, List.find?_filter]
  by_cases hP : P = k
  · subst hP
    have : ∀ a : String × T, decide ((a.1 != P) = true ∧ (a.1 == P) = true) = false := by
      intro a; by_cases h : a.1 = P <;> simp [h]
    simp [this]
  · have : ∀ a : String × T, decide ((a.1 != k) = true ∧ (a.1 == P) = true) = (a.1 == P) := by
      intro a
      by_cases h : a.1 = P
      · subst h; simp [hP]
      · simp [h]
    simp only [this, hP, if_false]

theorem get_hOf (f : File T) (P : String) : get (hOf f) P = if P = "" then some f.main else lastDef f.defs P := by
  rw [hOf, get_set, get_foldl_set]
  by_cases h : P = ""
  · simp [h]
  · have : ("" == P) = false := by
      simp only [beq_eq_false_iff_ne, ne_eq]; exact fun e => h e.symm
    simp [this, h, get]

theorem get_merged (G : String → Option (File T)) (targets : List String) (o : Obj T) (P : String) :
    get (targets.foldl (mergeStep G) o) P =
      (targets.reverse.findSome? fun p => (G p).bind fun f => get (hOf f) P).orElse (fun _ => get o P) := by
  induction targets generalizing o with
  | nil => simp
  | cons p ps ih =>
    rw [List.foldl_cons, ih, List.reverse_cons, List.findSome?_append]
    cases h : (ps.reverse.findSome? fun p => (G p).bind fun f => get (hOf f) P) with
    | some x => simp
    | none =>
      cases hg : G p with
      | none => simp [mergeStep, hg]
      | some f =>
        simp only [mergeStep, hg, get_assign, List.findSome?_cons, List.findSome?_nil, Option.bind_some]
        cases get (hOf f) P <;> simp

/-- **lookup order**: the table the emitted code builds answers a `<template is>` exactly as the property says — for every
set of registered files, every list of imports (any order, repetitions, unregistered targets), every name -/
theorem lookup_order (G : String → Option (File T)) (path : String) (self : File T) (importSrcs : List String) (P : String) :
    lookup G path self importSrcs P =
      specLookup G (importSrcs.map fun s => String.ofList (GE.Path.resolve path.toList (stripSuffix s.toList ".wxml".toList))) self P := by
  simp only [lookup, tableOf, specLookup]
  rw [get_delete, get_assign, get_merged]
  by_cases hP : P = ""
  · simp [hP]
  · simp only [hP, if_false, get_hOf]
    cases hl : lastDef self.defs P with
    | some t => simp
    | none => simp [get]

/-- a local definition always wins -/
theorem local_first (G : String → Option (File T)) (path : String) (self : File T) (importSrcs : List String) (P : String) (t : T)
    (hP : P ≠ "") (h : lastDef self.defs P = some t) : lookup G path self importSrcs P = some t := by
  rw [lookup_order]; simp [specLookup, hP, h]

/-- the main template of a file is never found by name, whatever is imported -/
theorem main_not_callable (G : String → Option (File T)) (path : String) (self : File T) (importSrcs : List String) :
    lookup G path self importSrcs "" = none := by
  rw [lookup_order]; simp [specLookup]

/-! non-vacuity: `a` imports `x` then `y`, both define `t`, only `x` defines `u`; `a` defines `v` itself -/
def exG : String → Option (File Nat)
  | "x" => some ⟨[("t", 1), ("u", 2), ("v", 3)], 0⟩
  | "y" => some ⟨[("t", 4)], 0⟩
  | _ => none

example : (["t", "u", "v", "w", ""].map fun P => specLookup exG ["x", "y"] (⟨[("v", 9)], 0⟩ : File Nat) P) =
    [some 4, some 2, some 9, none, none] := by
  simp [specLookup, lastDef, exG]

end GE.Link
