"""C10 — rpx conversion is arithmetically right; other numbers keep their value (DESIGN.md §9 C10)."""
from . import csscheck

THEOREMS = ["GE.C10.rpx_error_bound", "GE.C10.rpx_sign_kept"]


def run(chk):
    chk.rule = ("generated stylesheets with numeric tokens over the whole i32 range, decimals, exponents, signed zero, leading + and . x rpx "
                "ratios; (1) model vs implementation including the Float32 conversion and the integer test; (2) oracle: |out-expected| <= "
                "eps_f32*|expected| for rpx and non-integers, out == n for integers, no other unit converted")
    chk.trusted = csscheck.TRUSTED + ["Mathlib (ordered-field lemmas) in GE/Thm/C10.lean only",
                                      "IEEE-754 single precision arithmetic of Lean's Float32 and of Rust f32 (round-to-nearest) — the theorem "
                                      "takes the rounding function as a parameter with |rnd x - x| <= ε|x|"]
    chk.assumptions = ["rpx_error_bound is a theorem about value*100/ratio computed with two correctly rounded operations over an ordered field; "
                       "that the implementation performs exactly these two operations is tied by the model's executable Float32 definition "
                       "(rpxConvert) agreeing bit-for-bit with the implementation on every generated number; PARTIAL: the decimal printing of "
                       "the f32 (6 significant digits) is outside the model and judged by the oracle"]
    csscheck.run_property(chk, "C10", "GE.Thm.C10", THEOREMS, 700, 12000,
                          nontrivial=lambda o, css, res: "rpx" in css)


def replay(chk, path):
    return csscheck.replay(chk, "C10", path)
