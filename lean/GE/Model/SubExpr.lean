import GE.Model.Expr
/-!
Model of the `sub_expressions()` / `sub_expressions_mut()` iterators (`parse/expr.rs`,
macro `iter_sub_expr!`): the iterator state is `(inner, index)`, `next_item` is modelled exactly,
including the loop that skips array holes.  Also `convert_scopes` (scope resolution).
-/
namespace GE.SubExpr

def Exprs.toList : Exprs → List Expr
  | .nil => []
  | .cons e r => e :: Exprs.toList r

/-- the value of each object field (named or spread) -/
def ObjFields.vals : ObjFields → List Expr
  | .nil => []
  | .named _ _ v r => v :: ObjFields.vals r
  | .spread v r => v :: ObjFields.vals r

/-- the value of each array field; `none` for an empty slot -/
def ArrFields.vals : ArrFields → List (Option Expr)
  | .nil => []
  | .item v r => some v :: ArrFields.vals r
  | .spread v r => some v :: ArrFields.vals r
  | .hole r => none :: ArrFields.vals r

/-- the hole-skipping loop followed by `fields.get(index)`: first non-hole at or after `i` -/
def firstSome : List (Option Expr) → Nat → Option (Expr × Nat)
  | [], _ => none
  | none :: r, i => firstSome r (i + 1)
  | some v :: _, i => some (v, i + 1)

/-- `next_item`: given the inner expression and the iterator's `index`, the yielded child and the
new index, or `none` when the iterator ends -/
def nextItem (e : Expr) (idx : Nat) : Option (Expr × Nat) :=
  match e with
  | .scope _ | .data _ | .undef | .null | .str _ | .int _ | .float _ | .bool _ => none
  | .toStr v => if idx = 0 then some (v, 1) else none
  | .obj fs => ((ObjFields.vals fs)[idx]?).map (fun v => (v, idx + 1))
  | .arr fs => firstSome ((ArrFields.vals fs).drop idx) idx
  | .smember o _ => if idx = 0 then some (o, 1) else none
  | .dmember o f => if idx = 0 then some (o, 1) else if idx = 1 then some (f, 2) else none
  | .call f args =>
    if idx = 0 then some (f, 1) else ((Exprs.toList args)[idx - 1]?).map (fun v => (v, idx + 1))
  | .un _ v => if idx = 0 then some (v, 1) else none
  | .bin _ l r => if idx = 0 then some (l, 1) else if idx = 1 then some (r, 2) else none
  | .cond c t f =>
    if idx = 0 then some (c, 1) else if idx = 1 then some (t, 2) else if idx = 2 then some (f, 3)
    else none

/-- run the iterator to exhaustion (fuel-bounded; `subExprs` supplies enough fuel) -/
def iterate (e : Expr) : Nat → Nat → List Expr
  | 0, _ => []
  | fuel + 1, idx =>
    match nextItem e idx with
    | none => []
    | some (v, idx') => v :: iterate e fuel idx'

/-- the specification: all immediate sub-expressions, in source order -/
def children : Expr → List Expr
  | .scope _ | .data _ | .undef | .null | .str _ | .int _ | .float _ | .bool _ => []
  | .toStr v => [v]
  | .obj fs => ObjFields.vals fs
  | .arr fs => (ArrFields.vals fs).filterMap id
  | .smember o _ => [o]
  | .dmember o f => [o, f]
  | .call f args => f :: Exprs.toList args
  | .un _ v => [v]
  | .bin _ l r => [l, r]
  | .cond c t f => [c, t, f]

/-- number of `next()` calls that certainly exhausts the iterator -/
def fuelFor (e : Expr) : Nat :=
  match e with
  | .obj fs => (ObjFields.vals fs).length + 1
  | .arr fs => (ArrFields.vals fs).length + 1
  | .call _ args => (Exprs.toList args).length + 2
  | _ => 4

def subExprs (e : Expr) : List Expr := iterate e (fuelFor e) 0

/-! ### scope resolution (`convert_scopes`) -/

/-- `scopes.iter().enumerate().rev().find_map(…)`: the LAST (innermost) scope with that name;
`base` is the index of the head of the list -/
def findScopeFrom : List String → Nat → String → Option Nat
  | [], _, _ => none
  | s :: r, i, n =>
    match findScopeFrom r (i + 1) n with
    | some j => some j
    | none => if s = n then some i else none

def findScope (scopes : List String) (name : String) : Option Nat := findScopeFrom scopes 0 name

mutual
def convertScopes (scopes : List String) : Expr → Expr
  | .data n => match findScope scopes n with
    | some i => .scope i
    | none => .data n
  | .scope i => .scope i
  | .undef => .undef | .null => .null | .str s => .str s | .int v => .int v
  | .float t => .float t | .bool b => .bool b
  | .toStr v => .toStr (convertScopes scopes v)
  | .obj fs => .obj (convertObj scopes fs)
  | .arr fs => .arr (convertArr scopes fs)
  | .smember o n => .smember (convertScopes scopes o) n
  | .dmember o f => .dmember (convertScopes scopes o) (convertScopes scopes f)
  | .call f args => .call (convertScopes scopes f) (convertList scopes args)
  | .un op v => .un op (convertScopes scopes v)
  | .bin op l r => .bin op (convertScopes scopes l) (convertScopes scopes r)
  | .cond c t f => .cond (convertScopes scopes c) (convertScopes scopes t) (convertScopes scopes f)
def convertList (scopes : List String) : Exprs → Exprs
  | .nil => .nil
  | .cons e r => .cons (convertScopes scopes e) (convertList scopes r)
def convertObj (scopes : List String) : ObjFields → ObjFields
  | .nil => .nil
  | .named n s v r => .named n s (convertScopes scopes v) (convertObj scopes r)
  | .spread v r => .spread (convertScopes scopes v) (convertObj scopes r)
def convertArr (scopes : List String) : ArrFields → ArrFields
  | .nil => .nil
  | .item v r => .item (convertScopes scopes v) (convertArr scopes r)
  | .spread v r => .spread (convertScopes scopes v) (convertArr scopes r)
  | .hole r => .hole (convertArr scopes r)
end

end GE.SubExpr
