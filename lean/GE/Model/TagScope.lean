import GE.Model.SubExpr
import GE.Model.BindingMap
/-!
Model of the scope / binding-map analysis of a parsed template (`parse/tag.rs`:
`Template::parse` (set-up), `Node::` / `Element::` / `Value::init_scopes_and_binding_map_keys`).

The analysis walks the tree with ONE mutable state: the stack of scope names (script modules, slot-value
references, `wx:for` item / index), a counter of enclosing dynamic elements, and the binding-map collector.
An element pushes its slot-value names, handles its own values, pushes its `wx:for` names, recurses into
its children and truncates the stack to its length at entry.  Every dynamic value is scope-converted with
the stack as it is at that moment; its data fields are added to the collector, or disabled when the value
sits in a dynamic subtree (or is a structural value: `wx:if`, `wx:for`, `is`, `data`, slot name …).

`run` is that state machine; `spec` (in `GE/Thm/C05Tag.lean`) is the lexical reading.
-/
namespace GE.TagScope
open GE.SubExpr GE.BM

inductive Kind where
  | normal | pure | for_ (item index : String) | if_ | tref | include | slot
deriving Repr

/-- a dynamic value: the `disable_binding_map` flag of `for_each_value_mut` and the expression as written -/
structure Val where
  flag : Bool
  e : Expr

mutual
inductive TNode where
  | text (v : Option Val)
  | elem (kind : Kind) (refs : List String) (vals : List (Option Val)) (children : TNodesList)
  | other
inductive TNodes where
  | nil
  | cons (n : TNode) (r : TNodes)
/-- the child lists of an element (one per branch for `wx:if` … `wx:else`) -/
inductive TNodesList where
  | nil
  | cons (ns : TNodes) (r : TNodesList)
end

def Kind.dynamic : Kind → Bool
  | .normal | .pure => false
  | _ => true

def Kind.isInclude : Kind → Bool
  | .include => true
  | _ => false

def Kind.forNames : Kind → List String
  | .for_ i x => [i, x]
  | _ => []

mutual
/-- data fields of an expression in the order `collect_binding_map_keys` / `disable_binding_map_keys` visit them -/
def dataFields : Expr → List String
  | .data x => [x]
  | .scope _ | .undef | .null | .str _ | .int _ | .float _ | .bool _ => []
  | .toStr e => dataFields e
  | .obj fs => dataFieldsObj fs
  | .arr fs => dataFieldsArr fs
  | .smember o _ => dataFields o
  | .dmember o f => dataFields o ++ dataFields f
  | .call f args => dataFields f ++ dataFieldsList args
  | .un _ e => dataFields e
  | .bin _ a b => dataFields a ++ dataFields b
  | .cond c t f => dataFields c ++ dataFields t ++ dataFields f
def dataFieldsList : Exprs → List String
  | .nil => []
  | .cons e r => dataFields e ++ dataFieldsList r
def dataFieldsObj : ObjFields → List String
  | .nil => []
  | .named _ _ v r => dataFields v ++ dataFieldsObj r
  | .spread v r => dataFields v ++ dataFieldsObj r
def dataFieldsArr : ArrFields → List String
  | .nil => []
  | .item v r => dataFields v ++ dataFieldsArr r
  | .spread v r => dataFields v ++ dataFieldsArr r
  | .hole r => dataFieldsArr r
end

/-- what the analysis leaves in one dynamic value -/
structure Rec where
  conv : Expr
  collected : Bool

structure St where
  scopes : List String
  dyn : Nat
  recs : List Rec          -- in visiting order
  ops : List Op            -- collector operations, in order

def St.value (st : St) (v : Option Val) : St :=
  match v with
  | none => st
  | some v =>
    let conv := convertScopes st.scopes v.e
    let dis := st.dyn > 0 || v.flag
    { st with recs := st.recs ++ [⟨conv, !dis⟩],
              ops := st.ops ++ (dataFields conv).map (fun f => if dis then Op.disable f else Op.add f) }

mutual
def runNode (st : St) : TNode → St
  | .text v => st.value v
  | .other => st
  | .elem kind refs vals children =>
    let st1 : St := if kind.isInclude then { st with ops := st.ops ++ [Op.disableAll] } else st
    let st2 : St := if kind.dynamic then { st1 with dyn := st1.dyn + 1 } else st1
    let prev := st2.scopes.length
    let st3 : St := { st2 with scopes := st2.scopes ++ refs }
    let st4 := vals.foldl St.value st3
    let st5 : St := { st4 with scopes := st4.scopes ++ kind.forNames }
    let st6 := runList st5 children
    { st6 with scopes := st6.scopes.take prev, dyn := if kind.dynamic then st6.dyn - 1 else st6.dyn }
def runNodes (st : St) : TNodes → St
  | .nil => st
  | .cons n r => runNodes (runNode st n) r
def runList (st : St) : TNodesList → St
  | .nil => st
  | .cons ns r => runList (runNodes st ns) r
end

/-- `Template::parse`: sub-templates start inside a dynamic tree, the main content does not; both start with the script modules.
Each has a collector of its own (only the main one is kept). -/
def runMain (modules : List String) (nodes : TNodes) : St := runNodes ⟨modules, 0, [], []⟩ nodes
def runSub (modules : List String) (nodes : TNodes) : St := runNodes ⟨modules, 1, [], []⟩ nodes

end GE.TagScope
