/-!
Model of the key bookkeeping and of the update-tree transformation of `RangeListManager`
(`glass-easel/src/tmpl/range_list_diff.ts`: `updateKeys`, and the part of `diff` that decides what every
item of the new list is told), for keyed lists (`wx:key`).

`updateKeys` makes the keys of a list pairwise distinct: a key that occurs once is kept, the occurrences of
a key that occurs several times are renamed `key--0`, `key--1`, … (skipping names that are already taken),
the groups being processed in the order of `Object.keys` (array-index-like keys first, ascending, then the
others in the order in which they became shared).  `diff` then matches every item of the new list with the
node that carried the same unique key in the old list, and hands it an update tree: its own subtree — or
`true` when its unique key is a renamed one in either list, or when its key field is marked.
-/
namespace GE.Rlm

/-- canonical array index (`Object.keys` lists these first, in ascending order) -/
def arrayIndex? (s : String) : Option Nat :=
  match s.toNat? with
  | some n => if toString n = s ∧ n < 4294967295 then some n else none
  | none => none

def count (k : String) : List String → Nat
  | [] => 0
  | x :: r => (if x = k then 1 else 0) + count k r

/-- keys that occur more than once, in the order in which their SECOND occurrence appears -/
def sharedInOrder : List String → List String → List String → List String
  | [], _, acc => acc
  | k :: r, seen, acc =>
    if k ∈ seen then (if k ∈ acc then sharedInOrder r seen acc else sharedInOrder r seen (acc ++ [k]))
    else sharedInOrder r (k :: seen) acc

def insertSorted (n : Nat) (s : String) : List (Nat × String) → List (Nat × String)
  | [] => [(n, s)]
  | (m, t) :: r => if n < m then (n, s) :: (m, t) :: r else (m, t) :: insertSorted n s r

/-- `Object.keys(sharedKeyMap)` -/
def groupOrder (keys : List String) : List String :=
  let sh := sharedInOrder keys [] []
  let idx := sh.foldl (fun acc k => match arrayIndex? k with | some n => insertSorted n k acc | none => acc) []
  idx.map (·.2) ++ sh.filter (fun k => (arrayIndex? k).isNone)

/-- the first `key--inc'` with `inc' ≥ inc` that is not taken (`fuel` bounds the search: one more than the names taken) -/
def freshFrom (key : String) (used : List String) : Nat → Nat → Nat
  | 0, inc => inc
  | fuel + 1, inc => if (key ++ "--" ++ toString inc) ∈ used then freshFrom key used fuel (inc + 1) else inc

def setAt (l : List String) (i : Nat) (v : String) : List String := l.set i v

/-- positions of `k` in `keys` -/
def positions (k : String) (keys : List String) : List Nat :=
  (List.range keys.length).filter (fun i => keys[i]? = some k)

/-- rename the occurrences of one shared key -/
def renameGroup (key : String) : List Nat → Nat → List String → List String → List String × List String
  | [], _, used, out => (used, out)
  | i :: r, inc, used, out =>
    let inc' := freshFrom key used (used.length + 1) inc
    let name := key ++ "--" ++ toString inc'
    renameGroup key r inc' (name :: used) (setAt out i name)

def renameAll (keys : List String) : List String → List String → List String → List String × List String
  | [], used, out => (used, out)
  | g :: r, used, out =>
    let res := renameGroup g (positions g keys) 0 used out
    renameAll keys r res.1 res.2

/-- `rawKeys` after `updateKeys` -/
def uniq (keys : List String) : List String :=
  let single := keys.filter (fun k => count k keys = 1)
  (renameAll keys (groupOrder keys) single keys).2

/-- the renamed keys (`sharedUniqueKeys`) -/
def renamed (keys : List String) : List String :=
  (List.range keys.length).filterMap (fun i => if count (keys[i]?.getD "") keys > 1 then (uniq keys)[i]? else none)

/-! ### what an item is told -/

inductive Mark where
  | none                    -- no subtree: nothing below this item changed
  | all                     -- `true`
  | sub (keyMarked : Bool)  -- a subtree; does it mark the key field (or is the key `*this`)
deriving DecidableEq, Repr

/-- the per-item trees handed to `updateListItem` (`updatePathTree[i]`), for an object tree over positions / field names -/
def marks (oldKeys newKeys : List String) (tree : List Mark) : List Mark :=
  let needUpdate := tree.any (fun m => m = .all || m = .sub true)
  if needUpdate then
    (List.range newKeys.length).map fun i =>
      let k := (uniq newKeys)[i]?.getD ""
      if k ∈ renamed oldKeys ∨ k ∈ renamed newKeys then Mark.all
      else match tree[i]?.getD .none with
        | .none => .none
        | .all => .all
        | .sub true => .all
        | .sub false => .sub false
  else (List.range newKeys.length).map fun i => tree[i]?.getD .none

/-- the old position whose node the new item `i` gets (`oldKeyMap[newRawKeys[i]]`) -/
def reuse (oldKeys newKeys : List String) (i : Nat) : Option Nat :=
  match (uniq newKeys)[i]? with
  | some k => let j := (uniq oldKeys).idxOf k; if j < oldKeys.length then some j else none
  | none => none

end GE.Rlm
