/-!
Model of the position bookkeeping of `ParseState` (`parse/mod.rs`): `next` / `skip_whitespace` advance
character by character, `skip_bytes` advances in bulk.  Lines break at `\n` only; columns count UTF-16
code units.
-/
namespace GE.Pos

structure Pos where
  line : Nat
  col : Nat
deriving DecidableEq, Repr

def utf16Len (c : Char) : Nat := if c.toNat < 0x10000 then 1 else 2

def utf16Length (s : List Char) : Nat := (s.map utf16Len).sum

/-- `next` and the loop body of `skip_whitespace` -/
def step (p : Pos) (c : Char) : Pos :=
  if c = '\n' then ⟨p.line + 1, 0⟩ else ⟨p.line, p.col + utf16Len c⟩

def advance (p : Pos) (s : List Char) : Pos := s.foldl step p

/-- does the text contain a line feed -/
def hasLf : List Char → Bool
  | [] => false
  | c :: r => if c = '\n' then true else hasLf r

/-- number of line feeds -/
def lfCount : List Char → Nat
  | [] => 0
  | c :: r => (if c = '\n' then 1 else 0) + lfCount r

/-- the text after the last `\n` of `s` (all of `s` if there is none) -/
def lastLine : List Char → List Char
  | [] => []
  | c :: r => if hasLf r then lastLine r else (if c = '\n' then r else c :: r)

/-- `skip_bytes`: count the line feeds of the skipped text; with at least one the column restarts at
the text after the last one, otherwise it grows by the text's UTF-16 length -/
def skipBytes (p : Pos) (s : List Char) : Pos :=
  let n := lfCount s
  if n > 0 then ⟨p.line + n, utf16Length (lastLine s)⟩ else ⟨p.line, p.col + utf16Length s⟩

/-- position of the end of a prefix -/
def posOf (s : List Char) : Pos := advance ⟨0, 0⟩ s

/-- lexicographic order of positions (`Position: Ord`) -/
def Pos.lt (a b : Pos) : Prop := a.line < b.line ∨ (a.line = b.line ∧ a.col < b.col)

end GE.Pos
