// Tagged JSON encoding of JavaScript values (both directions), see README.md "Value encoding".
//
//   {"$":"undefined"} {"$":"nan"} {"$":"-0"} {"$":"inf"} {"$":"-inf"} {"$":"hole"} (inside arrays)
//   {"$":"fn","name":N}      a function of POOL (encode: "?" for any other function)
//   {"$":"obj0","v":{..}}    decode only: object with null prototype (encode prints them as plain objects)
//   {"$":"splice","arr":[..],"own":{..}}   Object.create(<array>) + own keys (update path tree of a splice)
//   {"$":"esc","v":{..}}     a plain object that itself has a key "$"
//   {"$":"cycle"} {"$":"other","s":String(v)}   encode only
//
// decode(v, {nullProto:true}) builds every JSON object as a null-prototype object (update path trees).

export const POOL = {
  id: (x) => x,
  k1: () => 1,
  add: (a, b) => a + b,
  str: (x) => String(x),
  len: (x) => (x == null ? 0 : x.length),
  neg: (x) => !x,
  obj: () => ({ p: 1, q: { r: 2 } }),
  arr: () => [1, 2, 3],
}
const POOL_NAMES = new Map(Object.keys(POOL).map((k) => [POOL[k], k]))
// give them their pool name (shows up as listener name in ENV.DEV)
for (const k of Object.keys(POOL)) Object.defineProperty(POOL[k], 'name', { value: k })

const hasOwn = (o, k) => Object.prototype.hasOwnProperty.call(o, k)
const setKey = (o, k, v) => {
  if (k === '__proto__') Object.defineProperty(o, k, { value: v, writable: true, enumerable: true, configurable: true })
  else o[k] = v
}

const decodeObj = (src, nullProto) => {
  const o = nullProto ? Object.create(null) : {}
  const keys = Object.keys(src)
  for (let i = 0; i < keys.length; i += 1) setKey(o, keys[i], decode1(src[keys[i]], nullProto))
  return o
}

const decodeArr = (src, nullProto) => {
  const a = new Array(src.length)
  for (let i = 0; i < src.length; i += 1) {
    const x = src[i]
    if (x !== null && typeof x === 'object' && x.$ === 'hole') continue
    a[i] = decode1(x, nullProto)
  }
  return a
}

const decode1 = (v, nullProto) => {
  if (v === null || typeof v !== 'object') return v
  if (Array.isArray(v)) return decodeArr(v, nullProto)
  if (hasOwn(v, '$')) {
    switch (v.$) {
      case 'undefined':
        return undefined
      case 'nan':
        return NaN
      case '-0':
        return -0
      case 'inf':
        return Infinity
      case '-inf':
        return -Infinity
      case 'hole':
        return undefined
      case 'fn': {
        if (!hasOwn(POOL, v.name)) throw new Error(`decode: unknown pool function "${v.name}"`)
        return POOL[v.name]
      }
      case 'obj0':
        return decodeObj(v.v || {}, true)
      case 'esc':
        return decodeObj(v.v || {}, nullProto)
      case 'splice': {
        if (!Array.isArray(v.arr)) throw new Error('decode: {"$":"splice"} needs "arr"')
        const o = Object.create(decodeArr(v.arr, nullProto))
        const own = v.own || {}
        const keys = Object.keys(own)
        for (let i = 0; i < keys.length; i += 1) setKey(o, keys[i], decode1(own[keys[i]], nullProto))
        return o
      }
      default:
        throw new Error(`decode: unknown tag ${JSON.stringify(v.$)}`)
    }
  }
  return decodeObj(v, nullProto)
}

export const decode = (v, opts) => decode1(v, !!(opts && opts.nullProto))

const MAX_DEPTH = 256

const other = (v) => {
  let s
  try {
    s = String(v)
  } catch {
    try {
      s = Object.prototype.toString.call(v)
    } catch {
      s = '<unprintable>'
    }
  }
  return { $: 'other', s }
}

const encodeKeys = (v, keys, stack, depth) => {
  const o = Object.create(null)
  for (let i = 0; i < keys.length; i += 1) o[keys[i]] = encode1(v[keys[i]], stack, depth)
  return o
}

const encode1 = (v, stack, depth) => {
  switch (typeof v) {
    case 'undefined':
      return { $: 'undefined' }
    case 'boolean':
    case 'string':
      return v
    case 'number':
      if (v !== v) return { $: 'nan' }
      if (v === 0) return 1 / v < 0 ? { $: '-0' } : 0
      if (v === Infinity) return { $: 'inf' }
      if (v === -Infinity) return { $: '-inf' }
      return v
    case 'function':
      return { $: 'fn', name: POOL_NAMES.get(v) || '?' }
    case 'object':
      break
    default:
      return other(v) // symbol, bigint
  }
  if (v === null) return null
  if (stack.indexOf(v) >= 0) return { $: 'cycle' }
  if (depth > MAX_DEPTH) return { $: 'other', s: '<too deep>' }
  stack.push(v)
  try {
    if (Array.isArray(v)) {
      const n = v.length
      const a = new Array(n)
      for (let i = 0; i < n; i += 1) a[i] = i in v ? encode1(v[i], stack, depth + 1) : { $: 'hole' }
      return a
    }
    const proto = Object.getPrototypeOf(v)
    if (proto !== null && Array.isArray(proto)) {
      return { $: 'splice', arr: encode1(proto, stack, depth + 1), own: encodeKeys(v, Object.keys(v), stack, depth + 1) }
    }
    const tag = Object.prototype.toString.call(v)
    if (tag !== '[object Object]') return other(v) // Date, RegExp, Map, Error, boxed primitives, ...
    const keys = Object.keys(v)
    const o = encodeKeys(v, keys, stack, depth + 1)
    return keys.indexOf('$') >= 0 ? { $: 'esc', v: o } : o
  } finally {
    stack.pop()
  }
}

/** Total: never throws (getters/proxies that throw give {"$":"other"}). */
export const encode = (v) => {
  try {
    return encode1(v, [], 0)
  } catch (e) {
    return { $: 'other', s: `<encode failed: ${e && e.message}>` }
  }
}
