/-
`bindmap_refines` for the executable instance that is compared with the real runtime: its hypothesis `SameBut` is discharged —
an expression whose data fields do not include `f` evaluates the same under two data objects that agree on every other
top-level field (`evalE_congr`, by induction over the compiler's expression AST).
-/
import GE.Thm.C07Tag
import GE.Thm.C06TagJson

namespace GE.TagSem
open GE.TagScope

theorem evalE_congr (f : String) (D0 D1 : J) (h : ∀ k, k ≠ f → J.member D0 k = J.member D1 k) (sc : List J) :
    ∀ e : Expr, f ∉ dataFields e → evalE D0 sc e = evalE D1 sc e
  | .scope _, _ => rfl
  | .data n, hf => by
    simp only [dataFields, List.mem_singleton] at hf
    simp only [evalE]
    exact h n (fun hn => hf hn.symm)
  | .toStr e, hf => by simp only [dataFields] at hf; simp only [evalE, evalE_congr f D0 D1 h sc e hf]
  | .undef, _ | .null, _ | .str _, _ | .int _, _ | .float _, _ | .bool _, _ | .obj _, _ | .arr _, _ | .call _ _, _ => rfl
  | .smember o n, hf => by simp only [dataFields] at hf; simp only [evalE, evalE_congr f D0 D1 h sc o hf]
  | .dmember o k, hf => by
    simp only [dataFields, List.mem_append, not_or] at hf
    simp only [evalE, evalE_congr f D0 D1 h sc o hf.1, evalE_congr f D0 D1 h sc k hf.2]
  | .un op e, hf => by
    simp only [dataFields] at hf
    cases op <;> simp only [evalE, evalE_congr f D0 D1 h sc e hf]
  | .bin op l r, hf => by
    simp only [dataFields, List.mem_append, not_or] at hf
    cases op <;> simp only [evalE, evalE_congr f D0 D1 h sc l hf.1, evalE_congr f D0 D1 h sc r hf.2]
  | .cond c t e, hf => by
    simp only [dataFields, List.mem_append, not_or] at hf
    simp only [evalE, evalE_congr f D0 D1 h sc c hf.1.1, evalE_congr f D0 D1 h sc t hf.1.2, evalE_congr f D0 D1 h sc e hf.2]

theorem json_sameBut (f : String) (D0 D1 : J) (h : ∀ k, k ≠ f → J.member D0 k = J.member D1 k) : SameBut jsonSem f D0 D1 := by
  intro e sc hr
  cases e with
  | expr x =>
    simp only [jsonSem, decide_eq_false_iff_not] at hr
    simp only [jsonSem, evalTE]
    exact evalE_congr f D0 D1 h sc x hr
  | mix ps =>
    simp only [jsonSem, List.any_eq_false] at hr
    simp only [jsonSem, evalTE]
    have : ps.map (pieceVal D0 sc) = ps.map (pieceVal D1 sc) := by
      apply List.map_congr_left
      intro p hp
      cases p with
      | inl s => rfl
      | inr x =>
        have := hr (.inr x) hp
        have hnot : f ∉ dataFields x := by simpa using this
        simp only [pieceVal, evalE_congr f D0 D1 h sc x hnot]
    rw [this]

/-- the functions that are run against the implementation: when two data objects differ only in the top-level field `f`, which the template
advertises, running the updaters of `f` ends, up to creation times, in the tree of a fresh creation -/
theorem json_bindmap_refines (t : Tpl TE) (f : String) (D0 D1 : J) (h : ∀ k, k ≠ f → J.member D0 k = J.member D1 k)
    (hadv : advertised jsonSem f t = true) (n : Node J) (hn : renders jsonSem D0 [] t n) :
    (bmUpdate jsonSem D1 [] f t n).shape = (create jsonSem 0 D1 [] t).shape :=
  bindmap_refines jsonSem f t D0 D1 (json_sameBut f D0 D1 h) hadv n hn

end GE.TagSem
