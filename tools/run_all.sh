#!/bin/sh
# usage: tools/run_all.sh <tier> <seed>...   — every claimed check, one line per check and seed
TIER="$1"; shift
cd "$(dirname "$0")/.." || exit 2
IDS=$(python3 -c "import json; print(' '.join(c['property_id'] for c in json.load(open('MANIFEST.json'))['checks']))")
for S in "$@"; do
  for ID in $IDS; do
    START=$(date +%s)
    OUT=$(VERIF_SEED=$S ./check $ID --tier $TIER 2>&1 | grep -E "^(OK|VIOLATION)|violation\[" | cut -c1-260 | head -4 | tr '\n' '|')
    echo "seed=$S $ID $(( $(date +%s) - START ))s $OUT"
  done
done
