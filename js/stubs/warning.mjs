// Stub of glass-easel/src/warning.ts
export { dispatchError, triggerWarning } from './backend.mjs'
