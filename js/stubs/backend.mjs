// Stub backend for the real (type-stripped) ProcGenWrapper / RangeListManager / template instance.
//
// It replaces glass-easel's element.ts / shadow_root.ts / component.ts / func_arr.ts / warning.ts.
// Tags named `cmp-…` are stub components (COMPONENT_DEFS: declared properties, external classes, and for
// `cmp-dyn` an inner shadow root in dynamic-slot mode with fixed slot instances); every other tag is a
// native node. Nothing is rendered anywhere: the classes only keep the shadow tree (childNodes / parentNode / parentIndex, maintained exactly like
// Element.insertChildSingleOperation / insertChildBatchInsertion / insertChildBatchRemoval do) and
// record what the template runtime sets on each node.
//
// Any member the runtime reads or writes that is not defined here throws
// `stub backend: missing member "<name>" on <Class>` (see TRAP) instead of being ignored.
import { readFileSync } from 'node:fs'
import {
  COMPONENT_SYMBOL,
  ELEMENT_SYMBOL,
  NATIVE_NODE_SYMBOL,
  SHADOW_ROOT_SYMBOL,
  TEXT_NODE_SYMBOL,
  VIRTUAL_NODE_SYMBOL,
} from './type_symbol.mjs'

// the real `const enum`s, extracted from /repo by build.mjs
import { SlotMode, StyleSegmentIndex } from '../build/enums.mjs'

export { SlotMode, StyleSegmentIndex }

// ---- diagnostics (triggerWarning / dispatchError / safeCallback failures) ------------------------

let diagSink = null
export const setDiagSink = (arr) => {
  diagSink = arr
}
const diag = (kind, msg, extra) => {
  if (diagSink) diagSink.push(extra === undefined ? [kind, msg] : [kind, msg, extra])
}
const errMsg = (e) => {
  try {
    return e instanceof Error || (e && typeof e.message === 'string') ? `${e.name || 'Error'}: ${e.message}` : String(e)
  } catch {
    return '<unprintable error>'
  }
}

export function triggerWarning(msg, _relatedComponent, _element) {
  diag('warning', String(msg))
}

export function dispatchError(err, method, _relatedComponent, _element) {
  diag('error', errMsg(err), method === undefined ? undefined : String(method))
}

export function safeCallback(type, method, caller, args, relatedComponent) {
  // the only user in the template runtime: tryCallPropertyChangeListener(v, oldValue, host, elem)
  if (type === 'Property Change Observer' && args && args[3] && args[3].log) {
    args[3].log.push(['=change', method, args[0], args[1]])
  }
  try {
    return method.apply(caller, args)
  } catch (e) {
    dispatchError(e, `${type || 'Listener'} ${(method && method.name) || '(anonymous)'}`, relatedComponent)
    return undefined
  }
}

// ---- missing-member trap ----------------------------------------------------------------------------

const describe = (o) => {
  try {
    return (o && o.constructor && o.constructor.name) || typeof o
  } catch {
    return 'object'
  }
}
const TRAP = new Proxy(Object.create(null), {
  get(_t, key, receiver) {
    if (typeof key === 'symbol') return undefined
    throw new Error(`stub backend: missing member "${key}" on ${describe(receiver)} (read)`)
  },
  set(_t, key, _v, receiver) {
    if (typeof key === 'symbol') return Reflect.defineProperty(receiver, key, { value: _v, writable: true, configurable: true })
    throw new Error(`stub backend: missing member "${String(key)}" on ${describe(receiver)} (write)`)
  },
})

const mark = (cls, sym) => Object.defineProperty(cls.prototype, sym, { value: true })

// ---- nodes ------------------------------------------------------------------------------------------

// NOTE: all instance members are declared as class fields (define semantics): a plain `this.x = v`
// for a not-yet-existing member would walk the prototype chain into TRAP and throw.
class Node {
  ownerShadowRoot = null
  parentNode = null
  parentIndex = -1
  serial = 0 // creation order within the shadow root (node identity for the dump)
  log = [] // per-step log of setter calls / effects, cleared by the runner between steps
  destroyOnRemoval = false
  slotElement = null
  _$inheritSlots = false
  // private state kept on nodes by proc_gen_wrapper.ts (getTmplArgs / getTmplDevArgs)
  _$wxTmplArgs = undefined
  _$wxTmplDevArgs = undefined

  constructor(owner) {
    this.ownerShadowRoot = owner
    if (owner) this.serial = owner._serial += 1
  }

  destroyBackendElementOnRemoval() {
    this.destroyOnRemoval = true
  }

  toString() {
    return `[stub ${describe(this)} #${this.serial}]`
  }
}
Object.setPrototypeOf(Node.prototype, TRAP)

export class TextNode extends Node {
  _$text = ''

  constructor(text, owner) {
    super(owner)
    this._$text = String(text)
  }

  get textContent() {
    return this._$text
  }

  set textContent(text) {
    this.log.push(['=text', text])
    this._$text = String(text)
  }
}
mark(TextNode, TEXT_NODE_SYMBOL)

const CLASS_NAME_REG_EXP = /[^\s.,]+/g
const matchClassName = (str) => str.match(CLASS_NAME_REG_EXP) || []

const reindex = (childNodes, from) => {
  for (let i = from; i < childNodes.length; i += 1) childNodes[i].parentIndex = i
}

export class Element extends Node {
  childNodes = []
  is = ''
  _$virtual = false
  _$slotName = null
  _$slotValues = null
  slotNodes = undefined
  _$nodeId = ''
  _$nodeSlot = ''
  // recorded state
  attrs = new Map() // updateAttribute (R.r on native nodes, R.a)
  extraAttrs = new Map() // what was set through R.a (tracked by the runner's wrapper of R.a)
  classNames = undefined // string[] once setNodeClass was called
  styleSegments = []
  dataset = new Map()
  marks = new Map()
  listeners = [] // { name, func, final, mutated, capture, handler, isDynamic, lvaluePath }
  pendingEv = null // context handed over by the runner's wrapper of R.v
  modelListeners = new Map()
  modelPaths = new Map()
  worklets = new Map() // tracked by the runner's wrapper of R.wl (no effect on native nodes)
  generics = null
  slotValueApplies = 0

  constructor(owner, virtual) {
    super(owner)
    this._$virtual = virtual
  }

  get id() {
    return this._$nodeId
  }

  set id(x) {
    this._$nodeId = String(x)
  }

  get slot() {
    return this._$nodeSlot
  }

  set slot(x) {
    this.log.push(['=slot', x])
    const newSlot = String(x)
    if (this._$nodeSlot === newSlot) return
    if (this._$inheritSlots) throw new Error('slots-inherited nodes do not support "slot" attribute.')
    this._$nodeSlot = newSlot
  }

  isVirtual() {
    return this._$virtual
  }

  setNodeClass(classNames, _index = StyleSegmentIndex.MAIN) {
    // ClassList#setClassNames
    if (classNames === undefined || classNames === null) this.classNames = []
    else if (Array.isArray(classNames)) this.classNames = matchClassName(classNames.join(' '))
    else this.classNames = matchClassName(String(classNames))
  }

  setNodeStyle(styleSegment, index = 0) {
    this.styleSegments[index] = styleSegment
  }

  setDataset(name, value) {
    this.dataset.set(name, value)
  }

  setMark(name, value) {
    this.marks.set(name, value)
  }

  updateAttribute(name, value) {
    this.attrs.set(name, value)
  }

  setAttribute(name, value) {
    this.attrs.set(name, value)
  }

  addListener(name, func, options = {}) {
    const ctx = this.pendingEv
    this.pendingEv = null
    this.listeners.push({
      name,
      func,
      final: !!options.final,
      mutated: !!options.mutated,
      capture: !!(options.capture || options.useCapture),
      // the handler as computed by the real R.v: a function, or (ENV.DEV) the listener's name
      handler: ctx && typeof ctx.value === 'function' ? ctx.value : func.name,
      isDynamic: ctx ? !!ctx.isDynamic : undefined,
      lvaluePath: ctx ? ctx.lvaluePath : undefined,
    })
  }

  removeListener(name, func, options = {}) {
    // EventTarget#removeListener: looked up by (capture, name, func)
    const capture = !!(options.capture || options.useCapture)
    const i = this.listeners.findIndex((l) => l.name === name && l.func === func && l.capture === capture)
    if (i >= 0) this.listeners.splice(i, 1)
  }

  // --- tree operations (same list semantics as the real Element) ---

  _single(newChild, oriPosIndex, replace) {
    if (newChild && this.ownerShadowRoot !== newChild.ownerShadowRoot) {
      throw new Error('Cannot move the node from one shadow tree to another shadow tree.')
    }
    let posIndex = oriPosIndex
    const relChild = posIndex >= 0 ? this.childNodes[posIndex] : undefined
    const removal = replace && !!relChild && newChild !== relChild
    if (!removal && !newChild) return
    if (newChild) {
      const oldParent = newChild.parentNode
      if (oldParent) {
        const oldPosIndex = newChild.parentIndex
        oldParent.childNodes.splice(oldPosIndex, 1)
        reindex(oldParent.childNodes, oldPosIndex)
        newChild.parentIndex = -1
        if (oldParent === this && oldPosIndex < posIndex) posIndex -= 1
      }
      newChild.parentNode = this
    }
    if (removal && relChild) {
      relChild.parentNode = null
      relChild.parentIndex = -1
    }
    const childNodes = this.childNodes
    if (newChild) {
      if (posIndex < 0) {
        childNodes.push(newChild)
        newChild.parentIndex = childNodes.length - 1
      } else if (removal) {
        childNodes[posIndex] = newChild
        newChild.parentIndex = posIndex
      } else {
        childNodes.splice(posIndex, 0, newChild)
        reindex(childNodes, posIndex)
      }
    } else if (removal) {
      childNodes.splice(posIndex, 1)
      reindex(childNodes, posIndex)
    }
  }

  appendChild(child) {
    this._single(child, this.childNodes.length, false)
  }

  insertChildAt(child, index) {
    this._single(child, index, false)
  }

  insertBefore(child, before) {
    this._single(child, before ? before.parentIndex : -1, false)
  }

  removeChildAt(index) {
    this._single(null, index, true)
  }

  removeChild(child) {
    this._single(null, child.parentIndex, true)
  }

  replaceChildAt(child, index) {
    this._single(child, index, true)
  }

  replaceChild(child, relChild) {
    this._single(child, relChild.parentIndex, true)
  }

  insertChildren(children, posIndex) {
    for (let i = 0; i < children.length; i += 1) {
      const newChild = children[i]
      if (this.ownerShadowRoot !== newChild.ownerShadowRoot) {
        throw new Error('Cannot move the node from one shadow tree to another shadow tree.')
      }
      if (newChild.parentNode) {
        throw new Error('Cannot batch-insert the node which already has a parent.')
      }
      newChild.parentNode = this
    }
    const childNodes = this.childNodes
    if (posIndex >= 0) {
      childNodes.splice(posIndex, 0, ...children)
      reindex(childNodes, posIndex)
    } else {
      const from = childNodes.length
      childNodes.push(...children)
      reindex(childNodes, from)
    }
  }

  removeChildren(posIndex, count) {
    const removed = this.childNodes.splice(posIndex, count)
    reindex(this.childNodes, posIndex)
    for (let i = 0; i < removed.length; i += 1) {
      removed[i].parentNode = null
      removed[i].parentIndex = -1
    }
  }

  selfReplaceWith(replaceWith) {
    if (this.parentNode) this.parentNode.replaceChildAt(replaceWith, this.parentIndex)
  }

  // --- statics used by ProcGenWrapper ---

  static setSlotName(element, name) {
    if (element._$inheritSlots) throw new Error('Slot-inherit mode is not usable in slot element')
    element.log.push(['=slotName', name])
    const slotName = name ? String(name) : ''
    if (element._$slotName === slotName) return
    if (element._$slotName === null) {
      element.slotNodes = []
      if (element.ownerShadowRoot.getSlotMode() === SlotMode.Dynamic) {
        element._$slotValues = Object.create(null)
      }
    }
    element._$slotName = slotName
  }

  static setInheritSlots(element) {
    if (!element._$virtual) throw new Error('Cannot set slot-inherit on non-virtual node')
    if (element._$slotName !== null || element.childNodes.length !== 0) {
      throw new Error('Slot-inherit mode cannot be set when the element has any child node')
    }
    element._$inheritSlots = true
  }

  static setSlotElement(node, slot) {
    // only reachable with dynamic-slot components, which do not exist here; recorded for completeness
    node.slotElement = slot
  }
}
mark(Element, ELEMENT_SYMBOL)

export class NativeNode extends Element {
  constructor(tagName, owner) {
    super(owner, false)
    this.is = tagName
  }

  setModelBindingListener(propName, listener) {
    this.modelListeners.set(propName, listener)
    probeModelListener(this, propName, listener)
  }
}
mark(NativeNode, NATIVE_NODE_SYMBOL)
const MODEL_PROBE = { probe: 'model-binding' }

export class VirtualNode extends Element {
  constructor(virtualName, owner) {
    super(owner, true)
    this.is = virtualName
  }
}
mark(VirtualNode, VIRTUAL_NODE_SYMBOL)

// ---- stub components -----------------------------------------------------------------------------------
// What the template runtime can observe of a component: which properties it declares (DataProxy#replaceProperty
// answers false for the others), its external classes, the change queue (hasPendingChanges / applyDataUpdates),
// and its shadow root's slot mode. `slots` lists the slot instances of a dynamic-slot component's shadow tree.
// (shared with the reference renderer: checklib/tmplgen.py reads the same file)
export const COMPONENT_DEFS = JSON.parse(readFileSync(new URL('./components.json', import.meta.url), 'utf8'))
const DEFAULT_DEF = { props: [], externalClasses: [], slots: null }
export const SLOT_VALUE_NAMES = ['a', 'b', 'sv', 'item', 'xY']
// the value of slot value `name` of slot instance `j` at "epoch" k (a pure function of k: bit i of k flips name i)
export const slotValueAt = (j, name, k) => {
  const i = SLOT_VALUE_NAMES.indexOf(name)
  return `SV${j}:${name}${i >= 0 && (k >> i) & 1 ? '#' : ''}`
}
let slotEpoch = 0
export const setSlotEpoch = (k) => {
  slotEpoch = k
}

// a slot element inside a stub component's shadow tree (only what the runtime reads of it)
class InnerSlot extends Node {
  _$slotName = ''
  _$slotValues = null
  _$virtual = true
  index = 0
  comp = null

  constructor(owner, comp, index, name) {
    super(null)
    this.ownerShadowRoot = owner
    this.comp = comp
    this.index = index
    this._$slotName = name
    const values = Object.create(null)
    for (const n of SLOT_VALUE_NAMES) values[n] = slotValueAt(index, n, slotEpoch)
    this._$slotValues = values
  }

  // Element#slotNodes in dynamic-slot mode: the nodes whose containing slot is this one, in tree order; the containing
  // slot of a node is the slot element of its subtree root below the component (ShadowRoot#getContainingSlot), and
  // slot-inherit virtual nodes are listed together with their descendants (Element.forEachNodeInSlot)
  get slotNodes() {
    const out = []
    const rec = (n) => {
      out.push(n)
      if (n._$inheritSlots) for (const c of n.childNodes) rec(c)
    }
    for (const c of this.comp.childNodes) if (c.slotElement === this) rec(c)
    return out
  }
}

// the shadow root of a stub component: slot mode and, in dynamic-slot mode, ShadowRoot#setDynamicSlotHandler /
// replaceSlotValue / applySlotValueUpdates / applySlotUpdates of shadow_root.ts over the fixed slot instances
class InnerRoot {
  _$slotMode = SlotMode.Single
  _$dynamicSlotsInserted = false
  _$dynamicSlots = new Map()
  _$requiredSlotValueNames = []
  _$insertDynamicSlotHandler = undefined
  _$removeDynamicSlotHandler = undefined
  _$updateDynamicSlotHandler = undefined
  slots = []

  constructor(comp, def) {
    if (def.slots) {
      this._$slotMode = SlotMode.Dynamic
      this.slots = def.slots.map((name, j) => new InnerSlot(this, comp, j, name))
    }
  }

  getSlotMode() {
    return this._$slotMode
  }

  setDynamicSlotHandler(requiredSlotValueNames, insertSlotHandler, removeSlotHandler, updateSlotHandler) {
    if (this._$slotMode !== SlotMode.Dynamic) return
    this._$requiredSlotValueNames = requiredSlotValueNames
    this._$insertDynamicSlotHandler = insertSlotHandler
    this._$removeDynamicSlotHandler = removeSlotHandler
    this._$updateDynamicSlotHandler = updateSlotHandler
    if (this._$dynamicSlotsInserted) {
      for (const slotMeta of this._$dynamicSlots.values()) {
        slotMeta.updatePathTree = slotMeta.updatePathTree || Object.create(null)
      }
    }
  }

  replaceSlotValue(slot, name, value) {
    const slotValues = slot._$slotValues
    if (!slotValues) return
    if (slotValues[name] === value) return
    slotValues[name] = value
    if (this._$requiredSlotValueNames.indexOf(name) < 0) return
    const slotMeta = this._$dynamicSlots.get(slot)
    if (!slotMeta) return
    if (!slotMeta.updatePathTree) slotMeta.updatePathTree = Object.create(null)
    slotMeta.updatePathTree[name] = true
  }

  applySlotValueUpdates(slot) {
    const slotMeta = this._$dynamicSlots.get(slot)
    const tree = slotMeta && slotMeta.updatePathTree
    if (!tree) return
    slotMeta.updatePathTree = undefined
    if (this._$updateDynamicSlotHandler) this._$updateDynamicSlotHandler(slot, slot._$slotValues, tree)
  }

  applySlotUpdates() {
    if (!this._$dynamicSlotsInserted) {
      this._$dynamicSlotsInserted = true
      const slots = []
      for (const slot of this.slots) {
        this._$dynamicSlots.set(slot, { updatePathTree: undefined })
        slots.push({ slot, name: slot._$slotName, slotValues: slot._$slotValues })
      }
      if (this._$insertDynamicSlotHandler) this._$insertDynamicSlotHandler(slots)
    } else {
      for (const [slot, slotMeta] of this._$dynamicSlots.entries()) {
        const tree = slotMeta.updatePathTree
        if (tree) {
          slotMeta.updatePathTree = undefined
          if (this._$updateDynamicSlotHandler) this._$updateDynamicSlotHandler(slot, slot._$slotValues, tree)
        }
      }
    }
  }

  // what the component's own template would do when the values it hands to its slots change
  moveToEpoch(k) {
    for (const slot of this.slots) {
      for (const n of SLOT_VALUE_NAMES) this.replaceSlotValue(slot, n, slotValueAt(slot.index, n, k))
      this.applySlotValueUpdates(slot)
    }
  }
}
Object.setPrototypeOf(InnerRoot.prototype, TRAP)

export class StubComponent extends Element {
  def = DEFAULT_DEF
  props = new Map() // applied property values
  pending = [] // the change queue: [name, value]
  propModelListeners = new Map()
  externalClasses = new Map()
  workletLifetimes = []
  _sr = null

  constructor(tagName, owner) {
    super(owner, false)
    this.is = tagName
    this.def = COMPONENT_DEFS[tagName] || DEFAULT_DEF
    this._sr = new InnerRoot(this, this.def)
  }

  getShadowRoot() {
    return this._sr
  }

  hasPendingChanges() {
    return this.pending.length > 0
  }

  hasExternalClass(name) {
    return this.def.externalClasses.includes(name)
  }

  setExternalClass(name, v) {
    this.externalClasses.set(name, v)
  }

  triggerWorkletChangeLifetime(name, value) {
    this.workletLifetimes.push([name, value])
  }
}
mark(StubComponent, COMPONENT_SYMBOL)

const componentDataProxy = (comp) => ({
  replaceProperty(propName, value) {
    if (!comp.def.props.includes(propName)) return false
    comp.pending.push([propName, value])
    return true
  },
  applyDataUpdates() {
    for (const [k, v] of comp.pending) comp.props.set(k, v)
    comp.pending = []
  },
  setModelBindingListener(propName, listener) {
    comp.propModelListeners.set(propName, listener)
    probeModelListener(comp, propName, listener)
  },
})

// Probe the real closure once to learn which data path it writes to:
// it calls Component.getDataProxy(host).replaceDataOnPath(path, value); applyDataUpdates(false)
const probeModelListener = (elem, propName, listener) => {
  const host = elem.ownerShadowRoot.getHostNode()
  host.modelWrites = []
  try {
    listener.call(elem, MODEL_PROBE)
    const w = host.modelWrites
    // a listener that writes nothing is how the wrapper clears a binding (path became null): same as none
    if (w.length === 0) elem.modelPaths.delete(propName)
    else elem.modelPaths.set(propName, w.length === 1 && w[0][1] === MODEL_PROBE ? w[0][0] : { unexpectedWrites: w.map((x) => x[0]) })
  } catch (e) {
    elem.modelPaths.set(propName, { probeError: errMsg(e) })
  }
  host.modelWrites = null
}

// The host "component" of the shadow root. It is NOT a component for isComponent().
class Host {
  modelWrites = null
  is = 'stub-host'

  getMethodCaller() {
    return this
  }

  toString() {
    return '[stub Host]'
  }
}
Object.setPrototypeOf(Host.prototype, TRAP)

export const Component = {
  getDataProxy(comp) {
    if (comp instanceof StubComponent) return componentDataProxy(comp)
    if (!(comp instanceof Host)) throw new Error('stub backend: Component.getDataProxy on a non-host node')
    return {
      replaceDataOnPath(path, value) {
        if (comp.modelWrites) comp.modelWrites.push([path, value])
      },
      applyDataUpdates() {},
    }
  },
  getMethod(_comp, _name) {
    return undefined
  },
  hasProperty(comp, name) {
    return comp instanceof StubComponent && comp.def.props.includes(name)
  },
}

export class ShadowRoot extends VirtualNode {
  _serial = 0
  _host = new Host()
  _slotMode = SlotMode.Single
  _components = false

  constructor(slotMode = SlotMode.Single, components = false) {
    super('shadow', null)
    this.ownerShadowRoot = this
    this._slotMode = slotMode
    this._components = components
  }

  getHostNode() {
    return this._host
  }

  getSlotMode() {
    return this._slotMode
  }

  createTextNode(text = '') {
    return new TextNode(text, this)
  }

  createNativeNode(tagName) {
    return new NativeNode(tagName, this)
  }

  createVirtualNode(virtualName = 'virtual') {
    return new VirtualNode(virtualName, this)
  }

  // `cmp-…` tags resolve to stub components, every other tag to a native node (ShadowRoot#createNativeNodeWithInit)
  createComponent(tagName, _usingKey, genericTargets, _placeholderCallback, initPropValues) {
    const ret = this._components && /^cmp-/.test(tagName) ? new StubComponent(tagName, this) : new NativeNode(tagName, this)
    ret.generics = genericTargets || null
    if (initPropValues) initPropValues(ret)
    return ret
  }

  replaceSlotValue(slot, name, value) {
    const slotValues = slot._$slotValues
    if (!slotValues) return
    slotValues[name] = value
  }

  applySlotValueUpdates(slot) {
    slot.slotValueApplies += 1
  }
}
mark(ShadowRoot, SHADOW_ROOT_SYMBOL)
