// Stub of glass-easel/src/type_symbol.ts (same symbols and predicates; no component ever exists).
export const TEXT_NODE_SYMBOL = Symbol('TextNode')
export const ELEMENT_SYMBOL = Symbol('Element')
export const NATIVE_NODE_SYMBOL = Symbol('NativeNode')
export const VIRTUAL_NODE_SYMBOL = Symbol('VirtualNode')
export const SHADOW_ROOT_SYMBOL = Symbol('ShadowRootSymbol')
export const COMPONENT_SYMBOL = Symbol('Component')

export const isTextNode = (e) => !!e && e[TEXT_NODE_SYMBOL]
export const isElement = (e) => !!e && e[ELEMENT_SYMBOL]
export const isNativeNode = (e) => !!e && e[NATIVE_NODE_SYMBOL]
export const isVirtualNode = (e) => !!e && e[VIRTUAL_NODE_SYMBOL]
export const isShadowRoot = (e) => !!e && e[SHADOW_ROOT_SYMBOL]
export const isComponent = (e) => !!e && e[COMPONENT_SYMBOL]
