"""corr:child-args — the parameter list of generated children functions and the callbacks their bodies invoke: GE/Model/ChildArgs.lean (tables
regenerated from to_proc_gen_function_args; `calls` hand-written) vs the real compiler on children lists of every combination of node kinds."""
import json, re
from . import core

SNIPPET = {
    "Text": "t{{a}}", "Normal": "<v/>", "If": '<v wx:if="{{c}}"/>', "For": '<v wx:for="{{l}}"/>', "Slot": "<slot/>",
    "Pure": '<block slot="s">t</block>', "Include": '<include src="b"/>', "TemplateRef": '<template is="t"/>', "Comment": "<!-- c -->",
}
KINDS = list(SNIPPET)


def main_children_function(js):
    """(params, body) of the children function of the main template in a generated per-template object"""
    i = js.rfind('H[""]=')
    m = re.search(r"return \{C:([A-Za-z_$][\w$]*),B:A\}", js[i:])
    if i < 0 or not m:
        return None
    name = m.group(1)
    d = re.search(r"[,\s]" + re.escape(name) + r"=\(([A-Z,]*)\)=>\{", js[i:])
    if not d:
        return None
    start = i + d.end()
    depth, k, instr = 1, start, None
    while k < len(js) and depth:
        ch = js[k]
        if instr:
            if ch == "\\":
                k += 1
            elif ch == instr:
                instr = None
        elif ch in "\"'`":
            instr = ch
        elif ch == "{":
            depth += 1
        elif ch == "}":
            depth -= 1
        k += 1
    return d.group(1), js[start:k - 1]


def top_level_callees(body):
    out, depth, k, instr = set(), 0, 0, None
    while k < len(body):
        ch = body[k]
        if instr:
            if ch == "\\":
                k += 1
            elif ch == instr:
                instr = None
        elif ch in "\"'`":
            instr = ch
        elif ch in "({[":
            if ch == "(" and depth == 0 and k > 0 and body[k - 1] in "TEBFSJ" and (k < 2 or not (body[k - 2].isalnum() or body[k - 2] in "_$.")):
                out.add(body[k - 1])
            depth += 1
        elif ch in ")}]":
            depth -= 1
        k += 1
    return out


IF_VARIANTS = ['<v wx:if="{{c}}"/>', '<block wx:if="{{c}}">t</block><slot wx:else/>', '<block wx:if="{{c}}">t</block><v wx:elif="{{a}}"/><include wx:else src="b"/>',
               '<block wx:if="{{c}}"></block><block wx:elif="{{a}}">t</block><block wx:else><v wx:for="{{l}}"/></block>',
               '<v wx:if="{{c}}"/><block wx:else><template is="t"/><v slot:a>{{a}}</v></block>']
FOR_VARIANTS = ['<v wx:for="{{l}}"/>', '<block wx:for="{{l}}">t<slot/></block>', '<block wx:for="{{l}}"><block wx:if="{{item}}">t</block><block wx:else slot="s">u</block></block>']


def all_children_functions(js):
    """every arrow function of the generated code whose first parameter is C: (params, body)"""
    out = []
    for d in re.finditer(r"\((C(?:,[A-Za-z_$][\w$]*)*)\)=>\{", js):
        start = d.end()
        depth, k, instr = 1, start, None
        while k < len(js) and depth:
            ch = js[k]
            if instr:
                if ch == "\\":
                    k += 1
                elif ch == instr:
                    instr = None
            elif ch in "\"'`":
                instr = ch
            elif ch == "{":
                depth += 1
            elif ch == "}":
                depth -= 1
            k += 1
        out.append((d.group(1), js[start:k - 1]))
    return out


def lists(rng, n_random):
    out = [[k] for k in KINDS] + [[a, b] for a in KINDS for b in KINDS if a < b] + [[], ["Comment", "Comment"]]
    for i in range(n_random):
        r = rng.fork(i)
        out.append([r.choice(KINDS) for _ in range(1 + r.below(5))])
    return out


def run(chk, n_random=60, stream="child-args"):
    rng = chk.rng.fork("child-args")
    cases = [(ks, ws) for ks in lists(rng, n_random) for ws in (False, True) if not (ws and "Normal" not in ks)]
    greqs = []
    for ks, ws in cases:
        parts = [SNIPPET[k] for k in ks]
        vi = len(greqs)
        parts = [IF_VARIANTS[(vi + j) % len(IF_VARIANTS)] if k == "If" else FOR_VARIANTS[(vi + j) % len(FOR_VARIANTS)] if k == "For" else p
                 for j, (k, p) in enumerate(zip(ks, parts))]
        if ws:
            i = ks.index("Normal")
            parts[i] = "<v slot:a/>"
        # (separate adjacent texts so that every listed child is a node of its own)
        src = "".join(p if not (j and p.startswith("t{{") and parts[j - 1].startswith("t{{")) else "<!-- s -->" + p for j, p in enumerate(parts))
        greqs.append(core.req("group", json.dumps({"files": [["p", src + '<template name="t">x</template>'], ["b", "inc"]], "scripts": []})))
    outs = core.run_harness(greqs)
    reqs, real = [], []
    for (ks, ws), a in zip(cases, outs):
        if a.startswith("PANIC"):
            chk.violation("input", f"compiler panicked on a children list of kinds {ks}: {a[:200]}", kinds=ks)
            continue
        js = json.loads(a)["per"].get("p")
        f = main_children_function(js) if isinstance(js, str) else None
        if f is None:
            chk.violation("correspondence", "child-args: the main children function was not found in the generated code", kinds=ks, js=(js or "")[:600])
            continue
        params, body = f
        letters = top_level_callees(body)
        # oracle (model-independent): every callback the body invokes at statement level is a parameter
        missing = sorted(letters - set(params.split(",")))
        if missing:
            chk.violation("input", f"the children function ({params})=>{{…}} invokes {missing}, which are not among its parameters", kinds=ks, slot_values=ws, js=js[:1500])
        for (ps, bd) in all_children_functions(js):
            miss = sorted(top_level_callees(bd) - set(ps.split(",")))
            if miss:
                chk.violation("input", f"a generated function ({ps})=>{{…}} invokes {miss}, which are not among its parameters", kinds=ks, slot_values=ws, js=js[:2500])
                break
        reqs.append(core.req("child_args", ",".join(ks), "1" if ws else "0"))
        real.append(params + "\t" + ",".join(x for x in "TEBFSJ" if x in letters))
    nd = core.diff_streams(chk, stream, reqs, real, core.run_driver(reqs) if core.MODEL_OK else real)
    return nd == 0
