import GE.Codec
import GE.Model.Path
/-!
Model driver: one request per line (`op TAB field…`), one answer line per request.
Unknown ops answer `bad-op` (never defaulted).
-/
namespace GE.Driver
open GE.Codec

def chars (s : String) : List Char := s.toList
def str (l : List Char) : String := String.ofList l

def step (fs : List String) : String :=
  match fs with
  | ["path_normalize", p] => esc (str (GE.Path.normalize (chars p)))
  | ["path_resolve", b, r] => esc (str (GE.Path.resolve (chars b) (chars r)))
  | _ => "bad-op"

partial def loop (h : IO.FS.Stream) (out : IO.FS.Stream) : IO Unit := do
  let line ← h.getLine
  if line.isEmpty then return ()
  let line := if line.endsWith "\n" then (line.dropEnd 1).toString else line
  out.putStrLn (step (fields line))
  loop h out

end GE.Driver
