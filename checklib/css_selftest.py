"""Self-test of the stylesheet generator + oracles.

  GE_CSS_HARNESS=/tmp/harness_css/target/debug/geharness python3 -m checklib.css_selftest [N] [seed] [--no-shrink]

* N generated stylesheets x generated options (plus N/4 mutated ones, C01 only) go through the
  harness `css` op; every check runs; a table classification -> count is printed, with one
  (shrunk) example input per classification.
* fault injection: for cases on which every check holds, the output is damaged (a span of
  non-blank characters deleted, re-tokenised through the harness) and the checks must notice;
  checking with other options than the ones used (prefix, ratio) must be noticed too.

Without GE_CSS_HARNESS the regular harness binary (`geharness run`) is used; it must know `css`.
"""
import json, os, sys, time

sys.path.insert(0, os.path.dirname(os.path.dirname(os.path.abspath(__file__))))
from checklib import core, cssgen, cssoracle  # noqa: E402


def harness_cmd():
    b = os.environ.get("GE_CSS_HARNESS")
    if b:
        return b, []
    return core.HARNESS_BIN, ["run"]


def run_css(cases):
    """cases: [(opts dict, css text)] -> [decoded answer]"""
    if not cases:
        return []
    lines = [core.req("css", json.dumps(o), s) for o, s in cases]
    b, args = harness_cmd()
    rc, out, err = core.run_lines(b, args, lines)
    if rc != 0 or len(out) != len(lines):
        raise core.BrokenTie("harness-run", "rc=%s answers=%d/%d %s" % (rc, len(out), len(lines), err[-2000:]))
    return [json.loads(l) for l in out]


def classes_of(opts, res, well_formed=True):
    """{(prop, classification): first problem}"""
    probs = cssoracle.run_all(opts, res) if well_formed else {"C01": cssoracle.check_c01(opts, res)}
    found = {}
    for pid, ps in probs.items():
        for p in ps:
            found.setdefault((pid, p["classification"]), p)
    return found


def is_well_formed(res):
    """brackets balanced, no bad-string / bad-url / stray closer tokens in the input"""
    ti = res.get("tokens_in", "")
    if any(("(" + k + " ") in ti for k in ("badstr", "badurl", "closeparen", "closesquare", "closecurly")):
        return False
    return all(c[4] for c in res.get("closers_in", []))


def shrink(opts, css, key, well_formed, budget=1500):
    """delta-debugging on characters: smallest input (found) that still shows classification `key`
    (and is still well-formed, if the original was)"""
    cur = css
    size = max(1, len(cur) // 2)
    used = 0
    while size >= 1 and used < budget:
        cands = []
        i = 0
        while i < len(cur):
            cands.append(cur[:i] + cur[i + size:])
            i += size
        cands = [c for c in cands if c != cur]
        # smaller first; one harness batch per round
        answers = run_css([(opts, c) for c in cands])
        used += len(cands)
        hit = None
        for c, res in zip(cands, answers):
            if well_formed and not is_well_formed(res):
                continue
            if key in classes_of(opts, res, well_formed):
                hit = c
                break
        if hit is not None:
            cur = hit
            size = min(size, max(1, len(cur) // 2))
        else:
            size //= 2
    return cur


def fault_injection(clean, rng):
    """clean: [(opts, css, res)] on which every check holds"""
    stats = dict(damaged=0, damaged_caught=0, opts=0, opts_caught=0, missed=[])
    # 1. damaged outputs
    jobs = []
    for o, s, res in clean:
        out = res["normal"]
        idx = [i for i, c in enumerate(out) if not c.isspace()]
        if not idx:
            continue
        i = idx[rng.below(len(idx))]
        j = i + 1 + rng.below(3)
        bad = out[:i] + out[j:]
        if bad == out:
            continue
        jobs.append((o, s, res, bad, (i, j)))
    retok = run_css([({}, bad) for _, _, _, bad, _ in jobs])
    for (o, s, res, bad, span), rt in zip(jobs, retok):
        if "panic" in rt:
            continue
        r2 = {k: v for k, v in res.items() if not k.startswith("_")}
        r2["normal"] = bad
        r2["tokens_normal"] = rt["tokens_in"]
        r2["closers_normal"] = rt["closers_in"]
        found = classes_of(o, r2)
        stats["damaged"] += 1
        if any(k[0] in ("C08", "C09", "C10", "C17", "C18") for k in found):
            stats["damaged_caught"] += 1
        else:
            stats["missed"].append(dict(opts=o, css=s, output=res["normal"], damaged=bad, span=span, found=sorted(found)))
    # 2. checking against other options than the ones the output was made with
    for o, s, res in clean:
        r2 = {k: v for k, v in res.items() if not k.startswith("_")}
        has_class = '(delim "." ' in res["tokens_in"]
        has_rpx = '"rpx" ' in res["tokens_in"]
        if has_rpx:
            o2 = dict(o, rpx_ratio=o["rpx_ratio"] * 2)
            stats["opts"] += 1
            found = classes_of(o2, dict(r2))
            if any(k == ("C10", "rpx-wrong") for k in found):
                stats["opts_caught"] += 1
            else:
                stats["missed"].append(dict(opts=o, check_opts=o2, css=s, found=sorted(found)))
        if has_class and "selector" in "selector":
            o2 = dict(o, class_prefix=(o["class_prefix"] or "") + "zz")
            found = classes_of(o2, dict(r2))
            # only meaningful if a class selector (not `.5` or `a.b` in a value) exists: judged by C09 speaking up
            an = cssoracle.analyze(o2, dict(r2))
            n_class = sum(1 for e in cssoracle._walk_e(an.exp_n) if e.role == "class")
            if n_class:
                stats["opts"] += 1
                if any(k[0] == "C09" for k in found):
                    stats["opts_caught"] += 1
                else:
                    stats["missed"].append(dict(opts=o, check_opts=o2, css=s, found=sorted(found)))
    return stats


def main():
    args = [a for a in sys.argv[1:] if not a.startswith("--")]
    do_shrink = "--no-shrink" not in sys.argv
    n = int(args[0]) if len(args) > 0 else 2000
    seed = int(args[1]) if len(args) > 1 else 20260929
    rng = core.SplitMix64(seed)
    t0 = time.time()
    cases = []
    for i in range(n):
        r = rng.fork("css:%d" % i)
        css = cssgen.gen_stylesheet(r.fork("sheet"), 1 + r.below(6))
        cases.append((cssgen.gen_options(r.fork("opts")), css, i, "wf"))
    nm = max(1, n // 4)
    for i in range(nm):
        r = rng.fork("mut:%d" % i)
        base = cases[r.below(n)][1]
        cases.append((cssgen.gen_options(r.fork("opts")), cssgen.mutate(r.fork("m"), base), i, "mut"))
    t1 = time.time()
    answers = run_css([(o, s) for o, s, _, _ in cases])
    t2 = time.time()
    table = {}
    clean = []
    not_wf = 0
    for (o, s, i, kind), res in zip(cases, answers):
        if kind == "wf" and not is_well_formed(res):
            not_wf += 1
        probs = {"C01": cssoracle.check_c01(o, res)} if kind == "mut" else cssoracle.run_all(o, res)
        any_p = False
        for pid, ps in probs.items():
            for p in ps:
                any_p = True
                k = (pid, p["classification"])
                e = table.setdefault(k, dict(count=0, cases=set(), example=None))
                e["count"] += 1
                e["cases"].add((kind, i))
                if e["example"] is None or len(s) < len(e["example"][1]):
                    e["example"] = (o, s, p, kind)
        if not any_p and kind == "wf":
            clean.append((o, s, res))
    t3 = time.time()
    print("stylesheets: %d well-formed + %d mutated; generator produced %d inputs that are not well-formed; "
          "well-formed cases on which every check holds: %d" % (n, nm, not_wf, len(clean)))
    print("generate %.2fs  harness %.2fs (%.0f sheets/s)  oracles %.2fs (%.0f sheets/s)  end-to-end %.0f sheets/s"
          % (t1 - t0, t2 - t1, len(cases) / max(1e-9, t2 - t1), t3 - t2, len(cases) / max(1e-9, t3 - t2),
             len(cases) / max(1e-9, t3 - t0)))
    fi = fault_injection(clean[:400], rng.fork("fault"))
    print("fault injection: damaged outputs noticed %d/%d; wrong-options noticed %d/%d"
          % (fi["damaged_caught"], fi["damaged"], fi["opts_caught"], fi["opts"]))
    for m in fi["missed"][:5]:
        print("   MISSED: %s" % json.dumps(m, ensure_ascii=False)[:1500])
    print()
    print("%-5s %-82s %7s %6s" % ("prop", "classification", "count", "cases"))
    for (pid, cls), e in sorted(table.items()):
        print("%-5s %-82s %7d %6d" % (pid, cls, e["count"], len(e["cases"])))
    print()
    t4 = time.time()
    for (pid, cls), e in sorted(table.items()):
        o, s, p, kind = e["example"]
        if do_shrink:
            s2 = shrink(o, s, (pid, cls), kind == "wf")
            res = run_css([(o, s2)])[0]
            p = classes_of(o, res, kind == "wf").get((pid, cls), p)
            s = s2
        print("== %s %s" % (pid, cls))
        print("   what:    %s" % p["what"])
        for k in ("at", "expected", "got", "context"):
            if p.get(k) is not None:
                print("   %-8s %s" % (k + ":", json.dumps(p[k], ensure_ascii=False) if not isinstance(p[k], str) else p[k].replace("\n", "\\n")))
        print("   opts:    %s" % json.dumps(o, ensure_ascii=False))
        print("   css:     %s" % json.dumps(s if len(s) < 600 else s[:600] + "…", ensure_ascii=False))
    if do_shrink:
        print("(examples shrunk in %.1fs)" % (time.time() - t4))
    return 0


if __name__ == "__main__":
    sys.exit(main())
