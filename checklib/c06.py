"""C06 — incremental update is sound: marked changes are never missed (DESIGN.md §9 C06)."""
import json
from . import core, tmplgen as tg, render, update as up

THEOREMS = [
    "GE.PA.analysis_covers_fields",
    "GE.PA.covers",
    "GE.PA.covers_arr",
]


def run(chk):
    quick = chk.tier != "thorough"
    chk.rule = ("generated templates (all expression forms, nested if/for/template-is, keyed and unkeyed lists) x data histories D0..Dn from random leaf "
                "replacements and list growth/shrink/reorder x update-path trees that cover diff(Di-1,Di) by construction (exact, coarsened, `true`): tree "
                "after create(D0);update(D1,U1);… vs fresh create(Dn), both under the REAL runtime; plus guard-string model/implementation stream (in C03's "
                "stream); non-trivial = history in which the final tree differs from the initial one")
    chk.trusted = ["Lean 4.33 kernel", "axioms ⊆ {propext, Classical.choice, Quot.sound}",
                   "GE/Model/PathAnalysis.lean tied by byte-equality of guard / template-data tree strings with the real generator (stream in the C03 check, re-run here)",
                   "real ProcGenWrapper + RangeListManager under node 22 with a stub backend", "update trees built by the oracle from diff(D,D')"]
    chk.assumptions = ["PARTIAL: proved = no dependency root is forgotten by the analysis (analysis_covers_fields); the value-level guard_sound and update_refines "
                       "are established by the oracle only",
                       "the list protocol of RangeListManager (TypeScript) is executed, not modelled"]
    failed, log = chk.prove("GE.Thm.C06", THEOREMS)
    for t in failed:
        chk.violation("proof", f"obligation {t} no longer checks", theorem=t, log=log[-3000:])
    ok, log = core.lake_build(["gedriver"])
    if not ok:
        raise core.BrokenTie("driver-build", log)
    rng = chk.rng.fork("c06")
    # guard strings: model vs implementation on a sample of expressions (full stream lives in C03)
    from . import exprgen as eg
    trees = eg.enum_depth2()[:: (9 if quick else 2)] + [eg.rand_tree(rng, 3, 1) for _ in range(150 if quick else 3000)]
    reqs = [core.req("expr", eg.src(t, "min"), "1:1", "0") for t in trees]
    real = core.run_harness(reqs)
    dreqs, dreal = [], []
    for a in real:
        f = a.split("\t")
        if f[0] == "none" or len(f) < 13:
            continue
        dreqs.append(core.req("expr_gen", core.unesc(f[0]), "1:1"))
        dreal.append("\t".join([f[3], f[4], f[12], f[5], f[6]]))
    core.diff_streams(chk, "guards", dreqs, dreal, core.run_driver(dreqs))
    # ---- oracle -------------------------------------------------------------------------------
    n = 400 if quick else 8000
    ts, srcs = [], []
    for i in range(n):
        g = tg.TmplGen(rng.fork(("t", i)), max_depth=3)
        t = g.template()
        ts.append(t)
        srcs.append(tg.Printer().template(t))
    groups = render.compile_templates([[["p", s]] for s in srcs])
    reqs, meta = [], []
    for i, (t, g) in enumerate(zip(ts, groups)):
        if "panic" in g or not isinstance(g.get("gen_groups"), str):
            chk.violation("input", "compiler failed on generated template", template=srcs[i], answer=json.dumps(g)[:300])
            continue
        r = rng.fork(("h", i))
        D0 = render.DATA_POOL[i % len(render.DATA_POOL)]
        hist = [D0]
        steps = [{"create": D0}]
        for s in range(1 + r.below(3)):
            D1 = up.mutate_data(r, hist[-1], focus=[k for k in D0 if k in srcs[i]])
            u = up.diff_tree(hist[-1], D1)
            mode = r.below(3)
            if mode == 1:
                u = up.coarsen(r, u)
            elif mode == 2 and u is not None:
                u = True
            steps.append({"update": D1, "U": up.tree_to_req(u)})
            hist.append(D1)
        reqs.append({"op": "render", "gen_groups": g["gen_groups"], "path": "p", "steps": steps})
        reqs.append({"op": "render", "gen_groups": g["gen_groups"], "path": "p", "steps": [{"create": hist[-1]}]})
        meta.append((i, hist, steps))
    outs = core.run_node(reqs)
    nb = 0
    for k, (i, hist, steps) in enumerate(meta):
        a, b = outs[2 * k], outs[2 * k + 1]
        if "snapshots" not in b or not b["snapshots"]:
            chk.bump("oracle:fresh-create-failed")
            continue
        fresh = up.project_state(b["snapshots"][0]["tree"])
        if "error" in a or len(a.get("snapshots", [])) != len(steps):
            # the updated instance threw although a fresh creation with the same data works
            nb += 1
            if nb <= 3:
                chk.violation("input", f"update threw: {a.get('error')}", template=srcs[i], history=hist, steps=steps)
            continue
        upd = up.project_state(a["snapshots"][-1]["tree"])
        first = up.project_state(a["snapshots"][0]["tree"])
        chk.case((srcs[i], json.dumps(steps)[:80]), nontrivial=json.dumps(first) != json.dumps(fresh),
                 sample=dict(template=srcs[i][:200], steps=steps) if len(chk.samples) < 3 and len(srcs[i]) < 200 else None)
        if json.dumps(upd) != json.dumps(fresh):
            nb += 1
            if nb <= 3:
                chk.violation("input", "tree after incremental update differs from a fresh creation with the final data",
                              template=srcs[i], history=hist, steps=steps, updated=upd, fresh=fresh)
    chk.programs = len(meta)
    chk.bump("oracle:histories", len(meta))
    chk.bump("oracle:stale", nb)


def replay(chk, path):
    o = json.load(open(path))["first"]
    if "template" in o and "steps" in o:
        g = render.compile_templates([[["p", o["template"]]]])[0]
        a, b = core.run_node([{"op": "render", "gen_groups": g["gen_groups"], "path": "p", "steps": o["steps"]},
                              {"op": "render", "gen_groups": g["gen_groups"], "path": "p", "steps": [{"create": o["history"][-1]}]}])
        x, y = up.project_state(a["snapshots"][-1]["tree"]), up.project_state(b["snapshots"][0]["tree"])
        print("updated", json.dumps(x)[:1500]); print("fresh  ", json.dumps(y)[:1500])
        if json.dumps(x) != json.dumps(y):
            chk.violation("input", "replayed: stale tree", template=o["template"], history=o["history"], steps=o["steps"])
    return chk.finish()
