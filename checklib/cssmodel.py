"""Correspondence between the Lean model of the stylesheet transformer and the implementation:
same token tree in, compare output token streams (numbers with tolerance), warnings, source-map entries."""
import json, struct, subprocess
from . import core
from .cssoracle import _SX, _unq

WARN_NAMES = {"illegal import position": "IllegalImportPosition", "unexpected character": "UnexpectedCharacter",
              "host selector combination": "HostSelectorCombination"}


def warn_name(msg):
    m = msg.lower()
    if "@import" in m:
        return "IllegalImportPosition"
    if ":host" in m:
        return "HostSelectorCombination"
    if "unexpected" in m:
        return "UnexpectedCharacter"
    return msg


def sx_parse(s):
    toks = _SX.findall(s)
    pos = [0]

    def rd():
        t = toks[pos[0]]; pos[0] += 1
        if t == "(":
            out = []
            while toks[pos[0]] != ")":
                out.append(rd())
            pos[0] += 1
            return out
        if t.startswith('"'):
            return ("s", _unq(t))
        return t

    return rd()


def f32val(bits):
    return struct.unpack("<f", struct.pack("<I", int(bits) & 0xFFFFFFFF))[0]


def norm_leaf(l):
    """comparison form of a leaf token list (positions removed)"""
    k = l[0]
    args = [a for a in l[1:] if not (isinstance(a, str) and a.startswith("@"))]
    if k in ("num", "pct", "dim"):
        sign, text, bits, iv = args[0], args[1], args[2], args[3]
        unit = args[4][1] if k == "dim" else None
        return (k, "+" if sign == "+" else "", ("int", int(iv)) if iv != "none" else ("f", f32val(bits)), unit)
    if k == "ws":
        return ("ws",)
    return (k,) + tuple(a[1] if isinstance(a, tuple) else a for a in args)


def flatten_real(tree, out):
    for t in tree:
        k = t[0]
        if k in ("fn", "paren", "square", "curly"):
            body = [x for x in t[1:] if isinstance(x, list)]
            if k == "fn":
                out.append(("open", "fn", t[1][1]))
            else:
                out.append(("open", k))
            flatten_real(body, out)
            out.append(("close", "paren" if k == "fn" else k))
        else:
            out.append(norm_leaf(t))
    return out


def flatten_model(tree):
    out = []
    for t in tree:
        if t[0] == "open":
            out.append(("open", t[1], t[2][1]) if t[1] == "fn" else ("open", t[1]))
        elif t[0] == "close":
            out.append(("close", t[1]))
        else:
            out.append(norm_leaf(t))
    return out


def leaf_eq(a, b):
    if a[0] in ("num", "pct", "dim") and b[0] == a[0]:
        if a[1] != b[1] or a[3] != b[3]:
            return False
        (ka, va), (kb, vb) = a[2], b[2]
        if ka == "int" and kb == "int":
            return va == vb
        # a percentage's integer value is the percent number, its float payload the unit value
        scale = 100.0 if a[0] == "pct" else 1.0
        fa = float(va) / scale if ka == "int" else float(va)
        fb = float(vb) / scale if kb == "int" else float(vb)
        if fa == fb:
            return True
        # the implementation prints non-integers with 6 significant digits (known finding of C10)
        return abs(fa - fb) <= 6e-6 * max(abs(fa), abs(fb))
    return a == b


def stream_eq(a, b):
    if len(a) != len(b):
        return False
    return all(leaf_eq(x, y) for x, y in zip(a, b))


def opts_fields(o):
    def f(v):
        return "-" if v is None else "=" + v
    bits = struct.unpack("<I", struct.pack("<f", float(o.get("rpx_ratio", 750))))[0]
    return [f(o.get("class_prefix")), f(o.get("class_prefix_sign")), str(bits), f(o.get("import_sign")),
            "1" if o.get("convert_host") else "0", f(o.get("host_is"))]


def compare(chk, cases, results, stream="css"):
    """cases: [(opts, css)], results: decoded harness answers. Returns number of differences."""
    if not core.MODEL_OK:
        chk.bump(f"corr:{stream}:skipped-model-unavailable", len(cases))
        return 0
    reqs, idx = [], []
    for i, ((o, css), res) in enumerate(zip(cases, results)):
        if "panic" in res or "tokens_in" not in res:
            continue
        reqs.append(core.req("css", *opts_fields(o), res["tokens_in"]))
        idx.append(i)
    outs = core.run_driver(reqs)
    nd = 0
    for i, m in zip(idx, outs):
        o, css = cases[i]
        res = results[i]
        chk.disagreements_checked += 1
        f = m.split("\t")
        if len(f) < 5:
            nd += 1
            chk.violation("correspondence", f"css model could not process the token tree: {m[:80]}", stream=stream, css=css, opts=o)
            continue
        mn, ml = flatten_model(sx_parse(core.unesc(f[0]))), flatten_model(sx_parse(core.unesc(f[1])))
        rn, rl = flatten_real(sx_parse(res["tokens_normal"]), []), flatten_real(sx_parse(res["tokens_low"]), [])
        mw = sorted(w.split("@")[0] for w in core.unesc(f[2]).split(" ") if w)
        rw = sorted(warn_name(w[0]) for w in res["warnings"])
        what = None
        if not stream_eq(mn, rn):
            what = "normal output token stream"
        elif not stream_eq(ml, rl):
            what = "low-priority output token stream"
        elif mw != rw:
            what = f"warnings (model {mw}, implementation {rw})"
        else:
            # source-map entries: (src line, src col, name) in order
            for which, fi, key in (("normal", 3, "map_normal"), ("low", 4, "map_low")):
                mm = [x for x in core.unesc(f[fi]).split(" ") if x] if f[fi] else []
                # names may contain blanks: re-split carefully
                mm = split_map(core.unesc(f[fi]))
                rm = [(e[2], e[3], e[4]) for e in res[key]]
                if [(a, b) for a, b, _ in mm] != [(a, b) for a, b, _ in rm]:
                    what = f"source-map source positions of the {which} output"
                    break
                if [n is not None for _, _, n in mm] != [n is not None for _, _, n in rm]:
                    what = f"source-map names of the {which} output"
                    break
        if what:
            nd += 1
            if nd <= 4:
                chk.violation("correspondence", f"stylesheet model and implementation differ in the {what}", stream=stream, css=css, opts=o,
                              model_normal=core.unesc(f[0])[:1500], real_normal=res["normal"][:800], model_low=core.unesc(f[1])[:600], real_low=res["low"][:600])
    chk.bump(f"corr:{stream}:cases", len(idx))
    chk.bump(f"corr:{stream}:diffs", nd)
    return nd


def split_map(s):
    """`L:C` or `L:C="name"` entries separated by blanks (names are quoted and may contain blanks)"""
    out, i, n = [], 0, len(s)
    while i < n:
        while i < n and s[i] == " ":
            i += 1
        if i >= n:
            break
        j = i
        while j < n and s[j] not in " =":
            j += 1
        l, c = s[i:j].split(":")
        name = None
        if j < n and s[j] == "=":
            k = j + 2
            while k < n and s[k] != '"':
                k += 2 if s[k] == "\\" else 1
            name = _unq(s[j + 1:k + 1])
            j = k + 1
        out.append((int(l), int(c), name))
        i = j
    return out


def run_cases(cases):
    reqs = [core.req("css", json.dumps(o), css) for o, css in cases]
    outs = core.run_harness(reqs)
    res = []
    for a in outs:
        if a.startswith("PANIC"):
            res.append({"panic": a})
        else:
            res.append(json.loads(a))
    return res


# ---- corr:sheet-spec: the SPECIFICATIONS of the whole-sheet theorems (go / goI, GE/Thm/C17Sheet.lean, C09Sheet.lean) against the implementation ----
def _shapes_of(flat):
    out = []
    for t in flat:
        if t[0] == "open":
            out.append("o:" + t[1])
        elif t[0] == "close":
            out.append("c:" + t[1])
        elif t[0] in ("ws", "comment"):
            continue
        elif t[0] == "delim":
            out.append("l:delim" + t[1])
        else:
            out.append("l:" + t[0])
    return out


def _idents_of(flat):
    return [t[1] for t in flat if t[0] == "ident"]


def compare_spec(chk, cases, results, stream="sheet-spec", limit=400):
    """the fuel-free readings of the token tree (what sheet_partition / sheet_idents prove the model equal to) vs the token kinds and identifiers of
    the real outputs; stylesheets transformed without an import sign.  Run through `lake env lean --run SpecRun.lean` (the driver imports models only)."""
    if not core.MODEL_OK:
        return 0
    reqs, idx = [], []
    for i, ((o, css), res) in enumerate(zip(cases, results)):
        if "panic" in res or "tokens_in" not in res or o.get("import_sign") is not None:
            continue
        r_ = core.req(*opts_fields(o), res["tokens_in"])
        if any(isinstance(v, str) and any(ord(c) < 32 for c in v) for v in o.values()):
            continue          # (SpecRun answers one line per request and prints string payloads raw: option strings with control characters (line breaks, tabs) are left to corr:css)
        reqs.append(r_)
        idx.append(i)
        if len(reqs) >= limit:
            break
    if not reqs:
        return 0
    ok, log = core.lake_build(["GE.Thm.C09Sheet", "GE.Model.CssIO"])
    if not ok:
        chk.violation("proof", "the specification modules of the whole-sheet theorems do not build", log=log[-2000:])
        return 0
    p = subprocess.run(["lake", "env", "lean", "--run", "SpecRun.lean"], cwd=core.LEAN, input=("\n".join(reqs) + "\n").encode(), stdout=subprocess.PIPE,
                       stderr=subprocess.PIPE, timeout=1800, env=core.ENV)
    outs = p.stdout.decode("utf-8", "replace").split("\n")
    if outs and outs[-1] == "":
        outs.pop()
    if p.returncode != 0 or len(outs) != len(reqs):
        chk.violation("correspondence", f"SpecRun: rc={p.returncode}, {len(outs)}/{len(reqs)} answers", detail=p.stderr.decode("utf-8", "replace")[-1500:])
        return 0
    nd = 0
    for i, a in zip(idx, outs):
        o, css = cases[i]
        res = results[i]
        f = a.split("\t")
        if a == "skip":
            continue
        chk.disagreements_checked += 1
        if len(f) < 4:
            nd += 1
            chk.violation("correspondence", f"sheet specification could not read the token tree: {a[:80]}", stream=stream, css=css, opts=o)
            continue
        rn, rl = flatten_real(sx_parse(res["tokens_normal"]), []), flatten_real(sx_parse(res["tokens_low"]), [])
        spec = (f[0].split(" ") if f[0] else [], f[1].split(" ") if f[1] else [],
                core.unesc(f[2]).split("\x1f") if f[2] else [], core.unesc(f[3]).split("\x1f") if f[3] else [])
        real = (_shapes_of(rn), _shapes_of(rl), _idents_of(rn), _idents_of(rl))
        for name, s_, r_ in zip(("token kinds of the normal output", "token kinds of the low-priority output", "identifiers of the normal output",
                                 "identifiers of the low-priority output"), spec, real):
            if s_ != r_:
                nd += 1
                if nd <= 4:
                    chk.violation("correspondence", f"whole-sheet specification (go / goI) and implementation differ in the {name}", stream=stream, css=css, opts=o,
                                  spec=" ".join(s_)[:800], real=" ".join(r_)[:800])
                break
    chk.bump(f"corr:{stream}:cases", len(reqs))
    chk.bump(f"corr:{stream}:diffs", nd)
    return nd
