import GE.Codec
import GE.Model.Path
import GE.Model.VarName
import GE.Model.JsLit
import GE.Model.ExprGen
import GE.Model.ExprSExp
import GE.Model.SubExpr
import GE.Model.TagGen
import GE.Model.Group
import GE.Model.PathAnalysis
import GE.Model.LvaluePath
import GE.Model.Number
import GE.Model.AttrLoop
import GE.Model.Position
import GE.Model.Escape
import GE.Model.Mixture
import GE.Model.ExprParse
import GE.Model.TagScope
import GE.Model.Rlm
import GE.Model.ExprStr
import GE.Model.BindingMap
import GE.Model.CssIO
import GE.Model.TagSemJson
import GE.Model.TagTree
import GE.Model.TagLeaves
import GE.Model.Link
import GE.Model.ChildArgs
import GE.JsWriterTrace
/-!
Model driver: one request per line (`op TAB field…`), one answer line per request.
Unknown ops answer `bad-op` (never defaulted).
-/
namespace GE.Driver
open GE.Codec

def chars (s : String) : List Char := s.toList
def str (l : List Char) : String := String.ofList l

/-- scopes descriptor `tree:lv,tree:lv,…` as used by the harness hook (names s<i>, t<i>, l<i>, p<i>, m<i>) -/
def parseScopes (s : String) : List GE.Gen.ScopeInfo :=
  let parts := (s.splitOn ",").filter (· ≠ "")
  (List.range parts.length).zip parts |>.map fun (i, part) =>
    let kv := part.splitOn ":"
    let tree := kv.getD 0 "0" == "1"
    let lv := (kv.getD 1 "0").toNat?.getD 0
    { var := s!"s{i}", tree := if tree then some s!"t{i}" else none, lv := lv,
      lvName := s!"l{i}", absPath := s!"p{i}", modName := s!"m{i}" }

def withExpr (sx : String) (k : GE.Expr → String) : String :=
  match parseSExp sx with
  | some se => match GE.exprOfSExp se with
    | some e => k e
    | none => "bad-ast"
  | none => "bad-sexp"

/-! reader of the template skeleton of the `tag_scopes` op -/
open GE.TagScope in
mutual
partial def tnodeOfSExp : GE.Codec.SExp → Option TNode
  | .list [.atom "other"] => some .other
  | .list [.atom "text", .atom "none"] => some (.text none)
  | .list [.atom "text", .list [.atom "val", .atom fl, e]] => (GE.exprOfSExp e).map fun e => .text (some ⟨fl == "1", e⟩)
  | .list [.atom "elem", kind, .list (.atom "refs" :: refs), .list (.atom "vals" :: vals), .list (.atom "children" :: ch)] => do
    let k ← (match kind with
      | .atom "normal" => some Kind.normal | .atom "pure" => some Kind.pure | .atom "if" => some Kind.if_
      | .atom "tref" => some Kind.tref | .atom "include" => some Kind.include | .atom "slot" => some Kind.slot
      | .list [.atom "for", .str i, .str x] => some (Kind.for_ i x)
      | _ => none)
    let rs ← refs.mapM (fun r => match r with | .str s => some s | _ => none)
    let vs ← vals.mapM (fun v => match v with
      | .atom "none" => some none
      | .list [.atom "val", .atom fl, e] => (GE.exprOfSExp e).map fun e => some ⟨fl == "1", e⟩
      | _ => none)
    let cl ← tlistOfSExps ch
    some (.elem k rs vs cl)
  | _ => none
partial def tnodesOfSExps : List GE.Codec.SExp → Option TNodes
  | [] => some .nil
  | x :: r => do some (.cons (← tnodeOfSExp x) (← tnodesOfSExps r))
partial def tlistOfSExps : List GE.Codec.SExp → Option TNodesList
  | [] => some .nil
  | .list (.atom "nodes" :: ns) :: r => do some (.cons (← tnodesOfSExps ns) (← tlistOfSExps r))
  | _ => none
end

/-! reader of the abstract template and the data of the `tagsem` op -/
def parseSrcExpr (names : List String) (src : String) : Option GE.Expr :=
  let numOf (t : String) : GE.Expr :=
    if t.toList.all Char.isDigit && !t.isEmpty && !(t.length > 1 && t.toList.head? = some '0') then
      (match t.toNat? with
       | some v => if v < 2 ^ 63 then .int v else .float t
       | none => .float t)
    else .float t
  let cs := chars src
  match GE.Parse.lex (cs.length + 1) cs with
  | none => none
  | some ts => (GE.Parse.parseExpr ⟨numOf⟩ (4 * ts.length + 40) ts).map (GE.SubExpr.convertScopes names)

open GE.TagSem in
def teOfSExp (names : List String) : GE.Codec.SExp → Option TE
  | .list [.atom "e", .str src] => (parseSrcExpr names src).map .expr
  | .list (.atom "mix" :: ps) => do
    let parts ← ps.mapM fun (p : GE.Codec.SExp) => match p with
      | .list [.atom "s", .str t] => some (Sum.inl t)
      | .list [.atom "e", .str src] => (parseSrcExpr names src).map Sum.inr
      | _ => none
    some (.mix parts)
  | _ => none

open GE.TagSem in
mutual
partial def tplOfSExp (names : List String) : GE.Codec.SExp → Option (Tpl TE)
  | .list [.atom "text", v] => (teOfSExp names v).map .text
  | .list (.atom "elem" :: .str tag :: .list (.atom "attrs" :: as) :: ch) => do
    let attrs ← as.mapM fun (a : GE.Codec.SExp) => match a with
      | .list [.str n, v] => (teOfSExp names v).map fun te => (n, te)
      | _ => none
    some (.elem tag attrs (← tplsOfSExps names ch))
  | .list (.atom "block" :: ch) => (tplsOfSExps names ch).map (.block false)
  | .list (.atom "include" :: ch) => (tplsOfSExps [] ch).map (.block true)
  | .list (.atom "cond" :: brs) => (branchesOfSExps names brs).map .cond
  | .list (.atom "for" :: v :: .str item :: .str index :: ch) => do
    some (.loop (← teOfSExp names v) (← tplsOfSExps (names ++ [item, index]) ch))
  | .list (.atom "forkey" :: v :: .str key :: .str item :: .str index :: ch) => do
    some (.loopK (← teOfSExp names v) key (← tplsOfSExps (names ++ [item, index]) ch))
  | .list [.atom "tref", v, .list (.atom "fields" :: fs), .list (.atom "cases" :: cs)] => do
    let fields ← fs.mapM fun (a : GE.Codec.SExp) => match a with
      | .list [.str n, e] => (teOfSExp names e).map fun te => (n, te)
      | _ => none
    some (.tref (← teOfSExp names v) fields (← tcasesOfSExps cs))
  | _ => none
partial def tplsOfSExps (names : List String) : List GE.Codec.SExp → Option (Tpls TE)
  | [] => some .nil
  | x :: r => do some (.cons (← tplOfSExp names x) (← tplsOfSExps names r))
partial def tcasesOfSExps : List GE.Codec.SExp → Option (TCases TE)
  | [] => some .nil
  | .list (.str name :: ch) :: r => do some (.cons name (← tplsOfSExps [] ch) (← tcasesOfSExps r))
  | _ => none
partial def branchesOfSExps (names : List String) : List GE.Codec.SExp → Option (Branches TE)
  | [] => some (.last false .nil)
  | [.list (.atom "else" :: ch)] => (tplsOfSExps names ch).map (.last true)
  | .list (.atom "br" :: c :: ch) :: r => do some (.cons (← teOfSExp names c) (← tplsOfSExps names ch) (← branchesOfSExps names r))
  | _ => none
end

open GE.TagSem in
partial def jOfSExp : GE.Codec.SExp → Option J
  | .list [.atom "null"] => some .null
  | .list [.atom "undef"] => some .undef
  | .list [.atom "bool", .atom b] => some (.bool (b == "true"))
  | .list [.atom "num", .atom n] => n.toInt?.map .num
  | .list [.atom "str", .str s] => some (.str s)
  | .list (.atom "arr" :: xs) => (xs.mapM jOfSExp).map .arr
  | .list (.atom "obj" :: kvs) => (kvs.mapM fun (kv : GE.Codec.SExp) => match kv with
      | .list [.str k, v] => (jOfSExp v).map fun j => (k, j)
      | _ => none).map .obj
  | _ => none

open GE.TagTree in
def optOfSExp : GE.Codec.SExp → Option (Option String)
  | .atom "-" => some none
  | .str s => some (some s)
  | _ => none

open GE.TagTree in
def strsOfSExps (xs : List GE.Codec.SExp) : Option (List String) :=
  xs.mapM fun (x : GE.Codec.SExp) => match x with
    | .str s => some s
    | _ => none

open GE.TagTree in
def baseOfSExp : GE.Codec.SExp → Option Base
  | .list (.atom "normal" :: .str p :: refs) => (strsOfSExps refs).map (.normal p)
  | .list (.atom "pure" :: sl :: refs) => do some (.pure (← optOfSExp sl) (← strsOfSExps refs))
  | .list (.atom "slot" :: .str p :: refs) => (strsOfSExps refs).map (.slotEl p)
  | .list [.atom "leaf", .str p] => some (.leaf p)
  | _ => none

open GE.TagTree in
def ctlOfSExp : GE.Codec.SExp → Option Ctl
  | .list [.atom "ctl", i, ei, el, f, it, ix, k] => do
    some { wxIf := ← optOfSExp i, wxElif := ← optOfSExp ei, wxElse := (match el with | .atom "else" => true | _ => false),
           wxFor := ← optOfSExp f, item := ← optOfSExp it, index := ← optOfSExp ix, key := ← optOfSExp k }
  | _ => none

open GE.TagTree in
mutual
partial def xOfSExp : GE.Codec.SExp → Option X
  | .list [.atom "text", .str s] => some (.text s)
  | .list [.atom "comment"] => some .comment
  | .list [.atom "gone"] => some .gone
  | .list (.atom "el" :: b :: c :: kids) => do some (.el (← baseOfSExp b) (← ctlOfSExp c) (← xsOfSExps kids))
  | _ => none
partial def xsOfSExps : List GE.Codec.SExp → Option XS
  | [] => some .nil
  | x :: r => do some (.cons (← xOfSExp x) (← xsOfSExps r))
end

def parseCond (f : String) : Option GE.TagGen.CondItem :=
  if f == "else" then some .els
  else if f.startsWith "s:" then some (.static (f.drop 2).toString)
  else if f.startsWith "e:" then
    match parseSExp (f.drop 2).toString with
    | some se => (GE.exprOfSExp se).map .dyn
    | none => none
  else none

def optStr (f : String) : Option String := if f.startsWith "=" then some (f.drop 1).toString else none

def step (fs : List String) : String :=
  match fs with
  | ["path_normalize", p] => esc (str (GE.Path.normalize (chars p)))
  | ["path_resolve", b, r] => esc (str (GE.Path.resolve (chars b) (chars r)))
  | ["var_name", n] =>
    match n.toNat? with
    | some k => esc (str (GE.VarName.varName k))
    | none => "bad-op"
  | ["next_var_name", n] =>
    match n.toNat? with
    | some k =>
      match GE.VarName.nextVarName GE.VarName.nextFuel k with
      | some (nm, id) => esc (str nm) ++ "\t" ++ toString id
      | none => "loop-does-not-end"
    | none => "bad-op"
  | ["lit_str", s] => esc (str (GE.JsLit.genLitStr (chars s)))
  | ["lit_str_range", lo, hi, pre, suf] =>
    match lo.toNat?, hi.toNat? with
    | some a, some b =>
      let outs := (List.range (b - a)).filterMap fun i =>
        let v := a + i
        if (0xD800 ≤ v ∧ v < 0xE000) ∨ v ≥ 0x110000 then none
        else some (str (GE.JsLit.genLitStr (chars pre ++ [Char.ofNat v] ++ chars suf)))
      esc (String.intercalate (String.singleton (Char.ofNat 31)) outs)
    | _, _ => "bad-op"
  | ["subexprs", sx] =>
    withExpr sx fun e =>
      esc (String.intercalate (String.singleton (Char.ofNat 31)) ((GE.SubExpr.subExprs e).map GE.Expr.toSExp))
  | ["convert", sx, names] =>
    withExpr sx fun e =>
      esc (GE.SubExpr.convertScopes ((names.splitOn ",").filter (· ≠ "")) e).toSExp
  | "link" :: path :: defs :: names :: n :: rest =>
    -- which template each name finds from the file `path` (its own definitions `defs`, its imports as written, the other registered files)
    let k := n.toNat!
    let srcs := rest.take k
    let rec pairs : List String → List (String × String)
      | a :: b :: r => (a, b) :: pairs r
      | _ => []
    let files := pairs (rest.drop k)
    let mk (p d : String) : GE.Link.File String :=
      ⟨((d.splitOn ",").filter (· ≠ "")).map (fun nm => (nm, "[" ++ p ++ ":" ++ nm ++ "]")), "(" ++ p ++ ":main)"⟩
    let G := fun q => (files.find? (·.1 == q)).map fun e => mk e.1 e.2
    esc (String.join (((names.splitOn ",").filter (· ≠ "")).map fun P =>
      match GE.Link.lookup G path (mk path defs) srcs P with
      | some l => l
      | none => ""))
  | "jswriter" :: evs => GE.Codec.esc (GE.JsWriterTrace.answer evs)
  | ["child_args", kinds, ws] =>
    let ks := (kinds.splitOn ",").filter (· ≠ "")
    let letters := (ks.flatMap GE.ChildArgs.calls).eraseDups
    GE.ChildArgs.functionArgs ks (ws == "1") ++ "\t" ++ String.intercalate "," (["T", "E", "B", "F", "S", "J"].filter (letters.contains ·))
  | "if_selector" :: scopes :: conds =>
    match conds.mapM parseCond with
    | none => "bad-cond"
    | some cs =>
      let sc := parseScopes scopes
      let items := (GE.TagGen.prepareAll sc cs 0).1
      esc (GE.Gen.spellStmts (GE.TagGen.selStmts items)) ++ "\t" ++ esc (GE.Gen.spellAll (GE.TagGen.selToks items 0))
  | ["css", cp, sign, ratio, isign, host, hostIs, tree] =>
    match GE.Css.parseTree tree, ratio.toNat? with
    | some ts, some rb =>
      let opts : GE.Css.Opts := ⟨optStr cp, optStr sign, rb, optStr isign, host == "1", optStr hostIs⟩
      let st := GE.Css.transform opts ts
      esc (GE.Css.sinkStr st.normal) ++ "\t" ++ esc (GE.Css.sinkStr st.low) ++ "\t" ++
        esc (String.intercalate " " (st.warnings.map GE.Css.warnStr)) ++ "\t" ++
        esc (GE.Css.mapStr st.normal) ++ "\t" ++ esc (GE.Css.mapStr st.low)
    | _, _ => "bad-tree"
  | "bmc" :: ops =>
    let parsed : List GE.BM.Op := ops.filterMap fun o =>
      if o == "*" then some .disableAll
      else if o.startsWith "a" then some (.add (o.drop 1).toString)
      else if o.startsWith "d" then some (.disable (o.drop 1).toString)
      else none
    let adds := (GE.BM.addResults GE.BM.Collector.new parsed).map fun (_, r) =>
      match r with | some n => toString n | none => "-"
    let c := GE.BM.run parsed
    let names := (parsed.filterMap fun o => match o with | .add f => some f | .disable f => some f | _ => none).eraseDups
    let es := names.map fun k => ({ key := k.toList.map Char.toNat, code := k } : GE.Group.Entry)
    let sorted := (GE.Group.ordered es).map (·.code)
    let adv := sorted.filterMap fun k => (c.size k).map fun n => esc k ++ ":" ++ toString n
    String.intercalate "," adds ++ "\t" ++ String.intercalate "," adv
  | "sort_keys" :: keys =>
    let es := keys.map fun k => ({ key := k.toList.map Char.toNat, code := k } : GE.Group.Entry)
    String.intercalate "\t" ((GE.Group.ordered es).map fun e => esc e.code)
  | ["dash_camel", s] => esc (str (GE.TagGen.dashToCamel (chars s)))
  | ["data_hyphen", s] => esc (str (GE.TagGen.dataHyphenName (chars s)))
  | ["expr_gen", sx, scopes] =>
    withExpr sx fun e =>
      let sc := parseScopes scopes
      if !GE.Gen.scopesInRange sc.length e then "PANIC" else
      let o := GE.Gen.prepare sc e
      let a := GE.PA.prepareAnalysis sc e
      esc (GE.Gen.spellStmts o.stmts) ++ "\t" ++ esc (GE.Gen.spellAll o.toks) ++ "\t" ++ toString (GE.Gen.aboveCond e)
        ++ "\t" ++ esc (GE.PA.stateExpr sc false a.pas a.pc) ++ "\t" ++ esc (GE.PA.stateExpr sc true a.pas a.pc)
  | ["expr_str", sx] =>
    withExpr sx fun e => esc (GE.Gen.spellAll (GE.Str.strExpr (fun i => s!"s{i}") e))
  | ["lex_rt", sx] =>
    -- lexing the spelled printer tokens gives the printer's tokens back (operator texts compared without blanks)
    withExpr sx fun e =>
      let ts := GE.Str.strExpr (fun i => s!"s{i}") e
      let cs := chars (GE.Gen.spellAll ts)
      let nrm (t : GE.Spec.Tok) : GE.Spec.Tok := match t with
        | .p x => .p (String.ofList (x.toList.filter (· ≠ ' ')))
        | t => t
      match GE.Parse.lex (cs.length + 1) cs with
      | none => "lex-error"
      | some ts' => if ts'.map nrm == ts.map nrm then "ok" else "differs"
  | ["esc_body", s] => esc (str (GE.Esc.escBody (chars s)))
  | ["esc_quote", s] => esc (str (GE.Esc.escQuote (chars s)))
  | "decode_text" :: src :: pairs =>
    -- named references known to the caller as name=value fields; numeric ones decoded here like `entities::decode`
    let tbl : List (List Char × List Char) := pairs.filterMap fun kv =>
      match (chars kv).span (· != '=') with
      | (k, _ :: v) => some (k, v)
      | _ => none
    let hexVal (c : Char) : Nat := if '0' ≤ c ∧ c ≤ '9' then c.toNat - 48 else if 'a' ≤ c ∧ c ≤ 'f' then c.toNat - 87 else c.toNat - 55
    let num (isHex : Bool) (ds : List Char) : Option (List Char) :=
      if ds.isEmpty then none else
      let v := ds.foldl (fun a c => a * (if isHex then 16 else 10) + hexVal c) 0
      if v < 0x110000 ∧ ¬ (0xD800 ≤ v ∧ v < 0xE000) ∧ v < 2 ^ 32 then some [Char.ofNat v] else none
    let t : GE.Esc.Tables := ⟨fun n => (tbl.find? (·.1 == n)).map (·.2), num⟩
    let cs := chars src
    esc (str (GE.Esc.decode t (cs.length + 1) cs))
  | "mix_scan" :: src :: pairs =>
    -- value parser model on `src`
    let tbl : List (List Char × List Char) := pairs.filterMap fun kv =>
      match (chars kv).span (· != '=') with
      | (k, _ :: v) => some (k, v)
      | _ => none
    let hexVal (c : Char) : Nat := if '0' ≤ c ∧ c ≤ '9' then c.toNat - 48 else if 'a' ≤ c ∧ c ≤ 'f' then c.toNat - 87 else c.toNat - 55
    let num (isHex : Bool) (ds : List Char) : Option (List Char) :=
      if ds.isEmpty then none else
      let v := ds.foldl (fun a c => a * (if isHex then 16 else 10) + hexVal c) 0
      if v < 0x110000 ∧ ¬ (0xD800 ≤ v ∧ v < 0xE000) ∧ v < 2 ^ 32 then some [Char.ofNat v] else none
    let t : GE.Esc.Tables := ⟨fun n => (tbl.find? (·.1 == n)).map (·.2), num⟩
    let cs := chars src
    let ps := GE.Mix.scan t GE.Mix.bindAt (cs.length + 1) cs
    let show1 (p : GE.Mix.Piece) : String := match p with
      | .text s => "T" ++ str s
      | .bind e => "B" ++ str e
    esc (String.intercalate "\x01" (ps.map show1))
  | ["wparse", src] =>
    -- lexer + token-level parser model on an expression source: the tree as an S-expression
    let numOf (t : String) : Expr :=
      if t.toList.all Char.isDigit && !t.isEmpty && !(t.length > 1 && t.toList.head? = some '0') then
        (match t.toNat? with
         | some v => if v < 2 ^ 63 then .int v else .float t
         | none => .float t)
      else .float t
    let cs := chars src
    match GE.Parse.lex (cs.length + 1) cs with
    | none => "lex-error"
    | some ts =>
      match GE.Parse.parseExpr ⟨numOf⟩ (4 * ts.length + 40) ts with
      | some e => esc e.toSExp
      | none => "none"
  | ["tag_scopes", dyn, sx] =>
    -- (tmpl (modules "m" …) (nodes …)): what the scope / binding-map analysis leaves in every dynamic value, and the advertised fields
    match parseSExp sx with
    | some (.list [.atom "tmpl", .list (.atom "modules" :: ms), .list (.atom "nodes" :: ns)]) =>
      match ms.mapM (fun r => match r with | .str s => some s | _ => none), tnodesOfSExps ns with
      | some mods, some nodes =>
        let st := GE.TagScope.runNodes ⟨mods, dyn.toNat?.getD 0, [], []⟩ nodes
        let c := GE.BM.run st.ops
        let fields := (st.recs.flatMap fun r => GE.TagScope.dataFields r.conv).eraseDups
        let adv := fields.filter (fun f => c.advertised f)
        esc (String.intercalate "\x01" (st.recs.map fun r => (if r.collected then "1" else "0") ++ r.conv.toSExp)) ++ "\t" ++
          esc (String.intercalate "\x01" adv)
      | _, _ => "bad-tree"
    | _ => "bad-sexp"
  | ["rlm", oldKeys, newKeys, tree] =>
    -- keys separated by U+0001 (a list may be empty: "-"); tree: one letter per position: n none, a all, k sub(key marked), s sub(key not marked)
    let split (x : String) : List String := if x == "-" then [] else x.splitOn "\x01"
    let ok := split oldKeys
    let nk := split newKeys
    let tr : List GE.Rlm.Mark := tree.toList.map fun c => if c == 'a' then .all else if c == 'k' then .sub true else if c == 's' then .sub false else .none
    let ms := GE.Rlm.marks ok nk tr
    let showM (m : GE.Rlm.Mark) : String := match m with | .none => "none" | .all => "all" | .sub _ => "sub"
    let items := (List.range nk.length).map fun i =>
      match GE.Rlm.reuse ok nk i with
      | some j => s!"{j}:{showM (ms[i]?.getD .none)}"
      | none => "new"
    esc (String.intercalate " " items) ++ "\t" ++ esc (String.intercalate "\x01" (GE.Rlm.uniq nk))
  | "tagsem" :: tsx :: names :: d0 :: steps =>
    -- abstract template + data history: the advertised fields (among `names`), then the node tree after creation and after every step
    -- (guards not evaluated: every binding is re-evaluated), each node with the step that created it. A step is `u<data>` (update, object
    -- tree), `t<data>` (update, the whole data tree is `true`) or `b<field>|<data>` (run the binding-map updaters of one field)
    match parseSExp tsx, parseSExp d0 with
    | some (.list (.atom "tmpl" :: ns)), some d0x =>
      let stepOf (x : String) : Option (Char × String × GE.TagSem.J) :=
        match chars x with
        | 'u' :: r => ((parseSExp (str r)).bind jOfSExp).map fun d => ('u', "", d)
        | 't' :: r => ((parseSExp (str r)).bind jOfSExp).map fun d => ('t', "", d)
        | 'b' :: r =>
          let f := r.takeWhile (· != '|')
          ((parseSExp (str (r.dropWhile (· != '|')).tail)).bind jOfSExp).map fun d => ('b', str f, d)
        | _ => none
      match tplsOfSExps [] ns, jOfSExp d0x, steps.mapM stepOf with
      | some ts, some D0, some Ds =>
        let t : GE.TagSem.Tpl GE.TagSem.TE := .block false ts
        let adv := (if names.isEmpty then [] else names.splitOn ",").filter fun f => GE.TagSem.advertised GE.TagSem.jsonSem f t
        let n0 := GE.TagSem.create GE.TagSem.jsonSem 0 D0 [] t
        let (_, _, outs) := Ds.foldl (fun (st : Nat × GE.TagSem.Node GE.TagSem.J × List String) (wd : Char × String × GE.TagSem.J) =>
          let (now, n, acc) := st
          let n' := if wd.1 == 'b' then GE.TagSem.bmUpdate GE.TagSem.jsonSem wd.2.2 [] wd.2.1 t n
                    else GE.TagSem.update GE.TagSem.jsonSem now wd.2.2 [] (wd.1 == 't') [] t n
          (now + 1, n', acc ++ [if n'.hasUnsup then "unsupported" else n'.print ++ " |" ++ GE.TagSem.printPaths (GE.TagSem.mpaths GE.TagSem.jsonPSem wd.2.2 [] [] t)]))
          (1, n0, [if n0.hasUnsup then "unsupported" else n0.print ++ " |" ++ GE.TagSem.printPaths (GE.TagSem.mpaths GE.TagSem.jsonPSem D0 [] [] t)])
        "\t".intercalate ((",".intercalate adv :: outs).map esc)
      | _, _, _ => "bad-tree"
    | _, _ => "bad-sexp"
  | ["tagtree", xsx] =>
    -- tag-level structure: what the parser makes of a sequence of sibling tags, and what the printer prints for that tree
    match parseSExp xsx with
    | some (.list (.atom "tags" :: xs)) =>
      match xsOfSExps xs with
      | some f =>
        let a := GE.TagTree.parse f
        esc (GE.TagTree.AS.show a) ++ "\t" ++ esc (GE.TagTree.XS.show (GE.TagTree.print a))
      | none => "bad-tree"
    | _ => "bad-sexp"
  | ["tagleaves", xsx] =>
    -- the leaf elements (<include> / <template is>) of the source tags and of the tree the parser model builds; whether every wx:if group is well-formed
    match parseSExp xsx with
    | some (.list (.atom "tags" :: xs)) =>
      match xsOfSExps xs with
      | some f =>
        toString (GE.TagTree.groupsOk f) ++ "\t" ++ esc ("\x1f".intercalate (GE.TagTree.leavesAS (GE.TagTree.parse f))) ++ "\t" ++
          esc ("\x1f".intercalate (GE.TagTree.leavesXS f))
      | none => "bad-tree"
    | _ => "bad-sexp"
  | ["mix_print", pieces] =>
    -- value printer model on pieces `T…` / `B…` separated by U+0001
    let ps : List GE.Mix.Piece := (if pieces.isEmpty then [] else pieces.splitOn "\x01").filterMap fun x =>
      match chars x with
      | 'T' :: r => some (.text r)
      | 'L' :: r => some (.text r)
      | 'B' :: r => some (.bind r)
      | _ => none
    esc (str (GE.Mix.printValue (pieces.startsWith "L") (fun s => chars (GE.Gen.jsLitStr (str s))) ps))
  | ["positions", src, steps] =>
    let utf8 (c : Char) : Nat := if c.toNat < 0x80 then 1 else if c.toNat < 0x800 then 2 else if c.toNat < 0x10000 then 3 else 4
    let rec takeBytes (n : Nat) (acc : List Char) : List Char → List Char × List Char
      | [] => (acc.reverse, [])
      | c :: r => if n = 0 then (acc.reverse, c :: r) else takeBytes (n - utf8 c) (c :: acc) r
    let rec takeWs (acc : List Char) : List Char → List Char × List Char
      | [] => (acc.reverse, [])
      | c :: r => if GE.AttrLoop.isTemplateWs c then takeWs (c :: acc) r else (acc.reverse, c :: r)
    let go := (steps.splitOn ",").foldl (fun (st : GE.Pos.Pos × Nat × List Char × List String) (tok : String) =>
      let (p, idx, rest, out) := st
      let (eaten, rest') :=
        if tok == "0" then (match rest with | [] => ([], []) | c :: r => ([c], r))
        else if tok == "w" then takeWs [] rest
        else takeBytes (tok.toNat?.getD 0) [] rest
      let p' := if tok == "0" || tok == "w" then GE.Pos.advance p eaten else GE.Pos.skipBytes p eaten
      let idx' := idx + (eaten.map utf8).sum
      (p', idx', rest', out ++ [s!"{p'.line}:{p'.col}:{idx'}"])) (⟨0, 0⟩, 0, chars src, [])
    String.intercalate " " go.2.2.2
  | ["number", kind, digits] =>
    let ds := (chars digits).map fun c =>
      if '0' ≤ c ∧ c ≤ '9' then c.toNat - 48 else if 'a' ≤ c ∧ c ≤ 'f' then c.toNat - 87 else if 'A' ≤ c ∧ c ≤ 'F' then c.toNat - 55 else 99
    if ds.any (· == 99) then "bad-digit" else
    let lit := if kind == "oct" then GE.Number.scanRadix 3 ds else if kind == "hex" then GE.Number.scanRadix 4 ds else GE.Number.scanDec ds
    (match lit with
     | .int v => s!"int {v}"
     | .float h d st => s!"float {h} {d} {if st then 1 else 0}"
     | .floatText => "floattext")
  | ["lvalue", sx, scopes] =>
    withExpr sx fun e =>
      let sc := parseScopes scopes
      if !GE.Gen.scopesInRange sc.length e then "PANIC" else
      let a := GE.PA.prepareAnalysis sc e
      esc (GE.PA.lvaluePath sc .model a.pas).print ++ "\t" ++ esc (GE.PA.lvaluePath sc .script a.pas).print ++ "\t" ++
        esc (GE.PA.lvaluePath sc .general a.pas).print ++ "\t" ++ toString (GE.PA.hasLvalue sc .model a.pas) ++ "\t" ++
        toString (GE.PA.hasLvalue sc .script a.pas)
  | _ => "bad-op"

partial def loop (h : IO.FS.Stream) (out : IO.FS.Stream) : IO Unit := do
  let line ← h.getLine
  if line.isEmpty then return ()
  let line := if line.endsWith "\n" then (line.dropEnd 1).toString else line
  out.putStrLn (step (fields line))
  loop h out

end GE.Driver
