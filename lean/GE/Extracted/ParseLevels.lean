/-! GENERATED from /repo/glass-easel-template-compiler/src/parse/mod.rs by checklib/extractors.py — do not edit. -/
namespace GE.Extracted
def parseErrorFirstCode : Nat := 0x10001
/-- `ParseErrorKind::level` in variant order (1 Note, 2 Warn, 3 Error, 4 Fatal) -/
def parseErrorLevels : List (String × Nat) := [
  ("UnexpectedCharacter", 4),
  ("UnexpectedExpressionCharacter", 4),
  ("UnknownMetaTag", 1),
  ("MissingExpressionEnd", 4),
  ("IllegalEntity", 3),
  ("IncompleteTag", 4),
  ("MissingEndTag", 2),
  ("IllegalNamePrefix", 2),
  ("InvalidAttributePrefix", 2),
  ("InvalidAttributeName", 2),
  ("InvalidAttributeValue", 1),
  ("InvalidAttribute", 2),
  ("DuplicatedAttribute", 2),
  ("DuplicatedName", 1),
  ("AvoidUppercaseLetters", 1),
  ("UnexpectedWhitespace", 1),
  ("MissingAttributeValue", 1),
  ("DataBindingNotAllowed", 1),
  ("InvalidIdentifier", 4),
  ("InvalidScopeName", 1),
  ("ChildNodesNotAllowed", 3),
  ("IllegalEscapeSequence", 3),
  ("IncompleteConditionExpression", 4),
  ("UnmatchedBracket", 4),
  ("UnmatchedParenthesis", 4),
  ("MissingModuleName", 3),
  ("MissingSourcePath", 3),
  ("UnsupportedSyntax", 3),
  ("ShouldQuoted", 2),
  ("EmptyExpression", 2),
  ("InvalidEndTag", 2)]
/-- `next`, `skip_whitespace` and `skip_bytes` have the modelled position updates; `try_parse` restores index, line and column together -/
def positionUpdateShapes : Bool := true
def tryParseRestoresAll : Bool := true
end GE.Extracted
