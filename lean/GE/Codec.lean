/-!
Line protocol shared with the Rust harness (`harness/src/codec.rs`) and the Python orchestrator.
A line is TAB-separated fields; inside a field `\\`, `\t`, `\n`, `\r` are escaped and every char
outside printable ASCII is written as `\u{HEX}`.  Also: a small S-expression reader.
-/
namespace GE.Codec

def hexDigit (n : Nat) : Char :=
  if n < 10 then Char.ofNat (48 + n) else Char.ofNat (55 + n)

def toHex (n : Nat) : List Char :=
  if n = 0 then ['0'] else (go n n []).1
where
  go : Nat → Nat → List Char → List Char × Unit
    | 0, _, acc => (acc, ())
    | fuel+1, n, acc => if n = 0 then (acc, ()) else go fuel (n / 16) (hexDigit (n % 16) :: acc)

def escChars : List Char → List Char
  | [] => []
  | c :: cs =>
    (if c = '\\' then ['\\', '\\']
     else if c = '\t' then ['\\', 't']
     else if c = '\n' then ['\\', 'n']
     else if c = '\r' then ['\\', 'r']
     else if 32 ≤ c.toNat ∧ c.toNat ≤ 126 then [c]
     else ['\\', 'u', '{'] ++ toHex c.toNat ++ ['}']) ++ escChars cs

def esc (s : String) : String := String.ofList (escChars s.toList)

/-- a string between double quotes: `"` and `\` escaped, every char outside printable ASCII as `\u{HEX}` (the comparison side prints the same way) -/
def jsonStr (s : String) : String :=
  "\"" ++ String.ofList (s.toList.flatMap fun c =>
    if c = '"' then ['\\', '"'] else if c = '\\' then ['\\', '\\']
    else if 32 ≤ c.toNat ∧ c.toNat ≤ 126 then [c] else ['\\', 'u', '{'] ++ toHex c.toNat ++ ['}']) ++ "\""

def hexVal (c : Char) : Option Nat :=
  if '0' ≤ c ∧ c ≤ '9' then some (c.toNat - 48)
  else if 'a' ≤ c ∧ c ≤ 'f' then some (c.toNat - 87)
  else if 'A' ≤ c ∧ c ≤ 'F' then some (c.toNat - 55)
  else none

/-- read hex digits up to `}`; returns value and rest after `}` -/
def readHex : List Char → Nat → Nat × List Char
  | [], v => (v, [])
  | c :: cs, v => if c = '}' then (v, cs) else
      match hexVal c with
      | some d => readHex cs (v * 16 + d)
      | none => readHex cs v

theorem readHex_len (cs : List Char) (v : Nat) : (readHex cs v).2.length ≤ cs.length := by
  induction cs generalizing v with
  | nil => simp [readHex]
  | cons c cs ih =>
    unfold readHex
    split
    · simp
    · split <;> (simp; exact Nat.le_succ_of_le (ih _))

def unescChars : List Char → List Char
  | [] => []
  | '\\' :: '\\' :: cs => '\\' :: unescChars cs
  | '\\' :: 't' :: cs => '\t' :: unescChars cs
  | '\\' :: 'n' :: cs => '\n' :: unescChars cs
  | '\\' :: 'r' :: cs => '\r' :: unescChars cs
  | '\\' :: '"' :: cs => '"' :: unescChars cs
  | '\\' :: 'u' :: '{' :: cs =>
    have := readHex_len cs 0
    Char.ofNat (readHex cs 0).1 :: unescChars (readHex cs 0).2
  | c :: cs => c :: unescChars cs
termination_by l => l.length
decreasing_by all_goals simp_wf; all_goals omega

def unesc (s : String) : String := String.ofList (unescChars s.toList)

def splitTabs (s : String) : List String := s.splitOn "\t"

def fields (line : String) : List String := (splitTabs line).map unesc

/-! ### S-expressions -/

inductive SExp where
  | atom (s : String)
  | str (s : String)
  | list (xs : List SExp)
deriving Repr, Inhabited

/-- tokens -/
inductive STok where
  | lp | rp | atom (s : String) | str (s : String)
deriving Repr

def isAtomChar (c : Char) : Bool := !(c = ' ' || c = '(' || c = ')' || c = '"')

/-- read quoted string body (after the opening quote); returns raw (still escaped) chars and rest -/
def readQuoted : List Char → List Char → List Char × List Char
  | [], acc => (acc.reverse, [])
  | '\\' :: c :: cs, acc => readQuoted cs (c :: '\\' :: acc)
  | '"' :: cs, acc => (acc.reverse, cs)
  | c :: cs, acc => readQuoted cs (c :: acc)

theorem readQuoted_len (cs acc : List Char) : (readQuoted cs acc).2.length ≤ cs.length := by
  fun_induction readQuoted cs acc <;> simp_all <;> omega

def readAtom : List Char → List Char → List Char × List Char
  | [], acc => (acc.reverse, [])
  | c :: cs, acc => if isAtomChar c then readAtom cs (c :: acc) else (acc.reverse, c :: cs)

theorem readAtom_len (cs acc : List Char) : (readAtom cs acc).2.length ≤ cs.length := by
  fun_induction readAtom cs acc <;> simp_all <;> omega

def tokenize : List Char → List STok
  | [] => []
  | '(' :: cs => .lp :: tokenize cs
  | ')' :: cs => .rp :: tokenize cs
  | ' ' :: cs => tokenize cs
  | '"' :: cs =>
    have := readQuoted_len cs []
    .str (String.ofList (unescChars (readQuoted cs []).1)) :: tokenize (readQuoted cs []).2
  | c :: cs =>
    have := readAtom_len cs [c]
    .atom (String.ofList (readAtom cs [c]).1) :: tokenize (readAtom cs [c]).2
termination_by l => l.length
decreasing_by all_goals simp_wf; all_goals omega

/-- parse with an explicit stack; total. -/
def parseToks : List STok → List (List SExp) → List SExp → Option SExp
  | [], [], [x] => some x
  | [], _, _ => none
  | .lp :: ts, stack, cur => parseToks ts (cur :: stack) []
  | .rp :: ts, top :: stack, cur => parseToks ts stack (top ++ [.list cur])
  | .rp :: _, [], _ => none
  | .atom s :: ts, stack, cur => parseToks ts stack (cur ++ [.atom s])
  | .str s :: ts, stack, cur => parseToks ts stack (cur ++ [.str s])

def parseSExp (s : String) : Option SExp := parseToks (tokenize s.toList) [] []

end GE.Codec
