import GE.Model.JsLit
import GE.Spec.JsString
/-!
# C12 — static strings reach the runtime character for character

`gen_lit_str` is the single gate through which every constant of a template (text, attribute
values, names, keys, paths, …) enters the generated JavaScript.  The theorem: JavaScript (strict
and sloppy mode) decodes the emitted literal to exactly the original code points, for every string.
-/
namespace GE.JsLit
open GE.Spec.JsString

/-! ## hex lemmas -/

theorem hexVal_hexDigitU : ∀ n, n < 16 → hexVal (hexDigitU n) = some n := by decide
theorem hexDigitU_ne_brace : ∀ n, n < 16 → hexDigitU n ≠ '{' := by decide

theorem hex4_val (n : Nat) (h : n < 65536) :
    ((n / 4096 % 16 * 16 + n / 256 % 16) * 16 + n / 16 % 16) * 16 + n % 16 = n := by omega

theorem scalar_small (n : Nat) (h : n < 0xD800) : scalar n = some (Char.ofNat n) := by
  simp [scalar, h]

/-- decoding `\uXXXX` produced by `hex4` -/
theorem decEsc_u_hex4 (strict : Bool) (n : Nat) (h : n < 0xD800) (rest : List Char) :
    decEsc strict ('u' :: (hex4 n ++ rest)) = some (some (Char.ofNat n), 5) := by
  have h16 : ∀ k, k % 16 < 16 := fun k => Nat.mod_lt _ (by decide)
  have hb := hexDigitU_ne_brace _ (h16 (n / 4096))
  simp only [hex4, List.cons_append, List.nil_append, decEsc]
  simp only [hexVal_hexDigitU _ (h16 _), hex4_val n (by omega), scalar_small n h]
  simp (decide := true)

theorem needs_lt (c : Char) (h : needsUnicodeEscape c = true) : c.toNat < 0xD800 := by
  simp [needsUnicodeEscape] at h
  omega

/-! ## per-character lemma -/

/-- Decoding what `escChar` wrote for `c`, followed by anything, yields `c` followed by the
decoding of the rest. -/
theorem decBody_escChar (strict : Bool) (c : Char) (rest : List Char) :
    decBody strict (escChar c ++ rest) = (decBody strict rest).map (c :: ·) := by
  unfold escChar
  split
  · subst_vars
    simp only [List.cons_append, List.nil_append]
    rw [decBody_cons]
    simp (decide := true) [decEsc]
  split
  · subst_vars
    simp only [List.cons_append, List.nil_append]
    rw [decBody_cons]
    simp (decide := true) [decEsc]
  split
  · subst_vars
    simp only [List.cons_append, List.nil_append]
    rw [decBody_cons]
    simp (decide := true) [decEsc]
  split
  · subst_vars
    simp only [List.cons_append, List.nil_append]
    rw [decBody_cons]
    simp (decide := true) [decEsc]
  split
  · subst_vars
    simp only [List.cons_append, List.nil_append]
    rw [decBody_cons]
    simp (decide := true) [decEsc]
  split
  · rename_i hn
    have hlt := needs_lt c hn
    simp only [List.cons_append]
    rw [decBody_cons]
    simp only [show ('\\' = '"') = False from by decide, if_false, if_true]
    rw [decEsc_u_hex4 strict _ hlt]
    simp [hex4]
  · rename_i h1 h2 h3 h4 h5 h6
    simp only [List.cons_append, List.nil_append]
    rw [decBody_cons]
    simp [h1, h2, h3, h4]

theorem decBody_escBody (strict : Bool) (s rest : List Char) :
    decBody strict (escBody s ++ rest) = (decBody strict rest).map (s ++ ·) := by
  induction s with
  | nil => simp [escBody]
  | cons c cs ih =>
    simp only [escBody, List.append_assoc]
    rw [decBody_escChar, ih]
    cases decBody strict rest <;> simp

/-! ## property theorem -/

/-- **C12.** For every string `s` (every code point, every neighbour), JavaScript reads the
literal emitted for `s` back as exactly `s` — in strict mode and in sloppy mode alike. -/
theorem decode_genLitStr (strict : Bool) (s : List Char) :
    decode strict (genLitStr s) = some s := by
  simp only [genLitStr, decode]
  rw [decBody_escBody, decBody_cons]
  simp

/-! ## witnesses: what the unrepaired code (`format!("{:?}")`) emitted for NUL followed by `1` -/

/-- sloppy mode read the old output `"\01"` as U+0001 (legacy octal) … -/
example : decode false ['"', '\\', '0', '1', '"'] = some [Char.ofNat 1] := by
  simp (decide := true) [decode, decBody_cons, decEsc, octVal]
/-- … and strict mode rejected it. -/
example : decode true ['"', '\\', '0', '1', '"'] = none := by
  simp (decide := true) [decode, decBody_cons, decEsc]
/-- the repaired generator's output for the same string -/
example : genLitStr [Char.ofNat 0, '1'] = "\"\\u00001\"".toList := by decide

end GE.JsLit
