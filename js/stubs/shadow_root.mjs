// Stub of glass-easel/src/shadow_root.ts
export { ShadowRoot, SlotMode } from './backend.mjs'
