import GE.Codec
import GE.Extracted.CssTables
/-!
Model of the stylesheet transformer (`glass-easel-stylesheet-compiler/src/{lib,step,output}.rs`)
over cssparser **token trees** (the harness dumps them; comments are never seen by the transformer
because cssparser skips them).  Covered: rule / at-rule / qualified-rule loops with their
`has_whitespace` / `in_class` flags, class prefixing, rpx conversion sites, `calc()` whitespace,
`:host` extraction into the low-priority output with replayed at-rule wrappers, `@import`
placeholders, the output's separator decision and source-map entries.
Numbers are opaque payloads except for the rpx arithmetic, which is done in `Float32`.
-/
namespace GE.Css
open GE.Extracted

structure Pos where
  line : Nat
  col : Nat
deriving DecidableEq, Repr, Inhabited

/-- a numeric payload: sign flag (`+`, `-` or `n` = no explicit sign), Rust-printed text, f32 bits, int value -/
structure Num where
  sign : String
  text : String
  bits : Nat
  int : Option Int
deriving DecidableEq, Repr, Inhabited

inductive Leaf where
  | ident (s : String) | at (s : String) | hash (s : String) | idhash (s : String)
  | str (s : String) | url (s : String) | delim (c : String)
  | num (n : Num) | pct (n : Num) | dim (n : Num) (unit : String)
  | ws | colon | semi | comma | incl | dash | prefix | suffix | substr | cdo | cdc
  | badurl (s : String) | badstr (s : String) | closeparen | closesquare | closecurly
  | comment (s : String)
deriving DecidableEq, Repr, Inhabited

inductive BK | fn | paren | square | curly
deriving DecidableEq, Repr, Inhabited

inductive Tok where
  | leaf (k : Leaf) (pos : Pos)
  | block (k : BK) (name : String) (body : List Tok) (pos : Pos)
deriving Repr, Inhabited

def Tok.pos : Tok → Pos
  | .leaf _ p => p
  | .block _ _ _ p => p

def Tok.isWs : Tok → Bool
  | .leaf .ws _ => true
  | _ => false

/-! ### output -/

inductive OutK where
  | leaf (k : Leaf)
  | «open» (k : BK) (name : String)
  | close (k : BK)
  | sep                      -- separator blank inserted by `append_token`
deriving DecidableEq, Repr, Inhabited

structure Out where
  k : OutK
  src : Option Pos          -- source-map entry (`none` for separators, preserved spaces and replayed wrappers)
  name : Option String      -- source-map name (original spelling of a rewritten token)
deriving DecidableEq, Repr, Inhabited

/-- `Token::serialization_type` -/
def serLeaf : Leaf → SerT
  | .ident _ => .Ident
  | .at _ | .hash _ | .idhash _ => .AtKeywordOrHash
  | .url _ | .badurl _ => .UrlOrBadUrl
  | .delim c =>
    if c = "#" then .DelimHash else if c = "@" then .DelimAt else if c = "." ∨ c = "+" then .DelimDotOrPlus
    else if c = "-" then .DelimMinus else if c = "?" then .DelimQuestion
    else if c = "$" ∨ c = "^" ∨ c = "~" then .DelimAssorted else if c = "%" then .DelimPercent
    else if c = "=" then .DelimEquals else if c = "|" then .DelimBar else if c = "/" then .DelimSlash
    else if c = "*" then .DelimAsterisk else .Other
  | .num _ => .Number | .pct _ => .Percentage | .dim .. => .Dimension
  | .ws => .WhiteSpace
  | .comment _ => .DelimSlash
  | .dash => .DashMatch | .substr => .SubstringMatch | .cdc => .CDC
  | _ => .Other

def serOut : OutK → SerT
  | .leaf k => serLeaf k
  | .open .fn _ => .Function
  | .open .paren _ => .OpenParen
  | .open _ _ => .Other
  | .close _ => .Other
  | .sep => .WhiteSpace

def needsSep (a b : SerT) : Bool :=
  match needsSepTable.lookup a with
  | some l => l.contains b
  | none => false

/-- `StyleSheetOutput` -/
structure Sink where
  items : List Out       -- in order
  prev : SerT
deriving Repr, Inhabited

def Sink.empty : Sink := ⟨[], .Nothing⟩

/-- `append_token` -/
def Sink.token (s : Sink) (k : OutK) (pos : Pos) (name : Option String) : Sink :=
  let t := serOut k
  let items := if needsSep s.prev t then s.items ++ [⟨.sep, none, none⟩] else s.items
  ⟨items ++ [⟨k, some pos, name⟩], t⟩

/-- `append_token_space_preserved` -/
def Sink.tokenSp (s : Sink) (k : OutK) (pos : Pos) (name : Option String) : Sink :=
  match k with
  | .leaf .ws => ⟨s.items ++ [⟨.leaf .ws, none, none⟩], .WhiteSpace⟩
  | _ => s.token k pos name

/-- `append_raw` of a previously written segment (its items are replayed without map entries) -/
def Sink.raw (s : Sink) (items : List Out) : Sink :=
  ⟨s.items ++ items.map (fun o => { o with src := none, name := none }), .Nothing⟩

structure Opts where
  classPrefix : Option String
  classPrefixSign : Option String
  rpxRatioBits : Nat
  importSign : Option String
  convertHost : Bool
  hostIs : Option String
deriving Repr, Inhabited

inductive WarnK | illegalImportPosition | unexpectedCharacter | hostSelectorCombination
deriving DecidableEq, Repr

structure St where
  opts : Opts
  normal : Sink
  low : Sink
  usingLow : Bool
  warnings : List (WarnK × Pos)
  stacks : List (List Out)      -- `cur_at_rule_stacks`: the written prelude of every enclosing at-rule
deriving Repr, Inhabited

def St.cur (st : St) : Sink := if st.usingLow then st.low else st.normal
def St.setCur (st : St) (s : Sink) : St := if st.usingLow then { st with low := s } else { st with normal := s }
def St.tok (st : St) (k : OutK) (pos : Pos) (name : Option String := none) : St := st.setCur (st.cur.token k pos name)
def St.tokSp (st : St) (k : OutK) (pos : Pos) (name : Option String := none) : St := st.setCur (st.cur.tokenSp k pos name)
def St.warn (st : St) (k : WarnK) (p : Pos) : St := { st with warnings := st.warnings ++ [(k, p)] }

/-- the text cssparser writes for a leaf, used only for source-map names (numbers by their printed text) -/
def numName (n : Num) : String := (if n.sign = "+" then "+" else "") ++ n.text

/-! ### rpx arithmetic (single precision) -/

def f32 (bits : Nat) : Float32 := Float32.ofBits bits.toUInt32

/-- `write_maybe_rpx_dimension`'s conversion: `value * 100. / rpx_ratio`, and the integer test -/
def rpxConvert (valueBits ratioBits : Nat) : Nat × Option Int :=
  let v := f32 valueBits * (100 : Float32) / f32 ratioBits
  let r := v.round
  let isInt := (r - v).abs ≤ Float32.ofBits 0x34000000 && v.abs < (2147483648 : Float32)   -- f32::EPSILON
  (v.toBits.toNat, if isInt then some (Int.ofNat r.abs.toUInt64.toNat * (if r < 0 then -1 else 1)) else none)

/-- the dimension written for an input dimension -/
def rpxDim (st : St) (n : Num) (unit : String) : Leaf × Option String :=
  if unit = "rpx" then
    let c := rpxConvert n.bits st.opts.rpxRatioBits
    (.dim ⟨n.sign, "", c.1, c.2⟩ "vw", some (numName n ++ unit))
  else (.dim n unit, none)

def writeDim (st : St) (n : Num) (unit : String) (pos : Pos) : St :=
  let r := rpxDim st n unit
  st.tok (.leaf r.1) pos r.2

/-- `write_maybe_class_name` -/
def writeIdent (st : St) (src : String) (pos : Pos) (inClass : Bool) : St :=
  let st := if inClass then
      (match st.opts.classPrefixSign with
       | some sign => st.tok (.leaf (.comment sign)) pos
       | none => st)
    else st
  match inClass, st.opts.classPrefix with
  | true, some p => st.tokSp (.leaf (.ident (p ++ "--" ++ src))) pos (some src)
  | _, _ => st.tokSp (.leaf (.ident src)) pos

def closeOf : BK → BK
  | .fn => .paren
  | k => k

def openTok (st : St) (k : BK) (name : String) (pos : Pos) : St := st.tok (.open k name) pos
def closeTok (st : St) (k : BK) (pos : Pos) : St := st.tok (.close (closeOf k)) pos

def flushWs (st : St) (hw : Bool) (pos : Pos) : St :=
  if hw then st.tokSp (.leaf .ws) pos else st

def isPlusMinus : Tok → Bool
  | .leaf (.delim c) _ => c = "+" || c = "-"
  | _ => false

def dropWs : List Tok → List Tok
  | t :: ts => if t.isWs then dropWs ts else t :: ts
  | [] => []

mutual
/-- `convert_rpx_in_block` (declaration blocks and values); `prev` is `prev_token` -/
def convRpx (st : St) (inCalc : Bool) : List Tok → Option Tok → St
  | [], _ => st
  | t :: ts, prev =>
    match t with
    | .block k name body pos =>
      let inner := match k with
        | .fn => name = "calc" || inCalc
        | _ => inCalc
      let st := openTok st k name pos
      let st := convRpx st inner body none
      let st := closeTok st k pos
      convRpx st inCalc ts (some t)
    | .leaf (.dim n unit) pos => convRpx (writeDim st n unit pos) inCalc ts (some t)
    | .leaf .ws pos =>
      if inCalc then
        let keep := (match ts with
            | n :: _ => isPlusMinus n
            | [] => false) || (match prev with
            | some p => isPlusMinus p
            | none => false)
        let st := if keep then st.tok (.leaf .ws) pos else st
        convRpx st inCalc ts (some t)
      else convRpx st inCalc ts prev     -- `input.next()` skips it: not even recorded as `prev_token`
    | .leaf k pos => convRpx (st.tok (.leaf k) pos) inCalc ts (some t)
/-- `convert_class_names_and_rpx_in_block` (selector functions, at-rule prelude blocks); `start` = only
whitespace seen so far (the leading `skip_whitespace`) -/
def convCls (st : St) : List Tok → (start hw ic : Bool) → St
  | [], _, _, _ => st
  | t :: ts, start, hw, ic =>
    match t with
    | .leaf .ws _ => convCls st ts start (!start) false
    | .block k name body pos =>
      let st := match k with
        | .curly => st
        | _ => flushWs st hw pos
      let st := openTok st k name pos
      let st := match k with
        | .fn => if name = "calc" then convRpx st true body none else convCls st body true false false
        | _ => convCls st body true false false
      let st := closeTok st k pos
      convCls st ts false false false
    | .leaf (.delim c) pos =>
      let st := flushWs st hw pos
      convCls (st.tok (.leaf (.delim c)) pos) ts false false (c = ".")
    | .leaf (.ident s) pos =>
      let st := flushWs st hw pos
      convCls (writeIdent st s pos ic) ts false false false
    | .leaf (.dim n unit) pos =>
      let st := flushWs st hw pos
      convCls (writeDim st n unit pos) ts false false false
    | .leaf k pos =>
      let st := flushWs st hw pos
      convCls (st.tok (.leaf k) pos) ts false false false
end

/-- the loop of `parse_qualified_rule` after host detection; returns the state and the tokens that follow the rule -/
def qualLoop (st : St) : List Tok → (start hw ic : Bool) → St × List Tok
  | [], _, _, _ => (st, [])
  | t :: ts, start, hw, ic =>
    match t with
    | .leaf .ws _ => qualLoop st ts start (!start) false
    | .block .curly name body pos =>
      let st := openTok st .curly name pos
      let st := convRpx st false body none
      (closeTok st .curly pos, ts)
    | .block k name body pos =>
      let st := flushWs st hw pos
      let st := openTok st k name pos
      let st := convCls st body true false false
      let st := closeTok st k pos
      qualLoop st ts false false false
    | .leaf (.delim c) pos =>
      let st := flushWs st hw pos
      qualLoop (st.tokSp (.leaf (.delim c)) pos) ts false false (c = ".")
    | .leaf (.ident s) pos =>
      let st := flushWs st hw pos
      qualLoop (writeIdent st s pos ic) ts false false false
    | .leaf k pos =>
      let st := flushWs st hw pos
      qualLoop (st.tokSp (.leaf k) pos) ts false false false

/-- tokens up to and including the first `{}` block: `(selector tokens, the block, rest)`; `none` at end of input -/
def splitAtCurly : List Tok → List Tok → Option (List Tok × Tok × List Tok)
  | [], _ => none
  | t :: ts, acc =>
    match t with
    | .block .curly _ _ _ => some (acc.reverse, t, ts)
    | _ => splitAtCurly ts (t :: acc)

theorem splitAtCurly_len {ts acc r} (h : splitAtCurly ts acc = some r) : r.2.2.length < ts.length := by
  induction ts generalizing acc with
  | nil => simp [splitAtCurly] at h
  | cons t ts ih =>
    unfold splitAtCurly at h
    split at h
    · cases h; simp
    · have := ih h; simp; omega

/-- `write_in_low_priority` -/
def writeLow (st : St) (f : St → St) : St :=
  let st := { st with usingLow := true }
  let low := st.stacks.foldl (fun (s : Sink) seg => (s.raw seg).raw [⟨.open .curly "", none, none⟩]) st.low
  let st := f { st with low := low }
  let low := st.stacks.foldl (fun (s : Sink) _ => s.raw [⟨.close .curly, none, none⟩]) st.low
  { st with low := low, usingLow := false }

def attrSelector (st : St) (name value : String) (pos : Pos) : St :=
  let st := st.tok (.open .square "") pos
  let st := st.tok (.leaf (.ident name)) pos
  let st := st.tok (.leaf (.delim "=")) pos
  let st := st.tok (.leaf (.str value)) pos
  st.tok (.close .square) pos

inductive HostKind | notHost | valid | invalid (pos : Pos)

/-- the head of the `convert_host` detection: `:` then `host` / `host(` (after whitespace was skipped) -/
def hostHead : List Tok → Option (Bool × List Tok)       -- (is the functional form, rest)
  | .leaf .colon _ :: r =>
    match dropWs r with
    | .leaf (.ident "host") _ :: r' => some (false, r')
    | .block .fn "host" _ _ :: r' => some (true, r')
    | _ => none
  | _ => none

/-- first non-whitespace token position after `ts` starts (cssparser position after consuming a token) — the
position reported for `HostSelectorCombination` is not modelled precisely: the position of the next token -/
def nextPos (ts : List Tok) (dflt : Pos) : Pos :=
  match dropWs ts with
  | t :: _ => t.pos
  | [] => dflt


/-! ### rules -/

def lower (s : String) : String := String.ofList (s.toList.map Char.toLower)

/-- `parse_qualified_rule` -/
def qualRule (st : St) (ts : List Tok) : St × List Tok :=
  let ts' := dropWs ts
  let generic := qualLoop st ts' true false false
  if st.opts.convertHost then
    match hostHead ts' with
    | none => generic
    | some (isFn, r) =>
      match splitAtCurly r [] with
      | none => (st, [])
      | some (sel, curly, rest) =>
        if isFn || sel.any (fun t => !t.isWs) then
          let p := if isFn then nextPos r curly.pos else nextPos (dropWs sel).tail curly.pos
          (st.warn .hostSelectorCombination p, rest)
        else
          match curly with
          | .block .curly name body pos =>
            let st := writeLow st fun st =>
              let st := attrSelector st "wx-host" (st.opts.classPrefix.getD "") pos
              let st := match st.opts.hostIs with
                | some h => attrSelector (st.tok (.leaf .comma) pos) "is" h pos
                | none => st
              let st := openTok st .curly name pos
              let st := convRpx st false body none
              closeTok st .curly pos
            (st, rest)
          | _ => (st, rest)
  else generic

/-- the loop of a generic at-rule after its keyword was written; `startLen` = `output_index` -/
def atLoop (nested : St → List Tok → St) (containRules : Bool) (startLen : Nat) (st : St) :
    List Tok → St × List Tok
  | [] => (st, [])
  | t :: ts =>
    match t with
    | .leaf .ws _ => atLoop nested containRules startLen st ts
    | .block .curly name body pos =>
      let seg := st.cur.items.drop startLen
      let st := { st with stacks := st.stacks ++ [seg] }
      let st := openTok st .curly name pos
      let st := if containRules then nested st body else convRpx st false body none
      let st := closeTok st .curly pos
      ({ st with stacks := st.stacks.dropLast }, ts)
    | .block k name body pos =>
      let st := openTok st k name pos
      let st := convCls st body true false false
      let st := closeTok st k pos
      atLoop nested containRules startLen st ts
    | .leaf .semi pos => (st.tok (.leaf .semi) pos, ts)
    | .leaf k pos => atLoop nested containRules startLen (st.tok (.leaf k) pos) ts

/-- skip tokens until (and including) the first `{}` block or `;` -/
def skipRule : List Tok → List Tok
  | [] => []
  | t :: ts =>
    match t with
    | .block .curly _ _ _ => ts
    | .leaf .semi _ => ts
    | _ => skipRule ts

/-- percent-encoding of `urlencoding::encode` over the UTF-8 bytes (given as numbers) -/
def hexU (n : Nat) : Char := if n < 10 then Char.ofNat (48 + n) else Char.ofNat (55 + n)
def isUnreserved (b : Nat) : Bool :=
  (48 ≤ b && b ≤ 57) || (65 ≤ b && b ≤ 90) || (97 ≤ b && b ≤ 122) || b = 45 || b = 95 || b = 46 || b = 126
def encodeByte (b : Nat) : List Char :=
  if isUnreserved b then [Char.ofNat b] else ['%', hexU (b / 16), hexU (b % 16)]
def urlEncode (s : String) : String := String.ofList (s.toUTF8.toList.flatMap fun b => encodeByte b.toNat)

structure CondRes where
  st : St
  closes : List Pos          -- `close_stack` (positions of the wrappers to close, innermost last)
  hasMedia : Bool
  err : Bool
  rest : List Tok

/-- the `while let Ok(peek) = input.peek()` loop of the `@import` branch -/
def importConds (st : St) (closes : List Pos) : List Tok → CondRes
  | [] => ⟨st, closes, false, false, []⟩
  | t :: ts =>
    match t with
    | .leaf .ws _ => importConds st closes ts
    | .block .fn name body pos =>
      if lower name = "layer" then
        let st := st.tok (.leaf (.at name)) pos (some (name ++ "("))
        let st := convRpx st false body none
        let st := openTok st .curly "" pos
        importConds st (closes ++ [pos]) ts
      else if lower name = "supports" then
        let st := st.tok (.leaf (.at name)) pos (some (name ++ "("))
        let st := openTok st .paren "" pos
        let st := convCls st body true false false
        let st := closeTok st .paren pos
        let st := openTok st .curly "" pos
        importConds st (closes ++ [pos]) ts
      else ⟨st.warn .unexpectedCharacter pos, closes, false, false, t :: ts⟩
    | .leaf (.ident x) pos =>
      if lower x = "layer" && closes.isEmpty then
        let st := st.tok (.leaf (.at "layer")) pos (some x)
        let st := openTok st .curly "" pos
        importConds st (closes ++ [pos]) ts
      else ⟨st, closes, true, false, t :: ts⟩
    | .block .paren _ _ _ => ⟨st, closes, true, false, t :: ts⟩
    | .leaf .semi _ => ⟨st, closes, false, false, ts⟩
    | _ => ⟨st.warn .unexpectedCharacter t.pos, closes, false, true, t :: ts⟩

/-- the media-query part of an `@import`: returns (state, error?, rest) -/
def importMedia (st : St) (errPos : Pos) : List Tok → St × Bool × List Tok
  | [] => (st, false, [])
  | t :: ts =>
    match t with
    | .leaf .ws _ => importMedia st errPos ts
    | .block .curly _ _ _ => (st.warn .unexpectedCharacter errPos, true, ts)
    | .block k name body pos =>
      let st := openTok st k name pos
      let st := convCls st body true false false
      let st := closeTok st k pos
      importMedia st errPos ts
    | .leaf .semi _ => (st, false, ts)
    | .leaf k pos => importMedia (st.tok (.leaf k) pos) errPos ts

/-- `expect_url_or_string`: a string, an unquoted url, or `url("…")` -/
def importPath : Tok → Option String
  | .leaf (.str s) _ => some s
  | .leaf (.url s) _ => some s
  | .block .fn name body _ =>
    if lower name = "url" then
      (match dropWs body with
       | .leaf (.str s) _ :: _ => some s
       | _ => none)
    else none
  | _ => none

/-- the `@import` branch of `parse_at_rule` (import sign configured); `ts` follows the keyword -/
def importRule (st : St) (sign : String) (atStart : Bool) (startPos : Pos) (ts : List Tok) : St × List Tok :=
  let st := if atStart then st else st.warn .illegalImportPosition startPos
  match dropWs ts with
  | t :: r =>
    match importPath t with
    | none => (st, skipRule ts)
    | some path =>
      let c := importConds st [] r
      if c.err then (c.st, skipRule ts) else
      let posAfter := nextPos c.rest startPos
      let m := if c.hasMedia then
          let st := c.st.tok (.leaf (.at "media")) startPos
          let r := importMedia st posAfter c.rest
          (r.1, r.2.1, r.2.2, c.closes ++ [startPos])
        else (c.st, false, c.rest, c.closes)
      if m.2.1 then (m.1, skipRule ts) else
      let st := if c.hasMedia then openTok m.1 .curly "" startPos else m.1
      let st := st.tok (.leaf (.comment (sign ++ " " ++ urlEncode path))) startPos
      let st := m.2.2.2.reverse.foldl (fun st p => closeTok st .curly p) st
      (st, m.2.2.1)
  | _ => (st, skipRule ts)

/-- `parse_at_rule` for a token list starting with the at-keyword -/
def atRule (nested : St → List Tok → St) (st : St) (name : String) (pos : Pos) (atStart : Bool)
    (ts : List Tok) : St × List Tok :=
  match (if name = "import" then st.opts.importSign else none) with
  | some sign =>
    -- `input.position()` right after the keyword: its start plus `@` plus the name (UTF-16 units)
    let nameLen := name.toList.foldl (fun n c => n + (if c.toNat ≥ 0x10000 then 2 else 1)) 0
    importRule st sign atStart ⟨pos.line, pos.col + 1 + nameLen⟩ ts
  | none =>
    let startLen := st.cur.items.length
    let st := st.tok (.leaf (.at name)) pos
    atLoop nested (containRuleList.contains (lower name)) startLen st ts

/-- `parse_rules`, fuel-bounded (every call consumes at least one token of the tree) -/
def rules : Nat → St → List Tok → Bool → St
  | 0, st, _, _ => st
  | fuel + 1, st, ts, atStart =>
    match dropWs ts with
    | [] => st
    | .leaf (.at name) pos :: r =>
      let res := atRule (fun st body => rules fuel st body true) st name pos atStart r
      rules fuel res.1 res.2 false
    | ts' =>
      let res := qualRule st ts'
      rules fuel res.1 res.2 false

mutual
def sizeTok : Tok → Nat
  | .leaf _ _ => 1
  | .block _ _ body _ => sizeToks body + 1
def sizeToks : List Tok → Nat
  | [] => 0
  | t :: ts => sizeTok t + sizeToks ts
end

/-- `StyleSheetTransformer::from_css` on the token tree of the source -/
def transform (opts : Opts) (ts : List Tok) : St :=
  rules (sizeToks ts + 1) ⟨opts, .empty, .empty, false, [], []⟩ ts true

end GE.Css
