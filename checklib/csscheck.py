"""Shared driver of the stylesheet-compiler properties (C08, C09, C10, C17, C18, C19).

Every run, for the property `pid`:
  1. regenerate the extracted tables from /repo and re-check the Lean obligations (theorems about GE/Model/Css*.lean);
  2. correspondence: the implementation's input token tree goes through the Lean model (`css` op of gedriver) and the model's
     normal / low-priority token streams, warnings and source-map source positions are compared with the implementation's;
  3. oracle: checklib/cssoracle.py (written from the property texts, independent of the model) judges the implementation's
     outputs; its problems are `input` violations, matched against known_findings.jsonl by classification.
"""
import json
from . import core, cssgen, cssmodel, cssoracle

ORACLES = {"C08": cssoracle.check_c08, "C09": cssoracle.check_c09, "C10": cssoracle.check_c10,
           "C17": cssoracle.check_c17, "C18": cssoracle.check_c18, "C19": cssoracle.check_c19}

TRUSTED = ["Lean 4.33 kernel", "axioms ⊆ {propext, Classical.choice, Quot.sound}",
           "checklib/extractors.py (regenerates GE/Extracted/CssTables.lean, CssOutputShape.lean from the Rust sources every run)",
           "harness/src/cssops.rs (dumps cssparser's token tree of the input and of both outputs; the tokenizer itself, cssparser 0.34, "
           "is trusted as the reading of CSS Syntax 3)",
           "GE/Model/Css.lean tied to glass-easel-stylesheet-compiler by differential runs (token streams, warnings, source-map positions)",
           "checklib/cssoracle.py (independent statement of the expected rewrite, written from the property text)"]


def gen_cases(rng, n, focus=None):
    cases = []
    for i in range(n):
        r = rng.fork(("css", i))
        css = cssgen.gen_stylesheet(r.fork("sheet"), 1 + r.below(6))
        o = cssgen.gen_options(r.fork("opts"))
        if focus:
            focus(r.fork("focus"), o)
        cases.append((o, css))
    return cases


def run_property(chk, pid, module, theorems, n_quick, n_thorough, focus=None, extra_cases=None, nontrivial=None, extra=None):
    quick = chk.tier != "thorough"
    chk.model_tie([(module, theorems)])
    rng = chk.rng.fork(pid)
    cases = list(extra_cases(rng.fork("extra"), quick) if extra_cases else [])
    cases += gen_cases(rng, n_quick if quick else n_thorough, focus)
    results = cssmodel.run_cases(cases)
    # ---- correspondence (the disagreement search runs on every case; a failing proof widens nothing here:
    #      the generated population is already the widest we have) --------------------------------------
    cssmodel.compare(chk, cases, results, stream="css")
    if pid in ("C08", "C09", "C17"):
        # the specifications of the whole-sheet theorems against the implementation itself (sheets without an import sign)
        cssmodel.compare_spec(chk, cases, results, limit=300 if quick else 3000)
    # ---- oracle --------------------------------------------------------------------------------------
    check = ORACLES[pid]
    nprob = 0
    classes = {}
    for (o, css), res in zip(cases, results):
        if "panic" in res:
            chk.violation("input", f"the stylesheet transformer panicked: {res['panic'][:200]}", classification="panic", css=css, opts=o)
            continue
        nt = nontrivial(o, css, res) if nontrivial else True
        chk.case((json.dumps(o, sort_keys=True), css), nontrivial=nt, sample={"opts": o, "css": css[:200]})
        try:
            probs = check(o, res)
        except Exception as e:  # the oracle must not die silently
            chk.violation("correspondence", f"css oracle raised {type(e).__name__}: {e}", classification="oracle-error", css=css, opts=o)
            continue
        for p in probs:
            nprob += 1
            classes[p["classification"]] = classes.get(p["classification"], 0) + 1
            chk.violation("input", f"{p['what']}", classification=p["classification"], css=css, opts=o,
                          at=p.get("at"), expected=p.get("expected"), got=p.get("got"),
                          normal=res.get("normal", "")[:600], low=res.get("low", "")[:300])
    chk.bump("oracle:problems", nprob)
    for c, k in sorted(classes.items()):
        chk.bump("oracle:class:" + c, k)
    if extra:
        extra(chk, cases, results, quick)
    return cases, results


def replay(chk, pid, path):
    o = json.load(open(path))["first"]
    if "css" in o and "opts" in o:
        cases = [(o["opts"], o["css"])]
        res = cssmodel.run_cases(cases)
        core.lake_build(["gedriver"])
        cssmodel.compare(chk, cases, res, stream="replay")
        for p in ORACLES[pid](o["opts"], res[0]):
            chk.violation("input", p["what"], classification=p["classification"], css=o["css"], opts=o["opts"], at=p.get("at"),
                          expected=p.get("expected"), got=p.get("got"), normal=res[0].get("normal", "")[:600], low=res[0].get("low", "")[:300])
        print("normal:", res[0].get("normal", "")[:600])
        print("low:   ", res[0].get("low", "")[:300])
    return chk.finish()
