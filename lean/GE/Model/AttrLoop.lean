/-!
Model of the attribute loop of `Element::parse` (and of `CustomAttribute::parse_until_tag_end`) as
far as *progress* is concerned: what each iteration consumes, depending on the next character.
The attribute value parsers are abstracted by a function that returns a suffix of its input.
-/
namespace GE.AttrLoop

/-- `is_template_whitespace` -/
def isTemplateWs (c : Char) : Bool := c = ' ' || (9 ≤ c.toNat && c.toNat ≤ 13)

/-- `Ident::is_start_char` -/
def isStart (c : Char) : Bool := ('a' ≤ c && c ≤ 'z') || ('A' ≤ c && c ≤ 'Z') || c = '_'

/-- `Ident::is_following_char` -/
def isFollowing (c : Char) : Bool := isStart c || ('0' ≤ c && c ≤ '9') || c = '-' || c = '.'

def skipWs : List Char → List Char
  | c :: cs => if isTemplateWs c then skipWs cs else c :: cs
  | [] => []

/-- the rest of `Ident::parse_colon_separated` after its first character -/
def skipName : List Char → List Char
  | c :: cs => if c = ':' || isFollowing c then skipName cs else c :: cs
  | [] => []

/-- the invalid-attribute-name loop: `ps.next()` until `/`, `>`, an identifier start or `stop` -/
def skipInvalid (stop : Char → Bool) : List Char → List Char
  | c :: cs => if c = '/' || c = '>' || isStart c || stop c then c :: cs else skipInvalid stop cs
  | [] => []

inductive Step where
  | exit (rest : List Char)
  | continue (rest : List Char)
deriving DecidableEq

def startsWithGt : List Char → Bool
  | '>' :: _ => true
  | _ => false

/-- one iteration; `vp` is the attribute value parser, `stop` the whitespace test of the invalid-name loop -/
def iter (vp : List Char → List Char) (stop : Char → Bool) (s : List Char) : Step :=
  match skipWs s with
  | [] => .exit []
  | c :: cs =>
    if c = '>' then .exit (c :: cs)
    else if c = '/' then (if startsWithGt cs then .exit (c :: cs) else .continue cs)
    else if isStart c then .continue (vp (skipName cs))
    else .continue (skipInvalid stop (c :: cs))

/-- the `loop { … }`, fuel-bounded (`none` = fuel exhausted) -/
def loop (vp : List Char → List Char) (stop : Char → Bool) : Nat → List Char → Option (List Char)
  | 0, _ => none
  | fuel + 1, s =>
    match iter vp stop s with
    | .exit r => some r
    | .continue r => loop vp stop fuel r

end GE.AttrLoop
