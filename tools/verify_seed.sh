#!/bin/sh
# usage: tools/verify_seed.sh <patch.diff> -- applies to /repo, builds, runs the pinned suite, undoes; prints pass/fail counts
set -u
cd /repo || exit 2
if [ -n "$(git status --porcelain --untracked-files=no)" ]; then echo "repo not clean"; exit 2; fi
git apply "$1" || { echo "patch does not apply"; exit 2; }
git diff --stat | tail -1
cargo test --workspace --no-fail-fast --offline 2>&1 | grep -E "^test result" | awk '{p+=$4; f+=$6} END {print "passed=" p " failed=" f}'
git checkout -- . && git status --porcelain --untracked-files=no
