//! Line protocol codec shared with the Lean driver and the Python orchestrator.
//! A line is TAB-separated fields; inside a field `\\`, `\t`, `\n`, `\r` are escaped and every
//! char outside printable ASCII is written as `\u{HEX}`.

pub fn esc(s: &str) -> String {
    let mut o = String::with_capacity(s.len() + 8);
    for c in s.chars() {
        match c {
            '\\' => o.push_str("\\\\"),
            '\t' => o.push_str("\\t"),
            '\n' => o.push_str("\\n"),
            '\r' => o.push_str("\\r"),
            ' '..='~' => o.push(c),
            _ => {
                o.push_str(&format!("\\u{{{:X}}}", c as u32));
            }
        }
    }
    o
}

pub fn unesc(s: &str) -> String {
    let mut o = String::with_capacity(s.len());
    let mut it = s.chars().peekable();
    while let Some(c) = it.next() {
        if c != '\\' {
            o.push(c);
            continue;
        }
        match it.next() {
            Some('\\') => o.push('\\'),
            Some('t') => o.push('\t'),
            Some('n') => o.push('\n'),
            Some('r') => o.push('\r'),
            Some('u') => {
                let _ = it.next(); // {
                let mut v = 0u32;
                while let Some(&d) = it.peek() {
                    it.next();
                    if d == '}' {
                        break;
                    }
                    v = v * 16 + d.to_digit(16).unwrap_or(0);
                }
                o.push(char::from_u32(v).unwrap_or('\u{FFFD}'));
            }
            Some(x) => {
                o.push('\\');
                o.push(x);
            }
            None => o.push('\\'),
        }
    }
    o
}

pub fn fields(line: &str) -> Vec<String> {
    line.split('\t').map(unesc).collect()
}

/// S-expression atom: bare if simple, else quoted with the same escapes plus `\"`.
pub fn atom(s: &str) -> String {
    let simple = !s.is_empty()
        && s.chars()
            .all(|c| c.is_ascii_alphanumeric() || c == '_' || c == '-' || c == '.' || c == '$');
    if simple {
        s.to_string()
    } else {
        let mut o = String::from("\"");
        for c in s.chars() {
            match c {
                '"' => o.push_str("\\\""),
                '\\' => o.push_str("\\\\"),
                '\t' => o.push_str("\\t"),
                '\n' => o.push_str("\\n"),
                '\r' => o.push_str("\\r"),
                ' '..='~' => o.push(c),
                _ => o.push_str(&format!("\\u{{{:X}}}", c as u32)),
            }
        }
        o.push('"');
        o
    }
}

/// Always-quoted string atom.
pub fn qstr(s: &str) -> String {
    let mut o = String::from("\"");
    for c in s.chars() {
        match c {
            '"' => o.push_str("\\\""),
            '\\' => o.push_str("\\\\"),
            '\t' => o.push_str("\\t"),
            '\n' => o.push_str("\\n"),
            '\r' => o.push_str("\\r"),
            ' '..='~' => o.push(c),
            _ => o.push_str(&format!("\\u{{{:X}}}", c as u32)),
        }
    }
    o.push('"');
    o
}
