"""Table extractors: each returns Lean source regenerated from /repo; a lost pattern raises BrokenTie."""
import os, re
from . import core

def regen_all():
    changed = []
    for name, fn in EXTRACTORS.items():
        src = fn()
        if core.write_if_changed(os.path.join(core.LEAN, "GE", "Extracted", name + ".lean"), src):
            changed.append(name)
    return changed

EXTRACTORS = {}


def _read(rel):
    return open(os.path.join(core.REPO, rel)).read()


def lean_char(c):
    if c == "'":
        return "'\\''"
    if c == "\\":
        return "'\\\\'"
    if " " <= c <= "~":
        return f"'{c}'"
    return "(Char.ofNat %d)" % ord(c)


def lean_str(s):
    o = []
    for c in s:
        if c == '"':
            o.append('\\"')
        elif c == "\\":
            o.append("\\\\")
        elif c == "\n":
            o.append("\\n")
        elif c == "\t":
            o.append("\\t")
        elif c == "\r":
            o.append("\\r")
        elif " " <= c <= "~":
            o.append(c)
        else:
            o.append("\\u{%x}" % ord(c))
    return '"' + "".join(o) + '"'


def _rust_char_array(src, name):
    m = re.search(r"const\s+" + name + r"\s*:\s*\[char;\s*(\d+)\]\s*=\s*\[(.*?)\];", src, re.S)
    if not m:
        raise core.BrokenTie(f"extract:{name}", "pattern not found")
    items = re.findall(r"'(\\.|[^'\\])'", m.group(2))
    if len(items) != int(m.group(1)):
        raise core.BrokenTie(f"extract:{name}", "length mismatch")
    return [bytes(x, "utf-8").decode("unicode_escape") if x.startswith("\\") else x for x in items]


def _rust_str_array(src, name):
    m = re.search(r"const\s+" + name + r"\s*:\s*\[&(?:'static\s+)?str;\s*(\d+)\]\s*=\s*\[(.*?)\];", src, re.S)
    if not m:
        raise core.BrokenTie(f"extract:{name}", "pattern not found")
    items = re.findall(r'"((?:\\.|[^"\\])*)"', m.group(2))
    if len(items) != int(m.group(1)):
        raise core.BrokenTie(f"extract:{name}", "length mismatch")
    return items


def ex_varname():
    src = _read("glass-easel-template-compiler/src/proc_gen/mod.rs")
    chars = _rust_char_array(src, "VAR_NAME_CHARS")
    start = _rust_char_array(src, "VAR_NAME_START_CHARS")
    m = re.search(r"const\s+VAR_NAME_INDEX_PRESERVE\s*:\s*usize\s*=\s*(\d+)\s*;", src)
    if not m:
        raise core.BrokenTie("extract:VAR_NAME_INDEX_PRESERVE", "pattern not found")
    try:
        reserved = _rust_str_array(src, "VAR_NAME_RESERVED")
    except core.BrokenTie:
        reserved = []
    # the shape of get_var_name itself (start table for the first digit, full table afterwards)
    body = re.search(r"fn get_var_name\(mut var_id: usize\) -> String \{(.*?)\n\}", src, re.S)
    if not body:
        raise core.BrokenTie("extract:get_var_name", "pattern not found")
    norm = re.sub(r"\s+", " ", body.group(1)).strip()
    expect = ("let mut var_name = String::new(); var_name.push(VAR_NAME_START_CHARS[var_id % VAR_NAME_START_CHARS.len()]); "
              "var_id /= VAR_NAME_START_CHARS.len(); while var_id > 0 { var_name.push(VAR_NAME_CHARS[var_id % VAR_NAME_CHARS.len()]); "
              "var_id /= VAR_NAME_CHARS.len(); } var_name")
    shape_ok = norm == expect
    return ("/-! GENERATED from /repo/glass-easel-template-compiler/src/proc_gen/mod.rs by checklib/extractors.py — do not edit. -/\n"
            "namespace GE.Extracted\n"
            f"def varNameChars : List Char := [{', '.join(lean_char(c) for c in chars)}]\n"
            f"def varNameStartChars : List Char := [{', '.join(lean_char(c) for c in start)}]\n"
            f"def varNameIndexPreserve : Nat := {m.group(1)}\n"
            f"def varNameReserved : List (List Char) := [{', '.join('[' + ', '.join(lean_char(c) for c in s) + ']' for s in reserved)}]\n"
            f"/-- whether the body of `get_var_name` still has the loop shape the model mirrors -/\n"
            f"def getVarNameShapeOk : Bool := {'true' if shape_ok else 'false'}\n"
            "end GE.Extracted\n")


EXTRACTORS["VarName"] = ex_varname
