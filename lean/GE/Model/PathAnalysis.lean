import GE.Model.ExprGen
/-!
Model of the dependency ("path") analysis of `to_proc_gen_rec` (`proc_gen/expr.rs`):
`PathSlice`, `PathSliceList`, `PathAnalysisState`, the `path_calc` accumulator, and the printers
`to_path_analysis_str*` (the guard / update-path-tree expressions of the generated code).
The traversal allocates private identifiers in the same order as the value generator.
-/
namespace GE.PA
open GE.Gen

mutual
inductive Slice where
  | ident (s : String)
  | scopeIndex (i : Nat)
  | staticMember (s : String)
  | indirect (ident : String)
  | combineObj (fs : ObjSubs)
  | combineArr (v sp : ArrSubs)
  | condition (ident : String) (tp : Pas) (ts : PslList) (fp : Pas) (fs : PslList)
/-- `PathSliceList` -/
inductive Psl where
  | nil
  | cons (s : Slice) (r : Psl)
/-- `PathAnalysisState` -/
inductive Pas where
  | inPath (l : Psl)
  | notInPath
/-- `Vec<PathSliceList>` (the `path_calc` / `sub_p` lists) -/
inductive PslList where
  | nil
  | cons (l : Psl) (r : PslList)
inductive ObjSubs where
  | nil
  | cons (key : Option String) (p : Pas) (sub : PslList) (r : ObjSubs)
inductive ArrSubs where
  | nil
  | cons (p : Pas) (sub : PslList) (r : ArrSubs)
end

def Psl.snoc : Psl → Slice → Psl
  | .nil, s => .cons s .nil
  | .cons x r, s => .cons x (r.snoc s)

def PslList.append : PslList → PslList → PslList
  | .nil, b => b
  | .cons x r, b => .cons x (r.append b)

def PslList.isEmpty : PslList → Bool
  | .nil => true
  | _ => false

def PslList.length : PslList → Nat
  | .nil => 0
  | .cons _ r => r.length + 1

def ArrSubs.isEmpty : ArrSubs → Bool
  | .nil => true
  | _ => false

def ArrSubs.snoc : ArrSubs → Pas → PslList → ArrSubs
  | .nil, p, s => .cons p s .nil
  | .cons p' s' r, p, s => .cons p' s' (r.snoc p s)

/-- `…_and_end_path`: push the state onto `path_calc` if it is a path -/
def endPath (pas : Pas) (pc : PslList) : PslList :=
  match pas with
  | .inPath l => pc.append (.cons l .nil)
  | .notInPath => pc

structure Res where
  pas : Pas
  pc : PslList
  next : Nat

structure ObjRes where
  subs : ObjSubs
  next : Nat

structure ArrRes where
  main : ArrSubs
  spread : ArrSubs
  next : Nat

structure ListRes where
  pc : PslList
  next : Nat

mutual
/-- path analysis of `to_proc_gen_rec` (`pc` = what this call pushes onto the caller's `path_calc`) -/
def analyze (scopes : List ScopeInfo) (e : Expr) (n : Nat) : Res :=
  match e with
  | .scope i =>
    let sc := scopeAt scopes i
    if sc.lv = 3 ∨ sc.lv = 4 ∨ sc.tree.isSome then ⟨.inPath (.cons (.scopeIndex i) .nil), .nil, n⟩
    else ⟨.notInPath, .nil, n⟩
  | .data x => ⟨.inPath (.cons (.ident x) .nil), .nil, n⟩
  | .toStr x =>
    let r := analyze scopes x n
    ⟨.notInPath, endPath r.pas r.pc, r.next⟩
  | .undef | .null | .str _ | .int _ | .float _ | .bool _ => ⟨.notInPath, .nil, n⟩
  | .obj fs =>
    let r := analyzeObj scopes fs n
    ⟨.inPath (.cons (.combineObj r.subs) .nil), .nil, r.next⟩
  | .arr fs =>
    let r := analyzeArr scopes fs n .nil .nil
    ⟨.inPath (.cons (.combineArr r.main r.spread) .nil), .nil, r.next⟩
  | .smember o f =>
    let r := analyze scopes o n
    match r.pas with
    | .inPath l => ⟨.inPath (l.snoc (.staticMember f)), r.pc, r.next⟩
    | .notInPath => ⟨.notInPath, r.pc, r.next⟩
  | .dmember o f =>
    let ident := privName n
    let rf := analyze scopes f (n + 1)
    let ro := analyze scopes o rf.next
    let pc := (endPath rf.pas rf.pc).append ro.pc
    match ro.pas with
    | .inPath l => ⟨.inPath (l.snoc (.indirect ident)), pc, ro.next⟩
    | .notInPath => ⟨.notInPath, pc, ro.next⟩
  | .call f args =>
    let rf := analyze scopes f n
    let ra := analyzeList scopes args rf.next
    ⟨.notInPath, (endPath rf.pas rf.pc).append ra.pc, ra.next⟩
  | .un _ x =>
    let r := analyze scopes x n
    ⟨.notInPath, endPath r.pas r.pc, r.next⟩
  | .bin op x y =>
    if op = .NullishCoalescing then
      let rx := analyze scopes x (n + 1)
      let ry := analyze scopes y rx.next
      ⟨.notInPath, (endPath rx.pas rx.pc).append (endPath ry.pas ry.pc), ry.next⟩
    else
      let rx := analyze scopes x n
      let ry := analyze scopes y rx.next
      ⟨.notInPath, (endPath rx.pas rx.pc).append (endPath ry.pas ry.pc), ry.next⟩
  | .cond c t f =>
    let ident := privName n
    let rc := analyze scopes c (n + 1)
    let rt := analyze scopes t rc.next
    let rf := analyze scopes f rt.next
    ⟨.inPath (.cons (.condition ident rt.pas rt.pc rf.pas rf.pc) .nil), endPath rc.pas rc.pc, rf.next⟩
def analyzeList (scopes : List ScopeInfo) (args : Exprs) (n : Nat) : ListRes :=
  match args with
  | .nil => ⟨.nil, n⟩
  | .cons e r =>
    let re := analyze scopes e n
    let rr := analyzeList scopes r re.next
    ⟨(endPath re.pas re.pc).append rr.pc, rr.next⟩
def analyzeObj (scopes : List ScopeInfo) (fs : ObjFields) (n : Nat) : ObjRes :=
  match fs with
  | .nil => ⟨.nil, n⟩
  | .named k _ v r =>
    let rv := analyze scopes v n
    let rr := analyzeObj scopes r rv.next
    ⟨.cons (some k) rv.pas rv.pc rr.subs, rr.next⟩
  | .spread v r =>
    let rv := analyze scopes v n
    let rr := analyzeObj scopes r rv.next
    ⟨.cons none rv.pas rv.pc rr.subs, rr.next⟩
/-- array items go to the `spread` list once it is non-empty (i.e. after the first spread) -/
def analyzeArr (scopes : List ScopeInfo) (fs : ArrFields) (n : Nat) (main spread : ArrSubs) : ArrRes :=
  match fs with
  | .nil => ⟨main, spread, n⟩
  | .item v r =>
    let rv := analyze scopes v n
    if spread.isEmpty then analyzeArr scopes r rv.next (main.snoc rv.pas rv.pc) spread
    else analyzeArr scopes r rv.next main (spread.snoc rv.pas rv.pc)
  | .spread v r =>
    let rv := analyze scopes v n
    analyzeArr scopes r rv.next main (spread.snoc rv.pas rv.pc)
  | .hole r =>
    if spread.isEmpty then analyzeArr scopes r n (main.snoc .notInPath .nil) spread
    else analyzeArr scopes r n main (spread.snoc .notInPath .nil)
end

/-! ### printers (`to_path_analysis_str*`) -/

def lit (s : String) : String := jsLitStr s

/-- `PathAnalysisState::to_path_analysis_str` given the already printed group prefix and path body:
the written text and whether it returned `Some` -/
def combinePas (pre : String) (body : Option String) (subEmpty : Bool) : String × Bool :=
  match body with
  | some b => (pre ++ b, true)
  | none => if subEmpty then (pre, false) else (pre ++ "undefined", true)

mutual
/-- `PathSliceList::to_path_analysis_str`; `acc` is the text accumulated so far (`ret`) -/
def pslStr (scopes : List ScopeInfo) (td : Bool) : Psl → String → String
  | .nil, acc => acc
  | .cons s r, acc => pslStr scopes td r (sliceStr scopes td s acc)
def sliceStr (scopes : List ScopeInfo) (td : Bool) : Slice → String → String
  | .ident s, acc => acc ++ "U." ++ s
  | .scopeIndex i, acc => acc ++ ((scopeAt scopes i).tree.getD "undefined")
  | .staticMember s, acc => "Z(" ++ acc ++ "," ++ lit s ++ ")"
  | .indirect i, acc => "Z(" ++ acc ++ "," ++ i ++ ")"
  | .combineObj fs, acc =>
    let r := objStr scopes td fs false
    -- (s, prepend, need_object_assign)
    if td then
      (if r.2.2 then acc ++ r.2.1 ++ "Object.assign({" ++ r.1 ++ "})" else acc ++ r.2.1 ++ "{" ++ r.1 ++ "}")
    else
      (if r.2.2 then acc ++ r.2.1 ++ "Q.b(Object.assign({" ++ r.1 ++ "}))"
       else acc ++ r.2.1 ++ "Q.b({" ++ r.1 ++ "})")
  | .combineArr v sp, acc =>
    acc ++ arrSpreadStr scopes td sp ++ "Q.a([" ++ arrItemsStr scopes td v false ++ "])"
  | .condition c tp ts fp fs, acc =>
    let t := combinePas (groupPrefix scopes td ts) (pasBody scopes td tp) ts.isEmpty
    let f := combinePas (groupPrefix scopes td fs) (pasBody scopes td fp) fs.isEmpty
    acc ++ "(" ++ c ++ "?" ++ t.1 ++ (if t.2 then "" else "undefined") ++ ":" ++ f.1 ++
      (if f.2 then "" else "undefined") ++ ")"
def pasBody (scopes : List ScopeInfo) (td : Bool) : Pas → Option String
  | .inPath l => some (pslStr scopes td l "")
  | .notInPath => none
/-- `to_path_analysis_str_group_prefix` -/
def groupPrefix (scopes : List ScopeInfo) (td : Bool) : PslList → String
  | .nil => ""
  | .cons l r =>
    let needParen := !r.isEmpty
    "!!" ++ (if needParen then "(" else "") ++ pslStr scopes td l "" ++ groupRest scopes td r ++
      (if needParen then ")" else "") ++ "||"
def groupRest (scopes : List ScopeInfo) (td : Bool) : PslList → String
  | .nil => ""
  | .cons l r => "||" ++ pslStr scopes td l "" ++ groupRest scopes td r
/-- object fields: returns (s, prepend, need_object_assign); the flag is `next_need_comma_sep` -/
def objStr (scopes : List ScopeInfo) (td : Bool) : ObjSubs → Bool → String × String × Bool
  | .nil, _ => ("", "", false)
  | .cons key p sub r, comma =>
    let t := combinePas (groupPrefix scopes td sub) (pasBody scopes td p) sub.isEmpty
    if t.2 then
      match key with
      | some k =>
        let rr := objStr scopes td r true
        ((if comma then "," else "") ++ k ++ ":" ++ t.1 ++ rr.1, rr.2.1, rr.2.2)
      | none =>
        let rr := objStr scopes td r false
        ("},Q.c(" ++ t.1 ++ "),{" ++ rr.1, "(" ++ t.1 ++ ")===true||" ++ rr.2.1, true)
    else objStr scopes td r comma
def arrSpreadStr (scopes : List ScopeInfo) (td : Bool) : ArrSubs → String
  | .nil => ""
  | .cons p sub r =>
    let t := combinePas (groupPrefix scopes td sub) (pasBody scopes td p) sub.isEmpty
    (if t.2 then "(" ++ t.1 ++ ")!==undefined||" else "") ++ arrSpreadStr scopes td r
def arrItemsStr (scopes : List ScopeInfo) (td : Bool) : ArrSubs → Bool → String
  | .nil, _ => ""
  | .cons p sub r, comma =>
    let t := combinePas (groupPrefix scopes td sub) (pasBody scopes td p) sub.isEmpty
    -- every item keeps its index: an item without a path is left as a hole
    (if comma then "," else "") ++ (if t.2 then t.1 else "") ++ arrItemsStr scopes td r true
end

def pasStr (scopes : List ScopeInfo) (td : Bool) (pas : Pas) (sub : PslList) : String × Bool :=
  combinePas (groupPrefix scopes td sub) (pasBody scopes td pas) sub.isEmpty

/-- `ExpressionProcGen::lvalue_state_expr` -/
def stateExpr (scopes : List ScopeInfo) (td : Bool) (pas : Pas) (sub : PslList) : String :=
  let t := pasStr scopes td pas sub
  if t.2 then t.1 else t.1 ++ "undefined"

def prepareAnalysis (scopes : List ScopeInfo) (e : Expr) : Res := analyze scopes e 0

end GE.PA
