"""corr:js-writer — the JavaScript writers of proc_gen/mod.rs (statement separators, hoisted `var` lists, nested scopes, the two identifier
counters with extend / align) as modelled in GE/Model/JsWriter.lean, replayed on the operations the real generators performed (hook
`writer_trace`): the replayed text must be the real artefact, every identifier must be allocated from the counter the real code used, and the
monitor of `GE.JsWriter.monitor_sound` (GE/Thm/C02Writer.lean) must accept the run, every generated identifier that is written as a piece of text of its own
must be visible, by the model's ghost account of scopes, where it is written (`uses`: this ties the visible sets the theorem speaks of to what the generators rely on) — then no generated identifier re-uses a name that is
visible where it is going to be used (no duplicate parameter, no captured outer variable)."""
import json
from . import core

DIRECTED = [
    '<v wx:for="{{l}}"><v wx:for="{{item}}" wx:for-item="j"><v wx:for="{{j}}">{{index}}{{item}}{{j}}</v></v></v>',
    '<wxs module="m">exports.f=1</wxs><wxs module="n" src="s"/><v wx:for="{{l}}" class="{{a?b:c}}"><block wx:if="{{item}}">t{{index}}</block><v wx:else slot:q>{{q}}</v></v>',
    '<c><v slot:a slot:b wx:if="{{a}}">{{a}}{{b}}</v><block wx:else><v slot:c wx:for="{{c}}">{{item}}</v></block></c>',
    '<block wx:if="{{a}}"><v slot:p/></block><block wx:elif="{{b}}"><v slot:p slot:q>{{p}}</v></block><block wx:else><block wx:for="{{l}}"><v slot:r>{{r}}{{item}}</v></block></block>',
    '<template name="t"><v wx:for="{{l}}" wx:key="k">{{item.k}}</v></template><template is="t" data="{{l}}"/><template is="{{n}}" data="{{ ...o, l: l }}"/><include src="q"/>',
    '<v wx:for="{{l}}" wx:key="*this" model:value="{{item}}" bind:tap="{{m.f}}" data-a="{{a[b][c]}}" mark:m="{{x ?? y}}" style="{{s}}" class="a {{b}}">{{ {a, ...o}.a }}</v>',
    '<slot name="{{n}}" a="{{b}}"/><slot wx:if="{{c}}"/><slot wx:for="{{l}}" slot:x name="{{x}}"/>',
    "".join('<v a="{{x%d}}"><v wx:if="{{y%d}}"/><v wx:else wx:for="{{z}}"/></v>' % (i, i) for i in range(40)),
]


def run(chk, filesets, cap=150):
    cases = []
    for d in DIRECTED:
        cases.append(({"files": [["p", d], ["q", "<v/>{{a}}"]], "scripts": [["s", "exports.f=1"]]}, "p", "obj"))
    cases.append(({"files": [["p", DIRECTED[1]], ["q", DIRECTED[4]]], "scripts": [["s", "exports.f=1"]]}, "p", "all"))
    cases.append(({"files": [["p", DIRECTED[1]], ["q", DIRECTED[4]]], "scripts": [["s", "exports.f=1"]], "extra": "var foo=1;"}, "p", "wx"))
    for i, fs in enumerate(filesets):
        if len(cases) >= cap:
            break
        if len(json.dumps(fs)) > 6000:
            continue
        cases.append((fs, fs["files"][0][0], ("obj", "obj", "all", "wx")[i % 4]))
    outs = core.run_harness([core.req("writer_trace", json.dumps(fs), p, what) for fs, p, what in cases])
    reqs, real, meta = [], [], []
    for (fs, p, what), a in zip(cases, outs):
        f = a.split("\t")
        if f[0] == "err":
            chk.bump("js-writer:emitter-returned-error")
            continue
        if a.startswith("PANIC") or f[0] != "ok" or len(f) < 3:
            chk.bump("js-writer:compiler-panicked")   # reported by the artefact loop of C02 / by C01
            continue
        evs = core.unesc(f[2]).split("\x1f")
        reqs.append(core.req("jswriter", *evs))
        real.append(core.unesc(f[1]))
        meta.append((fs, p, what, len(evs)))
    if not core.MODEL_OK:
        chk.bump("corr:js-writer:skipped-model-unavailable", len(reqs))
        return
    model = core.run_driver(reqs)
    nd = 0
    idents = ops = 0
    for (fs, p, what, n), text, m in zip(meta, real, model):
        chk.disagreements_checked += 1
        ops += n
        parts = core.unesc(m).split("\t")
        small = fs["files"] if len(json.dumps(fs)) < 3000 else "(large)"
        if parts[0] == "bad-trace":
            nd += 1
            if nd <= 3:
                chk.violation("correspondence", "stream js-writer: the recorded writer operations do not have the shape the model reads (a nested top-scope writer "
                              "outside the new / align / function_scope / finish idiom, or an unknown operation)", stream="js-writer", files=small, artefact=what)
            continue
        # (the artefact text may contain tabs: the flags are the last five fields)
        parts = ["\t".join(parts[:-5])] + parts[-5:]
        flags = dict(x.split("=") for x in parts[1:])
        idents += int(flags.get("idents", "0"))
        if parts[0] != text:
            nd += 1
            if nd <= 3:
                k = next((i for i, (x, y) in enumerate(zip(parts[0], text)) if x != y), min(len(parts[0]), len(text)))
                chk.violation("correspondence", f"stream js-writer: replaying the recorded writer operations in the model gives another text than the real artefact (first difference at {k})",
                              stream="js-writer", files=small, artefact=what, real=text[max(0, k - 80):k + 80], model=parts[0][max(0, k - 80):k + 80])
            continue
        if flags.get("sync") != "true":
            nd += 1
            if nd <= 3:
                chk.violation("correspondence", "stream js-writer: an identifier was allocated from another counter value in the real writers than in the model",
                              stream="js-writer", files=small, artefact=what)
            continue
        if flags.get("fresh") != "true":
            chk.violation("input", "a generated identifier re-uses a name that is visible where it is used (duplicate parameter or captured outer variable)",
                          files=small, artefact=what, code=text[:1500])
            continue
        if flags.get("uses") != "true":
            # the generators wrote the name of a generated identifier at a place where, by the model's account of scopes, that identifier is not visible:
            # either a scope defect of the generators (C05) or the model's visible sets are too small (then monitor_sound would be about the wrong sets)
            nd += 1
            if nd <= 3:
                chk.violation("correspondence", "stream js-writer: a generated identifier is written (used) where the writer model does not have it visible",
                              stream="js-writer-uses", files=small, artefact=what, code=text[:1500])
            continue
        if flags.get("monitor") != "true":
            nd += 1
            if nd <= 3:
                chk.violation("correspondence", "stream js-writer: the run of the real generators is not accepted by the monitor of monitor_sound (counter discipline of "
                              "nested scopes / hoisted declarations): the freshness theorem does not speak of this artefact", stream="js-writer-monitor", files=small, artefact=what)
    chk.bump("corr:js-writer:artefacts", len(reqs))
    chk.bump("corr:js-writer:writer-operations", ops)
    chk.bump("corr:js-writer:identifiers-allocated", idents)
    if nd == 0:
        chk.bump("corr:js-writer:agree", len(reqs))
