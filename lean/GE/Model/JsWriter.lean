import GE.Model.VarName
/-!
Model of the JavaScript writers of `proc_gen/mod.rs`: `JsBlockStat` (statement separator flag, the two identifier
counters, `extend` / `align`), `JsTopScopeWriter` (hoisted `var` list, sub-strings, `finish`), `JsFunctionScopeWriter`
(`gen_ident`, `gen_private_ident`, `custom_stmt_str`, `stat` / `expr_stmt`, the `*_on_top_scope*` family) and
`JsExprWriter` (`function`, `function_args`, `function_dyn_args`, `brace_block`, `paren`).

The generators drive the writers through closures; here a run of the generators is a *tree of operations*
(`FOp` on a function-scope writer, `EOp` on an expression writer).  The tree of a real run is recorded by the
`writer_trace` hook and replayed by `run*` below; the text it produces is compared with the real artefact and the
counter every identifier is allocated from with the real counter (`corr:js-writer`).

`subTop body` is the idiom `let mut t = JsTopScopeWriter::new(..); t.align(w); t.function_scope(body); w.expr_stmt(|w| write!(w, "{}", t.finish()))`
(the only way `proc_gen/tag.rs` creates a nested top-scope writer).

Ghost state (not in the Rust code; used by `GE/Thm/C02Writer.lean`): `topVis` / `locVis` — the public identifier ids that are
declared, at this moment, in the JavaScript scope of the current top-scope writer or one of its ancestors (`topVis`) and in the function /
block scopes between that scope and the current one (`locVis`); `evs` — one event per allocated public identifier with the ids
visible where it is going to be used; `ok` — the *monitor*: three comparisons of counters (see `c1`, `c2`) plus "nothing is
allocated after a nested top-scope writer was written out" (`allocFree`).  A `{ … }` block counts as a scope of its own
(sibling `if` / `else` bodies re-use names; each reads only its own).
-/
namespace GE.JsWriter
open GE.VarName

structure Blk where
  sep : Bool
  id : Nat
  priv : Nat
deriving Repr, DecidableEq

/-- `JsBlockStat::extend` -/
def Blk.extend (b : Blk) : Blk := { sep := false, id := b.id, priv := b.priv }

structure Top where
  decls : List String
  subs : List String
  blk : Blk

/-- `JsTopScopeWriter::finish`: `var d1,d2;s1;s2` -/
def Top.finish (t : Top) : String :=
  ";".intercalate ((if t.decls.isEmpty then [] else ["var " ++ ",".intercalate t.decls]) ++ t.subs)

/-- `next_var_name`: (id of the name handed out, next counter) -/
def allocId (c : Nat) : Nat × Nat :=
  match nextVarName nextFuel c with
  | some (_, n) => (n - 1, n)
  | none => (c, c + 1)

def pubName (id : Nat) : String := String.ofList (varName id)
def privName (id : Nat) : String := String.ofList (privateName id)

structure Ev where
  id : Nat
  vis : List Nat
  /-- the name handed out (for the use check of `write`) -/
  name : String

mutual
inductive FOp where
  | genIdent (c : Nat)                     -- `gen_ident` (c: the real counter before, from the trace)
  | genPriv (c : Nat)                      -- `gen_private_ident`
  | custom (s : String)                    -- `custom_stmt_str`
  | exprStmt (es : List EOp)               -- `expr_stmt`
  | setTop (name : String)                 -- `set_var_on_top_scope`
  | setTopInit (name : String) (es : List EOp)   -- `set_var_on_top_scope_init`
  | declTop (c : Nat)                      -- `declare_var_on_top_scope`
  | declTopInit (c : Nat) (es : List EOp)  -- `declare_var_on_top_scope_init`
  | subTop (c p : Nat) (body : List FOp)   -- nested top-scope writer, aligned, one function scope, written out as a statement
inductive EOp where
  | write (s : String)
  | fn (args : Option String) (body : List FOp)   -- `function` / `function_args`
  | fnDyn (cs : List Nat) (args : String) (body : List FOp)   -- `function_dyn_args`: `cs.length` identifiers from `gen_ident`, parameter list as written
  | brace (body : List FOp)
  | paren (es : List EOp)
  | declTop (c : Nat)                      -- `JsExprWriter::declare_var_on_top_scope`
end

structure St where
  w : String
  loc : Option Blk
  top : Top
  topVis : List Nat
  locVis : List Nat
  evs : List Ev
  ok : Bool
  /-- the model's counters agreed with the traced ones at every allocation -/
  sync : Bool
  /-- ghost: ids declared by nested top-scope writers that were written out earlier in the current function / block (visible from here on, never re-issued: `allocFree`) -/
  subVis : List Nat
  /-- every generated identifier that was written as a piece of text of its own was visible where it was written (`useCheck`) -/
  uses : Bool

/-- the block an operation works on: the function's own, else the top-scope writer's (`get_block`) -/
def St.blk (s : St) : Blk := s.loc.getD s.top.blk

def St.setBlk (s : St) (b : Blk) : St :=
  match s.loc with
  | some _ => { s with loc := some b }
  | none => { s with top := { s.top with blk := b } }

def St.put (s : St) (t : String) : St := { s with w := s.w ++ t }

def identLike (t : String) : Bool :=
  !t.isEmpty && t.toList.all fun c => c.isAlphanum || c == '_'

/-- a piece of text that is exactly the name of an identifier handed out earlier must be written where that identifier is visible -/
def St.useCheck (s : St) (t : String) : Bool :=
  if identLike t then
    match s.evs.find? (fun e => e.name == t) with
    | some e => (s.topVis ++ s.locVis ++ s.subVis).contains e.id
    | none => true
  else true

/-- monitor: a public identifier is about to be taken from the function's own block — the top-scope counter must not be ahead of it -/
def St.c1 (s : St) : Bool :=
  match s.loc with
  | some L => decide (s.top.blk.id ≤ L.id)
  | none => true

/-- monitor: an identifier is about to be hoisted — the function's own counter must not be ahead of the top-scope counter -/
def St.c2 (s : St) : Bool :=
  match s.loc with
  | some L => decide (L.id ≤ s.top.blk.id)
  | none => true

/-- `gen_ident` -/
def genPub (c : Nat) (s : St) : St × String :=
  let b := s.blk
  let r := allocId b.id
  let ev : Ev := ⟨r.1, s.topVis ++ s.locVis, pubName r.1⟩
  let s1 := s.setBlk { b with id := r.2 }
  let s2 : St := match s.loc with
    | some _ => { s1 with locVis := s.locVis ++ [r.1] }
    | none => { s1 with topVis := s.topVis ++ [r.1] }
  ({ s2 with evs := s.evs ++ [ev], ok := s.ok && s.c1, sync := s.sync && (c == b.id) }, pubName r.1)

/-- allocation of `declare_var_on_top_scope*` -/
def declPub (c : Nat) (s : St) : St × String :=
  let r := allocId s.top.blk.id
  let ev : Ev := ⟨r.1, s.topVis ++ s.locVis, pubName r.1⟩
  ({ s with top := { s.top with blk := { s.top.blk with id := r.2 } }, topVis := s.topVis ++ [r.1],
            evs := s.evs ++ [ev], ok := s.ok && s.c2, sync := s.sync && (c == s.top.blk.id) }, pubName r.1)

/-- `stat`: the separator discipline -/
def St.stat (s : St) : St :=
  let b := s.blk
  if b.sep then s.put ";" else s.setBlk { b with sep := true }

/-- the arguments of `function_dyn_args` -/
def genArgs : List Nat → St → St × List String
  | [], s => (s, [])
  | c :: cs, s =>
    let r := genPub c s
    let r2 := genArgs cs r.1
    (r2.1, r.2 :: r2.2)

mutual
/-- no operation below allocates a public identifier, hoists one or opens a nested top-scope writer -/
def allocFreeF : FOp → Bool
  | .genIdent _ => false
  | .genPriv _ => true
  | .custom _ => true
  | .exprStmt es => allocFreeEs es
  | .setTop _ => true
  | .setTopInit _ es => allocFreeEs es
  | .declTop _ => false
  | .declTopInit _ _ => false
  | .subTop _ _ _ => false
def allocFreeFs : List FOp → Bool
  | [] => true
  | o :: r => allocFreeF o && allocFreeFs r
def allocFreeE : EOp → Bool
  | .write _ => true
  | .fn _ body => allocFreeFs body
  | .fnDyn cs _ body => cs.isEmpty && allocFreeFs body
  | .brace body => allocFreeFs body
  | .paren es => allocFreeEs es
  | .declTop _ => false
def allocFreeEs : List EOp → Bool
  | [] => true
  | o :: r => allocFreeE o && allocFreeEs r
end

def isSubTop : FOp → Bool
  | .subTop _ _ _ => true
  | _ => false

/-- leave a nested function / block: the text stays, the enclosing function's own block and visible set come back -/
def St.leave (s1 s : St) : St := { s1 with loc := s.loc, locVis := s.locVis, subVis := s.subVis }

/-- `declare_on_top_init` around the initialiser (`s0`: before, `s1`: after running it on an empty buffer without own block) -/
def St.closeInit (s1 s0 : St) (sep : Bool) : St :=
  { s1 with w := s0.w, loc := s0.loc, locVis := s0.locVis, subVis := s0.subVis,
            top := { s1.top with decls := s1.top.decls ++ [s1.w], blk := { s1.top.blk with sep := sep } } }

def St.openInit (s : St) (name : String) : St :=
  { s with w := name ++ "=", loc := none, locVis := [], subVis := [], top := { s.top with blk := { s.top.blk with sep := false } } }

mutual
def runF : FOp → St → St
  | .genIdent c, s => (genPub c s).1
  | .genPriv c, s =>
    let b := s.blk
    { s.setBlk { b with priv := b.priv + 1 } with sync := s.sync && (c == b.priv) }
  | .custom t, s =>
    -- `custom_stmt_str`: a statement like any other (separator before it, one owed after it), its text closed by a line break
    let b := s.blk
    if b.sep then (s.put ";").put (t ++ "\n") else (s.setBlk { b with sep := true }).put (t ++ "\n")
  | .exprStmt es, s => runEs es s.stat
  | .setTop name, s => { s with top := { s.top with decls := s.top.decls ++ [name] } }
  | .setTopInit name es, s =>
    (runEs es (s.openInit name)).closeInit s s.top.blk.sep
  | .declTop c, s =>
    let r := declPub c s
    { r.1 with top := { r.1.top with decls := r.1.top.decls ++ [r.2] } }
  | .declTopInit c es, s =>
    let r := declPub c s
    (runEs es (r.1.openInit r.2)).closeInit r.1 r.1.top.blk.sep
  | .subTop c p body, s =>
    let e := s.blk
    let sub : Top := { decls := [], subs := [], blk := { sep := false, id := e.id, priv := e.priv } }
    let s1 := runFs body { s with w := "", loc := none, top := sub, topVis := s.topVis ++ s.locVis, locVis := [],
                                  ok := s.ok && s.c1, sync := s.sync && (c == e.id) && (p == e.priv) }
    let txt := ({ s1.top with subs := s1.top.subs ++ [s1.w] } : Top).finish
    -- back in the enclosing writer: `w.expr_stmt(|w| write!(w, "{}", finish))`
    let back : St := { s with evs := s1.evs, ok := s1.ok, sync := s1.sync, uses := s1.uses,
                              subVis := s.subVis ++ s1.topVis.drop (s.topVis ++ s.locVis).length }
    back.stat.put txt
def runFs : List FOp → St → St
  | [], s => s
  | o :: r, s =>
    let s1 := runF o s
    let s2 : St := if isSubTop o then { s1 with ok := s1.ok && allocFreeFs r } else s1
    runFs r s2
def runE : EOp → St → St
  | .write t, s => { s.put t with uses := s.uses && s.useCheck t }
  | .fn args body, s =>
    let hdr := match args with | some a => "(" ++ a ++ ")=>{" | none => "()=>{"
    ((runFs body { s.put hdr with loc := some s.blk.extend }).leave s).put "}"
  | .fnDyn cs args body, s =>
    let r := genArgs cs { s with loc := some s.blk.extend }
    ((runFs body (r.1.put ("(" ++ args ++ ")=>{"))).leave s).put "}"
  | .brace body, s =>
    ((runFs body { s.put "{" with loc := some s.blk.extend }).leave s).put "}"
  | .paren es, s => (runEs es (s.put "(")).put ")"
  | .declTop c, s =>
    let r := declPub c s
    { r.1 with top := { r.1.top with decls := r.1.top.decls ++ [r.2] } }
def runEs : List EOp → St → St
  | [], s => s
  | o :: r, s => runEs r (runE o s)
end

/-- `JsTopScopeWriter::new` + `function_scope` once per element of `scopes` + `finish` -/
def initSt : St :=
  { w := "", loc := none, top := { decls := [], subs := [], blk := { sep := false, id := GE.Extracted.varNameIndexPreserve, priv := 0 } },
    topVis := [], locVis := [], evs := [], ok := true, sync := true, subVis := [], uses := true }

def runScope (body : List FOp) (s : St) : St :=
  let sep := s.top.blk.sep
  let s1 := runFs body { s with w := "", loc := none, locVis := [], subVis := [], top := { s.top with blk := { s.top.blk with sep := false } } }
  { s1 with w := "", top := { s1.top with subs := s1.top.subs ++ [s1.w], blk := { s1.top.blk with sep := sep } } }

def runRoot (scopes : List (List FOp)) : St :=
  scopes.foldl (fun s b => runScope b s) initSt

end GE.JsWriter
