"""C18 — @import is replaced by a faithful placeholder (DESIGN.md §9 C18)."""
from . import csscheck

THEOREMS = ["GE.Css.decode_encode", "GE.Css.encoded_alphabet", "GE.Css.encoded_has_no_comment_end", "GE.Css.decode_encodeByte"]


def focus(r, o):
    if r.chance(3, 4):
        o["import_sign"] = r.choice(["IMPORT", "@i", "é"])


def run(chk):
    chk.rule = ("generated stylesheets with @import in string / url() / url(\"\") form, any Unicode path, layer()/supports()/media conditions, "
                "at every position x option sets; (1) model vs implementation; (2) oracle: placeholder comment decodes to the original path, "
                "stands where the import stood, wrapped in equivalent @layer/@supports/@media; late imports flagged; without a sign the rule passes through")
    chk.trusted = csscheck.TRUSTED
    chk.assumptions = ["decode_encode: percent-decoding the placeholder of ANY byte string returns it; encoded_has_no_comment_end: the encoded "
                       "path cannot close the comment; the byte table (isUnreserved) is extracted from the source each run; PARTIAL: the "
                       "wrapper blocks (importRule) are tied by correspondence + oracle"]
    csscheck.run_property(chk, "C18", "GE.Thm.C18", THEOREMS, 700, 12000, focus=focus,
                          nontrivial=lambda o, css, res: "@import" in css.lower())


def replay(chk, path):
    return csscheck.replay(chk, "C18", path)
