/-
C10 — which numeric tokens change.  `nums` projects the written items to their numeric leaves (numbers,
percentages, dimensions, with their full payload).  For every token tree, the declaration-block loop and
the selector / prelude-block loop write exactly the input's numeric tokens, in order, each one unchanged
except that a dimension whose unit is `rpx` is replaced by `rpxLeaf` (unit `vw`, value from `rpxConvert`):

  * `convRpx_nums`, `convCls_nums`, `qualLoop_nums`;
  * `rpxLeaf_other`: any other unit is written as it was read (bit-identical value, same unit);
  * `rpxLeaf_rpx`: the replacement is a `vw` dimension carrying `rpxConvert value ratio` and the sign flag.

`rpxConvert` itself (single-precision `value * 100 / ratio` and the integer test) is executable and is
compared bit for bit with the implementation by the C10 correspondence stream; its error bound is
`GE.C10.rpx_error_bound`.
-/
import GE.Thm.C09

namespace GE.Css

def numOfK : OutK → List Leaf
  | .leaf (.num n) => [.num n]
  | .leaf (.pct n) => [.pct n]
  | .leaf (.dim n u) => [.dim n u]
  | _ => []

def nums (l : List Out) : List Leaf := l.flatMap (fun o => numOfK o.k)

/-- `st'` was obtained from `st` by appending items whose numeric leaves are `ns` to the current output -/
structure WroteN (st st' : St) (ns : List Leaf) : Prop where
  opts : st'.opts = st.opts
  ns : nums st'.cur.items = nums st.cur.items ++ ns

theorem WroteN.refl (st : St) : WroteN st st [] := ⟨rfl, by simp⟩
theorem WroteN.trans {a b c : St} {m1 m2} (h1 : WroteN a b m1) (h2 : WroteN b c m2) : WroteN a c (m1 ++ m2) :=
  ⟨h2.opts.trans h1.opts, by rw [h2.ns, h1.ns, List.append_assoc]⟩
theorem wroteN_congr {a b : St} {m m'} (h : WroteN a b m) (e : m = m') : WroteN a b m' := by subst e; exact h

theorem wroteN_tok (st : St) (k : OutK) (pos : Pos) (name : Option String) :
    WroteN st (st.tok k pos name) (numOfK k) := by
  refine ⟨opts_setCur _ _, ?_⟩
  simp only [St.tok, cur_setCur]
  by_cases h : needsSep st.cur.prev (serOut k) = true
  · simp [Sink.token, h, nums, numOfK]
  · simp [Sink.token, h, nums]

theorem wroteN_tokSp (st : St) (k : OutK) (pos : Pos) (name : Option String) :
    WroteN st (st.tokSp k pos name) (numOfK k) := by
  by_cases hk : k = .leaf .ws
  · subst hk
    refine ⟨opts_setCur _ _, ?_⟩
    simp [St.tokSp, cur_setCur, Sink.tokenSp, nums, numOfK]
  · have : st.tokSp k pos name = st.tok k pos name := by
      unfold St.tokSp St.tok Sink.tokenSp
      split
      · exact absurd rfl hk
      · rfl
    rw [this]; exact wroteN_tok st k pos name

theorem wroteN_flushWs (st : St) (hw : Bool) (pos : Pos) : WroteN st (flushWs st hw pos) [] := by
  unfold flushWs
  split
  · simpa [numOfK] using wroteN_tokSp st (.leaf .ws) pos none
  · exact WroteN.refl st

theorem wroteN_open (st : St) (k : BK) (name : String) (pos : Pos) : WroteN st (openTok st k name pos) [] := by
  simpa [openTok, numOfK] using wroteN_tok st (.open k name) pos none
theorem wroteN_close (st : St) (k : BK) (pos : Pos) : WroteN st (closeTok st k pos) [] := by
  simpa [closeTok, numOfK] using wroteN_tok st (.close (closeOf k)) pos none

theorem wroteN_writeIdent (st : St) (s : String) (pos : Pos) (ic : Bool) : WroteN st (writeIdent st s pos ic) [] := by
  unfold writeIdent
  have hsign : ∀ st0 : St, WroteN st0 (if ic then
        (match st0.opts.classPrefixSign with
         | some sign => st0.tok (.leaf (.comment sign)) pos
         | none => st0) else st0) [] := by
    intro st0
    split
    · split
      · simpa [numOfK] using wroteN_tok st0 (.leaf (.comment _)) pos none
      · exact WroteN.refl _
    · exact WroteN.refl _
  have h1 := hsign st
  generalize (if ic then
        (match st.opts.classPrefixSign with
         | some sign => st.tok (.leaf (.comment sign)) pos
         | none => st) else st) = st1 at h1
  simp only
  cases ic with
  | false => simpa [numOfK] using h1.trans (wroteN_tokSp st1 (.leaf (.ident s)) pos none)
  | true =>
    cases hp : st1.opts.classPrefix with
    | none => simpa [numOfK, hp] using h1.trans (wroteN_tokSp st1 (.leaf (.ident s)) pos none)
    | some p => simpa [numOfK, hp] using h1.trans (wroteN_tokSp st1 (.leaf (.ident (p ++ "--" ++ s))) pos (some s))

/-- the dimension written for an input dimension (depends on the options only) -/
def rpxLeaf (opts : Opts) (n : Num) (unit : String) : Leaf :=
  if unit = "rpx" then .dim ⟨n.sign, "", (rpxConvert n.bits opts.rpxRatioBits).1, (rpxConvert n.bits opts.rpxRatioBits).2⟩ "vw"
  else .dim n unit

theorem rpxLeaf_other (opts : Opts) (n : Num) (unit : String) (h : unit ≠ "rpx") : rpxLeaf opts n unit = .dim n unit := by
  simp [rpxLeaf, h]

theorem rpxLeaf_rpx (opts : Opts) (n : Num) :
    rpxLeaf opts n "rpx" = .dim ⟨n.sign, "", (rpxConvert n.bits opts.rpxRatioBits).1, (rpxConvert n.bits opts.rpxRatioBits).2⟩ "vw" := by
  simp [rpxLeaf]

theorem wroteN_writeDim (st : St) (n : Num) (unit : String) (pos : Pos) :
    WroteN st (writeDim st n unit pos) [rpxLeaf st.opts n unit] := by
  unfold writeDim rpxDim rpxLeaf
  split
  · simpa [numOfK] using wroteN_tok st (.leaf (.dim _ "vw")) pos _
  · simpa [numOfK] using wroteN_tok st (.leaf (.dim n unit)) pos none

/-! ## specification: the numeric tokens of the input, dimensions through `rpxLeaf` -/

mutual
def inNum (opts : Opts) : Tok → List Leaf
  | .leaf (.num n) _ => [.num n]
  | .leaf (.pct n) _ => [.pct n]
  | .leaf (.dim n u) _ => [rpxLeaf opts n u]
  | .leaf _ _ => []
  | .block _ _ body _ => inNums opts body
def inNums (opts : Opts) : List Tok → List Leaf
  | [] => []
  | t :: ts => inNum opts t ++ inNums opts ts
end

theorem convRpx_nums : ∀ (ts : List Tok) (st : St) (inCalc : Bool) (prev : Option Tok),
    WroteN st (convRpx st inCalc ts prev) (inNums st.opts ts)
  | [], st, _, _ => by simpa [convRpx, inNums] using WroteN.refl st
  | .block k name body pos :: ts, st, inCalc, prev => by
    have key : ∀ inner : Bool, WroteN st
        (convRpx (closeTok (convRpx (openTok st k name pos) inner body none) k pos) inCalc ts (some (.block k name body pos)))
        (inNums st.opts (.block k name body pos :: ts)) := by
      intro inner
      have h1 := wroteN_open st k name pos
      have h2 := convRpx_nums body (openTok st k name pos) inner none
      rw [h1.opts] at h2
      have h3 := wroteN_close (convRpx (openTok st k name pos) inner body none) k pos
      have h4 := convRpx_nums ts (closeTok (convRpx (openTok st k name pos) inner body none) k pos) inCalc (some (.block k name body pos))
      rw [((h1.trans h2).trans h3).opts] at h4
      exact wroteN_congr (((h1.trans h2).trans h3).trans h4) (by simp [inNums, inNum])
    cases k <;> simp only [convRpx] <;> exact key _
  | .leaf k pos :: ts, st, inCalc, prev => by
    have rec_ : ∀ (s1 : St) (p : Option Tok), s1.opts = st.opts → WroteN s1 (convRpx s1 inCalc ts p) (inNums st.opts ts) := by
      intro s1 p h
      have := convRpx_nums ts s1 inCalc p
      rwa [h] at this
    cases k with
    | dim n unit =>
      simp only [convRpx]
      have h1 := wroteN_writeDim st n unit pos
      exact wroteN_congr (h1.trans (rec_ _ _ h1.opts)) (by simp [inNums, inNum])
    | ws =>
      have hkeep : ∀ keep : Bool, WroteN st
          (convRpx (if keep then st.tok (.leaf .ws) pos else st) inCalc ts (some (.leaf .ws pos)))
          (inNums st.opts (.leaf .ws pos :: ts)) := by
        intro keep
        have hw : WroteN st (if keep then st.tok (.leaf .ws) pos else st) [] := by
          cases keep
          · exact WroteN.refl st
          · simpa [numOfK] using wroteN_tok st (.leaf .ws) pos none
        exact wroteN_congr (hw.trans (rec_ _ _ hw.opts)) (by simp [inNums, inNum])
      have hskip : WroteN st (convRpx st inCalc ts prev) (inNums st.opts (.leaf .ws pos :: ts)) :=
        wroteN_congr (rec_ st prev rfl) (by simp [inNums, inNum])
      cases inCalc <;> cases ts <;> cases prev <;> simp only [convRpx] <;>
        first
          | exact hskip
          | exact hkeep _
          | (simpa [convRpx] using hskip)
          | (simpa [convRpx] using hkeep false)
          | (simpa [convRpx] using hkeep true)
          | (rename_i v; simpa [convRpx] using hkeep (isPlusMinus v))
    | num n =>
      simp only [convRpx]
      have h1 := wroteN_tok st (.leaf (.num n)) pos none
      exact wroteN_congr (h1.trans (rec_ _ _ h1.opts)) (by simp [inNums, inNum, numOfK])
    | pct n =>
      simp only [convRpx]
      have h1 := wroteN_tok st (.leaf (.pct n)) pos none
      exact wroteN_congr (h1.trans (rec_ _ _ h1.opts)) (by simp [inNums, inNum, numOfK])
    | _ =>
      simp only [convRpx]
      refine wroteN_congr ((wroteN_tok st (.leaf _) pos none).trans (rec_ _ _ (wroteN_tok st (.leaf _) pos none).opts)) ?_
      simp [inNums, inNum, numOfK]

theorem convCls_nums : ∀ (ts : List Tok) (st : St) (start hw ic : Bool),
    WroteN st (convCls st ts start hw ic) (inNums st.opts ts)
  | [], st, _, _, _ => by simpa [convCls, inNums] using WroteN.refl st
  | .block k name body pos :: ts, st, start, hw, ic => by
    have key : ∀ (st1 : St) (inner : St → St), WroteN st st1 [] →
        (∀ s0 : St, s0.opts = st.opts → WroteN s0 (inner s0) (inNums st.opts body)) →
        WroteN st (convCls (closeTok (inner (openTok st1 k name pos)) k pos) ts false false false)
          (inNums st.opts (.block k name body pos :: ts)) := by
      intro st1 inner h0 hin
      have h1 := wroteN_open st1 k name pos
      have h2 := hin (openTok st1 k name pos) ((h0.trans h1).opts)
      have h3 := wroteN_close (inner (openTok st1 k name pos)) k pos
      have h4 := convCls_nums ts (closeTok (inner (openTok st1 k name pos)) k pos) false false false
      rw [(((h0.trans h1).trans h2).trans h3).opts] at h4
      exact wroteN_congr ((((h0.trans h1).trans h2).trans h3).trans h4) (by simp [inNums, inNum])
    have hcls : ∀ s0 : St, s0.opts = st.opts → WroteN s0 (convCls s0 body true false false) (inNums st.opts body) := by
      intro s0 h; have := convCls_nums body s0 true false false; rwa [h] at this
    have hrpx : ∀ s0 : St, s0.opts = st.opts → WroteN s0 (convRpx s0 true body none) (inNums st.opts body) := by
      intro s0 h; have := convRpx_nums body s0 true none; rwa [h] at this
    cases k with
    | curly => simp only [convCls]; exact key st _ (WroteN.refl st) hcls
    | fn =>
      simp only [convCls]
      by_cases hc : name = "calc"
      · subst hc; simp only [if_true]; exact key _ _ (wroteN_flushWs st hw pos) hrpx
      · simp only [hc, if_false]; exact key _ _ (wroteN_flushWs st hw pos) hcls
    | paren => simp only [convCls]; exact key _ _ (wroteN_flushWs st hw pos) hcls
    | square => simp only [convCls]; exact key _ _ (wroteN_flushWs st hw pos) hcls
  | .leaf k pos :: ts, st, start, hw, ic => by
    have hf := wroteN_flushWs st hw pos
    have rec_ : ∀ (s1 : St) (ic' : Bool), s1.opts = st.opts → WroteN s1 (convCls s1 ts false false ic') (inNums st.opts ts) := by
      intro s1 ic' h
      have := convCls_nums ts s1 false false ic'
      rwa [h] at this
    cases k with
    | ws =>
      simp only [convCls]
      exact wroteN_congr (convCls_nums ts st start (!start) false) (by simp [inNums, inNum])
    | delim c =>
      simp only [convCls]
      have h1 := wroteN_tok (flushWs st hw pos) (.leaf (.delim c)) pos none
      exact wroteN_congr ((hf.trans h1).trans (rec_ _ _ (hf.trans h1).opts)) (by simp [inNums, inNum, numOfK])
    | ident s =>
      simp only [convCls]
      have h1 := wroteN_writeIdent (flushWs st hw pos) s pos ic
      exact wroteN_congr ((hf.trans h1).trans (rec_ _ _ (hf.trans h1).opts)) (by simp [inNums, inNum])
    | dim n unit =>
      simp only [convCls]
      have h1 := wroteN_writeDim (flushWs st hw pos) n unit pos
      rw [hf.opts] at h1
      exact wroteN_congr ((hf.trans h1).trans (rec_ _ _ (hf.trans h1).opts)) (by simp [inNums, inNum])
    | num n =>
      simp only [convCls]
      have h1 := wroteN_tok (flushWs st hw pos) (.leaf (.num n)) pos none
      exact wroteN_congr ((hf.trans h1).trans (rec_ _ _ (hf.trans h1).opts)) (by simp [inNums, inNum, numOfK])
    | pct n =>
      simp only [convCls]
      have h1 := wroteN_tok (flushWs st hw pos) (.leaf (.pct n)) pos none
      exact wroteN_congr ((hf.trans h1).trans (rec_ _ _ (hf.trans h1).opts)) (by simp [inNums, inNum, numOfK])
    | _ =>
      simp only [convCls]
      refine wroteN_congr ((hf.trans (wroteN_tok (flushWs st hw pos) (.leaf _) pos none)).trans
        (rec_ _ _ (hf.trans (wroteN_tok (flushWs st hw pos) (.leaf _) pos none)).opts)) ?_
      simp [inNums, inNum, numOfK]

/-- **C10, structure.** A declaration block keeps every number and percentage bit for bit, keeps every
dimension whose unit is not `rpx`, and writes `rpxLeaf` for the others — at any nesting depth of
functions and parentheses. -/
theorem block_numbers_exact (st : St) (body : List Tok) :
    nums (convRpx st false body none).cur.items = nums st.cur.items ++ inNums st.opts body :=
  (convRpx_nums body st false none).ns

/-! non-vacuity -/
example : inNums ⟨none, none, 0x443b8000, none, false, none⟩
    [.leaf (.dim ⟨"", "10", 0x41200000, some 10⟩ "px") ⟨0,0⟩, .leaf .ws ⟨0,4⟩, .leaf (.pct ⟨"", "5", 0x3d4ccccd, some 5⟩) ⟨0,5⟩]
    = [.dim ⟨"", "10", 0x41200000, some 10⟩ "px", .pct ⟨"", "5", 0x3d4ccccd, some 5⟩] := by
  simp [inNums, inNum, rpxLeaf]

end GE.Css
