/-
C17 / C08 / C01 — the WHOLE stylesheet: rule loop, at-rule dispatch and `:host` partition.

`GE/Thm/C09.lean` and `GE/Thm/C17.lean` speak of one rule.  This file lifts them to `transform`
(the model of `StyleSheetTransformer::from_css`, tied to the real transformer by `corr:css`), for every
token tree, any nesting of rule-bearing at-rules, and without any bound on sizes:

  * `go` is the specification: a token-by-token reading of a stylesheet (structural recursion, no fuel)
    that says which token kinds belong in the normal output and which in the low-priority one —
    a qualified rule reaches up to its first `{}` block; an at-rule reaches up to its first `{}` block
    or `;`; the block of a rule-bearing at-rule is a stylesheet again (the chain of enclosing preludes
    grows by this at-rule's written prelude), the block of any other at-rule is a declaration block;
    a rule whose prelude is exactly `:host` goes to the low-priority output wrapped in the chain,
    `:host` combined with anything goes nowhere; every other rule stays in the normal output, in order.
  * `sheet_partition`: the two outputs of `transform` are exactly what `go` says (no import sign).
  * `rules_fuel_sufficient` is part of the same induction: the fuel of the model's rule loop
    (`sizeToks ts + 1`) is never exhausted — the fuel-free specification is met for every input.
  * `host_off_low_empty`: with conversion off the low-priority output receives no token.
-/
import GE.Thm.C17

namespace GE.Css
open GE.Extracted

/-! ## specification -/

inductive Mode where
  | top
  | qual
  | host (legal : Bool)
  | atPre (cr : Bool) (acc : List Shape)

/-- `some legal` when the rule that starts at this token list (first token not white space) is a `:host`
rule under host conversion: legal iff its prelude is exactly `:host` -/
def hostClass (opts : Opts) (ts : List Tok) : Option Bool :=
  if opts.convertHost then
    match hostHead ts with
    | none => none
    | some (isFn, r) =>
      match splitAtCurly r [] with
      | none => some false
      | some (sel, _, _) => some (!(isFn || sel.any (fun t => !t.isWs)))
  else none

def addN (n : List Shape) (p : List Shape × List Shape) : List Shape × List Shape := (n ++ p.1, p.2)
def addL (l : List Shape) (p : List Shape × List Shape) : List Shape × List Shape := (p.1, l ++ p.2)

/-- the replayed chain of enclosing at-rules: each written prelude followed by `{` -/
def chainOpen (chain : List (List Shape)) : List Shape := chain.flatMap (fun s => s ++ [.open .curly])

/-- what a legal `:host` rule contributes to the low-priority output -/
def hostLow (opts : Opts) (chain : List (List Shape)) (t : Tok) : List Shape :=
  chainOpen chain ++ (hostSelShapes opts ++ inShape t) ++ List.replicate chain.length (.close .curly)

/-- (token kinds of the normal output, token kinds of the low-priority output) of a stylesheet -/
def go (opts : Opts) : List (List Shape) → Mode → List Tok → List Shape × List Shape
  | _, _, [] => ([], [])
  | chain, .top, t :: ts =>
    match t with
    | .leaf .ws _ => go opts chain .top ts
    | .leaf (.at name) _ =>
      addN [.leaf "at"] (go opts chain (.atPre (containRuleList.contains (lower name)) [.leaf "at"]) ts)
    | .block .curly _ _ _ => addN (inShape t) (go opts chain .top ts)
    | _ =>
      match hostClass opts (t :: ts) with
      | some legal => go opts chain (.host legal) ts
      | none => addN (inShape t) (go opts chain .qual ts)
  | chain, .qual, t :: ts =>
    match t with
    | .block .curly _ _ _ => addN (inShape t) (go opts chain .top ts)
    | _ => addN (inShape t) (go opts chain .qual ts)
  | chain, .host legal, t :: ts =>
    match t with
    | .block .curly _ _ _ =>
      if legal then addL (hostLow opts chain t) (go opts chain .top ts) else go opts chain .top ts
    | _ => go opts chain (.host legal) ts
  | chain, .atPre cr acc, t :: ts =>
    match t with
    | .leaf .ws _ => go opts chain (.atPre cr acc) ts
    | .block .curly _ b _ =>
      let inner := if cr then go opts (chain ++ [acc]) .top b else (inShapes b, [])
      let rest := go opts chain .top ts
      ([.open .curly] ++ inner.1 ++ [.close .curly] ++ rest.1, inner.2 ++ rest.2)
    | .leaf .semi _ => addN [.leaf "semi"] (go opts chain .top ts)
    | _ => addN (inShape t) (go opts chain (.atPre cr (acc ++ inShape t)) ts)

/-! ## the writes of the model, seen from both outputs -/

/-- from `st` (writing the normal output) to `st'`: the normal output was extended by items of kinds `n`,
the low-priority output grew by kinds `l`; options and at-rule chain as before -/
structure Sheet (st st' : St) (n l : List Shape) : Prop where
  opts : st'.opts = st.opts
  ul : st.usingLow = false
  ul' : st'.usingLow = false
  stacks : st'.stacks = st.stacks
  extN : ∃ new, st'.normal.items = st.normal.items ++ new ∧ shapes new = n
  low : shapes st'.low.items = shapes st.low.items ++ l

theorem Sheet.refl (st : St) (h : st.usingLow = false) : Sheet st st [] [] :=
  ⟨rfl, h, h, rfl, ⟨[], by simp, rfl⟩, by simp⟩

theorem Sheet.trans {a b c : St} {n1 n2 l1 l2} (h1 : Sheet a b n1 l1) (h2 : Sheet b c n2 l2) :
    Sheet a c (n1 ++ n2) (l1 ++ l2) :=
  ⟨h2.opts.trans h1.opts, h1.ul, h2.ul', h2.stacks.trans h1.stacks, by
     obtain ⟨x1, e1, s1⟩ := h1.extN
     obtain ⟨x2, e2, s2⟩ := h2.extN
     exact ⟨x1 ++ x2, by rw [e2, e1, List.append_assoc], by rw [shapes_append, s1, s2]⟩,
   by rw [h2.low, h1.low, List.append_assoc]⟩

theorem Sheet.congr {a b : St} {n n' l l'} (h : Sheet a b n l) (hn : n = n') (hl : l = l') : Sheet a b n' l' := by
  subst hn; subst hl; exact h

theorem Sheet.normalShapes {a b : St} {n l} (h : Sheet a b n l) :
    shapes b.normal.items = shapes a.normal.items ++ n := by
  obtain ⟨x, e, s⟩ := h.extN; rw [e, shapes_append, s]

/-- a write to the current output, while the current output is the normal one -/
theorem Sheet.ofWrote {st st' : St} {ids shs} (h : Wrote st st' ids shs) (hu : st.usingLow = false) :
    Sheet st st' shs [] := by
  have hu' : st'.usingLow = false := by rw [h.ul, hu]
  have ho := h.other
  simp only [hu] at ho
  obtain ⟨new, e, _, hs⟩ := h.ext
  refine ⟨h.opts, hu, hu', h.stacks, ⟨new, ?_, hs⟩, ?_⟩
  · simpa [St.cur, hu, hu'] using e
  · have : st'.low = st.low := by simpa using ho
    simp [this]

theorem Sheet.restack {st st1 st' : St} {n l} (w : Sheet st1 st' n l) (ho : st1.opts = st.opts)
    (hn : st1.normal = st.normal) (hl : st1.low = st.low) (hu : st.usingLow = false) :
    Sheet st { st' with stacks := st.stacks } n l :=
  ⟨w.opts.trans ho, hu, w.ul', rfl, by rw [← hn]; exact w.extN, by rw [← hl]; exact w.low⟩

/-! ## sizes -/

theorem sizeToks_dropWs : ∀ ts : List Tok, sizeToks (dropWs ts) ≤ sizeToks ts
  | [] => by simp [dropWs]
  | t :: ts => by
    unfold dropWs
    split
    · have := sizeToks_dropWs ts; simp only [sizeToks]; omega
    · exact Nat.le_refl _

theorem sizeTok_pos (t : Tok) : 0 < sizeTok t := by cases t <;> simp [sizeTok]

theorem addN_addN (a b : List Shape) (p : List Shape × List Shape) : addN a (addN b p) = addN (a ++ b) p := by
  simp [addN]

theorem addN_nil (p : List Shape × List Shape) : addN [] p = p := by simp [addN]

/-! ## a generic qualified rule -/

theorem qualLoop_go (opts : Opts) (chain : List (List Shape)) : ∀ (ts : List Tok) (st : St) (a b c : Bool),
    go opts chain .qual ts = addN (ruleShapes ts) (go opts chain .top (qualLoop st ts a b c).2) ∧
    sizeToks (qualLoop st ts a b c).2 + min 1 ts.length ≤ sizeToks ts
  | [], st, _, _, _ => by simp [qualLoop, go, ruleShapes, addN, sizeToks]
  | .block k name body pos :: ts, st, a, b, c => by
    cases k with
    | curly => simp [qualLoop, go, ruleShapes, sizeToks, sizeTok]; omega
    | fn =>
      have ih := qualLoop_go opts chain ts (closeTok (convCls (openTok (flushWs st b pos) .fn name pos) body true false false) .fn pos) false false false
      simp only [qualLoop, go, ruleShapes, sizeToks, List.length_cons, sizeTok]
      exact ⟨by rw [ih.1, addN_addN], by have := ih.2; omega⟩
    | paren =>
      have ih := qualLoop_go opts chain ts (closeTok (convCls (openTok (flushWs st b pos) .paren name pos) body true false false) .paren pos) false false false
      simp only [qualLoop, go, ruleShapes, sizeToks, List.length_cons, sizeTok]
      exact ⟨by rw [ih.1, addN_addN], by have := ih.2; omega⟩
    | square =>
      have ih := qualLoop_go opts chain ts (closeTok (convCls (openTok (flushWs st b pos) .square name pos) body true false false) .square pos) false false false
      simp only [qualLoop, go, ruleShapes, sizeToks, List.length_cons, sizeTok]
      exact ⟨by rw [ih.1, addN_addN], by have := ih.2; omega⟩
  | .leaf k pos :: ts, st, a, b, c => by
    have rec_ : ∀ (s1 : St) (a' b' c' : Bool),
        go opts chain .qual (.leaf k pos :: ts) = addN (ruleShapes (.leaf k pos :: ts)) (go opts chain .top (qualLoop s1 ts a' b' c').2) ∧
        sizeToks (qualLoop s1 ts a' b' c').2 + min 1 (.leaf k pos :: ts).length ≤ sizeToks (.leaf k pos :: ts) := by
      intro s1 a' b' c'
      have ih := qualLoop_go opts chain ts s1 a' b' c'
      simp only [go, ruleShapes, sizeToks, List.length_cons, sizeTok]
      exact ⟨by rw [ih.1, addN_addN], by have := ih.2; omega⟩
    cases k with
    | ws => simp only [qualLoop]; exact rec_ _ _ _ _
    | delim d => simp only [qualLoop]; exact rec_ _ _ _ _
    | ident x => simp only [qualLoop]; exact rec_ _ _ _ _
    | _ => simp only [qualLoop]; exact rec_ _ _ _ _

/-! ## `:host` rules -/

theorem go_host_dropWs (opts : Opts) (chain : List (List Shape)) (legal : Bool) : ∀ ts : List Tok,
    go opts chain (.host legal) (dropWs ts) = go opts chain (.host legal) ts
  | [] => by simp [dropWs]
  | t :: ts => by
    unfold dropWs
    split
    · next h =>
      rw [go_host_dropWs opts chain legal ts]
      cases t with
      | leaf k p => cases k <;> simp_all [Tok.isWs, go]
      | block k n b p => simp [Tok.isWs] at h
    · rfl

theorem splitAtCurly_go (opts : Opts) (chain : List (List Shape)) (legal : Bool) : ∀ (r acc : List Tok),
    match splitAtCurly r acc with
    | none => go opts chain (.host legal) r = ([], [])
    | some (_, curly, rest) =>
      (∃ n b p, curly = .block .curly n b p) ∧
      go opts chain (.host legal) r =
        (if legal then addL (hostLow opts chain curly) (go opts chain .top rest) else go opts chain .top rest) ∧
      sizeToks rest < sizeToks r
  | [], acc => by simp [splitAtCurly, go]
  | t :: ts, acc => by
    have ih := splitAtCurly_go opts chain legal ts (t :: acc)
    cases t with
    | leaf k p =>
      simp only [splitAtCurly]
      cases hsp : splitAtCurly ts (.leaf k p :: acc) with
      | none => simp only [hsp] at ih; simp [go, ih]
      | some v =>
        obtain ⟨sel, curly, rest⟩ := v
        simp only [hsp] at ih
        refine ⟨ih.1, ?_, by have := ih.2.2; simp only [sizeToks]; omega⟩
        simp only [go]; exact ih.2.1
    | block k n b p =>
      cases k with
      | curly =>
        simp only [splitAtCurly]
        refine ⟨⟨n, b, p, rfl⟩, ?_, by simp [sizeToks, sizeTok]⟩
        simp only [go]
      | fn =>
        simp only [splitAtCurly]
        cases hsp : splitAtCurly ts (.block .fn n b p :: acc) with
        | none => simp only [hsp] at ih; simp [go, ih]
        | some v =>
          obtain ⟨sel, curly, rest⟩ := v
          simp only [hsp] at ih
          refine ⟨ih.1, ?_, by have := ih.2.2; simp only [sizeToks]; omega⟩
          simp only [go]; exact ih.2.1
      | paren =>
        simp only [splitAtCurly]
        cases hsp : splitAtCurly ts (.block .paren n b p :: acc) with
        | none => simp only [hsp] at ih; simp [go, ih]
        | some v =>
          obtain ⟨sel, curly, rest⟩ := v
          simp only [hsp] at ih
          refine ⟨ih.1, ?_, by have := ih.2.2; simp only [sizeToks]; omega⟩
          simp only [go]; exact ih.2.1
      | square =>
        simp only [splitAtCurly]
        cases hsp : splitAtCurly ts (.block .square n b p :: acc) with
        | none => simp only [hsp] at ih; simp [go, ih]
        | some v =>
          obtain ⟨sel, curly, rest⟩ := v
          simp only [hsp] at ih
          refine ⟨ih.1, ?_, by have := ih.2.2; simp only [sizeToks]; omega⟩
          simp only [go]; exact ih.2.1

/-- a rule that starts with `:host`: its first token is the colon, and what lies between the colon and the rest
(white space, the `host` token) contributes nothing while looking for the block -/
theorem hostHead_go (opts : Opts) (chain : List (List Shape)) (legal : Bool) (ts : List Tok) (isFn : Bool) (r : List Tok)
    (h : hostHead ts = some (isFn, r)) :
    ∃ p r0, ts = .leaf .colon p :: r0 ∧ go opts chain (.host legal) r0 = go opts chain (.host legal) r ∧
      sizeToks r ≤ sizeToks r0 := by
  unfold hostHead at h
  split at h
  · next p r0 =>
    refine ⟨p, r0, rfl, ?_⟩
    have hd := go_host_dropWs opts chain legal r0
    have hsz := sizeToks_dropWs r0
    split at h
    · next q r' hdw =>
      cases h
      rw [← hd, hdw]
      refine ⟨by simp [go], ?_⟩
      rw [hdw] at hsz; simp only [sizeToks] at hsz; omega
    · next b q r' hdw =>
      cases h
      rw [← hd, hdw]
      refine ⟨by simp [go], ?_⟩
      rw [hdw] at hsz; simp only [sizeToks] at hsz; omega
    · cases h
  · cases h

def addNL (n l : List Shape) (p : List Shape × List Shape) : List Shape × List Shape := (n ++ p.1, l ++ p.2)

theorem go_top_qual (opts : Opts) (chain : List (List Shape)) (t : Tok) (ts : List Tok) (ht : t.isWs = false)
    (hat : ∀ name p, t ≠ .leaf (.at name) p) (hc : hostClass opts (t :: ts) = none) :
    go opts chain .top (t :: ts) = go opts chain .qual (t :: ts) := by
  cases t with
  | leaf k p =>
    cases k with
    | ws => simp [Tok.isWs] at ht
    | «at» name => exact absurd rfl (hat name p)
    | _ => simp [go, hc]
  | block k n b p =>
    cases k with
    | curly => simp [go]
    | _ => simp [go, hc]

theorem chainShapes_eq (stacks : List (List Out)) : chainShapes stacks = chainOpen (stacks.map shapes) := by
  simp [chainShapes, chainOpen, List.flatMap_map]

theorem dropWs_cons_of_not_ws (t : Tok) (ts : List Tok) (ht : t.isWs = false) : dropWs (t :: ts) = t :: ts := by
  simp [dropWs, ht]

/-- one qualified rule at the top of a (possibly nested) rule list -/
theorem qualRule_sheet (st : St) (t : Tok) (ts : List Tok) (chain : List (List Shape))
    (ht : t.isWs = false) (hat : ∀ name p, t ≠ .leaf (.at name) p)
    (hu : st.usingLow = false) (hch : st.stacks.map shapes = chain) :
    ∃ n l, Sheet st (qualRule st (t :: ts)).1 n l ∧
      go st.opts chain .top (t :: ts) = addNL n l (go st.opts chain .top (qualRule st (t :: ts)).2) ∧
      sizeToks (qualRule st (t :: ts)).2 < sizeToks (t :: ts) := by
  have hd := dropWs_cons_of_not_ws t ts ht
  -- the generic rule
  have generic : hostClass st.opts (t :: ts) = none → qualRule st (t :: ts) = qualLoop st (t :: ts) true false false →
      ∃ n l, Sheet st (qualRule st (t :: ts)).1 n l ∧
      go st.opts chain .top (t :: ts) = addNL n l (go st.opts chain .top (qualRule st (t :: ts)).2) ∧
      sizeToks (qualRule st (t :: ts)).2 < sizeToks (t :: ts) := by
    intro hc e
    rw [e]
    have w := qualLoop_wrote (t :: ts) st true false false
    have g := qualLoop_go st.opts chain (t :: ts) st true false false
    refine ⟨ruleShapes (t :: ts), [], Sheet.ofWrote w hu, ?_, ?_⟩
    · rw [go_top_qual st.opts chain t ts ht hat hc, g.1]; simp [addN, addNL]
    · have := g.2; simp only [List.length_cons] at this; omega
  cases hcv : st.opts.convertHost with
  | false =>
    exact generic (by simp [hostClass, hcv]) (by rw [host_off_generic st (t :: ts) hcv, hd])
  | true =>
    cases hh : hostHead (t :: ts) with
    | none =>
      exact generic (by simp [hostClass, hcv, hh]) (by rw [not_host_generic st (t :: ts) (by rw [hd]; exact hh), hd])
    | some v =>
      obtain ⟨isFn, r⟩ := v
      cases hs : splitAtCurly r [] with
      | none =>
        have hcls : hostClass st.opts (t :: ts) = some false := by simp [hostClass, hcv, hh, hs]
        obtain ⟨p, r0, e0, hg, _⟩ := hostHead_go st.opts chain false (t :: ts) isFn r hh
        have eq : qualRule st (t :: ts) = (st, []) := by
          unfold qualRule; simp only [hd, hcv, hh, hs, if_true]
        have sg := splitAtCurly_go st.opts chain false r []
        simp only [hs] at sg
        refine ⟨[], [], by rw [eq]; exact Sheet.refl st hu, ?_, ?_⟩
        · rw [eq]
          simp only [List.cons.injEq] at e0
          obtain ⟨e1, e2⟩ := e0
          subst e1; subst e2
          simp [go, hcls, hg, sg, addNL]
        · rw [eq]; have := sizeTok_pos t; simp only [sizeToks]; omega
      | some v2 =>
        obtain ⟨sel, curly, rest⟩ := v2
        obtain ⟨p, r0, e0, hg1, hsz1⟩ := hostHead_go st.opts chain (!(isFn || sel.any (fun t => !t.isWs))) (t :: ts) isFn r hh
        have hcls : hostClass st.opts (t :: ts) = some (!(isFn || sel.any (fun t => !t.isWs))) := by
          simp [hostClass, hcv, hh, hs]
        have sg := splitAtCurly_go st.opts chain (!(isFn || sel.any (fun t => !t.isWs))) r []
        simp only [hs] at sg
        obtain ⟨⟨bn, bb, bp, hcur⟩, sg2, sg3⟩ := sg
        have hgo : go st.opts chain .top (t :: ts) = go st.opts chain (.host (!(isFn || sel.any (fun t => !t.isWs)))) r := by
          simp only [List.cons.injEq] at e0
          obtain ⟨e1, e2⟩ := e0
          subst e1; subst e2
          simp only [go, hcls]
          exact hg1
        have hszr : sizeToks rest < sizeToks (t :: ts) := by
          simp only [List.cons.injEq] at e0
          obtain ⟨e1, e2⟩ := e0
          subst e1; subst e2
          simp only [sizeToks, sizeTok]; omega
        cases hbad : (isFn || sel.any (fun t => !t.isWs)) with
        | true =>
          have eq : qualRule st (t :: ts) = (st.warn .hostSelectorCombination
              (if isFn then nextPos r curly.pos else nextPos (dropWs sel).tail curly.pos), rest) := by
            unfold qualRule; simp only [hd, hcv, hh, hs, hbad, if_true]
          rw [eq]
          refine ⟨[], [], ?_, ?_, hszr⟩
          · exact ⟨rfl, hu, by simpa [St.warn] using hu, rfl, ⟨[], by simp [St.warn], rfl⟩, by simp [St.warn]⟩
          · rw [hgo, sg2]; simp [hbad, addNL]
        | false =>
          subst hcur
          have eq : qualRule st (t :: ts) = (writeLow st (hostBody bn bb bp), rest) := by
            unfold qualRule
            simp only [hd, hcv, hh, hs, hbad, if_true, Bool.false_eq_true, if_false]
            rfl
          have w := writeLow_spec st (hostBody bn bb bp) (hostSelIdents st.opts ++ valueIdentsL bb)
            (hostSelShapes st.opts ++ inShape (.block .curly bn bb bp))
            (fun s0 h0 => by have := wrote_hostBody bn bb bp s0; rw [h0] at this; exact this)
          rw [eq]
          refine ⟨[], hostLow st.opts chain (.block .curly bn bb bp), ?_, ?_, hszr⟩
          · refine ⟨w.2.2.2.2.1, hu, w.2.2.2.1, w.2.2.1, ⟨[], by simp [w.1], rfl⟩, ?_⟩
            rw [w.2.2.2.2.2, chainShapes_eq, hch]
            simp [hostLow, List.append_assoc, ← hch]
          · rw [hgo, sg2]; simp [hbad, addNL, addL]

/-! ## at-rules -/

theorem addNL_addNL (n1 l1 n2 l2 : List Shape) (p : List Shape × List Shape) :
    addNL n1 l1 (addNL n2 l2 p) = addNL (n1 ++ n2) (l1 ++ l2) p := by simp [addNL]

theorem addN_eq_addNL (n : List Shape) (p : List Shape × List Shape) : addN n p = addNL n [] p := by simp [addN, addNL]

/-- the written prelude of the at-rule being read: the normal output is `pre ++ seg`, `seg` has kinds `acc` -/
def SegInv (st : St) (startLen : Nat) (acc : List Shape) : Prop :=
  ∃ pre seg, st.normal.items = pre ++ seg ∧ pre.length = startLen ∧ shapes seg = acc

theorem SegInv.step {st st' : St} {startLen : Nat} {acc n l : List Shape} (h : SegInv st startLen acc)
    (w : Sheet st st' n l) : SegInv st' startLen (acc ++ n) := by
  obtain ⟨pre, seg, e, hl, hs⟩ := h
  obtain ⟨new, e2, hn⟩ := w.extN
  exact ⟨pre, seg ++ new, by rw [e2, e, List.append_assoc], hl, by rw [shapes_append, hs, hn]⟩

theorem shape_leaf (k : Leaf) (pos : Pos) : shapeOfK (.leaf k) = inShape (.leaf k pos) := by
  cases k <;> simp [shapeOfK, inShape]

theorem atLoop_sheet (nested : St → List Tok → St) (fuelB : Nat)
    (hn : ∀ (st : St) (body : List Tok), sizeToks body < fuelB → st.usingLow = false → st.opts.importSign = none →
      Sheet st (nested st body) (go st.opts (st.stacks.map shapes) .top body).1 (go st.opts (st.stacks.map shapes) .top body).2)
    (cr : Bool) (startLen : Nat) : ∀ (ts : List Tok) (st : St) (acc : List Shape) (chain : List (List Shape)),
    sizeToks ts ≤ fuelB → st.usingLow = false → st.opts.importSign = none → st.stacks.map shapes = chain →
    SegInv st startLen acc →
    ∃ n l, Sheet st (atLoop nested cr startLen st ts).1 n l ∧
      go st.opts chain (.atPre cr acc) ts = addNL n l (go st.opts chain .top (atLoop nested cr startLen st ts).2) ∧
      sizeToks (atLoop nested cr startLen st ts).2 ≤ sizeToks ts
  | [], st, acc, chain, _, hu, _, _, _ => ⟨[], [], by simpa [atLoop] using Sheet.refl st hu, by simp [atLoop, go, addNL], by simp [atLoop]⟩
  | .block k name body pos :: ts, st, acc, chain, hsz, hu, hi, hch, hseg => by
    have hszt : sizeToks ts ≤ fuelB := by simp only [sizeToks] at hsz; omega
    cases k with
    | curly =>
      simp only [atLoop]
      obtain ⟨pre, seg, e, hl, hs⟩ := hseg
      have hseg' : st.cur.items.drop startLen = seg := by
        simp [St.cur, hu, e, ← hl]
      rw [hseg']
      -- the chain grows by this at-rule's written prelude
      let st1 : St := { st with stacks := st.stacks ++ [seg] }
      have hu1 : st1.usingLow = false := hu
      have w1 := Sheet.ofWrote (wrote_open st1 .curly name pos) hu1
      have hch2 : (openTok st1 .curly name pos).stacks.map shapes = chain ++ [acc] := by
        rw [w1.stacks]; simp [st1, hch, hs]
      have hi2 : (openTok st1 .curly name pos).opts.importSign = none := by rw [w1.opts]; exact hi
      -- the block
      have hbody : sizeToks body < fuelB := by simp only [sizeToks, sizeTok] at hsz; omega
      have w2 : Sheet (openTok st1 .curly name pos)
          (if cr = true then nested (openTok st1 .curly name pos) body else convRpx (openTok st1 .curly name pos) false body none)
          (if cr then go st.opts (chain ++ [acc]) .top body else (inShapes body, [])).1
          (if cr then go st.opts (chain ++ [acc]) .top body else (inShapes body, [])).2 := by
        cases cr with
        | true =>
          have := hn (openTok st1 .curly name pos) body hbody w1.ul' hi2
          rw [hch2, w1.opts] at this
          simpa using this
        | false =>
          simpa using Sheet.ofWrote (convRpx_wrote body (openTok st1 .curly name pos) false none) w1.ul'
      generalize (if cr = true then nested (openTok st1 .curly name pos) body else convRpx (openTok st1 .curly name pos) false body none) = st3 at w2
      have w3 := Sheet.ofWrote (wrote_close st3 .curly pos) w2.ul'
      have w := (w1.trans w2).trans w3
      have hst : (closeTok st3 .curly pos).stacks.dropLast = st.stacks := by rw [w.stacks]; simp [st1]
      rw [hst]
      refine ⟨_, _, w.restack (st := st) rfl rfl rfl hu, ?_, by simp [sizeToks]⟩
      simp only [go]
      simp [addNL, closeOf, List.append_assoc]
    | fn =>
      simp only [atLoop]
      have w1 := Sheet.ofWrote (wrote_open st .fn name pos) hu
      have w2 := Sheet.ofWrote (convCls_wrote body (openTok st .fn name pos) true false false) w1.ul'
      have w3 := Sheet.ofWrote (wrote_close (convCls (openTok st .fn name pos) body true false false) .fn pos) w2.ul'
      have w := (w1.trans w2).trans w3
      obtain ⟨n, l, h1, h2, h3⟩ := atLoop_sheet nested fuelB hn cr startLen ts _ _ chain hszt w.ul' (by rw [w.opts]; exact hi)
        (by rw [w.stacks]; exact hch) (hseg.step w)
      rw [w.opts] at h2
      refine ⟨_, _, w.trans h1, ?_, by simp only [sizeToks]; omega⟩
      simp only [go, addN_eq_addNL]
      rw [show ([Shape.open BK.fn] ++ inShapes body ++ [Shape.close (closeOf BK.fn)]) = inShape (.block .fn name body pos) by simp [inShape]] at h2
      rw [h2, addNL_addNL]; simp [inShape]
    | paren =>
      simp only [atLoop]
      have w1 := Sheet.ofWrote (wrote_open st .paren name pos) hu
      have w2 := Sheet.ofWrote (convCls_wrote body (openTok st .paren name pos) true false false) w1.ul'
      have w3 := Sheet.ofWrote (wrote_close (convCls (openTok st .paren name pos) body true false false) .paren pos) w2.ul'
      have w := (w1.trans w2).trans w3
      obtain ⟨n, l, h1, h2, h3⟩ := atLoop_sheet nested fuelB hn cr startLen ts _ _ chain hszt w.ul' (by rw [w.opts]; exact hi)
        (by rw [w.stacks]; exact hch) (hseg.step w)
      rw [w.opts] at h2
      refine ⟨_, _, w.trans h1, ?_, by simp only [sizeToks]; omega⟩
      simp only [go, addN_eq_addNL]
      rw [show ([Shape.open BK.paren] ++ inShapes body ++ [Shape.close (closeOf BK.paren)]) = inShape (.block .paren name body pos) by simp [inShape]] at h2
      rw [h2, addNL_addNL]; simp [inShape]
    | square =>
      simp only [atLoop]
      have w1 := Sheet.ofWrote (wrote_open st .square name pos) hu
      have w2 := Sheet.ofWrote (convCls_wrote body (openTok st .square name pos) true false false) w1.ul'
      have w3 := Sheet.ofWrote (wrote_close (convCls (openTok st .square name pos) body true false false) .square pos) w2.ul'
      have w := (w1.trans w2).trans w3
      obtain ⟨n, l, h1, h2, h3⟩ := atLoop_sheet nested fuelB hn cr startLen ts _ _ chain hszt w.ul' (by rw [w.opts]; exact hi)
        (by rw [w.stacks]; exact hch) (hseg.step w)
      rw [w.opts] at h2
      refine ⟨_, _, w.trans h1, ?_, by simp only [sizeToks]; omega⟩
      simp only [go, addN_eq_addNL]
      rw [show ([Shape.open BK.square] ++ inShapes body ++ [Shape.close (closeOf BK.square)]) = inShape (.block .square name body pos) by simp [inShape]] at h2
      rw [h2, addNL_addNL]; simp [inShape]
  | .leaf k pos :: ts, st, acc, chain, hsz, hu, hi, hch, hseg => by
    have hszt : sizeToks ts ≤ fuelB := by simp only [sizeToks] at hsz; omega
    have generic : ∀ (hk1 : k ≠ .ws) (hk2 : k ≠ .semi),
        ∃ n l, Sheet st (atLoop nested cr startLen (st.tok (.leaf k) pos) ts).1 n l ∧
          addN (inShape (.leaf k pos)) (go st.opts chain (.atPre cr (acc ++ inShape (.leaf k pos))) ts) =
            addNL n l (go st.opts chain .top (atLoop nested cr startLen (st.tok (.leaf k) pos) ts).2) ∧
          sizeToks (atLoop nested cr startLen (st.tok (.leaf k) pos) ts).2 ≤ sizeToks (.leaf k pos :: ts) := by
      intro _ _
      have w := Sheet.ofWrote (wrote_tok st (.leaf k) pos none) hu
      rw [shape_leaf k pos] at w
      obtain ⟨n, l, h1, h2, h3⟩ := atLoop_sheet nested fuelB hn cr startLen ts _ _ chain hszt w.ul' (by rw [w.opts]; exact hi)
        (by rw [w.stacks]; exact hch) (hseg.step w)
      rw [w.opts] at h2
      refine ⟨_, _, w.trans h1, ?_, by simp only [sizeToks]; omega⟩
      rw [h2, addN_eq_addNL, addNL_addNL]
    cases k with
    | ws =>
      simp only [atLoop, go]
      obtain ⟨n, l, h1, h2, h3⟩ := atLoop_sheet nested fuelB hn cr startLen ts st acc chain hszt hu hi hch hseg
      exact ⟨n, l, h1, h2, by simp only [sizeToks]; omega⟩
    | semi =>
      simp only [atLoop, go]
      have w := Sheet.ofWrote (wrote_tok st (.leaf .semi) pos none) hu
      exact ⟨_, _, w, by simp [addN, addNL, shapeOfK, leafTag], by simp [sizeToks]⟩
    | _ =>
      simp only [atLoop, go]
      exact generic (by simp) (by simp)

/-! ## the rule loop -/

theorem go_top_dropWs (opts : Opts) (chain : List (List Shape)) : ∀ ts : List Tok,
    go opts chain .top (dropWs ts) = go opts chain .top ts
  | [] => by simp [dropWs]
  | t :: ts => by
    unfold dropWs
    split
    · next h =>
      rw [go_top_dropWs opts chain ts]
      cases t with
      | leaf k p => cases k <;> simp_all [Tok.isWs, go]
      | block k n b p => simp [Tok.isWs] at h
    · rfl

theorem dropWs_head_not_ws : ∀ (ts : List Tok) (t : Tok) (r : List Tok), dropWs ts = t :: r → t.isWs = false
  | [], _, _, h => by simp [dropWs] at h
  | x :: xs, t, r, h => by
    unfold dropWs at h
    split at h
    · exact dropWs_head_not_ws xs t r h
    · next hx => cases h; simpa using hx

/-- **The rule loop meets the fuel-free specification**, for every token tree, whenever the fuel exceeds the size of
the tree (which `transform` guarantees: `rules_fuel_sufficient`). -/
theorem rules_sheet : ∀ (fuel : Nat) (st : St) (ts : List Tok) (atStart : Bool),
    sizeToks ts < fuel → st.usingLow = false → st.opts.importSign = none →
    Sheet st (rules fuel st ts atStart) (go st.opts (st.stacks.map shapes) .top ts).1
      (go st.opts (st.stacks.map shapes) .top ts).2
  | 0, _, _, _, h, _, _ => by omega
  | fuel + 1, st, ts, atStart, hsz, hu, hi => by
    have hds := sizeToks_dropWs ts
    rw [← go_top_dropWs]
    unfold rules
    split
    · next hd => rw [hd]; simpa [go] using Sheet.refl st hu
    · next name pos r hd =>
      rw [hd]
      rw [hd] at hds
      simp only [sizeToks, sizeTok] at hds
      -- the generic at-rule (no import sign)
      have eat : atRule (fun st body => rules fuel st body true) st name pos atStart r =
          atLoop (fun st body => rules fuel st body true) (containRuleList.contains (lower name)) st.cur.items.length
            (st.tok (.leaf (.at name)) pos) r := by
        unfold atRule
        have : (if name = "import" then st.opts.importSign else none) = none := by split <;> simp [hi]
        simp only [this]
      rw [eat]
      have w0 := Sheet.ofWrote (wrote_tok st (.leaf (.at name)) pos none) hu
      have hseg : SegInv (st.tok (.leaf (.at name)) pos) st.cur.items.length [.leaf "at"] := by
        obtain ⟨new, e, hs⟩ := w0.extN
        exact ⟨st.normal.items, new, e, by simp [St.cur, hu], by simpa [shapeOfK, leafTag] using hs⟩
      obtain ⟨n, l, h1, h2, h3⟩ := atLoop_sheet (fun st body => rules fuel st body true) fuel
        (fun s body hb hu' hi' => rules_sheet fuel s body true hb hu' hi')
        (containRuleList.contains (lower name)) st.cur.items.length r _ [.leaf "at"] (st.stacks.map shapes)
        (by omega) w0.ul' (by rw [w0.opts]; exact hi) (by rw [w0.stacks]) hseg
      rw [w0.opts] at h2
      have w1 := w0.trans h1
      have ih := rules_sheet fuel _ (atLoop (fun st body => rules fuel st body true) (containRuleList.contains (lower name))
        st.cur.items.length (st.tok (.leaf (.at name)) pos) r).2 false (by omega) w1.ul' (by rw [w1.opts]; exact hi)
      rw [w1.stacks, w1.opts] at ih
      refine (w1.trans ih).congr ?_ ?_
      · simp only [go, h2]; simp [addN, addNL, shapeOfK, leafTag]
      · simp only [go, h2]; simp [addN, addNL]
    · next ts' hne hnat =>
      -- a qualified rule: the first token is neither white space nor an at-keyword
      cases hd : dropWs ts with
      | nil => exact absurd hd hne
      | cons t r =>
        have ht := dropWs_head_not_ws ts t r hd
        have hat : ∀ name p, t ≠ .leaf (.at name) p := by
          intro name p e; subst e; exact hnat name p r hd
        rw [hd] at hds
        obtain ⟨n, l, h1, h2, h3⟩ := qualRule_sheet st t r (st.stacks.map shapes) ht hat hu rfl
        have ih := rules_sheet fuel _ (qualRule st (t :: r)).2 false (by omega) h1.ul' (by rw [h1.opts]; exact hi)
        rw [h1.stacks, h1.opts] at ih
        refine (h1.trans ih).congr ?_ ?_
        · rw [h2]; simp [addNL]
        · rw [h2]; simp [addNL]

/-- **C17 / C08 for a whole stylesheet** (no import sign configured): the token kinds of the normal output
and of the low-priority output of `transform` are exactly those the fuel-free reading `go` assigns to them —
each rule once, rules other than `:host` rules in the normal output in their original order, each `:host { … }`
rule in the low-priority output inside the chain of its enclosing at-rules, `:host` combined with anything in
neither.  In particular the fuel of the model's rule loop is never exhausted. -/
theorem sheet_partition (opts : Opts) (ts : List Tok) (hi : opts.importSign = none) :
    shapes (transform opts ts).normal.items = (go opts [] .top ts).1 ∧
    shapes (transform opts ts).low.items = (go opts [] .top ts).2 := by
  have h := rules_sheet (sizeToks ts + 1) ⟨opts, .empty, .empty, false, [], []⟩ ts true (by omega) rfl hi
  exact ⟨by simpa [transform, Sink.empty, shapes] using h.normalShapes, by simpa [transform, Sink.empty, shapes] using h.low⟩

/-- more fuel changes nothing: the outputs are determined by the fuel-free specification -/
theorem rules_fuel_sufficient (opts : Opts) (ts : List Tok) (hi : opts.importSign = none) (extra : Nat) :
    shapes (rules (sizeToks ts + 1 + extra) ⟨opts, .empty, .empty, false, [], []⟩ ts true).normal.items =
      shapes (transform opts ts).normal.items ∧
    shapes (rules (sizeToks ts + 1 + extra) ⟨opts, .empty, .empty, false, [], []⟩ ts true).low.items =
      shapes (transform opts ts).low.items := by
  have h := rules_sheet (sizeToks ts + 1 + extra) ⟨opts, .empty, .empty, false, [], []⟩ ts true (by omega) rfl hi
  have h' := sheet_partition opts ts hi
  exact ⟨by rw [h'.1]; simpa [Sink.empty, shapes] using h.normalShapes, by rw [h'.2]; simpa [Sink.empty, shapes] using h.low⟩

/-- with conversion off nothing is moved: the low-priority output receives no token -/
theorem go_low_nil (opts : Opts) (h : opts.convertHost = false) : ∀ (ts : List Tok) (chain : List (List Shape)) (mode : Mode),
    (∀ legal, mode ≠ .host legal) → (go opts chain mode ts).2 = []
  | [], _, _, _ => by simp [go]
  | t :: ts, chain, mode, hm => by
    have hc : ∀ l, hostClass opts l = none := by intro l; simp [hostClass, h]
    cases mode with
    | top =>
      cases t with
      | leaf k p =>
        cases k <;> simp [go, hc, addN, go_low_nil opts h ts]
      | block k n b p =>
        cases k <;> simp [go, hc, addN, go_low_nil opts h ts]
    | qual =>
      cases t with
      | leaf k p => simp [go, addN, go_low_nil opts h ts]
      | block k n b p => cases k <;> simp [go, addN, go_low_nil opts h ts]
    | host legal => exact absurd rfl (hm legal)
    | atPre cr acc =>
      cases t with
      | leaf k p => cases k <;> simp [go, addN, go_low_nil opts h ts]
      | block k n b p =>
        cases k with
        | curly =>
          cases cr <;> simp [go, go_low_nil opts h ts, go_low_nil opts h b]
        | _ => simp [go, addN, go_low_nil opts h ts]

theorem host_off_low_empty (opts : Opts) (ts : List Tok) (hi : opts.importSign = none) (h : opts.convertHost = false) :
    shapes (transform opts ts).low.items = [] := by
  rw [(sheet_partition opts ts hi).2]
  exact go_low_nil opts h ts [] .top (by intro l; simp)

/-! non-vacuity: `@media x{:host{a} .b{c}} :host .z{d}` with host conversion — the `:host` rule moves into the
low-priority output inside `@media x{…}`, `.b{c}` stays, `:host .z{d}` is in neither output -/
def exSheet : List Tok :=
  [.leaf (.at "media") ⟨0,0⟩, .leaf .ws ⟨0,6⟩, .leaf (.ident "x") ⟨0,7⟩,
   .block .curly "" [.leaf .colon ⟨0,9⟩, .leaf (.ident "host") ⟨0,10⟩, .block .curly "" [.leaf (.ident "a") ⟨0,15⟩] ⟨0,14⟩,
     .leaf .ws ⟨0,17⟩, .leaf (.delim ".") ⟨0,18⟩, .leaf (.ident "b") ⟨0,19⟩, .block .curly "" [.leaf (.ident "c") ⟨0,21⟩] ⟨0,20⟩] ⟨0,8⟩,
   .leaf .ws ⟨0,24⟩, .leaf .colon ⟨0,25⟩, .leaf (.ident "host") ⟨0,26⟩, .leaf .ws ⟨0,30⟩, .leaf (.delim ".") ⟨0,31⟩,
   .leaf (.ident "z") ⟨0,32⟩, .block .curly "" [.leaf (.ident "d") ⟨0,34⟩] ⟨0,33⟩]

def exOpts : Opts := ⟨some "p", none, 0x443b8000, none, true, none⟩

example : go exOpts [] .top exSheet =
    ([.leaf "at", .leaf "ident", .open .curly, .leaf "delim.", .leaf "ident", .open .curly, .leaf "ident", .close .curly, .close .curly],
     [.leaf "at", .leaf "ident", .open .curly, .open .square, .leaf "ident", .leaf "delim=", .leaf "str", .close .square,
      .open .curly, .leaf "ident", .close .curly, .close .curly]) := by
  simp [go, exSheet, exOpts, hostClass, hostHead, dropWs, Tok.isWs, splitAtCurly, addN, addL, hostLow, chainOpen, hostSelShapes,
    inShape, inShapes, leafTag, closeOf, containRuleList, lower]

end GE.Css
