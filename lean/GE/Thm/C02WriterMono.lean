import GE.Thm.C02Writer
/-!
C02 — unconditional companion of `monitor_sound`: whatever the generators do (monitor or not), the identifiers that end up declared in the scope of the
artefact's own top-scope writer — its hoisted `var` list and the identifiers taken directly in its function scopes — are handed out in strictly increasing
order, hence pairwise distinct (`root_declared_increasing`, `root_names_nodup`).
-/
namespace GE.JsWriter
open GE.VarName

/-- the ids declared at the top-scope writer's level increase strictly and stay below its counter -/
def Mono (s : St) : Prop := s.topVis.Pairwise (· < ·) ∧ ∀ x ∈ s.topVis, x < s.top.blk.id

def KeepsM (s s' : St) : Prop := Mono s → Mono s'

theorem KeepsM.trans {a b c : St} (h1 : KeepsM a b) (h2 : KeepsM b c) : KeepsM a c := fun h => h2 (h1 h)

/-- changes that touch neither `topVis` nor the top-scope counter -/
theorem keepsM_of_eq {s s' : St} (h1 : s'.topVis = s.topVis) (h2 : s'.top.blk.id = s.top.blk.id) : KeepsM s s' := by
  intro h; unfold Mono; rw [h1, h2]; exact h

theorem mono_snoc {l : List Nat} {b id nxt : Nat} (h : l.Pairwise (· < ·) ∧ ∀ x ∈ l, x < b) (h1 : b ≤ id) (h2 : nxt = id + 1) :
    (l ++ [id]).Pairwise (· < ·) ∧ ∀ x ∈ l ++ [id], x < nxt := by
  refine ⟨?_, ?_⟩
  · rw [List.pairwise_append]
    refine ⟨h.1, by simp, ?_⟩
    intro a ha c hc
    simp only [List.mem_singleton] at hc
    subst hc
    have := h.2 a ha; omega
  · intro x hx
    simp only [List.mem_append, List.mem_singleton] at hx
    rcases hx with hx | hx
    · have := h.2 x hx; omega
    · omega

theorem genPub_keepsM (c : Nat) (s : St) : KeepsM s (genPub c s).1 := by
  intro h
  have hs := allocId_spec s.blk.id
  cases hl : s.loc with
  | some L => exact (keepsM_of_eq (by simp [genPub, St.setBlk, hl]) (by simp [genPub, St.setBlk, hl])) h
  | none =>
    have hb : s.blk = s.top.blk := by simp [St.blk, hl]
    rw [hb] at hs
    have := mono_snoc h hs.1 hs.2
    simpa [Mono, genPub, St.setBlk, hl, hb] using this

theorem declPub_keepsM (c : Nat) (s : St) : KeepsM s (declPub c s).1 := by
  intro h
  have hs := allocId_spec s.top.blk.id
  have := mono_snoc h hs.1 hs.2
  simpa [Mono, declPub] using this

theorem genArgs_keepsM : ∀ (cs : List Nat) (s : St), KeepsM s (genArgs cs s).1
  | [], s => fun h => h
  | c :: cs, s => (genPub_keepsM c s).trans (genArgs_keepsM cs (genPub c s).1)

theorem stat_keepsM (s : St) : KeepsM s s.stat := by
  have := sameCore_stat s
  exact keepsM_of_eq this.2.1 this.2.2.2.2.1

theorem put_keepsM (s : St) (t : String) : KeepsM s (s.put t) := keepsM_of_eq rfl rfl

mutual
theorem runF_keepsM : ∀ (o : FOp) (s : St), KeepsM s (runF o s)
  | .genIdent c, s => by simpa [runF] using genPub_keepsM c s
  | .genPriv c, s => by
    simp only [runF]
    apply keepsM_of_eq <;> (unfold St.setBlk St.blk; cases h : s.loc <;> simp [h])
  | .custom t, s => by
    simp only [runF]
    split
    · exact (put_keepsM s _).trans (put_keepsM _ _)
    · refine KeepsM.trans ?_ (put_keepsM _ _)
      apply keepsM_of_eq <;> (unfold St.setBlk St.blk; cases h : s.loc <;> simp [h])
  | .exprStmt es, s => by
    simp only [runF]
    exact (stat_keepsM s).trans (runEs_keepsM es s.stat)
  | .setTop name, s => by
    simp only [runF]
    exact keepsM_of_eq rfl rfl
  | .setTopInit name es, s => by
    simp only [runF]
    exact ((keepsM_of_eq rfl rfl : KeepsM s (s.openInit name)).trans (runEs_keepsM es _)).trans (keepsM_of_eq rfl rfl)
  | .declTop c, s => by
    simp only [runF]
    exact (declPub_keepsM c s).trans (keepsM_of_eq rfl rfl)
  | .declTopInit c es, s => by
    simp only [runF]
    exact ((declPub_keepsM c s).trans ((keepsM_of_eq rfl rfl : KeepsM _ ((declPub c s).1.openInit _)).trans (runEs_keepsM es _))).trans
      (keepsM_of_eq rfl rfl)
  | .subTop c p body, s => by
    -- the nested writer's declarations are its own; back in the enclosing writer nothing of `topVis` / the counter has changed
    simp only [runF]
    refine KeepsM.trans ?_ (put_keepsM _ _)
    refine KeepsM.trans ?_ (stat_keepsM _)
    exact keepsM_of_eq rfl rfl
theorem runFs_keepsM : ∀ (os : List FOp) (s : St), KeepsM s (runFs os s)
  | [], s => by
    simp only [runFs]
    exact fun h => h
  | o :: r, s => by
    simp only [runFs]
    refine ((runF_keepsM o s).trans ?_).trans (runFs_keepsM r _)
    split
    · exact keepsM_of_eq rfl rfl
    · exact fun h => h
theorem runE_keepsM : ∀ (o : EOp) (s : St), KeepsM s (runE o s)
  | .write t, s => by
    simp only [runE]
    exact (put_keepsM s t).trans (keepsM_of_eq rfl rfl)
  | .fn args body, s => by
    simp only [runE]
    exact (((keepsM_of_eq rfl rfl : KeepsM s { s.put _ with loc := some s.blk.extend }).trans (runFs_keepsM body _)).trans
      (keepsM_of_eq rfl rfl : KeepsM _ (St.leave _ s))).trans (put_keepsM _ _)
  | .fnDyn cs args body, s => by
    simp only [runE]
    exact (((((keepsM_of_eq rfl rfl : KeepsM s { s with loc := some s.blk.extend }).trans (genArgs_keepsM cs _)).trans (put_keepsM _ _)).trans
      (runFs_keepsM body _)).trans (keepsM_of_eq rfl rfl : KeepsM _ (St.leave _ s))).trans (put_keepsM _ _)
  | .brace body, s => by
    simp only [runE]
    exact (((keepsM_of_eq rfl rfl : KeepsM s { s.put _ with loc := some s.blk.extend }).trans (runFs_keepsM body _)).trans
      (keepsM_of_eq rfl rfl : KeepsM _ (St.leave _ s))).trans (put_keepsM _ _)
  | .paren es, s => by
    simp only [runE]
    exact ((put_keepsM s _).trans (runEs_keepsM es _)).trans (put_keepsM _ _)
  | .declTop c, s => by
    simp only [runE]
    exact (declPub_keepsM c s).trans (keepsM_of_eq rfl rfl)
theorem runEs_keepsM : ∀ (os : List EOp) (s : St), KeepsM s (runEs os s)
  | [], s => by
    simp only [runEs]
    exact fun h => h
  | o :: r, s => by
    simp only [runEs]
    exact (runE_keepsM o s).trans (runEs_keepsM r _)
end

theorem runRoot_keepsM : ∀ (scopes : List (List FOp)) (s : St), KeepsM s (scopes.foldl (fun s b => runScope b s) s)
  | [], s => fun h => h
  | b :: r, s => by
    simp only [List.foldl_cons]
    refine KeepsM.trans ?_ (runRoot_keepsM r _)
    intro h
    have h2 := runFs_keepsM b { s with w := "", loc := none, locVis := [], subVis := [], top := { s.top with blk := { s.top.blk with sep := false } } } h
    exact h2

/-- **root_declared_increasing.**  For every artefact and every tree of writer operations — no monitor involved — the identifiers declared at the level of the
artefact's own top-scope writer were handed out in strictly increasing order. -/
theorem root_declared_increasing (scopes : List (List FOp)) : (runRoot scopes).topVis.Pairwise (· < ·) :=
  (runRoot_keepsM scopes initSt ⟨by simp [initSt], by simp [initSt]⟩).1

/-- … so their names are pairwise distinct: no name is declared twice in that scope -/
theorem root_names_nodup (scopes : List (List FOp)) : ((runRoot scopes).topVis.map varName).Nodup := by
  have h := root_declared_increasing scopes
  rw [List.nodup_iff_pairwise_ne] at *
  rw [List.pairwise_map]
  exact h.imp (fun {a b} hab hn => by have := varName_injective _ _ hn; omega)

end GE.JsWriter
