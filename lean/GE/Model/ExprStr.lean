import GE.Model.ExprGen
import GE.Extracted.StrTables
/-!
Model of the expression printer `expression_strigify_write` (`stringify/expr.rs`): the tokens it writes
for an expression at an accepted level.  Operator texts and operand levels come from the tables
regenerated from the Rust source (`GE.Extracted.StrTables`), the level of each variant from
`ExpressionLevel::from_expression` (`stringifyLevels`).
-/
namespace GE.Str
open GE.Spec (Tok) 
open GE.Gen (levelIdx stringifyLevelOfKind)
open GE.Extracted

def lvlS (e : Expr) : Nat := stringifyLevelOfKind e.kind

def unArm (op : UnOp) : String × Nat :=
  match strUnArms.lookup op.name with
  | some (t, l) => (t, levelIdx l)
  | none => ("?", 0)

def binArm (op : BinOp) : Nat × String × Nat :=
  match strBinArms.lookup op.name with
  | some (l, t, r) => (levelIdx l, t, levelIdx r)
  | none => (0, "?", 0)

def condArm : Nat × Nat × Nat := (levelIdx strCondArm.1, levelIdx strCondArm.2.1, levelIdx strCondArm.2.2)
def memberLevel : Nat := levelIdx "Member"
def condLevel : Nat := levelIdx "Cond"

/-- `value.to_string()`, an overflowing literal is written `1e999` -/
def floatText (t : String) : String := if t = "inf" ∨ t = "-inf" then "1e999" else t

def isNumber : Expr → Bool
  | .int _ | .float _ => true
  | _ => false

/-- is the value of a named field printed at all (shorthand `{a}`) -/
def isShortcut (names : Nat → String) (k : String) : Expr → Bool
  | .scope i => names i == k
  | .data x => x == k
  | _ => false

def comma {α} (isNil : α → Bool) (r : α) : List Tok := if isNil r then [] else [Tok.p ","]
def Exprs.isNil : Exprs → Bool | .nil => true | _ => false
def ObjFields.isNil : ObjFields → Bool | .nil => true | _ => false
def ArrFields.isNil : ArrFields → Bool | .nil => true | _ => false

mutual
/-- the arm bodies (everything after the parenthesising rule) -/
def strBody (names : Nat → String) (e : Expr) : List Tok :=
  match e with
  | .scope i => [.id (names i)]
  | .data x => [.id x]
  | .toStr _ => []          -- `panic!("illegal expression")`: never printed through this function
  | .undef => [.id "undefined"]
  | .null => [.id "null"]
  | .str s => [.str s]
  | .int v => [.num (toString v)]
  | .float t => [.num (floatText t)]
  | .bool b => [.id (if b then "true" else "false")]
  | .obj fs => .p "{" :: (strObj names fs ++ [.p "}"])
  | .arr fs => .p "[" :: (strArr names fs ++ [.p "]"])
  | .smember o f =>
    (if isNumber o then .p "(" :: (str names o memberLevel ++ [.p ")"]) else str names o memberLevel)
      ++ [.p ".", .id f]
  | .dmember o f => str names o memberLevel ++ .p "[" :: (str names f condLevel ++ [.p "]"])
  | .call f args => str names f memberLevel ++ .p "(" :: (strArgs names args ++ [.p ")"])
  | .un op x => .p (unArm op).1 :: str names x (unArm op).2
  | .bin op x y => str names x (binArm op).1 ++ .p (binArm op).2.1 :: str names y (binArm op).2.2
  | .cond c t f =>
    str names c condArm.1 ++ .p "?" :: (str names t condArm.2.1 ++ .p ":" :: str names f condArm.2.2)
/-- `expression_strigify_write`: parenthesise when the expression's level exceeds the accepted one -/
def str (names : Nat → String) (e : Expr) (accept : Nat) : List Tok :=
  if lvlS e > accept then .p "(" :: (strBody names e ++ [.p ")"]) else strBody names e
def strArgs (names : Nat → String) (args : Exprs) : List Tok :=
  match args with
  | .nil => []
  | .cons e r => str names e condLevel ++ comma Exprs.isNil r ++ strArgs names r
def strObj (names : Nat → String) (fs : ObjFields) : List Tok :=
  match fs with
  | .nil => []
  | .named k _ v r =>
    (if isShortcut names k v then [.id k] else .id k :: .p ":" :: str names v condLevel)
      ++ comma ObjFields.isNil r ++ strObj names r
  | .spread v r => .p "..." :: (str names v condLevel ++ comma ObjFields.isNil r ++ strObj names r)
def strArr (names : Nat → String) (fs : ArrFields) : List Tok :=
  match fs with
  | .nil => []
  | .item v r => str names v condLevel ++ comma ArrFields.isNil r ++ strArr names r
  | .spread v r => .p "..." :: (str names v condLevel ++ comma ArrFields.isNil r ++ strArr names r)
  | .hole r => .p "," :: strArr names r
end

/-- `Expression::stringify_write` -/
def strExpr (names : Nat → String) (e : Expr) : List Tok := str names e condLevel

end GE.Str
