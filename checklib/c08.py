"""C08 — stylesheet output keeps the token stream and all meaningful whitespace (DESIGN.md §9 C08)."""
from . import csscheck

THM_WS = [
    "GE.Css.convCls_marks",
    "GE.Css.qualLoop_marks",
    "GE.Css.convRpx_marks",
    "GE.Css.selMarks_flat",
    "GE.Css.ruleMarks_flat",
    "GE.Css.collapse_keeps_inner_ws",
    "GE.Css.collapse_adjacent",
    "GE.Css.calc_keeps_space_before_sign",
    "GE.Css.calc_keeps_space_after_sign",
]
THEOREMS = [
    "GE.Css.rule_rewrite_exact",
    "GE.Css.convRpx_wrote",
    "GE.Css.convCls_wrote",
    "GE.Css.qualLoop_wrote",
    "GE.CssOut.output_shape_ok",
]


def extra_cases(rng, quick):
    """spelling-sensitive tokens: dimensions whose (escaped) unit looks like an exponent, numbers in every notation"""
    o = {"class_prefix": None, "class_prefix_sign": None, "rpx_ratio": 750, "import_sign": None, "convert_host": False, "host_is": None}
    units = ["\\65 -2", "\\45 -1x", "\\65 ", "\\45 ", "\\65 5", "\\45 9z", "\\65 x", "e-x", "E-Q", "\\65 -x", "px", "\\70 x", "e\\35 ", "Q", "x1", "--u", "\\2d 1"]
    nums = ["1", "-4", "7", "1.5", "+2", "0", "-0", "100", "+2.5E3", "1e2", ".5", "16777217", "-2147483648"]
    out = []
    for u in units:
        decls = ";".join("p%d:%s%s" % (i, n, u) for i, n in enumerate(nums))
        out.append((dict(o), ".a{" + decls + "}"))
        out.append((dict(o, rpx_ratio=100), "@media (min-width:%s%s){.a{%s}}" % (nums[rng.below(len(nums))], u, decls)))
    # block at-rules that hold no rule list, nested in at-rules that do, before / after :host rules (every rule keeps all its wrappers in whichever
    # output it goes to)
    oh = dict(o, convert_host=True, class_prefix="p")
    wraps = ["@media (min-width: 100px)", "@supports (display: grid)", "@layer base", "@container (width > 1px)"]
    inner = ["@keyframes k{from{left:0}to{left:10rpx}}", "@font-face{font-family:X}", "@page{margin:1rpx}", "@property --x{syntax:'<length>';inherits:false}"]
    for w in wraps:
        for b in inner:
            out.append((dict(oh), "%s{%s :host{color:red} .a .b{color:blue}}" % (w, b)))
            out.append((dict(oh), "%s{:host{color:red} %s .a .b{color:blue} :host(.c){top:1rpx}}" % (w, b)))
            for w2 in wraps[:2]:
                out.append((dict(oh), "%s{%s{%s :host{color:red}} %s :host{color:green} .d{left:2rpx}}" % (w, w2, b, b)))
            out.append((dict(o), "%s{%s .a .b{color:blue}}" % (w, b)))
    # identifiers that only their escapes keep identifiers: `-` + digit, a lone `-`, a leading digit, `--` + digit — as values, property names, class names
    # (with and without a prefix), in at-rule preludes and functions (round 12, C08-11: a fast path copied "plain" identifiers unescaped)
    idents = ["-\\31 a", "\\-", "\\31 0", "-\\32", "a\\:b", "--x", "-webkit-x", "\\2d", "-\\2d 1", "x\\ y", "\\30", "-\\30px", "\\-1"]
    for i, a in enumerate(idents):
        b = idents[(i + 3) % len(idents)]
        css = ".%s{counter-reset:%s 2;animation:%s 1s;%s:v}@keyframes %s{from{a:%s}}@media %s{.%s .q{f:g(%s)}}" % (a, b, a, b, a, b, a, b, a)
        out.append((dict(o), css))
        out.append((dict(o, class_prefix="p"), css))
    return out


def run(chk):
    chk.rule = ("generated stylesheets x option sets; (1) token tree through the Lean model vs the implementation's outputs (token-by-token, "
                "so a merged/split/dropped token is a disagreement); (2) oracle: retokenise(output) == expected_rewrite(tokenise(input)), "
                "descendant combinators and calc +/- spacing kept, spelling-sensitive values re-read to the same value")
    chk.trusted = csscheck.TRUSTED
    chk.assumptions = ["shape theorem: for one style rule the sequence of written token kinds (brackets included, whitespace/comments excluded) "
                       "equals the input's (rule_rewrite_exact.shs); whitespace theorems (GE/Thm/C08Ws.lean): the selector loops write exactly the collapse of the "
                       "input's whitespace (leading / trailing dropped, every inner run kept as one: a descendant combinator always survives, at every nesting "
                       "depth of selector functions; none is invented), and in calc() the whitespace next to + / - is written. PARTIAL: the separator table "
                       "`needsSep` making adjacent tokens re-tokenise apart is checked by oracle and correspondence, not by a theorem; the at-rule dispatch and the rule "
                       "loop ARE covered: sheet_partition (GE/Thm/C17Sheet.lean) — for the whole stylesheet model, no import sign, the written token kinds of both "
                       "outputs are exactly those of a fuel-free token-by-token reading of the input (no token merged, split, dropped, duplicated or reordered at "
                       "any nesting of rule-bearing at-rules); sheet_marks (GE/Thm/C08Sheet.lean) — without host conversion, the token / white-space sequence of the whole "
                       "normal output is the fuel-free reading `goM`: selector white space collapsed exactly as in `ruleMarks` / `selMarks` for top-level rules AND "
                       "for every rule nested at any depth in rule-bearing at-rules, no white space written between loose at-rule prelude tokens (the separator table "
                       "decides there); "
                       "the serializer of single tokens is cssparser's"]
    csscheck.run_property(chk, "C08", "GE.Thm.C09", THEOREMS[:4], 700, 12000, extra_cases=extra_cases)
    failed, log = chk.prove("GE.Thm.C08Ws", THM_WS)
    for t in failed:
        chk.violation("proof", f"obligation {t} no longer checks", theorem=t, log=log[-3000:])
    failed, log = chk.prove("GE.Thm.C17Bal", ["GE.Css.outputs_balanced", "GE.Css.go_balanced"])
    for t in failed:
        chk.violation("proof", f"obligation {t} no longer checks", theorem=t, log=log[-3000:])
    failed, log = chk.prove("GE.Thm.C08Sheet", ["GE.Css.sheet_marks", "GE.Css.rules_marks", "GE.Css.atLoop_marks", "GE.Css.qualLoop_goM"])
    for t in failed:
        chk.violation("proof", f"obligation {t} no longer checks", theorem=t, log=log[-3000:])
    failed, log = chk.prove("GE.Thm.C17Sheet", ["GE.Css.sheet_partition", "GE.Css.rules_sheet", "GE.Css.atLoop_sheet"])
    for t in failed:
        chk.violation("proof", f"obligation {t} no longer checks", theorem=t, log=log[-3000:])
    failed, log = chk.prove("GE.Thm.C19", THEOREMS[4:])
    for t in failed:
        chk.violation("proof", f"obligation {t} no longer checks", theorem=t, log=log[-3000:])


def replay(chk, path):
    return csscheck.replay(chk, "C08", path)
