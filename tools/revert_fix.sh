#!/bin/sh
# usage: rev.sh <patch> <Cxx>: apply patch in reverse (undo a fix), run check, restore
cd /repo && git apply -R "$1" || exit 2
cd /verif && ./check "$2" 2>&1 | grep -E "^(OK|VIOLATION)|violation\[" | cut -c1-300 | sort | uniq -c | sort -rn | head -6
cd /repo && git checkout -- . 
cd /verif && python3 -c "import sys; sys.path.insert(0,'/verif'); from checklib import core; core.build_harness()" >/dev/null 2>&1
