import GE.Model.JsWriter
/-!
Reader of the `writer_trace` hook's event list (one event per field: `tag payload`) into the operation trees of
`GE/Model/JsWriter.lean`.  Not part of any proof: a trace that is read wrongly replays to another text than the real artefact.
-/
namespace GE.JsWriterTrace
open GE.JsWriter

abbrev Tok := String × String

def tok (f : String) : Tok :=
  match f.splitOn " " with
  | [] => ("", "")
  | t :: rest => (t, " ".intercalate rest)

mutual
/-- operations on a function-scope writer up to the closing bracket `close` (consumed) -/
partial def pF (close : String) : List Tok → Option (List FOp × List Tok)
  | [] => if close == "" then some ([], []) else none
  | (t, p) :: r =>
    if t == close then some ([], r) else
    let cont (o : FOp) (r : List Tok) : Option (List FOp × List Tok) := (pF close r).map fun x => (o :: x.1, x.2)
    match t with
    | "g" => cont (.genIdent p.toNat!) r
    | "p" => cont (.genPriv p.toNat!) r
    | "c" => cont (.custom p) r
    | "s" => cont (.setTop p) r
    | "d" => cont (.declTop p.toNat!) r
    | "e{" => (pE "}e" r).bind fun x => cont (.exprStmt x.1) x.2
    | "si{" => (pE "}si" r).bind fun x => cont (.setTopInit p x.1) x.2
    | "di{" => (pE "}di" r).bind fun x => cont (.declTopInit p.toNat! x.1) x.2
    | "T" =>
      -- T, A c p, S{ body }S, e{ Z txt, w txt }e
      match r with
      | ("A", a) :: ("S{", _) :: r1 =>
        (pF "}S" r1).bind fun x =>
          match x.2 with
          | ("e{", _) :: ("Z", z) :: ("w", w) :: ("}e", _) :: r2 =>
            if z == w then
              let cp := a.splitOn " "
              cont (.subTop (cp.getD 0 "").toNat! (cp.getD 1 "").toNat! x.1) r2
            else none
          | _ => none
      | _ => none
    | _ => none
partial def pE (close : String) : List Tok → Option (List EOp × List Tok)
  | [] => none
  | (t, p) :: r =>
    if t == close then some ([], r) else
    let cont (o : EOp) (r : List Tok) : Option (List EOp × List Tok) := (pE close r).map fun x => (o :: x.1, x.2)
    match t with
    | "w" => cont (.write p) r
    | "d" => cont (.declTop p.toNat!) r
    | "f{" => (pF "}f" r).bind fun x => cont (.fn none x.1) x.2
    | "fa{" => (pF "}fa" r).bind fun x => cont (.fn (some p) x.1) x.2
    | "b{" => (pF "}b" r).bind fun x => cont (.brace x.1) x.2
    | "pa{" => (pE "}pa" r).bind fun x => cont (.paren x.1) x.2
    | "fd{" =>
      let cs := (r.takeWhile (·.1 == "g")).map (·.2.toNat!)
      match r.dropWhile (·.1 == "g") with
      | ("fd|", a) :: r1 => (pF "}fd" r1).bind fun x => cont (.fnDyn cs a x.1) x.2
      | _ => none
    | _ => none
end

/-- a whole artefact: `T`, function scopes `S{ … }S` …, `Z text` -/
partial def pRoot : List Tok → Option (List (List FOp) × String)
  | ("T", _) :: r =>
    let rec go (acc : List (List FOp)) : List Tok → Option (List (List FOp) × String)
      | ("S{", _) :: r => (pF "}S" r).bind fun x => go (acc ++ [x.1]) x.2
      | [("Z", z)] => some (acc, z)
      | _ => none
    go [] r
  | _ => none

mutual
partial def sizeF : FOp → Nat
  | .exprStmt es | .setTopInit _ es | .declTopInit _ es => 1 + (es.map sizeE).sum
  | .subTop _ _ b => 1 + (b.map sizeF).sum
  | _ => 1
partial def sizeE : EOp → Nat
  | .fn _ b | .fnDyn _ _ b | .brace b => 1 + (b.map sizeF).sum
  | .paren es => 1 + (es.map sizeE).sum
  | _ => 1
end

/-- answer of the `jswriter` op: replayed text, monitor, counter agreement, number of identifiers, or `bad-trace` -/
def answer (fs : List String) : String :=
  match pRoot (fs.map tok) with
  | none => "bad-trace"
  | some (scopes, _) =>
    let s := runRoot scopes
    let fresh := s.evs.all fun e => !e.vis.contains e.id
    s!"{s.top.finish}\tmonitor={s.ok}\tsync={s.sync}\tfresh={fresh}\tuses={s.uses}\tidents={s.evs.length}"

end GE.JsWriterTrace
