"""C04 — creation renders the node tree that WXML semantics define (DESIGN.md §9 C04)."""
import json, re
from . import core, exprgen as eg, tmplgen as tg, render

THEOREMS = [
    "GE.TagGen.if_selector_derives",
    "GE.TagGen.selector_derives",
    "GE.TagGen.cond_operand_derives",
    "GE.TagGen.dashToCamel_of_no_dash",
    "GE.TagGen.dashToCamel_dash",
    "GE.Gen.gen_derives",
]


def split_stmts(body):
    """split generated statements on `;` outside double-quoted string literals"""
    out, cur, i, n = [], [], 0, len(body)
    while i < n:
        c = body[i]
        if c == '"':
            j = i + 1
            while j < n and body[j] != '"':
                j += 2 if body[j] == "\\" else 1
            cur.append(body[i:j + 1]); i = j + 1
            continue
        if c == ";":
            out.append("".join(cur)); cur = []
        else:
            cur.append(c)
        i += 1
    out.append("".join(cur))
    return out


def run(chk):
    quick = chk.tier != "thorough"
    chk.rule = ("abstract templates from a grammar over every element kind and attribute family (nested if/elif/else, for over array/object/string/"
                "expression lists, block, template is/data, slot, comments; colliding scope names), printed in varied concrete syntax (quotes, self-closing, "
                "entity spelling, whitespace, redundant parentheses), x data environments: tree and setter-call multiset produced by the REAL generated "
                "code under the REAL runtime vs a reference renderer; plus if-selector and name-normalisation model/implementation streams; "
                "non-trivial = template with at least one binding or control-flow node")
    chk.trusted = ["Lean 4.33 kernel", "axioms ⊆ {propext, Classical.choice, Quot.sound}", "GE/Spec/JsGrammar.lean",
                   "reference renderer checklib/tmplgen.py (the executable reading of the WXML semantics)", "node runner + stub backend (native nodes, static slot mode)",
                   "V8"]
    chk.assumptions = ["components are stubs with declared properties / external classes; dynamic-slot content is not part of this check's reference (C06 / C07 run it)",
                       "PARTIAL: creation_denotes (GE/Thm/C04Tag.lean) proves, over the tag-level model GE/Model/TagSem.lean (text, elements with plain attributes, "
                       "<block>, <include>, <template is data>, wx:if / elif / else chains, wx:for with and without key; expressions abstract), that the elements and text nodes creation builds are, in "
                       "document order, exactly the ones the template denotes; the model is compared with the real compiler + runtime on generated templates and "
                       "data (corr:tagsem: structure, attribute values, branch keys, list indexes, node reuse); the step before it, from the tags of the source to that template "
                       "tree (control-attribute priority, wx:elif / wx:else looking back over comments for their group, <block> dissolving), is GE/Model/TagTree.lean, compared with the "
                       "real parser on generated tag sequences (corr:tagtree). Slots, the other attribute "
                       "families and the generated JavaScript text between template and runtime are covered by the reference-render oracle only; the Lean part also "
                       "proves the branch selector statement and name normalisation"]
    chk.model_tie([("GE.Thm.C04", THEOREMS), ("GE.Thm.C04Tag", ["GE.TagSem.creation_denotes", "GE.TagSem.create_denotes", "GE.TagSem.firstTrue_range"]),
                   ("GE.Thm.C02Args", ["GE.ChildArgs.args_cover", "GE.ChildArgs.table_ok_range", "GE.ChildArgs.params_text", "GE.ChildArgs.childLevel_keys"]),
                   ("GE.Thm.C13Leaves", ["GE.TagTree.leaves_parse"])])
    from . import childargs
    childargs.run(chk)
    rng = chk.rng.fork("c04")
    # the tag-level model (creation_denotes is about it) vs the real compiler + runtime: the node tree after creation (and after updates)
    from . import tagsem
    tagsem.stream(chk, chk.rng.fork("tagsem"), 200 if quick else 4000)
    # from the tags to the tree that model starts from: which wx:if group, wx:for or <block> every start tag ends up in (GE/Model/TagTree.lean vs the real parser)
    from . import tagtree
    tagtree.stream(chk, chk.rng.fork("tagtree"), 600 if quick else 20000)
    # ---- names: model vs hook -----------------------------------------------------------------
    names = ["a", "a-b", "a-b-c", "-a", "a-", "a--b", "A-b", "a-B", "x1-2y", "é-ü", "a.b-c", "hover-class", "data-a-b", "_-_", "-", "--", ""]
    for i in range(200 if quick else 3000):
        names.append("".join(rng.choice(list("abAB-1._é")) for _ in range(rng.below(8))))
    reqs = [core.req("dash_camel", n) for n in names]
    core.diff_streams(chk, "dash_camel", reqs, core.run_harness(reqs), core.run_driver(reqs))
    # ---- if selector: model vs the statement inside the real generated code ---------------------
    conds_pool = []
    for t in eg.enum_depth2()[:: (7 if quick else 1)]:
        conds_pool.append(t)
    for i in range(100 if quick else 2000):
        conds_pool.append(eg.rand_tree(rng, 3, 0))
    sel_reqs, sel_real, tmpls = [], [], []
    k = 0
    while k < len(conds_pool):
        n = 1 + rng.below(3)
        cs = conds_pool[k:k + n]
        k += n
        parts, fields = [], []
        for j, c in enumerate(cs):
            if rng.chance(1, 8):
                sv = rng.choice(["x", "", "a b"])
                parts.append('<v %s="%s"/>' % ("wx:if" if j == 0 else "wx:elif", sv))
                fields.append(("s", sv))
            else:
                s = eg.src(tg.requote(c, "'"), "min")
                s2 = (" " + s if s.startswith("{") else s) + (" " if s.endswith("}") else "")
                parts.append('<v %s="{{%s}}"/>' % ("wx:if" if j == 0 else "wx:elif", s2))
                fields.append(("e", s))
        if rng.chance(1, 2):
            parts.append("<v wx:else/>")
            fields.append(("else", None))
        tmpls.append(("".join(parts), fields))
    groups = render.compile_templates([[["p", t[0]]] for t in tmpls])
    # ASTs of the condition sources through the real parser
    ereqs, emap = [], []
    for ti, (src, fields) in enumerate(tmpls):
        for fi, (kind, v) in enumerate(fields):
            if kind == "e":
                ereqs.append(core.req("expr", v, "", "0")); emap.append((ti, fi))
    eans = core.run_harness(ereqs)
    asts = {}
    for (ti, fi), a in zip(emap, eans):
        asts[(ti, fi)] = core.unesc(a.split("\t")[0])
    dreqs, dreal = [], []
    for ti, ((src, fields), g) in enumerate(zip(tmpls, groups)):
        if "panic" in g or not isinstance(g["per"].get("p"), str):
            chk.violation("input", f"compiler failed on {src!r}", template=src, answer=json.dumps(g)[:300])
            continue
        code = g["per"]["p"]
        m = re.search(r"=\(C,T,E,B\)=>\{(.*);B\(\w+,\w+\)\}", code)
        if not m:
            chk.violation("correspondence", "if-selector statement not found in generated code (shape changed)", template=src, code=code[:400])
            continue
        body = m.group(1)
        pieces = split_stmts(body)
        stmts = ";".join(pieces[:-1])
        var, _, sel = pieces[-1].partition("=")
        if any(asts.get((ti, fi), "none") == "none" for fi, (kk, _) in enumerate(fields) if kk == "e"):
            continue
        fs = []
        for fi, (kk, v) in enumerate(fields):
            fs.append("else" if kk == "else" else ("s:" + v if kk == "s" else "e:" + asts[(ti, fi)]))
        dreqs.append(core.req("if_selector", "", *fs))
        dreal.append(core.esc(stmts) + "\t" + core.esc(sel))
    core.diff_streams(chk, "if_selector", dreqs, dreal, core.run_driver(dreqs))
    chk.programs += len(dreqs)
    # ---- oracle: real creation vs reference renderer ------------------------------------------
    n = 500 if quick else 12000
    ts, srcs = [], []
    for i in range(n):
        g = tg.TmplGen(rng.fork(("t", i)), max_depth=3 if i % 5 else 4, dyn=True)
        t = g.template()
        ts.append(t)
        srcs.append(tg.Printer(rng.fork(("p", i)), vary=(i % 3 != 0)).template(t))
    # the writer operations behind these artefacts (components, dynamic-slot content, every attribute family) replayed in the writer model (corr:js-writer)
    from . import jswriter
    jswriter.run(chk, [{"files": [["p", s]], "scripts": []} for s in srcs[::3]], cap=100 if quick else 1000)
    groups = render.compile_templates([[["p", s]] for s in srcs])
    items, idx = [], []
    for i, (t, g) in enumerate(zip(ts, groups)):
        if "panic" in g:
            chk.violation("input", f"compiler panicked on generated template: {g['panic'][:200]}", template=srcs[i])
            continue
        if not isinstance(g.get("gen_groups"), str):
            chk.violation("input", f"code generation failed: {g.get('gen_groups')}", template=srcs[i])
            continue
        bad = [w for w in g["warnings"] if w[2] >= 2]
        if bad:
            chk.bump("templates-with-diagnostics>=warn")
        for di in range(1 if quick else 3):
            items.append((t, g, render.DATA_POOL[(i + di) % len(render.DATA_POOL)])); idx.append(i)
    res = render.render_vs_reference(items)
    nb = 0
    for (okk, a, b, r, e), i, it in zip(res, idx, items):
        s = srcs[i]
        chk.case(("render", s, json.dumps(it[2], sort_keys=True)[:30]), nontrivial=("{{" in s or "wx:" in s),
                 sample=dict(template=s[:300], tree=a) if len(chk.samples) < 4 and a and len(s) < 300 else None)
        if okk is None:
            chk.bump("oracle:reference-failed")
            continue
        if not okk:
            nb += 1
            if nb <= 3:
                chk.violation("input", "created tree differs from the reference rendering", template=s, data=it[2],
                              real=a if a is not None else r, reference=b)
    chk.programs += len(items)
    chk.bump("oracle:render-cases", len(items))
    chk.bump("oracle:render-mismatches", nb)
    # <template is> across files: a template defined in the file itself wins over an imported one of the same name, a later import over an
    # earlier one, and <include> renders the included file's content in place (the texts name the file that supplied them)
    lib = lambda tag: '<template name="cell"><text>%s:{{a}}</text></template><template name="only-%s">%s-only:{{a}}</template>' % (tag, tag, tag)
    multi = [
        ([["p", '<import src="./lib1"/><template name="cell"><text>own:{{a}}</text></template><template is="cell" data="{{a}}"/><template is="only-lib1" data="{{a}}"/>'],
          ["lib1", lib("lib1")]], ["own:A", "lib1-only:A"]),
        ([["p", '<import src="./lib1"/><import src="./lib2"/><template is="cell" data="{{a}}"/><template is="only-lib1" data="{{a}}"/><template is="only-lib2" data="{{a}}"/>'],
          ["lib1", lib("lib1")], ["lib2", lib("lib2")]], ["lib2:A", "lib1-only:A", "lib2-only:A"]),
        ([["p", '<import src="./lib2"/><import src="./lib1"/><template is="{{n}}" data="{{a}}"/>'], ["lib1", lib("lib1")], ["lib2", lib("lib2")]], ["lib1:A"]),
        ([["p", '<template name="cell">first:{{a}}</template><include src="./inc"/><template is="cell" data="{{a}}"/>'], ["inc", "<text>inc:{{a}}</text>"]], ["inc:A", "first:A"]),
        ([["p", '<import src="./lib1"/><view wx:for="{{l}}"><template is="cell" data="{{a: item}}"/></view><template name="cell">own:{{a}}</template>'], ["lib1", lib("lib1")]],
         ["own:1", "own:2"]),
        # a name that matches no template renders nothing, whatever its type (an empty array has the string form "", the key of the main template)
        ([["p", '<template name="t">T{{a}}</template><template is="{{d}}" data="{{d, a}}"/><template is="{{l}}" data="{{a}}"/><template is="{{z}}"/>x']], ["x"]),
    ]
    mg = render.compile_templates([m[0] for m in multi])
    mreqs = [{"op": "render", "gen_groups": g["gen_groups"], "path": "p", "steps": [{"create": {"a": "A", "n": "cell", "l": [1, 2], "d": []}}]} for g in mg if isinstance(g.get("gen_groups"), str)]
    mres = core.run_node(mreqs) if len(mreqs) == len(multi) else []
    if len(mres) != len(multi):
        chk.violation("input", "compiler failed on a multi-file template group", answer=json.dumps(mg)[:300])
    def texts(tree, acc):
        for n_ in tree:
            if "text" in n_:
                acc.append(n_["text"])
            texts(n_.get("children", []), acc)
        return acc
    for (files, want), r_ in zip(multi, mres):
        got = texts(r_["snapshots"][0]["tree"], []) if r_.get("snapshots") else r_.get("error")
        chk.evaluations += 1
        if got != want:
            chk.violation("input", f"templates across files: rendered texts {got}, the references resolve to {want}", files=files, template=files[0][1])


def replay(chk, path):
    o = json.load(open(path))["first"]
    if "template" in o and "data" in o:
        g = render.compile_templates([[["p", o["template"]]]])[0]
        r = core.run_node([{"op": "render", "gen_groups": g["gen_groups"], "path": "p", "steps": [{"create": o["data"]}]}])[0]
        print(json.dumps(tg.project(r["snapshots"][0]["tree"], True))[:3000])
        print("expected:", json.dumps(o.get("reference"))[:3000])
    return chk.finish()
