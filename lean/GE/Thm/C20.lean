import GE.Model.Group
/-!
# C20 — compilation is a deterministic function of the set of inputs

Emission walks ordered maps, so the bundle is a function of the *set* of (path, code) entries:
any two insertion orders (permutations) of files with distinct paths give the same text, and
importing a group is the same as adding its files directly.  No process-dependent input (hash
seed) occurs in the model; the multi-process oracle checks the same of the implementation.
-/
namespace GE.Group

theorem lexLe_refl (a : List Nat) : lexLe a a = true := by
  induction a with
  | nil => rfl
  | cons x xs ih => simp [lexLe, ih]

theorem lexLe_total (a b : List Nat) : (lexLe a b || lexLe b a) = true := by
  induction a generalizing b with
  | nil => simp [lexLe]
  | cons x xs ih =>
    cases b with
    | nil => simp [lexLe]
    | cons y ys =>
      simp only [lexLe]
      have := ih ys
      by_cases h1 : x < y
      · simp [h1]
      · by_cases h2 : y < x
        · simp [h2]
        · have : x = y := by omega
          subst this
          simp at this ⊢
          simpa using ih ys

theorem lexLe_trans (a b c : List Nat) (h1 : lexLe a b = true) (h2 : lexLe b c = true) :
    lexLe a c = true := by
  induction a generalizing b c with
  | nil => simp [lexLe]
  | cons x xs ih =>
    cases b with
    | nil => simp [lexLe] at h1
    | cons y ys =>
      cases c with
      | nil => simp [lexLe] at h2
      | cons z zs =>
        simp only [lexLe, Bool.or_eq_true, decide_eq_true_eq, Bool.and_eq_true, beq_iff_eq] at *
        rcases h1 with h1 | ⟨h1, h1'⟩ <;> rcases h2 with h2 | ⟨h2, h2'⟩
        · left; omega
        · left; omega
        · left; omega
        · right; exact ⟨by omega, ih _ _ h1' h2'⟩

theorem lexLe_antisymm (a b : List Nat) (h1 : lexLe a b = true) (h2 : lexLe b a = true) : a = b := by
  induction a generalizing b with
  | nil => cases b with
    | nil => rfl
    | cons y ys => simp [lexLe] at h2
  | cons x xs ih =>
    cases b with
    | nil => simp [lexLe] at h1
    | cons y ys =>
      simp only [lexLe, Bool.or_eq_true, decide_eq_true_eq, Bool.and_eq_true, beq_iff_eq] at *
      rcases h1 with h1 | ⟨h1, h1'⟩ <;> rcases h2 with h2 | ⟨h2, h2'⟩
      · omega
      · omega
      · omega
      · subst h1; rw [ih _ h1' h2']

theorem ordered_sorted (es : List Entry) : (ordered es).Pairwise (fun a b => entryLe a b = true) :=
  List.pairwise_mergeSort (le := entryLe) (fun a b c h1 h2 => lexLe_trans a.key b.key c.key h1 h2)
    (fun a b => lexLe_total a.key b.key) es

theorem ordered_perm (es : List Entry) : (ordered es).Perm es := List.mergeSort_perm es entryLe

/-- two entries of a list with distinct keys that compare equal are the same entry -/
theorem entry_eq_of_key_eq {es : List Entry} (hn : (es.map Entry.key).Nodup) {a b : Entry}
    (ha : a ∈ es) (hb : b ∈ es) (hk : a.key = b.key) : a = b := by
  induction es with
  | nil => simp at ha
  | cons e es ih =>
    simp only [List.map_cons, List.nodup_cons, List.mem_map, not_exists, not_and] at hn
    simp only [List.mem_cons] at ha hb
    rcases ha with rfl | ha <;> rcases hb with rfl | hb
    · rfl
    · exact absurd hk.symm (hn.1 b hb)
    · exact absurd hk (hn.1 a ha)
    · exact ih hn.2 ha hb

/-- **The walk order — and hence the emitted bundle — does not depend on the insertion order.** -/
theorem ordered_perm_invariant {es₁ es₂ : List Entry} (hp : es₁.Perm es₂)
    (hn : (es₁.map Entry.key).Nodup) : ordered es₁ = ordered es₂ := by
  apply List.Perm.eq_of_pairwise (le := fun a b => entryLe a b = true)
  · intro a b ha hb h1 h2
    have ha' : a ∈ es₁ := (ordered_perm es₁).subset ha
    have hb' : b ∈ es₁ := hp.symm.subset ((ordered_perm es₂).subset hb)
    exact entry_eq_of_key_eq hn ha' hb' (lexLe_antisymm _ _ h1 h2)
  · exact ordered_sorted es₁
  · exact ordered_sorted es₂
  · exact (ordered_perm es₁).trans (hp.trans (ordered_perm es₂).symm)

theorem emit_perm_invariant {es₁ es₂ : List Entry} (hp : es₁.Perm es₂)
    (hn : (es₁.map Entry.key).Nodup) : emit es₁ = emit es₂ := by
  unfold emit; rw [ordered_perm_invariant hp hn]

/-- importing group `b` into group `a` (map union of disjoint key sets) equals adding `b`'s files
to `a` one by one, in any interleaving -/
theorem import_group_eq_add (a b : List Entry) (hn : ((a ++ b).map Entry.key).Nodup) :
    emit (a ++ b) = emit (b ++ a) :=
  emit_perm_invariant List.perm_append_comm hn

/-- the walk is ascending: the emitted order is sorted by key -/
theorem emit_order_sorted (es : List Entry) :
    (ordered es).Pairwise (fun a b => lexLe a.key b.key = true) := ordered_sorted es

/-! non-vacuity -/
example : emit [⟨[98], "B"⟩, ⟨[97], "A"⟩] = emit [⟨[97], "A"⟩, ⟨[98], "B"⟩] :=
  emit_perm_invariant (List.Perm.swap _ _ _) (by decide)

end GE.Group
