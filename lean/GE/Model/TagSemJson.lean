import GE.Model.TagSem
import GE.Model.ItemPath
import GE.Model.Expr
import GE.Model.Rlm
import GE.Model.TagScope
/-!
An executable instance of `GE.TagSem.Sem` over JSON-like values, used to compare the tag-level model with the
real runtime (`tagsem` op of the driver): expressions are the compiler's AST (`GE.Expr`, scope-converted), evaluated
with JavaScript semantics on the fragment the comparison stream generates (data paths, member and index reads, literals,
`!`, `&&`, `||`, `??`, `? :`, `===` / `!==` against primitives, `+` on integers and strings); anything else evaluates to
`unsup`, which the stream skips.  Guards are not evaluated here: the instance re-evaluates every binding (`dirty = true`),
which is a legitimate over-approximation (see `GE/Thm/C06Tag.lean`); what the comparison observes is the structure,
the values and which nodes were reused.
-/
namespace GE.TagSem

inductive J where
  | null | undef | nan | unsup
  | bool (b : Bool)
  | num (n : Int)
  | str (s : String)
  | arr (l : List J)
  | obj (l : List (String × J))
deriving Inhabited

namespace J

def truthy : J → Bool
  | null | undef | nan | unsup => false
  | bool b => b
  | num n => n != 0
  | str s => s != ""
  | arr _ | obj _ => true

partial def toStr : J → String
  | null => "null" | undef => "undefined" | nan => "NaN" | unsup => "?"
  | bool b => if b then "true" else "false"
  | num n => toString n
  | str s => s
  | arr l => ",".intercalate (l.map fun x => match x with | null | undef => "" | y => y.toStr)
  | obj _ => "[object Object]"

partial def hasUnsup : J → Bool
  | unsup => true
  | arr l => l.any hasUnsup
  | obj l => l.any fun kv => kv.2.hasUnsup
  | _ => false

/-- `Y(v)` -/
def y : J → String
  | null | undef => ""
  | v => if v.hasUnsup then "\x01unsupported" else v.toStr

/-- the property key a value converts to -/
def key : J → String := toStr

def lookup (l : List (String × J)) (k : String) : J :=
  match l.find? (·.1 == k) with
  | some kv => kv.2
  | none => undef

/-- null-safe member read (`X(o)[k]`) of an own property; prototype members other than `length` are not modelled -/
def member (o : J) (k : String) : J :=
  match o with
  | null | undef | nan | bool _ | num _ => undef
  | unsup => unsup
  | obj l => lookup l k
  | arr l =>
    if k == "length" then num l.length
    else match GE.Rlm.arrayIndex? k with
      | some i => l.getD i undef
      | none => if k ∈ ["concat", "join", "map", "slice", "toString", "constructor"] then unsup else undef
  | str s =>
    if k == "length" then num s.length
    else match GE.Rlm.arrayIndex? k with
      | some i => match s.toList[i]? with | some c => str (String.singleton c) | none => undef
      | none => if k ∈ ["concat", "slice", "toString", "constructor", "trim"] then unsup else undef

def isPrim : J → Bool
  | arr _ | obj _ | unsup => false
  | _ => true

/-- `===` when at least one side is a primitive -/
def strictEq : J → J → J
  | null, null => bool true
  | undef, undef => bool true
  | bool a, bool b => bool (a == b)
  | num a, num b => bool (a == b)
  | str a, str b => bool (a == b)
  | unsup, _ | _, unsup => unsup
  | a, b => if a.isPrim || b.isPrim then bool false else unsup

def toNum : J → J
  | null => num 0
  | bool b => num (if b then 1 else 0)
  | num n => num n
  | undef | nan => nan
  | _ => unsup

def plus (a b : J) : J :=
  match a, b with
  | unsup, _ | _, unsup => unsup
  | str s, v => if v.hasUnsup then unsup else str (s ++ v.toStr)
  | v, str s => if v.hasUnsup then unsup else str (v.toStr ++ s)
  | arr _, _ | obj _, _ | _, arr _ | _, obj _ => if a.hasUnsup || b.hasUnsup then unsup else str (a.toStr ++ b.toStr)
  | a, b => match a.toNum, b.toNum with
    | num x, num y => num (x + y)
    | unsup, _ | _, unsup => unsup
    | _, _ => nan

/-- property order of `Object.keys`: canonical array indexes ascending, then the others in insertion order -/
def objEntries (l : List (String × J)) : List (String × J) :=
  let idx := l.filterMap fun kv => (GE.Rlm.arrayIndex? kv.1).map fun n => (n, kv)
  let sorted := idx.foldl (fun acc x => (acc.takeWhile (·.1 < x.1)) ++ [x] ++ acc.dropWhile (·.1 < x.1)) []
  sorted.map (·.2) ++ l.filter fun kv => (GE.Rlm.arrayIndex? kv.1).isNone

/-- what `wx:for` iterates over: (item, index) -/
def items : J → List (J × J)
  | arr l => (List.range l.length).map fun i => (l.getD i undef, num i)
  | obj l => (objEntries l).map fun kv => (kv.2, str kv.1)
  | str s => (List.range s.length).map fun i => (str (String.singleton (s.toList.getD i ' ')), num i)
  | num n => if n ≥ 0 ∧ n < 4294967296 then (List.range n.toNat).map fun (i : Nat) => (num i, num i) else []
  | _ => []

def same : J → J → Bool
  | num a, num b => a == b
  | str a, str b => a == b
  | bool a, bool b => a == b
  | null, null => true
  | undef, undef => true
  | _, _ => false

partial def toJson : J → String
  | null => "null" | undef => "{\"$\":\"undefined\"}" | nan => "{\"$\":\"nan\"}" | unsup => "{\"$\":\"unsup\"}"
  | bool b => if b then "true" else "false"
  | num n => toString n
  | str s => GE.Codec.jsonStr s
  | arr l => "[" ++ ",".intercalate (l.map toJson) ++ "]"
  | obj l => "{" ++ ",".intercalate ((objEntries l).map fun kv => GE.Codec.jsonStr kv.1 ++ ":" ++ kv.2.toJson) ++ "}"

end J

/-- the value of an attribute or text: one binding (raw value) or a mixture of text and bindings (a string) -/
inductive TE where
  | expr (e : Expr)
  | mix (ps : List (Sum String Expr))

mutual
def evalE (D : J) (sc : List J) : Expr → J
  | .scope i => sc.getD i .undef
  | .data n => J.member D n
  | .toStr e => .str (evalE D sc e).y
  | .undef => .undef
  | .null => .null
  | .str s => .str s
  | .int v => .num v
  | .float _ => .unsup
  | .bool b => .bool b
  | .obj _ => .unsup
  | .arr _ => .unsup
  | .smember o n => J.member (evalE D sc o) n
  | .dmember o f =>
    let k := evalE D sc f
    if k.hasUnsup then .unsup else J.member (evalE D sc o) k.key
  | .call _ _ => .unsup
  | .un .Reverse e => match evalE D sc e with | .unsup => .unsup | v => .bool (!v.truthy)
  | .un _ _ => .unsup
  | .bin .LogicAnd l r => match evalE D sc l with | .unsup => .unsup | v => if v.truthy then evalE D sc r else v
  | .bin .LogicOr l r => match evalE D sc l with | .unsup => .unsup | v => if v.truthy then v else evalE D sc r
  | .bin .NullishCoalescing l r => match evalE D sc l with | .unsup => .unsup | .null | .undef => evalE D sc r | v => v
  | .bin .EqFull l r => J.strictEq (evalE D sc l) (evalE D sc r)
  | .bin .NeFull l r => match J.strictEq (evalE D sc l) (evalE D sc r) with | .bool b => .bool (!b) | v => v
  | .bin .Plus l r => J.plus (evalE D sc l) (evalE D sc r)
  | .bin _ _ _ => .unsup
  | .cond c t f => match evalE D sc c with | .unsup => .unsup | v => if v.truthy then evalE D sc t else evalE D sc f
end

def pieceVal (D : J) (sc : List J) : Sum String Expr → J
  | .inl s => .str s
  | .inr e => evalE D sc e

def evalTE (D : J) (sc : List J) : TE → J
  | .expr e => evalE D sc e
  | .mix ps =>
    let parts := ps.map (pieceVal D sc)
    if parts.any J.hasUnsup then .unsup else .str (String.join (parts.map fun v => match v with | .str s => s | v => v.y))

/-- the instance: values as above, every guard answers "may have changed"; a tree is one bit, "is `undefined`": when the whole data
tree is `true` the generated code hands every list `undefined` (`true.field`), and lists are then matched by position; otherwise the
keyed path is taken with every item told `true` (for a covering tree the by-position path, taken when a list's own tree is
`undefined`, reuses the same nodes: the list is then unchanged) -/
def jsonSem : Sem TE J Bool where
  eval := fun e D sc => evalTE D sc e
  truthy := J.truthy
  str := J.y
  items := J.items
  same := J.same
  all := false
  none := true
  dirty := fun _ _ _ => true
  treeOf := fun _ U _ => U
  child := fun L _ => L
  rawKey := fun key item =>
    match (if key == "*this" then item else J.member item key) with
    | .null | .undef => ""
    | v => if v.hasUnsup then "\x01unsupported" else v.toStr
  isAll := fun t => !t
  isNone := fun t => t
  keyMarks := fun _ _ => true
  anyMarked := fun _ _ => true
  keyStr := J.toStr
  mkObj := J.obj
  mkTree := fun U _ => U
  reads := fun e f => match e with
    | .expr x => f ∈ GE.TagScope.dataFields x
    | .mix ps => ps.any fun p => match p with | .inl _ => false | .inr x => f ∈ GE.TagScope.dataFields x

/-! ### l-value paths of `model:` bindings (instance of `PSem`) -/

/-- the data path an expression reads: member / index chains over data fields and scope variables, the taken branch of a conditional -/
def lpathE (D : J) (sc : List J) (sp : List (Option (List J))) : Expr → Option (List J)
  | .data n => some [.str n]
  | .scope i => sp.getD i none
  | .smember o n => (lpathE D sc sp o).map (· ++ [.str n])
  | .dmember o k => (lpathE D sc sp o).map (· ++ [evalE D sc k])
  | .cond c t f => if (evalE D sc c).truthy then lpathE D sc sp t else lpathE D sc sp f
  | _ => none

def jsonPSem : PSem TE J Bool J where
  sem := jsonSem
  get := fun v k => J.member v k.key
  keyOf := fun x => x
  lpath := fun e D sc sp => match e with
    | .expr x => lpathE D sc sp x
    | .mix _ => none

def printPaths (ps : List (Binding J J)) : String :=
  " ".intercalate (ps.map fun p => match p.2.1 with
    | some q => "[" ++ ",".intercalate (q.map J.toJson) ++ "]"
    | none => "null")

/-! ### printing a node tree (canonical text compared with the real runtime's dump) -/

mutual
partial def Node.print : Node J → String
  | .text b s => s!"T{b}:" ++ GE.Codec.jsonStr s
  | .elem b tag attrs ch =>
    s!"E{b}:{tag}[" ++ ",".intercalate (attrs.map fun a => a.1 ++ "=" ++ a.2.toJson) ++ "](" ++ ch.print ++ ")"
  | .virt b ch => s!"V{b}(" ++ ch.print ++ ")"
  | .ifn b k ch => s!"I{b}#{k}(" ++ ch.print ++ ")"
  | .forn b its => s!"F{b}[](" ++ its.print ++ ")"
  | .tnode b k ch => s!"I{b}#" ++ k.toJson ++ "(" ++ ch.print ++ ")"
  | .fornK b raw its => s!"F{b}[" ++ ",".intercalate ((GE.Rlm.uniq raw).map GE.Codec.jsonStr) ++ "](" ++ its.print ++ ")"
partial def Nodes.print : Nodes J → String
  | .nil => ""
  | .cons n .nil => n.print
  | .cons n r => n.print ++ " " ++ r.print
partial def Items.print : Items J → String
  | .nil => ""
  | .cons b x ch .nil => s!"M{b}@" ++ x.toJson ++ "(" ++ ch.print ++ ")"
  | .cons b x ch r => s!"M{b}@" ++ x.toJson ++ "(" ++ ch.print ++ ") " ++ r.print
end

mutual
partial def Node.hasUnsup : Node J → Bool
  | .text _ s => (s.splitOn "\x01unsupported").length > 1
  | .elem _ _ attrs ch => attrs.any (fun a => a.2.hasUnsup) || ch.hasUnsup
  | .virt _ ch => ch.hasUnsup
  | .ifn _ _ ch => ch.hasUnsup
  | .forn _ its => its.hasUnsup
  | .tnode _ k ch => k.hasUnsup || ch.hasUnsup
  | .fornK _ raw its => raw.any (fun k => (k.splitOn "\x01unsupported").length > 1) || its.hasUnsup
partial def Nodes.hasUnsup : Nodes J → Bool
  | .nil => false
  | .cons n r => n.hasUnsup || r.hasUnsup
partial def Items.hasUnsup : Items J → Bool
  | .nil => false
  | .cons _ x ch r => x.hasUnsup || ch.hasUnsup || r.hasUnsup
end

end GE.TagSem
