"""C05 — names resolve lexically to the innermost enclosing scope (DESIGN.md §9 C05)."""
import json
from . import core, exprgen as eg, tmplgen as tg, render

THEOREMS = [
    "GE.SubExpr.subExprs_complete",
    "GE.SubExpr.findScope_innermost",
    "GE.SubExpr.findScope_none_iff",
    "GE.SubExpr.convert_resolves",
]


def py_resolve(t, scopes):
    """independent resolver over the Python tree: data field -> innermost scope of that name"""
    if isinstance(t, tuple):
        if t and t[0] == "data":
            for i in range(len(scopes) - 1, -1, -1):
                if scopes[i] == t[1]:
                    return ("scope", i)
            return t
        return tuple(py_resolve(x, scopes) for x in t)
    if isinstance(t, list):
        return [py_resolve(x, scopes) for x in t]
    return t


def run(chk):
    quick = chk.tier != "thorough"
    chk.rule = ("(1) every expression form x an identifier in every operand position x scope stacks with colliding / shadowing names: sub-expression "
                "iterator and convert_scopes, model vs implementation vs an independent resolver; (2) generated templates with nested for/slot-free "
                "scopes and data fields named like scope variables, rendered under the real runtime vs a reference renderer that resolves names "
                "lexically; non-trivial = expression with >= 1 identifier that is in scope")
    chk.trusted = ["Lean 4.33 kernel", "axioms ⊆ {propext, Classical.choice, Quot.sound}",
                   "GE/Model/SubExpr.lean tied to iter_sub_expr!/convert_scopes by differential runs through cfg hooks",
                   "reference renderer checklib/tmplgen.py (oracle)", "real runtime under node 22 with a stub backend"]
    chk.assumptions = ["the push/truncate discipline of the scope stack in Element::init_scopes_and_binding_map_keys is exercised by the render oracle, not modelled in Lean yet",
                       "slot: value scopes need dynamic-slot components, which the stub backend does not provide: covered by the parser-level stream only"]
    failed, log = chk.prove("GE.Thm.C05", THEOREMS)
    for t in failed:
        chk.violation("proof", f"obligation {t} no longer checks", theorem=t, log=log[-3000:])
    ok, log = core.lake_build(["gedriver"])
    if not ok:
        raise core.BrokenTie("driver-build", log)
    rng = chk.rng.fork("c05")
    # ---- stream 1: iterator + convert_scopes --------------------------------------------------
    trees = eg.enum_depth2()
    for i in range(300 if quick else 5000):
        trees.append(eg.rand_tree(rng, 3, 0))
    stacks = [[], ["a"], ["x", "y"], ["a", "b", "a"], ["z", "x", "z", "x"], ["item", "index", "item", "index"], ["c", "c"], ["y", "a", "x", "b", "z", "c"]]
    reqs_h, reqs_meta = [], []
    for ti, t in enumerate(trees):
        s = eg.src(t, "min")
        reqs_h.append(core.req("expr", s, "", "0")); reqs_meta.append(("ast", ti, None))
        reqs_h.append(core.req("subexprs", s)); reqs_meta.append(("sub", ti, None))
        for st in (stacks if ti % 7 == 0 or not quick else [stacks[ti % len(stacks)], stacks[(ti // 3) % len(stacks)]]):
            reqs_h.append(core.req("convert", s, ",".join(st))); reqs_meta.append(("conv", ti, st))
    real = core.run_harness(reqs_h)
    asts = {}
    for (kind, ti, st), a in zip(reqs_meta, real):
        if kind == "ast":
            asts[ti] = core.unesc(a.split("\t")[0])
    dreqs, dmeta = [], []
    for (kind, ti, st), a in zip(reqs_meta, real):
        if kind == "ast" or asts.get(ti, "none") == "none":
            continue
        if kind == "sub":
            dreqs.append(core.req("subexprs", asts[ti])); dmeta.append((kind, ti, st, a))
        else:
            dreqs.append(core.req("convert", asts[ti], ",".join(st))); dmeta.append((kind, ti, st, a))
    model = core.run_driver(dreqs)
    chk.programs = len(dreqs)
    core.diff_streams(chk, "subexprs+convert", dreqs, [m[3] for m in dmeta], model)
    # independent oracle on the implementation
    for (kind, ti, st, a), m in zip(dmeta, model):
        t = trees[ti]
        if kind == "conv":
            want = eg.sexp(py_resolve(t, st))
            got = core.unesc(a)
            from .c03 import norm_floats
            hit = any(n in st for n in ("a", "b", "c", "x", "y", "z", "item", "index"))
            chk.case((ti, tuple(st)), nontrivial=got != asts[ti], sample=dict(src=eg.src(t, "min"), scopes=st, resolved=got) if len(chk.samples) < 5 and got != asts[ti] else None)
            if norm_floats(got) != norm_floats(want):
                chk.violation("input", f"scope resolution of {eg.src(t,'min')!r} under scopes {st}: got {got}, lexical resolution gives {want}",
                              src=eg.src(t, "min"), scopes=st, got=got, want=want)
    chk.bump("oracle:convert-vs-independent-resolver", sum(1 for m in dmeta if m[0] == "conv"))
    # ---- stream 2: rendered templates with colliding names ------------------------------------
    n = 250 if quick else 4000
    ts, srcs = [], []
    for i in range(n):
        g = tg.TmplGen(rng.fork(("t", i)), data_names=["a", "b", "item", "index", "it", "ix", "l", "o", "f", "n", "k", "x"], src_modules=True)
        t = g.template()
        ts.append(t)
        srcs.append(tg.Printer(rng.fork(("p", i)), vary=(i % 2 == 1)).template(t))
    # directed: scopes that end (a `<slot>` with value references of its own, a for / slot-value element) followed by siblings and their
    # descendants reading the same names; inline and file modules in both orders
    for t in directed_templates():
        ts.append(t)
        srcs.append(tg.Printer().template(t))
    groups = render.compile_templates([tg.group_request(t, s) for t, s in zip(ts, srcs)])
    items, idx = [], []
    for i, (t, g) in enumerate(zip(ts, groups)):
        if "panic" in g:
            chk.violation("input", f"compiler panicked on generated template: {g['panic'][:200]}", template=srcs[i])
            continue
        if isinstance(g.get("gen_groups"), dict):
            chk.violation("input", f"code generation failed: {g['gen_groups']}", template=srcs[i])
            continue
        for D in render.DATA_POOL[: (1 if quick else 3)]:
            items.append((t, g, D)); idx.append(i)
    res = render.render_vs_reference(items)
    nb = 0
    for (okk, a, b, r, e), i, it in zip(res, idx, items):
        chk.case(("render", i, json.dumps(it[2], sort_keys=True)[:40]), nontrivial=True)
        if okk is None:
            chk.bump("oracle:reference-failed")
            continue
        if not okk:
            nb += 1
            if nb <= 3:
                chk.violation("input", "rendered tree differs from the lexically-resolved reference rendering",
                              template=srcs[i], data=it[2], real=a if a is not None else r, reference=b)
    chk.bump("oracle:render-cases", len(items))


def directed_templates():
    d = lambda n: ("expr", ("data", n))
    txt = lambda n: ("text", d(n))
    out = []
    def tmpl(nodes, modules=(), src_modules=(), slot_values=True):
        out.append({"path": "p", "nodes": nodes, "subs": {}, "modules": list(modules), "slot_values": slot_values, "src_modules": list(src_modules)})
    for ref in [("slot:a", None), ("slot:sv", ("static", "a")), ("slot:item", None), ("slot:x-y", ("static", "index"))]:
        name = ref[1][1] if ref[1] else ref[0][5:]
        slot = ("slot", ("static", "inner"), [ref])
        after = [("for", d("l"), None, None, None, ("elem", "view", [], [("text", ("mixed", [("e", ("data", name)), ("s", "|"), ("e", ("data", "item"))]))])), txt(name),
                 ("elem", "view", [("plain", "title", d(name))], [("if", [(d("c"), ("elem", "view", [], [txt(name)]))], ("elem", "view", [], [txt(name)]))])]
        tmpl([("elem", "view", [], [slot] + after)])
        tmpl([slot] + after)
        tmpl([("elem", "view", [], [("elem", "view", [("slot:", ref[0][5:], ref[1])], [txt(name)])] + after)])
        tmpl([("for", d("l"), name, None, None, ("elem", "view", [], [txt(name)]))] + after)
    pool = tg.MODULE_POOL
    use = lambda n: ("elem", "v", [], [("text", ("expr", ("smember", ("data", n), "tag")))])
    for mods in ([pool[0], pool[1]], [pool[1], pool[0]], [pool[0], pool[1], pool[2]], [pool[2], pool[0]]):
        names = [m[0] for m in mods]
        for k in range(1 << len(mods)):
            srcm = [names[i] for i in range(len(mods)) if k >> i & 1]
            tmpl([("elem", "view", [], [use(n) for n in names])], modules=mods, src_modules=srcm, slot_values=False)
    return out


def replay(chk, path):
    o = json.load(open(path))["first"]
    print(json.dumps(o)[:2000])
    return chk.finish()
