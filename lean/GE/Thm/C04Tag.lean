/-
C04, tag level — `create_denotes`: the elements and text nodes creation builds, in document order, are exactly the ones the
template denotes.

`denote` is the WXML reading of a template, written without any of the run-time bookkeeping: text renders its value as a
string, an element carries its evaluated attributes and the denotation of its children, `<block>` contributes only its
children (an `<include>` the content of the included file, which sees no scope variable of the includer), a `wx:if` chain contributes the body of the first branch whose condition holds (else the `wx:else` body, else
nothing), a `wx:for` (with or without `wx:key`) contributes its body once per (item, index) of the list value, with the two scope variables pushed.
`flat` forgets the virtual nodes (`wx:if`, `wx:for`, `wx:for-item`, `<block>`) of the tree that `create`
(`GE/Model/TagSem.lean`, the model compared with the real compiler + runtime by the `tagsem` stream) builds.
-/
import GE.Model.TagSem

namespace GE.TagSem

variable {E V T : Type}

mutual
inductive FNode (V : Type) where
  | text (s : String)
  | elem (tag : String) (attrs : List (String × V)) (children : FNodes V)
inductive FNodes (V : Type) where
  | nil
  | cons (n : FNode V) (r : FNodes V)
end

def FNodes.append : FNodes V → FNodes V → FNodes V
  | .nil, b => b
  | .cons n r, b => .cons n (r.append b)

theorem FNodes.append_nil : ∀ a : FNodes V, a.append .nil = a
  | .nil => rfl
  | .cons n r => by simp [FNodes.append, FNodes.append_nil r]

/-! document order without the virtual nodes -/
mutual
def Node.flat : Node V → FNodes V
  | .text _ s => .cons (.text s) .nil
  | .elem _ tag attrs ch => .cons (.elem tag attrs ch.flat) .nil
  | .virt _ ch => ch.flat
  | .ifn _ _ ch => ch.flat
  | .forn _ its => its.flat
  | .fornK _ _ its => its.flat
  | .tnode _ _ ch => ch.flat
def Nodes.flat : Nodes V → FNodes V
  | .nil => .nil
  | .cons n r => n.flat.append r.flat
def Items.flat : Items V → FNodes V
  | .nil => .nil
  | .cons _ _ ch r => ch.flat.append r.flat
end

def concatItems (f : V → V → FNodes V) : List (V × V) → FNodes V
  | [] => .nil
  | (a, x) :: r => (f a x).append (concatItems f r)

/-! what the template denotes under data `D` and scope variables `sc` -/
mutual
def denote (s : Sem E V T) (D : V) (sc : List V) : Tpl E → FNodes V
  | .text e => .cons (.text (s.str (s.eval e D sc))) .nil
  | .elem tag attrs ch => .cons (.elem tag (evalAttrs s D sc attrs) (denoteL s D sc ch)) .nil
  | .block inc ch => denoteL s D (if inc then [] else sc) ch
  | .cond bs => denoteBr s D sc bs
  | .loop l body => concatItems (fun a x => denoteL s D (sc ++ [a, x]) body) (s.items (s.eval l D sc))
  | .loopK l _ body => concatItems (fun a x => denoteL s D (sc ++ [a, x]) body) (s.items (s.eval l D sc))
  | .tref is fields cases => denoteT s (s.mkObj (evalAttrs s D sc fields)) cases (selOf s (s.eval is D sc))
def denoteL (s : Sem E V T) (D : V) (sc : List V) : Tpls E → FNodes V
  | .nil => .nil
  | .cons t r => (denote s D sc t).append (denoteL s D sc r)
def denoteBr (s : Sem E V T) (D : V) (sc : List V) : Branches E → FNodes V
  | .last he els => if he then denoteL s D sc els else .nil
  | .cons c body r => if s.truthy (s.eval c D sc) then denoteL s D sc body else denoteBr s D sc r
/-- `<template is>`: the first template of that name, under the data object built from the `data` fields and without scope variables -/
def denoteT (s : Sem E V T) (D : V) : TCases E → Option String → FNodes V
  | .nil, _ => .nil
  | .cons name body r, sel => if sel = some name then denoteL s D [] body else denoteT s D r sel
end

theorem firstTrue_range (s : Sem E V T) (D : V) (sc : List V) : ∀ (bs : Branches E) (i : Nat),
    firstTrue s D sc bs i = 0 ∨ i ≤ firstTrue s D sc bs i
  | .last _ _, _ => Or.inl rfl
  | .cons c _ r, i => by
    simp only [firstTrue]
    split
    · exact Or.inr (Nat.le_refl _)
    · rcases firstTrue_range s D sc r (i + 1) with h | h
      · exact Or.inl h
      · exact Or.inr (by omega)

theorem mkItems_flat (now : Nat) (mk : V → V → Nodes V) (f : V → V → FNodes V) (h : ∀ a x, (mk a x).flat = f a x) :
    ∀ its : List (V × V), (mkItems now mk its).flat = concatItems f its
  | [] => rfl
  | (a, x) :: r => by simp only [mkItems, Items.flat, concatItems, h a x, mkItems_flat now mk f h r]

mutual
theorem create_denotes (s : Sem E V T) (now : Nat) (D : V) : ∀ (t : Tpl E) (sc : List V), (create s now D sc t).flat = denote s D sc t
  | .text _, _ => rfl
  | .elem _ _ ch, sc => by simp only [create, Node.flat, denote, createL_denotes s now D ch sc]
  | .block inc ch, sc => by simp only [create, Node.flat, denote, createL_denotes s now D ch (if inc then [] else sc)]
  | .cond bs, sc => by
    simp only [create, Node.flat, denote, branchKey]
    exact createBr_denotes s now D bs sc 1 (by omega)
  | .loop l body, sc => by
    simp only [create, Node.flat, denote]
    exact mkItems_flat now _ _ (fun a x => createL_denotes s now D body (sc ++ [a, x])) _
  | .loopK l key body, sc => by
    simp only [create, Node.flat, denote]
    exact mkItems_flat now _ _ (fun a x => createL_denotes s now D body (sc ++ [a, x])) _
  | .tref is fields cases, sc => by
    simp only [create, Node.flat, denote]
    exact createT_denotes s now _ cases _
theorem createL_denotes (s : Sem E V T) (now : Nat) (D : V) : ∀ (ts : Tpls E) (sc : List V), (createL s now D sc ts).flat = denoteL s D sc ts
  | .nil, _ => rfl
  | .cons t r, sc => by simp only [createL, Nodes.flat, denoteL, create_denotes s now D t sc, createL_denotes s now D r sc]
theorem createBr_denotes (s : Sem E V T) (now : Nat) (D : V) : ∀ (bs : Branches E) (sc : List V) (i : Nat), 1 ≤ i →
    (createBr s now D sc bs (firstTrue s D sc bs i) i).flat = denoteBr s D sc bs
  | .last he els, sc, i, _ => by
    simp only [firstTrue, createBr, denoteBr]
    cases he with
    | true => simp [createL_denotes s now D els sc]
    | false => simp [Nodes.flat]
  | .cons c body r, sc, i, hi => by
    simp only [firstTrue, denoteBr]
    cases hc : s.truthy (s.eval c D sc) with
    | true =>
      simp only [if_true, createBr, beq_self_eq_true]
      exact createL_denotes s now D body sc
    | false =>
      simp only [Bool.false_eq_true, if_false]
      have hr := firstTrue_range s D sc r (i + 1)
      have hne : (firstTrue s D sc r (i + 1) == i) = false := by
        rcases hr with h | h
        · rw [h]; exact beq_false_of_ne (by omega)
        · exact beq_false_of_ne (by omega)
      simp only [createBr, hne, Bool.false_eq_true, if_false]
      exact createBr_denotes s now D r sc (i + 1) (by omega)
theorem createT_denotes (s : Sem E V T) (now : Nat) (D : V) : ∀ (cs : TCases E) (sel : Option String),
    (createT s now D cs sel).flat = denoteT s D cs sel
  | .nil, _ => rfl
  | .cons name body r, sel => by
    simp only [createT, denoteT]
    split
    · exact createL_denotes s now D body []
    · exact createT_denotes s now D r sel
end

/-- C04 at the tag level: creation builds exactly the denoted elements and text nodes, in document order -/
theorem creation_denotes (s : Sem E V T) (D : V) (t : Tpl E) : (create s 0 D [] t).flat = denote s D [] t :=
  create_denotes s 0 D t []

end GE.TagSem
