"""Regenerates MANIFEST.json from the registry below (run: python3 -m checklib.manifest_gen)."""
import json, os
from . import core

CLAIMED = {}  # pid -> dict(text, note, technique, design_ref)

def claim(pid, text, note, technique):
    CLAIMED[pid] = dict(text=text, note=note, technique=technique)

claim("C13",
      "Lean 4 theorems about a hand-written model of path.rs (resolve/normalize: never above root, idempotent, "
      "absolute/relative spec, base file name irrelevant), tied to the code by an exhaustive differential run of the "
      "model against path::resolve/normalize through a cfg hook, plus an independent reference-resolver oracle on the implementation. lookup_order (GE/Thm/C13Link.lean): over the "
      "model of the lookup table the emitted code builds (GE/Model/Link.lean: Object.assign({}, G[p1]._, …, H); delete S[\"\"]), a <template is> finds a local definition first, otherwise "
      "the definition in the LAST import whose target is registered and defines the name, never the main template - any files, any import list, any name; tied by corr:link to what the "
      "real compiler + runtime instantiate on generated multi-file groups. leaves_parse (GE/Thm/C13Leaves.lean): over the tag-level model of the parser (GE/Model/TagTree.lean), the tree "
      "keeps exactly the <include> / <template is> elements of the source, in document order, for every sequence of tags whose wx:if groups have the shape wx:if, wx:elif*, wx:else? "
      "(an include carrying wx:elif / wx:else or wx:for, at any depth, behind comments) - every include the rendering can reach is a source reference; second_else_loses shows the "
      "hypothesis is needed. Tied by corr:tagtree / corr:tagleaves (leaves of the real tree vs the model's); oracle: direct_dependencies = every <import> / <include> tag of generated tag "
      "sequences, and every include element of the real tree is listed.",
      "Trusted: Lean kernel; axioms ⊆ {propext, Classical.choice, Quot.sound}; the hand-written models (path: exhaustive correspondence up to 4 segments; link: generated groups; tag tree: generated "
      "tag sequences); harness codec; python reference resolver; JavaScript objects modelled as association lists. That the dependency queries list exactly the references (the collection in "
      "Element::parse is at character level) and insertion-order independence are exercised by the oracles only.",
      "Lean 4 proof over models (path resolution; template lookup order; include elements kept by the tree) + exhaustive / generated model-implementation correspondence + multi-file and tag-level dependency oracles")

claim("C12",
      "Lean 4 theorem decode_genLitStr: for every string, ECMAScript (strict and sloppy; spec written from ECMA-262) decodes the literal "
      "the model of gen_lit_str emits back to exactly that string; model tied to escape::gen_lit_str by an exhaustive per-scalar "
      "differential run (all 1,112,064 scalars x contexts) through a cfg hook; V8 decodes every real literal as oracle.",
      "Trusted: Lean kernel; axioms ⊆ {propext, Classical.choice, Quot.sound}; GE/Spec/JsString.lean (reading of ECMA-262); model tie is differential "
      "(per-scalar exhaustive + random strings; the loop is assumed stateless); V8. Which constants pass through gen_lit_str is covered under C02/C04.",
      "Lean 4 proof (decoder round-trip by induction) + exhaustive model/implementation correspondence")

claim("C03",
      "Lean 4 theorem gen_derives: for every expression tree, allowed level and counter, the tokens emitted by the model of to_proc_gen_rec derive "
      "(in a stratified ECMAScript grammar written from ECMA-262) exactly the intended JavaScript tree, so precedence/associativity/parenthesisation are right for "
      "all nestings; its side conditions are decide-checked on the level/arm tables re-extracted from the Rust source on every run. Model tied by byte-equality of "
      "value + hoisted statements against the real generator (exhaustive depth-2 operator pairs + random); real parser trees compared with intended trees; "
      "V8 evaluates generated code vs a reference evaluation of the intended tree over an edge-value data pool (incl. numeric literals at the edges of every "
      "representation). parse_print: a token-level model of the expression parser (GE/Model/ExprParse.lean, compared with the real parser on every generated source) "
      "reads back every printed expression as the tree that was printed, for every printable expression. gen_preserves (GE/Thm/C03Sem.lean): for every expression "
      "without a spread operand, every level and counter, after the hoisted `var` statements have run in order the emitted value tree (the one gen_derives shows "
      "JavaScript reads) evaluates to the value of the WXML expression and nothing but the temporaries has been assigned - for every total, side-effect-free "
      "interpretation of member reads, calls, operators, literals and the helpers X / Y / P (one law: `v != null` is truthy iff v is not nullish); the proof is the "
      "discipline of the temporaries (assigned before read, never twice, counter threaded through nested and sibling uses, later statements leave earlier values alone).",
      "Trusted: Lean kernel; axioms ⊆ {propext, Classical.choice, Quot.sound}; GE/Spec/JsGrammar.lean; the extractors; harness hook proc_gen_expr; V8. "
      "Not proved: spread operands (Object.assign / concat encodings) and throwing operations are outside gen_preserves (V8 oracle; finding D26); the abstract "
      "operations of gen_preserves are tied to JavaScript by the V8 oracle; lexing of concatenated spellings is tested (corr:lex_rt), not proved. "
      "Known finding D14 (array spread via concat).",
      "Lean 4 proof (mutual structural induction over the AST, table side conditions by decide) + differential correspondence + V8 oracle")

claim("C05",
      "Lean 4 theorems: expression level - the model of the sub-expression iterator yields every immediate child of every expression form (subExprs_complete); convert_scopes "
      "resolves every in-scope data field to the innermost scope index and nothing else, at every position (convert_resolves, findScope_innermost). Tag level - "
      "run_node_eq_spec / balanced (GE/Thm/C05Tag.lean): the stateful scope analysis of a template (one mutable stack: push slot-value names, handle own values, push wx:for "
      "names, recurse, truncate) converts every dynamic value under exactly the script modules and the declarations of its enclosing elements, innermost last, for every "
      "nesting and whatever earlier siblings declared, and restores the stack and the dynamic-tree counter after every element. Tied to iter_sub_expr!/convert_scopes by "
      "differential runs through cfg hooks and to init_scopes_and_binding_map_keys by comparing, for every dynamic value of generated and directed templates, the converted "
      "expression and the collected flag the real analysis left in the AST with the model's (corr:tag_scopes); an independent resolver and the render-vs-reference oracle "
      "with colliding names, script modules in files and inline, slot-value scopes run against the real code. Generation side: monitor_sound / names_fresh (GE/Thm/C02Writer.lean) - over the "
      "model of the JavaScript writers, no identifier handed out for a scope variable, parameter or hoisted function equals one visible where it is used, for every operation tree the counter "
      "monitor accepts; the real generators' writer operations for the generated templates are replayed in the model (text, counters, monitor: corr:js-writer).",
      "Trusted: Lean kernel; axioms within {propext, Classical.choice, Quot.sound}; differential ties; reference renderer; node runner. The generation-time scope stack "
      "(proc_gen/tag.rs) is exercised by the oracle, not modelled.",
      "Lean 4 proof (structural induction / iterator invariant; state machine = lexical specification) + differential correspondence + reference-render oracle")
claim("C04",
      "Lean 4 theorems for the proved part: creation_denotes (GE/Thm/C04Tag.lean): over the tag-level model of generated code + ProcGenWrapper (GE/Model/TagSem.lean: text, "
      "elements with plain attributes, <block>, <include>, <template is data> (static or computed name, named / shorthand fields), wx:if/elif/else chains, wx:for with and without key, nested freely; expressions abstract), the elements and text nodes that creation "
      "builds are, in document order, exactly the ones the template denotes (first truthy branch, body once per list entry with item / index pushed, block = its children); "
      "the model is executable over JSON values and compared with the real compiler + runtime on generated templates x data (corr:tagsem). Also: the wx:if/elif/else branch selector statement is read by JavaScript as c1?1:c2?2:…:0 for all conditions "
      "(if_selector_derives, on top of gen_derives) and dash_to_camel name normalisation facts; models tied by correspondence streams (selector statement "
      "extracted from real generated code; dash_to_camel hook). End-to-end: generated code executed under the real ProcGenWrapper vs a reference renderer "
      "written from the WXML semantics over a grammar of all element kinds / attribute families in varied concrete syntax.",
      "PARTIAL proof: the end-to-end refinement tree(run(gen t) D) = render t D is established by the oracle only. Trusted: Lean kernel; axioms ⊆ {propext, "
      "Classical.choice, Quot.sound}; reference renderer (setter calls and their effects: component properties by camel-cased name, external classes, native attributes); node runner with stub "
      "backend (native nodes, stub components with declared properties); V8.",
      "Lean 4 proof (partial: branch selector, names) + reference-render oracle under the real runtime")

claim("C20",
      "Lean 4 theorem emit_perm_invariant: emission walks ordered maps, so for any two insertion orders (permutations) of entries with distinct keys the "
      "emitted bundle is identical, and import_group equals adding the files (import_group_eq_add); order model tied to list_template_trees() order; "
      "oracle: fresh processes x permuted insertion orders x import_group variants, every artefact byte-compared; CSS twice in separate processes.",
      "Trusted: Lean kernel; axioms ⊆ {propext, Classical.choice, Quot.sound}; std BTreeMap ascending iteration (modelled as stable sort); fresh processes for seed variation.",
      "Lean 4 proof (sorted-permutation uniqueness) + multi-process differential oracle")

claim("C06",
      "PARTIAL proof. Lean 4 theorems: (1) analysis_covers_fields: for every expression form, every data field read anywhere in it is the root of a path recorded by the "
      "model of the dependency analysis of to_proc_gen_rec; (2) guard_sound, for EVERY expression form (data fields, scope variables, literals, object literals with named "
      "fields and spread operands, array literals with items, holes and spread operands, member and index chains, calls, unary / binary operators, ??, string conversion, "
      "conditionals, at any nesting): if the update-path tree covers the difference between old and new data (a node meaning 'only the marked children differ', as the "
      "framework's own tree builder uses it; scope trees cover the scope variables' changes) and no operand of the emitted guard is truthy, the expression has the same "
      "value before and after - over the same analysis function whose printed guard and template-data tree expressions are compared byte for byte with the implementation, "
      "with the run-time helpers Z, Q.a, Q.b, Q.c, Object.assign modelled on trees; (3) objGOld_not_covering: the combination emitted at the pinned commit for a spread "
      "operand is NOT covering (the failed proof step that produced finding D58, repaired in /repo); (4) keyed lists (GE/Thm/C06Rlm.lean, over a model of RangeListManager's "
      "updateKeys and of the per-item trees of diff, compared with the real class in every run): the keys made unique are pairwise distinct for every list of keys "
      "(uniq_nodup; fresh_not_used: the search for a free name ends, by pigeonhole), and marking_sound: when the tree marks every position whose key changed, an item "
      "that is not told `true` and reuses an old node reuses the node of its own position (the statement finding D62 violated); (5) update_refines / updates_refine "
      "(GE/Thm/C06Tag.lean): over the tag-level model GE/Model/TagSem.lean (guarded text / attribute rewrites, wx:if nodes updated in place while their branch stays "
      "selected and replaced otherwise, <block>, lists without key matched by position with per-index subtrees and `true` for a position whose index changed - finding D67 -, lists with wx:key matched by the keys made unique - uniq_nodup, uniq_at - with the tree transformation of RangeListManager.diff), "
      "given sound guards and covering trees (the hypotheses are the statements guard_sound proves at the expression level), after creation and ANY sequence of updates "
      "whose trees cover the successive differences the node tree is, up to node creation times, the tree of a fresh creation with the last data; the model runs on JSON "
      "values and is compared with the real runtime over generated histories incl. which nodes are reused (corr:tagsem). The remaining tag / list level (if / for / template / slot bookkeeping, "
      "RangeListManager) is checked by the oracle: create;update...(trees covering the diff by construction: exact/coarsened/true, and path writes fed to the real tree "
      "builder of tmpl/index.ts) vs fresh create under the real ProcGenWrapper/RangeListManager, over native nodes, stub components and a stub dynamic-slot component "
      "(content per slot instance, slot values changing between data updates; real slot-value parameters V/W in every other history).",
      "Trusted: Lean kernel; axioms within {propext, Classical.choice, Quot.sound}; harness hook proc_gen_expr; node runner + stub backend; oracle-built update trees; the "
      "value / tree semantics of guard_sound (stated in GE/Thm/C06Guard.lean: atoms / objects with present or absent keys, null-safe member reads, operators and calls as pure "
      "functions, array tail abstract, hoisted temporaries hold the new index / condition values, real trees at least as marked as the model). update_refines is NOT "
      "proved (oracle only); RangeListManager is executed, not modelled.",
      "Lean 4 proof (partial: dependency-root coverage + value-level guard soundness of every expression form) + update-vs-create oracle under the real runtime")
claim("C07",
      "PARTIAL proof. Lean 4 theorems: bindmap_refines (GE/Thm/C07Tag.lean) - over the tag-level model GE/Model/TagSem.lean, if the data change only in what an advertised "
      "field f can influence, running exactly the updaters of f (bmUpdate: the static text / attribute bindings that read f) on any tree rendering the old data gives, up to "
      "node creation times, the tree of a fresh creation; a field read inside a wx:if chain or a wx:for is not advertised (not_advertised_of_dynOccurs); the model's advertised "
      "set and bmUpdate are compared with the generated map B and ProcGenWrapper.bindingMapUpdate (corr:tagsem, steps `bindmap`). advertised_tag_iff (GE/Thm/C05Tag.lean) - over the model of the whole parse-side traversal and the collector, a data field is "
      "advertised by the binding map iff the template has no include, the field occurs in no structural value (wx:if / wx:for / is / data / slot name ...) and in no value "
      "inside a wx:if / wx:for / template-is / slot element, and it occurs in some other value; advertised_iff, disabled_stays_disabled, size_eq_count about the collector "
      "state machine (any operation order). The traversal model is tied by corr:tag_scopes (collected flag of every value) and by comparing its advertised set with the "
      "generated binding map of every template (corr:advertised-sets); the collector by differential runs through a cfg hook. Oracle: for every advertised field, running "
      "exactly its updaters equals a fresh creation (incl. directed attribute family x hoisted-temporary expressions, components with queued property changes in every "
      "order with their neighbours); the runtime's own single-change path (binding map if usable, else tree; dynamic-slot components switch the map off) equals a fresh "
      "creation for advertised and other fields; fields read in dynamic subtrees / structural positions (independent analysis of the abstract template) are never advertised.",
      "Trusted: Lean kernel; axioms within {propext, Classical.choice, Quot.sound}; differential ties; independent use-site analysis; node runner. That the emitted updaters "
      "re-evaluate every occurrence is established by the oracle only.",
      "Lean 4 proof (traversal = lexical specification; collector invariants by induction over operation sequences) + binding-map-vs-create oracle")

CSS_TRUST = ("Trusted: Lean kernel; axioms ⊆ {propext, Classical.choice, Quot.sound}; extractor of the separator table and writer shape; cssparser 0.34's tokenizer and "
             "per-token serializer (the model works on its token tree); differential tie of GE/Model/Css.lean (token streams of both outputs, warnings, source-map "
             "positions and names); the independent oracle checklib/cssoracle.py. ")

claim("C08",
      "PARTIAL proof. Lean 4 theorem rule_rewrite_exact (by structural recursion over the token tree, any nesting depth): for a style rule the written token kinds, brackets "
      "included, are exactly the input's — nothing merged, split, dropped, duplicated or reordered — whitespace and comments aside; convCls_marks / qualLoop_marks + "
      "selMarks_flat / ruleMarks_flat: the whitespace written in selector context is exactly the collapse of the input's (leading/trailing dropped, every inner run kept as "
      "one, none invented) at every nesting depth of selector functions, so descendant combinators survive; calc_keeps_space_*: whitespace next to + / - in calc() is written. "
      "Model tied to the implementation token-by-token. Whole stylesheet (GE/Thm/C17Sheet.lean, C08Sheet.lean; no import sign): sheet_partition - the token kinds of both outputs of the model's transform are exactly those of a "
      "fuel-free, token-by-token reading of the input (rule loop, at-rule dispatch: rule list / declaration block / `;`, any nesting of rule-bearing at-rules), and the fuel of the model's "
      "loop is never exhausted; sheet_marks - without host conversion the token / white-space sequence of the whole normal output is the reading goM: descendant combinators survive in "
      "every rule nested in rule-bearing at-rules. Spelling-sensitive values are judged by the oracle retokenise(output) == expected_rewrite(tokenise(input)).",
      CSS_TRUST + "The separator table (adjacent tokens re-tokenise apart) is covered by correspondence + oracle only; sheets with an import sign are outside the whole-sheet theorems.",
      "Lean 4 proof (token-kind preservation and whitespace collapse per rule and over the whole sheet: rule loop + at-rule dispatch, any nesting) + model/implementation token-stream correspondence + re-tokenisation oracle")
claim("C09",
      "PARTIAL proof. Lean 4 theorems rule_rewrite_exact / convCls_wrote / convRpx_wrote: every identifier of a rule is written exactly once, in order, and is replaced by "
      "<prefix>--<name> exactly when it immediately follows `.` in selector context (any depth of selector functions and prelude blocks), never in value context; "
      "no_prefix_no_change, class_prefixed_once. Whole stylesheet (GE/Thm/C09Sheet.lean, no import sign): sheet_idents - the identifiers of both outputs of the model's transform are "
      "exactly those of the fuel-free reading goI: class positions in style-rule selectors and in the bracketed / functional blocks of at-rule preludes, at any depth, in every rule nested "
      "inside rule-bearing at-rules; at-keywords, loose prelude identifiers, declaration blocks and calc() untouched. Oracle: set of rewritten identifiers == identifiers after `.` in "
      "selector context; sign comments exactly there.",
      CSS_TRUST + "Sheets with an import sign are outside the whole-sheet theorem; sign comments are covered per rule and by the oracle.",
      "Lean 4 proof (identifier-rewrite exactness by structural recursion over token trees, per rule and over the whole sheet) + correspondence + oracle")
claim("C10",
      "PARTIAL proof. Lean 4 theorems block_numbers_exact / convRpx_nums / convCls_nums (structural recursion over the token tree): the numeric tokens written are the input's, "
      "in order and bit for bit, except that exactly the dimensions whose unit is rpx are replaced by a vw dimension carrying rpxConvert(value, ratio) — in declarations, "
      "functions, selector functions and prelude blocks at any depth (rpxLeaf_other, rpxLeaf_rpx). (Mathlib, ordered field) rpx_error_bound: value*100/ratio computed with two roundings of relative error ≤ ε is within (2ε+ε²)|exact| and "
      "keeps the sign; the model's executable Float32 conversion and integer test agree with the implementation on every generated number (bit patterns compared); "
      "oracle: rpx and non-integers within f32 rounding, integers exact, no other unit converted.",
      CSS_TRUST + "IEEE-754 single-precision arithmetic (Lean Float32 = Rust f32) is trusted; decimal printing is outside the model (oracle only).",
      "Lean 4 proof (numeric tokens preserved except rpx, any nesting; error bound over an ordered field with rounding as a parameter) + bit-exact correspondence of the conversion + numeric oracle")
claim("C17",
      "PARTIAL proof. Lean 4 theorems about one rule: host_rule_moves (a pure :host{} writes nothing to the normal output, no warning, and exactly chain…{ selector { "
      "block } }… with balanced braces to the low output, the block transformed by the ordinary declaration function), host_combination_dropped (neither output changes, "
      "one warning), host_off_generic / not_host_generic / generic_keeps_low (everything else is the generic rule and never touches the low output). Oracle: each "
      "input rule appears exactly once over both outputs, order kept. Whole stylesheet (GE/Thm/C17Sheet.lean, no import sign): sheet_partition - the token kinds of the normal and of "
      "the low-priority output of the model's transform are exactly those the fuel-free reading `go` assigns: every rule once, non-host rules in the normal output in source order, each "
      ":host{} in the low output inside the chain of the WRITTEN preludes of its enclosing rule-bearing at-rules, :host combinations in neither; host_off_low_empty.",
      CSS_TRUST + "Sheets with an import sign are outside the whole-sheet theorem; token payloads are covered per rule (C09 / C10).",
      "Lean 4 proof (per-rule partition theorems + the rule loop / at-rule dispatch over the whole sheet by induction on fuel against a fuel-free specification) + correspondence on both outputs + partition oracle")
claim("C18",
      "PARTIAL proof. Lean 4 theorems decode_encode (percent-decoding the placeholder of any byte string returns it), encoded_alphabet and encoded_has_no_comment_end "
      "(the encoded path cannot end the comment); the unreserved-byte table is the model's and agrees with urlencoding on all 256 bytes via correspondence. Oracle: "
      "placeholder position, recoverable path, equivalent @layer/@supports/@media wrappers, late-import warning, pass-through without a sign. import_balanced (GE/Thm/C18Wrap.lean): "
      "whatever an accepted import's conditions contain, what the model's importRule writes (wrappers, placeholder, closers) is balanced in { / }: it never closes below its starting depth "
      "and ends at it, for every token tree.",
      CSS_TRUST + "Which prelude goes into which wrapper is covered by correspondence + oracle only; a rejected (malformed) import leaves already-opened wrappers unclosed (DESIGN §13).",
      "Lean 4 proof (encode/decode round trip for all byte strings; wrapper balance for all token trees) + correspondence + oracle")
claim("C19",
      "PARTIAL proof. Lean 4 theorems about the output writer model: utf16_len_invariant and dst_col_exact (the generated column recorded for a token is the UTF-16 length of "
      "everything written before it, for every write sequence), entries_nondecreasing; output_shape_ok re-checks each run that StylesheetOutputWriter still has the "
      "modelled shape. Source positions and names of every entry are compared model vs implementation; oracle re-tokenises source and output at each entry.",
      CSS_TRUST + "The sourcemap crate's VLQ/JSON encoding is trusted (oracle round-trips it).",
      "Lean 4 proof (column invariant by induction over writes) + per-entry correspondence + re-tokenisation oracle")

claim("C11",
      "PARTIAL proof. Tag level (GE/Thm/C11Tag.lean over GE/Model/ItemPath.lean): model_paths_sound - the runtime's composition `item path = list path ++ [index]` preserves 'every scope variable that has a path is the value at that path', so every path handed to a model: binding outside <template name> bodies addresses the value its expression reads, at any nesting of wx:if / block / wx:for; the expression-level fact is the hypothesis PLaw.lpath_sound; sub_binding_unsound is the counterexample behind known finding D69 (bindings inside <template name> bodies); the model's paths are compared with the real modelPaths after creation and every update (corr:tagsem with paths). Expression level: PARTIAL proof. Lean 4 theorem path_denotes (structural recursion over the expression, generalised over the slices an enclosing conditional pushes into its "
      "branches): for every expression, scope configuration, mode (model / script / general) and run-time environment, evaluating the emitted path expression yields "
      "exactly the location the expression reads — member chain of the branch actually taken, rooted at the data field, the list item's path or the script module — "
      "and null exactly when the expression is not assignable in that mode; reads_value: the model path looked up in the data is the expression's value; "
      "not_assignable_no_path, invalid_scope_no_path. Model tied by byte-equality of the three emitted path texts and the has-path flags through a cfg hook. Oracle: "
      "templates with nested wx:for / model: / event / change: bindings and script modules under the real runtime: observed paths equal independently computed "
      "locations, and the value at the model path equals the delivered value.",
      "Trusted: Lean kernel; axioms ⊆ {propext, Classical.choice, Quot.sound}; differential tie; node runner; independent location semantics (checklib/c11.py). The run-time "
      "environment (temporaries' values, item path = list path ++ [index]) is assumed by the theorems and established by the oracle.",
      "Lean 4 proof (denotational correctness of the emitted path expression, by structural recursion) + get oracle under the real runtime")

claim("C01",
      "Lean 4 theorems (partial): rules_fuel_sufficient / rules_sheet (GE/Thm/C17Sheet.lean) - the fuel of the model's stylesheet rule loop is never exhausted: for every token tree the loop "
      "meets a fuel-free specification; rules_progress - over the model of the stylesheet transformer's rule loop (the one compared with the real transformer on every generated sheet), every iteration hands a strictly shorter token list to the next (each rule parser returns a suffix of its input and consumes its first token: no rewinding rule, the mechanism of a hang with unbounded allocation); PARTIAL proof. Lean 4 theorems for the two places where totality is arithmetic or loop progress: scanRadix_spec / scanDec_spec (the oct / hex / dec literal scanners never "
      "overflow: they return the exact integer up to i64::MAX and the float branch beyond, for digit strings of any length) and iter_progress / loop_terminates (every iteration of "
      "the attribute-recovery loop consumes input; the stop test is re-extracted from the source each run). Everything else is observation: every input runs through add_tmpl, "
      "all artefacts, stringify + re-parse and the stylesheet transformer in isolated worker processes with an address-space limit and time budgets (a dead or late worker names "
      "its input exactly), over generated, mutated, raw and hand-written hostile inputs at the nesting bound, plus scaling runs (n, 2n, 4n) of 21 input families.",
      "Trusted: Lean kernel; axioms ⊆ {propext, Classical.choice, Quot.sound}; extractor; differential tie of the number model; OS isolation / RLIMIT_AS / wall clock as the "
      "observation. A theorem cannot exhibit stack exhaustion, allocator aborts or timing: termination and panic-freedom of the compilers as a whole are NOT proved.",
      "Lean 4 proof (partial: scanner arithmetic, recovery-loop progress) + isolated-worker totality and scaling runs")

claim("C14",
      "PARTIAL proof. Lean 4 theorems: (1) parse_print (mutual structural recursion over the expression AST, ~1000 lines): a token-level model of the expression parser "
      "(one function per precedence level as in parse/expr.rs, member / index / call chains, unary operators, conditionals, object / array literals with spreads, holes and "
      "shorthand fields; compared with the real parser on ~10k sources per run) applied to the tokens the printer model writes returns the printed tree and consumes every "
      "token, for EVERY printable expression and every sufficient fuel: print followed by parse is the identity on binding expressions (parse_print_id); (2) str_derives: the "
      "printed tokens derive the expression in the WXML grammar with the parser's levels (parse_left_to_right! chain and every arm re-extracted each run); (3) "
      "mixture_roundtrip: the value parser reads the printed form of ANY sequence of text pieces and bindings back as the same pieces (text containing {{, text ending in { "
      "before a binding, <, \", &, look-alike references), given that bindings are read back (which (1) establishes at the token level); (4) decode_escBody / decode_escQuote "
      "/ *_safe: every string survives escaping + entity decoding and cannot end its context. Models of the expression printer, the expression parser, the value printer / "
      "parser, both escapers and parse_next_entity tied by differential runs. Oracle: print(parse(t)) is a fixpoint after one round, gets no new diagnostic above Note, and "
      "its generated code renders and updates exactly like the original under the real runtime - over generated templates, mutated ones, every operator pair x operand "
      "position as a binding under four association-separating environments, delicate shapes, text mixtures, and mangling.",
      "Trusted: Lean kernel; axioms within {propext, Classical.choice, Quot.sound}; extractors; differential ties; WHATWG entity table from python; node runner. Not proved: "
      "lexing (spelled tokens -> tokens: tested by corr:lex_rt and corr:wparse-printed), the tag / attribute printer, scope mangling (oracle only).",
      "Lean 4 proof (print-then-parse identity on expressions at the token level; mixture round trip; printed expression derives its tree; escape/decode round trip) + round-trip behaviour oracle under the real runtime")
claim("C15",
      "PARTIAL proof. Lean 4 obligations re-checked against tables extracted each run: levels_as_documented (ParseErrorKind::level equals the documented table), "
      "structural_defects_reach_documented_level, prevent_success_iff, and the position discipline (position_shapes, try_parse_restores + skipBytes_eq_advance / advance_spec / "
      "prefix_position_inside: every bookkeeping path computes the position of a source prefix, so recorded positions lie inside the source). Oracle: generated well-formed "
      "templates produce nothing at Warn or above; nine classes of single structural defects injected into them are each flagged by an expected kind at the documented level; "
      "every diagnostic of every input (clean, injected, mutated, raw) has start <= end on an existing line at a UTF-16 column on a character boundary.",
      "Trusted: Lean kernel; axioms ⊆ {propext, Classical.choice, Quot.sound}; extractor; the documented table in GE/Thm/C15.lean; the textual defect injectors. That each "
      "recovery point reports, with a location spanning the offending text, is established by the injections only.",
      "Lean 4 proof (level table obligations + position bookkeeping theorems) + clean/injected/fuzzed diagnostics oracle")

claim("C16",
      "PARTIAL proof. Lean 4 theorems about the position bookkeeping model: skipBytes_eq_advance (the bulk update of skip_bytes equals advancing character by character: "
      "all three code paths keep one position function), advance_spec (that function is: line feeds counted, UTF-16 length of the last line), advance_lt / "
      "posOf_injective_on_prefixes (positions are strictly monotone along the source, so a stored location determines exactly one source slice); the code shapes are "
      "re-extracted each run and the model is run against next / skip_whitespace / skip_bytes through a cfg hook. Oracle: every located node of the public AST (walked by "
      "harness/src/astdump.rs) covers its spelling, lies inside its parent, siblings in source order; every token of the re-printing source map points at the start of its "
      "source construct with the source spelling as name, output positions non-decreasing.",
      "Trusted: Lean kernel; axioms ⊆ {propext, Classical.choice, Quot.sound}; extractor; differential tie; the AST walker. That each parser routine records positions at the "
      "right moments is established by the oracle only.",
      "Lean 4 proof (position function: bulk = stepwise, specification, strict monotonicity) + per-node location oracle + source-map oracle")

claim("C02",
      "PARTIAL proof. Lean 4 theorems: every allocated identifier is an IdentifierName, never a reserved word / relied-upon global, never a preserved A–Z name, and distinct "
      "counters give distinct names (tables VAR_NAME_* and the reserved list re-extracted from the source each run); every string literal decodes (C12); every value "
      "expression, hoisted statement and if-selector statement derives its intended tree in the ECMAScript grammar (gen_derives, if_selector_derives). args_cover (GE/Thm/C02Args.lean): every callback T E B F S J that the "
      "statement of a child node invokes is a parameter of the generated children function it stands in, for every list of child kinds, with or without slot values (tables of "
      "to_proc_gen_function_args regenerated from the source each run; which callback each kind invokes tied by corr:child-args). monitor_sound / names_fresh "
      "(GE/Thm/C02Writer.lean) over the model of the JavaScript writers of proc_gen/mod.rs (GE/Model/JsWriter.lean: separator flag, hoisted var lists, nested function / block scopes, "
      "the two counters with extend / align, nested top-scope writers): for EVERY tree of writer operations that the counter monitor accepts, no identifier handed out equals one that is "
      "visible where it is used — no duplicate arrow-function parameter (a SyntaxError), no captured outer variable, hoisted declarations usable where requested; the model is replayed on the "
      "operations the real generators performed (hook writer_trace) and must reproduce the artefact text and every counter, and the monitor must accept the run (corr:js-writer). root_declared_increasing / root_names_nodup (GE/Thm/C02WriterMono.lean), with no monitor at all: the "
      "identifiers declared at the level of an artefact's own top-scope writer are handed out in strictly increasing order, so no name is declared twice there, for every tree of operations. Models tied by "
      "exhaustive identifier correspondence and byte-equality streams. Oracle: V8 parses (sloppy+strict) every artefact of generated, hostile-named, mutated and large templates.",
      "Trusted: Lean kernel; axioms ⊆ {propext, Classical.choice, Quot.sound}; Spec/JsLex, JsGrammar, JsString; extractors; V8. The rest of the statement skeleton of the tag-level "
      "generator and the final step derivable⇒parsable are covered by the oracle only.",
      "Lean 4 proof (identifiers, literals, expressions, writer identifier discipline) + V8 syntax oracle over all artefacts")

ALL = ["C%02d" % i for i in range(1, 21)]

def main():
    checks = []
    for pid in ALL:
        if pid not in CLAIMED:
            continue
        c = CLAIMED[pid]
        checks.append(dict(
            property_id=pid,
            quick_cmd=f"./check {pid} --tier quick",
            thorough_cmd=f"./check {pid} --tier thorough",
            evidence_file=f"/verif/evidence/{pid}.json",
            replay_cmd_template=f"./check {pid} --replay {{path}}",
            engine="lean4-model-proof",
            level_claimed=dict(category="proof", text=c["text"], design_ref=f"DESIGN.md §9 {pid}"),
            level_note=c["note"],
            technique=c["technique"],
        ))
    na = [dict(property_id=p, reason="not yet claimed in this revision: model and theorems under construction (see DESIGN.md §10 for the order of work)")
          for p in ALL if p not in CLAIMED]
    m = dict(
        version=1,
        setup_cmd="./setup.sh",
        hooks=dict(
            guard="glass_easel_verif",
            enable="RUSTFLAGS='--cfg glass_easel_verif' (set in /verif/harness/.cargo/config.toml; the harness path-depends on /repo's crates)",
            baseline_off_cmd="cd /repo && cargo test --workspace --no-fail-fast --offline",
            source_commits=["bbcb615", "d53265e", "7d9763f", "d283a3d", "b84591b", "058a579", "e275c4d", "c794590", "6090cc9"],
            add_only=True,
        ),
        engines=[dict(name="lean4-model-proof", path="/verif/lean",
                      serves_properties=sorted(CLAIMED),
                      kind_free_text="Lean 4 model + theorems; Rust harness (real code in-process) and Lean driver behind one line protocol; python orchestrator ./check")],
        checks=checks,
        notes="See DESIGN.md. Every check rebuilds the harness against /repo's working tree, regenerates extracted tables, rebuilds the Lean theorems, audits axioms, runs the correspondence streams and the property oracle.",
        not_applicable=na,
    )
    with open(os.path.join(core.VERIF, "MANIFEST.json"), "w") as f:
        json.dump(m, f, indent=1, ensure_ascii=False)

if __name__ == "__main__":
    main()
