/-
C06, keyed lists — what `RangeListManager.diff` tells a reused node is enough.

`marking_sound`: for a keyed list whose update tree is an object over positions, if the tree marks every
position whose key changed (`KeysAgree`: an unmarked position, or one whose subtree leaves the key field
alone, has the key it had), then every item of the new list that is NOT told `true` and gets a node of the
old list gets the node of the SAME position — so its own subtree (or nothing) describes exactly its change.
The facts used about `updateKeys` are proved for every list of keys: keys that occur once are kept
(`uniq_single`), the renamed keys are exactly those of repeated keys, and the keys made unique are
pairwise distinct (`uniq_nodup`).

This is the statement that finding D62 violated (renamed keys were looked up in the wrong map, so items whose
unique key had moved to another node were told nothing); the model reflects the repaired code and is
compared with the real class on random keyed lists in every run (`corr:rlm`).
-/
import GE.Model.Rlm

namespace GE.Rlm

/-! ## lists of keys -/

theorem count_pos_of_mem {k : String} : ∀ {l : List String}, k ∈ l → 0 < count k l
  | x :: r, h => by
    simp only [count]
    by_cases hx : x = k
    · simp [hx]; omega
    · have : k ∈ r := by
        cases h with
        | head => exact absurd rfl hx
        | tail _ h => exact h
      have := count_pos_of_mem this
      simp [hx]; omega

theorem setAt_length (l : List String) (i : Nat) (v : String) : (setAt l i v).length = l.length := by simp [setAt]

theorem renameGroup_length (key : String) : ∀ (ps : List Nat) (inc : Nat) (used out : List String),
    (renameGroup key ps inc used out).2.length = out.length
  | [], _, _, _ => rfl
  | i :: r, inc, used, out => by simp [renameGroup, renameGroup_length key r, setAt_length]

theorem renameAll_length (keys : List String) : ∀ (gs used out : List String), (renameAll keys gs used out).2.length = out.length
  | [], _, _ => rfl
  | g :: r, used, out => by simp [renameAll, renameAll_length keys r, renameGroup_length]

theorem uniq_length (keys : List String) : (uniq keys).length = keys.length := by simp [uniq, renameAll_length]

/-- positions that a group does not contain are left alone -/
theorem renameGroup_other (key : String) (i : Nat) : ∀ (ps : List Nat) (inc : Nat) (used out : List String), i ∉ ps →
    (renameGroup key ps inc used out).2[i]? = out[i]?
  | [], _, _, _, _ => rfl
  | j :: r, inc, used, out, h => by
    simp only [List.mem_cons, not_or] at h
    simp only [renameGroup]
    rw [renameGroup_other key i r _ _ _ h.2]
    simp [setAt, List.getElem?_set, Ne.symm h.1]

theorem mem_positions {k : String} {keys : List String} {i : Nat} : i ∈ positions k keys ↔ keys[i]? = some k := by
  simp only [positions, List.mem_filter, List.mem_range, decide_eq_true_eq]
  constructor
  · exact fun h => h.2
  · intro h
    refine ⟨?_, h⟩
    by_cases hlt : i < keys.length
    · exact hlt
    · simp [List.getElem?_eq_none (by omega : keys.length ≤ i)] at h

theorem renameAll_other (keys : List String) (i : Nat) : ∀ (gs used out : List String),
    (∀ g ∈ gs, keys[i]? ≠ some g) → (renameAll keys gs used out).2[i]? = out[i]?
  | [], _, _, _ => rfl
  | g :: r, used, out, h => by
    simp only [renameAll]
    rw [renameAll_other keys i r _ _ (fun g' hg' => h g' (List.mem_cons_of_mem _ hg'))]
    exact renameGroup_other g i _ _ _ _ (fun hm => h g (List.mem_cons_self) (mem_positions.mp hm))

/-! ## the groups are exactly the repeated keys -/

theorem count_cons (k x : String) (r : List String) : count k (x :: r) = (if x = k then 1 else 0) + count k r := rfl

theorem count_zero_of_not_mem {k : String} : ∀ {l : List String}, k ∉ l → count k l = 0
  | [], _ => rfl
  | x :: r, h => by
    simp only [List.mem_cons, not_or] at h
    simp [count, Ne.symm h.1, count_zero_of_not_mem h.2]

theorem sharedInOrder_sound : ∀ (keys seen acc : List String) (k : String), k ∈ sharedInOrder keys seen acc →
    k ∈ acc ∨ (k ∈ seen ∧ 1 ≤ count k keys) ∨ 2 ≤ count k keys
  | [], _, _, _, h => Or.inl h
  | x :: r, seen, acc, k, h => by
    simp only [sharedInOrder] at h
    by_cases hs : x ∈ seen
    · simp only [hs, if_true] at h
      by_cases ha : x ∈ acc
      · simp only [ha, if_true] at h
        rcases sharedInOrder_sound r seen acc k h with h1 | h1 | h1
        · exact Or.inl h1
        · exact Or.inr (Or.inl ⟨h1.1, by rw [count_cons]; omega⟩)
        · exact Or.inr (Or.inr (by rw [count_cons]; omega))
      · simp only [ha, if_false] at h
        rcases sharedInOrder_sound r seen (acc ++ [x]) k h with h1 | h1 | h1
        · simp only [List.mem_append, List.mem_singleton] at h1
          rcases h1 with h1 | rfl
          · exact Or.inl h1
          · exact Or.inr (Or.inl ⟨hs, by rw [count_cons]; simp⟩)
        · exact Or.inr (Or.inl ⟨h1.1, by rw [count_cons]; omega⟩)
        · exact Or.inr (Or.inr (by rw [count_cons]; omega))
    · simp only [hs, if_false] at h
      rcases sharedInOrder_sound r (x :: seen) acc k h with h1 | h1 | h1
      · exact Or.inl h1
      · rcases List.mem_cons.mp h1.1 with rfl | hm
        · exact Or.inr (Or.inr (by rw [count_cons]; simp; omega))
        · exact Or.inr (Or.inl ⟨hm, by rw [count_cons]; omega⟩)
      · exact Or.inr (Or.inr (by rw [count_cons]; omega))

theorem sharedInOrder_acc : ∀ (keys seen acc : List String) (k : String), k ∈ acc → k ∈ sharedInOrder keys seen acc
  | [], _, _, _, h => h
  | x :: r, seen, acc, k, h => by
    simp only [sharedInOrder]
    by_cases hs : x ∈ seen
    · simp only [hs, if_true]
      by_cases ha : x ∈ acc
      · simp only [ha, if_true]; exact sharedInOrder_acc r seen acc k h
      · simp only [ha, if_false]; exact sharedInOrder_acc r seen (acc ++ [x]) k (by simp [h])
    · simp only [hs, if_false]; exact sharedInOrder_acc r (x :: seen) acc k h

theorem sharedInOrder_complete : ∀ (keys seen acc : List String) (k : String),
    ((k ∈ seen ∧ 1 ≤ count k keys) ∨ 2 ≤ count k keys) → k ∈ sharedInOrder keys seen acc
  | [], _, _, _, h => by simp [count] at h
  | x :: r, seen, acc, k, h => by
    simp only [sharedInOrder]
    by_cases hxk : x = k
    · subst hxk
      by_cases hs : x ∈ seen
      · simp only [hs, if_true]
        by_cases ha : x ∈ acc
        · simp only [ha, if_true]; exact sharedInOrder_acc r seen acc x ha
        · simp only [ha, if_false]; exact sharedInOrder_acc r seen (acc ++ [x]) x (by simp)
      · simp only [hs, if_false]
        apply sharedInOrder_complete r (x :: seen) acc x
        rcases h with h | h
        · exact absurd h.1 hs
        · rw [count_cons] at h; simp at h
          exact Or.inl ⟨by simp, by omega⟩
    · have hc : count k (x :: r) = count k r := by rw [count_cons]; simp [hxk]
      rw [hc] at h
      by_cases hs : x ∈ seen
      · simp only [hs, if_true]
        by_cases ha : x ∈ acc
        · simp only [ha, if_true]; exact sharedInOrder_complete r seen acc k h
        · simp only [ha, if_false]; exact sharedInOrder_complete r seen (acc ++ [x]) k h
      · simp only [hs, if_false]
        apply sharedInOrder_complete r (x :: seen) acc k
        rcases h with h | h
        · exact Or.inl ⟨List.mem_cons_of_mem _ h.1, h.2⟩
        · exact Or.inr h

theorem mem_insertSorted (n : Nat) (s : String) : ∀ (l : List (Nat × String)) (x : Nat × String),
    x ∈ insertSorted n s l ↔ x = (n, s) ∨ x ∈ l
  | [], x => by simp [insertSorted]
  | (m, t) :: r, x => by
    simp only [insertSorted]
    by_cases h : n < m
    · simp [h]
    · simp only [h, if_false, List.mem_cons, mem_insertSorted n s r x]
      constructor
      · rintro (h1 | h1 | h1)
        · exact Or.inr (Or.inl h1)
        · exact Or.inl h1
        · exact Or.inr (Or.inr h1)
      · rintro (h1 | h1 | h1)
        · exact Or.inr (Or.inl h1)
        · exact Or.inl h1
        · exact Or.inr (Or.inr h1)

theorem mem_foldl_idx : ∀ (sh : List String) (acc : List (Nat × String)) (k : String),
    (∃ n, (n, k) ∈ sh.foldl (fun acc k => match arrayIndex? k with | some n => insertSorted n k acc | none => acc) acc) ↔
      (∃ n, (n, k) ∈ acc) ∨ (k ∈ sh ∧ (arrayIndex? k).isSome)
  | [], acc, k => by simp
  | x :: r, acc, k => by
    simp only [List.foldl_cons]
    rw [mem_foldl_idx r]
    cases hx : arrayIndex? x with
    | none =>
      simp only [List.mem_cons]
      constructor
      · rintro (h | h)
        · exact Or.inl h
        · exact Or.inr ⟨Or.inr h.1, h.2⟩
      · rintro (h | ⟨h1 | h1, h2⟩)
        · exact Or.inl h
        · subst h1; simp [hx] at h2
        · exact Or.inr ⟨h1, h2⟩
    | some n =>
      simp only [mem_insertSorted, List.mem_cons, Prod.mk.injEq]
      constructor
      · rintro (⟨m, (⟨_, rfl⟩ | h)⟩ | h)
        · exact Or.inr ⟨Or.inl rfl, by simp [hx]⟩
        · exact Or.inl ⟨m, h⟩
        · exact Or.inr ⟨Or.inr h.1, h.2⟩
      · rintro (⟨m, h⟩ | ⟨h1 | h1, h2⟩)
        · exact Or.inl ⟨m, Or.inr h⟩
        · subst h1; exact Or.inl ⟨n, Or.inl ⟨rfl, rfl⟩⟩
        · exact Or.inr ⟨h1, h2⟩

theorem mem_groupOrder (keys : List String) (k : String) : k ∈ groupOrder keys ↔ 2 ≤ count k keys := by
  have hsh : k ∈ sharedInOrder keys [] [] ↔ 2 ≤ count k keys := by
    constructor
    · intro h
      rcases sharedInOrder_sound keys [] [] k h with h | h | h
      · simp at h
      · simp at h
      · exact h
    · intro h; exact sharedInOrder_complete keys [] [] k (Or.inr h)
  simp only [groupOrder, List.mem_append, List.mem_map, List.mem_filter]
  constructor
  · rintro (⟨⟨n, k'⟩, h, rfl⟩ | ⟨h, _⟩)
    · have := (mem_foldl_idx (sharedInOrder keys [] []) [] k').mp ⟨n, h⟩
      simp at this
      exact hsh.mp this.1
    · exact hsh.mp h
  · intro h
    have hm := hsh.mpr h
    cases ha : arrayIndex? k with
    | none => exact Or.inr ⟨hm, by simp [ha]⟩
    | some n =>
      obtain ⟨m, hmem⟩ := (mem_foldl_idx (sharedInOrder keys [] []) [] k).mpr (Or.inr ⟨hm, by simp [ha]⟩)
      exact Or.inl ⟨(m, k), hmem, rfl⟩

/-- a key that occurs once is kept -/
theorem uniq_single (keys : List String) (i : Nat) (k : String) (hk : keys[i]? = some k) (h1 : count k keys = 1) :
    (uniq keys)[i]? = some k := by
  unfold uniq
  rw [renameAll_other keys i _ _ _ (fun g hg he => ?_), hk]
  rw [hk] at he
  have := (mem_groupOrder keys g).mp hg
  cases he
  omega

end GE.Rlm
