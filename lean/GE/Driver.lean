import GE.Codec
import GE.Model.Path
import GE.Model.VarName
import GE.Model.JsLit
/-!
Model driver: one request per line (`op TAB field…`), one answer line per request.
Unknown ops answer `bad-op` (never defaulted).
-/
namespace GE.Driver
open GE.Codec

def chars (s : String) : List Char := s.toList
def str (l : List Char) : String := String.ofList l

def step (fs : List String) : String :=
  match fs with
  | ["path_normalize", p] => esc (str (GE.Path.normalize (chars p)))
  | ["path_resolve", b, r] => esc (str (GE.Path.resolve (chars b) (chars r)))
  | ["var_name", n] =>
    match n.toNat? with
    | some k => esc (str (GE.VarName.varName k))
    | none => "bad-op"
  | ["next_var_name", n] =>
    match n.toNat? with
    | some k =>
      match GE.VarName.nextVarName GE.VarName.nextFuel k with
      | some (nm, id) => esc (str nm) ++ "\t" ++ toString id
      | none => "loop-does-not-end"
    | none => "bad-op"
  | ["lit_str", s] => esc (str (GE.JsLit.genLitStr (chars s)))
  | ["lit_str_range", lo, hi, pre, suf] =>
    match lo.toNat?, hi.toNat? with
    | some a, some b =>
      let outs := (List.range (b - a)).filterMap fun i =>
        let v := a + i
        if (0xD800 ≤ v ∧ v < 0xE000) ∨ v ≥ 0x110000 then none
        else some (str (GE.JsLit.genLitStr (chars pre ++ [Char.ofNat v] ++ chars suf)))
      esc (String.intercalate (String.singleton (Char.ofNat 31)) outs)
    | _, _ => "bad-op"
  | _ => "bad-op"

partial def loop (h : IO.FS.Stream) (out : IO.FS.Stream) : IO Unit := do
  let line ← h.getLine
  if line.isEmpty then return ()
  let line := if line.endsWith "\n" then (line.dropEnd 1).toString else line
  out.putStrLn (step (fields line))
  loop h out

end GE.Driver
