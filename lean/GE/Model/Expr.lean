import GE.Codec
/-!
The expression AST of the template compiler (`parse/expr.rs: enum Expression`), without source
locations.  Child lists are explicit mutual inductives so that every function over the AST is a
plain structural recursion.
-/
namespace GE

inductive UnOp | Reverse | BitReverse | Positive | Negative | TypeOf | Void
deriving DecidableEq, Repr, Inhabited

inductive BinOp
  | Multiply | Divide | Remainer | Plus | Minus | LeftShift | RightShift | UnsignedRightShift
  | Lt | Gt | Lte | Gte | InstanceOf | Eq | Ne | EqFull | NeFull
  | BitAnd | BitXor | BitOr | LogicAnd | LogicOr | NullishCoalescing
deriving DecidableEq, Repr, Inhabited

def UnOp.name : UnOp → String
  | .Reverse => "Reverse" | .BitReverse => "BitReverse" | .Positive => "Positive"
  | .Negative => "Negative" | .TypeOf => "TypeOf" | .Void => "Void"

def BinOp.name : BinOp → String
  | .Multiply => "Multiply" | .Divide => "Divide" | .Remainer => "Remainer" | .Plus => "Plus"
  | .Minus => "Minus" | .LeftShift => "LeftShift" | .RightShift => "RightShift"
  | .UnsignedRightShift => "UnsignedRightShift" | .Lt => "Lt" | .Gt => "Gt" | .Lte => "Lte"
  | .Gte => "Gte" | .InstanceOf => "InstanceOf" | .Eq => "Eq" | .Ne => "Ne" | .EqFull => "EqFull"
  | .NeFull => "NeFull" | .BitAnd => "BitAnd" | .BitXor => "BitXor" | .BitOr => "BitOr"
  | .LogicAnd => "LogicAnd" | .LogicOr => "LogicOr" | .NullishCoalescing => "NullishCoalescing"

def allUnOps : List UnOp := [.Reverse, .BitReverse, .Positive, .Negative, .TypeOf, .Void]
def allBinOps : List BinOp :=
  [.Multiply, .Divide, .Remainer, .Plus, .Minus, .LeftShift, .RightShift, .UnsignedRightShift,
   .Lt, .Gt, .Lte, .Gte, .InstanceOf, .Eq, .Ne, .EqFull, .NeFull, .BitAnd, .BitXor, .BitOr,
   .LogicAnd, .LogicOr, .NullishCoalescing]

theorem mem_allUnOps (o : UnOp) : o ∈ allUnOps := by cases o <;> decide
theorem mem_allBinOps (o : BinOp) : o ∈ allBinOps := by cases o <;> decide

mutual
inductive Expr where
  | scope (i : Nat)
  | data (n : String)
  | toStr (e : Expr)
  | undef
  | null
  | str (s : String)
  | int (v : Int)
  | float (text : String)      -- Rust `Display` of the f64 (opaque payload)
  | bool (b : Bool)
  | obj (fs : ObjFields)
  | arr (fs : ArrFields)
  | smember (o : Expr) (n : String)
  | dmember (o f : Expr)
  | call (f : Expr) (args : Exprs)
  | un (op : UnOp) (e : Expr)
  | bin (op : BinOp) (l r : Expr)
  | cond (c t f : Expr)
inductive Exprs where
  | nil
  | cons (e : Expr) (r : Exprs)
inductive ObjFields where
  | nil
  | named (n : String) (short : Bool) (v : Expr) (r : ObjFields)
  | spread (v : Expr) (r : ObjFields)
inductive ArrFields where
  | nil
  | item (v : Expr) (r : ArrFields)
  | spread (v : Expr) (r : ArrFields)
  | hole (r : ArrFields)
end

instance : Inhabited Expr := ⟨.undef⟩

/-- the Rust variant name (key of the extracted level tables) -/
def Expr.kind : Expr → String
  | .scope _ => "ScopeRef" | .data _ => "DataField" | .toStr _ => "ToStringWithoutUndefined"
  | .undef => "LitUndefined" | .null => "LitNull" | .str _ => "LitStr" | .int _ => "LitInt"
  | .float _ => "LitFloat" | .bool _ => "LitBool" | .obj _ => "LitObj" | .arr _ => "LitArr"
  | .smember .. => "StaticMember" | .dmember .. => "DynamicMember" | .call .. => "FuncCall"
  | .un op _ => op.name | .bin op .. => op.name | .cond .. => "Cond"

/-! ### reading the harness's S-expression dump -/
open Codec

def unOpOfName (s : String) : Option UnOp := allUnOps.find? (·.name == s)
def binOpOfName (s : String) : Option BinOp := allBinOps.find? (·.name == s)

mutual
partial def exprOfSExp : SExp → Option Expr
  | .list [.atom "scope", .atom i] => i.toNat?.map .scope
  | .list [.atom "data", .str n] => some (.data n)
  | .list [.atom "tostr", e] => (exprOfSExp e).map .toStr
  | .list [.atom "undef"] => some .undef
  | .list [.atom "null"] => some .null
  | .list [.atom "str", .str s] => some (.str s)
  | .list [.atom "int", .atom v] => v.toInt?.map .int
  | .list [.atom "float", .str t] => some (.float t)
  | .list [.atom "bool", .atom "true"] => some (.bool true)
  | .list [.atom "bool", .atom "false"] => some (.bool false)
  | .list (.atom "obj" :: fs) => (objOfSExps fs).map .obj
  | .list (.atom "arr" :: fs) => (arrOfSExps fs).map .arr
  | .list [.atom "smember", o, .str n] => (exprOfSExp o).map (.smember · n)
  | .list [.atom "dmember", o, f] => do some (.dmember (← exprOfSExp o) (← exprOfSExp f))
  | .list (.atom "call" :: f :: args) => do some (.call (← exprOfSExp f) (← exprsOfSExps args))
  | .list [.atom "un", .atom op, e] => do some (.un (← unOpOfName op) (← exprOfSExp e))
  | .list [.atom "bin", .atom op, l, r] => do some (.bin (← binOpOfName op) (← exprOfSExp l) (← exprOfSExp r))
  | .list [.atom "cond", c, t, f] => do some (.cond (← exprOfSExp c) (← exprOfSExp t) (← exprOfSExp f))
  | _ => none
partial def exprsOfSExps : List SExp → Option Exprs
  | [] => some .nil
  | e :: r => do some (.cons (← exprOfSExp e) (← exprsOfSExps r))
partial def objOfSExps : List SExp → Option ObjFields
  | [] => some .nil
  | .list [.atom "named", .str n, .atom k, v] :: r => do
    some (.named n (k == "short") (← exprOfSExp v) (← objOfSExps r))
  | .list [.atom "spread", v] :: r => do some (.spread (← exprOfSExp v) (← objOfSExps r))
  | _ => none
partial def arrOfSExps : List SExp → Option ArrFields
  | [] => some .nil
  | .list [.atom "item", v] :: r => do some (.item (← exprOfSExp v) (← arrOfSExps r))
  | .list [.atom "spread", v] :: r => do some (.spread (← exprOfSExp v) (← arrOfSExps r))
  | .list [.atom "hole"] :: r => (arrOfSExps r).map .hole
  | _ => none
end

end GE
