"""Tie of the tag-level model (lean/GE/Model/TagSem.lean + TagSemJson.lean, theorems in GE/Thm/C06Tag.lean) to the implementation.

Templates of the fragment the model covers (text, elements with plain attributes, <block>, wx:if / elif / else chains, wx:for without key over arrays /
objects / strings / numbers, nested freely) are printed as WXML for the real compiler + runtime and as an S-expression for the model; both sides run the
same history create(D0); update(D1,U1); … and print every node tree in one canonical text: structure, attribute values, branch keys, list indexes, and for
every node the step that created it (the real side derives it from node serial numbers), so that what is compared includes which nodes were reused."""
import json, copy
from . import core, render, update as up

TAGS = ["view", "text", "v"]
ATTRS = ["title", "foo-bar", "x1"]


# ---------------------------------------------------------------------------------------------
# expressions of the supported fragment (source text); `names`: scope variables in reach
def gen_expr(r, names, depth=2):
    atoms = ["a", "b", "c", "d", "n", "k", "u", "s", "o.p", "o.q.k", "l[0].p", "l[n].k", "o[k]", "l.length", "m.w"] + names + [x + ".p" for x in names] + \
            [x + ".k" for x in names]
    if depth == 0 or r.chance(2, 5):
        return r.choice(atoms)
    c = r.below(11)
    x = gen_expr(r, names, depth - 1)
    y = gen_expr(r, names, depth - 1)
    if c == 0:
        return "!" + paren(x)
    if c == 1:
        return paren(x) + " && " + paren(y)
    if c == 2:
        return paren(x) + " || " + paren(y)
    if c == 3:
        return paren(x) + " ?? " + paren(y)
    if c == 4:
        return paren(x) + " ? " + paren(y) + " : " + paren(gen_expr(r, names, depth - 1))
    if c == 5:
        return paren(x) + " === " + r.choice(["1", "0", "'x'", "''", "true", "null", "'y'", "2"])
    if c == 6:
        return paren(x) + " !== " + r.choice(["1", "'x'", "false", "null"])
    if c == 7:
        return paren(x) + " + " + r.choice(["1", "'-'", "2"])
    if c == 8:
        return r.choice(["'p'", "1", "0"]) + " + " + paren(x)
    if c == 9:
        return paren(x) + " + " + paren(y)
    return r.choice(atoms)


def paren(e):
    return e if all(ch.isalnum() or ch in "._[]'" for ch in e) and not e[0].isdigit() or e.isdigit() else "(" + e + ")"


def gen_value(r, names, text=False):
    """("e", src) | ("mix", [("s", str) | ("e", src)])"""
    c = r.below(6)
    if c == 0:
        return ("mix", [("s", r.choice(["t", "ab", "x-y", "0"]))])
    if c in (1, 2, 3):
        return ("e", gen_expr(r, names))
    parts, last = [], None
    for _ in range(2 + r.below(2)):
        kind = "s" if (last == "e" or r.chance(1, 2)) and last != "s" else "e"
        parts.append(("s", r.choice(["a", "-", "b:", "_"])) if kind == "s" else ("e", gen_expr(r, names, 1)))
        last = kind
    if all(p[0] == "s" for p in parts):
        parts.append(("e", gen_expr(r, names, 1)))
    return ("mix", parts)


def gen_nodes(r, names, depth, n=None, subs=None):
    out = []
    for _ in range(r.below(4) if n is None else n):
        nd = gen_node(r, names, depth, subs)
        if nd[0] == "text" and out and out[-1][0] == "text":
            continue
        out.append(nd)
    return out


def gen_carrier(r, names, depth, subs=None):
    """the element that carries a wx:if / wx:for: ("block", children) or an element"""
    if r.chance(1, 3):
        return ("block", gen_nodes(r, names, depth - 1, subs=subs))
    return gen_elem(r, names, depth, subs)


def gen_elem(r, names, depth, subs=None):
    attrs, used = [], set()
    for _ in range(r.below(3)):
        nm = r.choice(ATTRS)
        if nm not in used:
            used.add(nm)
            attrs.append((nm, gen_value(r, names)))
    if r.chance(1, 4):
        # model:value with an assignable expression (member / index chains, conditionals between them) or one that is not
        chains = ["a", "o.p", "o.q.k", "l[0].p", "l[n].k", "o[k]", "c ? a : o.p", "c ? l[0].p : b", "d || a", "m.w", "l[n]"] + names + [x + ".p" for x in names] + \
                 [x + ".k" for x in names] + ["c ? %s.p : a" % x for x in names] + [x + ".r[0]" for x in names]
        attrs.append(("value", ("e", r.choice(chains))))
    return ("elem", r.choice(TAGS), attrs, gen_nodes(r, names, depth - 1, subs=subs) if depth > 0 else [])


def gen_node(r, names, depth, subs=None):
    c = r.below(10) if depth > 0 else r.below(3)
    if c < 3:
        return ("text", gen_value(r, names, True))
    if c < 5:
        return gen_elem(r, names, depth, subs)
    if c == 5 and r.chance(1, 3):
        # <include>: the included file's content, which sees the data but no scope variable of the includer
        return ("include", gen_nodes(r, [], depth - 1) or [("text", ("mix", [("s", "inc")]))])
    if c == 5:
        return ("block", gen_nodes(r, names, depth - 1, subs=subs))
    if c in (6, 7):
        brs = [(("e", gen_expr(r, names)), gen_carrier(r, names, depth, subs)) for _ in range(1 + r.below(3))]
        els = gen_carrier(r, names, depth, subs) if r.chance(1, 2) else None
        return ("cond", brs, els)
    if c == 9 and subs is not None and r.chance(1, 2):
        # <template is data>: a static or computed name, named / shorthand data fields; the templates see only their data object
        if not subs:
            for nm in ("t0", "t1", "t2")[:1 + r.below(3)]:
                subs[nm] = gen_nodes(r, [], 2, 1 + r.below(2), subs=None) or [("text", ("mix", [("s", nm)]))]
        isv = r.choice([("mix", [("s", nm)]) for nm in subs] + [("e", "c ? 't0' : 't1'"), ("e", "k"), ("e", "d || 't0'"), ("e", "n")])
        fields = []
        for fn in r.choice([["a"], ["a", "b"], ["o", "l"], ["c", "k", "n"], ["s", "m"]]):
            fields.append((fn, ("e", fn)) if r.chance(1, 2) else (fn, ("e", gen_expr(r, names, 1))))
        return ("tref", isv, fields)
    item = r.choice([None, None, "it", "item", "a"])
    index = r.choice([None, None, "ix", "index", "b"])
    if item is not None and item == index:
        index = None
    lst = r.choice(["l", "o", "s", "n", "m", "o.q", "c ? l : o", "l[0].r", "d || l", "u", "q"] + [x + ".r" for x in names])
    key = r.choice([None, None, "k", "p", "*this"])
    return ("for", ("e", lst), item, index, gen_carrier(r, names + [item or "item", index or "index"], depth, subs), key)


# ---------------------------------------------------------------------------------------------
def wx_value(v):
    if v[0] == "e":
        return "{{ " + v[1] + " }}"
    return "".join(p[1] if p[0] == "s" else "{{" + p[1] + "}}" for p in v[1])


def wx_attrs(attrs):
    return "".join(' %s="%s"' % ("model:value" if n == "value" else n, wx_value(v).replace('"', "&quot;")) for n, v in attrs)


def wx_carrier(c, extra, files=None):
    if c[0] == "block":
        return "<block%s>%s</block>" % (extra, wx_nodes(c[1], files))
    return "<%s%s%s>%s</%s>" % (c[1], extra, wx_attrs(c[2]), wx_nodes(c[3], files), c[1])


def wx_nodes(ns, files=None):
    """WXML of the nodes; included files are added to `files` (name -> source)"""
    return "".join(wx_node(n, files) for n in ns)


def wx_node(n, files=None):
    k = n[0]
    if k == "text":
        return wx_value(n[1])
    if k == "elem":
        return wx_carrier(n, "", files)
    if k == "block":
        return "<block>%s</block>" % wx_nodes(n[1], files)
    if k == "include":
        name = "inc%d" % len(files)
        files[name] = None
        files[name] = wx_nodes(n[1], files)
        return '<include src="/%s"/>' % name
    if k == "cond":
        out = []
        for i, (c, car) in enumerate(n[1]):
            out.append(wx_carrier(car, ' wx:%s="%s"' % ("if" if i == 0 else "elif", wx_value(c)), files))
        if n[2] is not None:
            out.append(wx_carrier(n[2], " wx:else", files))
        return "".join(out)
    if k == "tref":
        data = ", ".join(fn if v == ("e", fn) else "%s: %s" % (fn, v[1]) for fn, v in n[2])
        return '<template is="%s" data="{{ %s }}"/>' % (wx_value(n[1]).replace('"', "&quot;"), data)
    if k == "for":
        extra = ' wx:for="%s"' % wx_value(n[1])
        if n[2] is not None:
            extra += ' wx:for-item="%s"' % n[2]
        if n[3] is not None:
            extra += ' wx:for-index="%s"' % n[3]
        if len(n) > 5 and n[5] is not None:
            extra += ' wx:key="%s"' % n[5]
        return wx_carrier(n[4], extra, files)
    raise ValueError(k)


def q(s):
    return '"' + core.esc(s).replace('"', '\\"') + '"'


def sx_value(v):
    if v[0] == "e":
        return "(e %s)" % q(v[1])
    return "(mix %s)" % " ".join("(%s %s)" % (p[0], q(p[1])) for p in v[1])


def sx_carrier_nodes(c):
    """the template nodes a carrier contributes: a block's children, or the element itself"""
    return " ".join(sx_node(x) for x in c[1]) if c[0] == "block" else sx_node(c)


def sx_node(n):
    k = n[0]
    if k == "text":
        return "(text %s)" % sx_value(n[1])
    if k == "elem":
        return "(elem %s (attrs %s) %s)" % (q(n[1]), " ".join("(%s %s)" % (q(a), sx_value(v)) for a, v in n[2]), " ".join(sx_node(x) for x in n[3]))
    if k == "block":
        return "(block %s)" % " ".join(sx_node(x) for x in n[1])
    if k == "include":
        return "(include %s)" % " ".join(sx_node(x) for x in n[1])
    if k == "cond":
        parts = ["(br %s %s)" % (sx_value(c), sx_carrier_nodes(car)) for c, car in n[1]]
        if n[2] is not None:
            parts.append("(else %s)" % sx_carrier_nodes(n[2]))
        return "(cond %s)" % " ".join(parts)
    if k == "tref":
        return "(tref %s (fields %s) (cases %s))" % (sx_value(n[1]), " ".join("(%s %s)" % (q(fn), sx_value(v)) for fn, v in n[2]),
                                                     " ".join("(%s %s)" % (q(nm), " ".join(sx_node(x) for x in body)) for nm, body in SUBS_FOR_SX.items()))
    if k == "for":
        if len(n) > 5 and n[5] is not None:
            return "(forkey %s %s %s %s %s)" % (sx_value(n[1]), q(n[5]), q(n[2] or "item"), q(n[3] or "index"), sx_carrier_nodes(n[4]))
        return "(for %s %s %s %s)" % (sx_value(n[1]), q(n[2] or "item"), q(n[3] or "index"), sx_carrier_nodes(n[4]))
    raise ValueError(k)


SUBS_FOR_SX = {}     # the named templates of the case being printed (set by `stream`)


def sx_data(v):
    if v is None:
        return "(null)"
    if isinstance(v, bool):
        return "(bool %s)" % ("true" if v else "false")
    if isinstance(v, int):
        return "(num %d)" % v
    if isinstance(v, str):
        return "(str %s)" % q(v)
    if isinstance(v, list):
        return "(arr %s)" % " ".join(sx_data(x) for x in v)
    if isinstance(v, dict):
        return "(obj %s)" % " ".join("(%s %s)" % (q(k), sx_data(x)) for k, x in v.items())
    raise ValueError(repr(v))


# ---------------------------------------------------------------------------------------------
# canonical print of the real dump (the same text `Node.print` produces)
def jstr(s):
    out = ['"']
    for ch in s:
        o = ord(ch)
        if ch == '"':
            out.append('\\"')
        elif ch == "\\":
            out.append("\\\\")
        elif 32 <= o <= 126:
            out.append(ch)
        else:
            out.append("\\u{%X}" % o)
    out.append('"')
    return "".join(out)


def jval(v):
    if v is None:
        return "null"
    if isinstance(v, bool):
        return "true" if v else "false"
    if isinstance(v, int):
        return str(v)
    if isinstance(v, float):
        return str(int(v)) if v == int(v) else "{\"$\":\"float\"}"
    if isinstance(v, str):
        return jstr(v)
    if isinstance(v, list):
        return "[" + ",".join(jval(x) for x in v) + "]"
    if isinstance(v, dict):
        if "$" in v:
            return "{\"$\":%s}" % jstr(v["$"])
        return "{" + ",".join(jstr(k) + ":" + jval(x) for k, x in js_key_order(v)) + "}"
    raise ValueError(repr(v))


def js_key_order(d):
    idx = sorted((int(k), k) for k in d if k.isdigit() and (k == "0" or not k.startswith("0")) and int(k) < 4294967295)
    ks = [k for _, k in idx]
    return [(k, d[k]) for k in ks] + [(k, v) for k, v in d.items() if k not in set(ks)]


def print_real(tree, born):
    def node(o):
        b = born[o["n"]]
        if "text" in o:
            return "T%d:%s" % (b, jstr(o["text"]))
        ch = "" if o.get("virtual") == "wx:for" else " ".join(node(c) for c in o.get("children", []))
        if "tag" in o:
            return "E%d:%s[%s](%s)" % (b, o["tag"], ",".join("%s=%s" % (k, jval(v)) for k, v in o.get("attrs", {}).items()), ch)
        kind = o["virtual"]
        if kind == "virtual":
            return "V%d(%s)" % (b, ch)
        if kind == "wx:if":
            return "I%d#%s(%s)" % (b, jval(o["key"]), ch)
        if kind == "wx:for":
            idx = o.get("idx")
            items = []
            for i, c in enumerate(o.get("children", [])):
                items.append("M%d@%s(%s)" % (born[c["n"]], jval(idx[i]) if idx is not None else str(i), " ".join(node(x) for x in c.get("children", []))))
            return "F%d[%s](%s)" % (b, ",".join(jstr(k) for k in o.get("keys", []) if k is not None), " ".join(items))
        raise ValueError(kind)
    return "V0(%s) |%s" % (" ".join(node(c) for c in tree), " ".join(model_paths(tree, [])))


def model_paths(tree, acc):
    """the l-value path of every model:value binding, in document order (`null`: none handed over)"""
    for o in tree:
        if "tag" in o and "value" in (o.get("attrs") or {}):
            p = (o.get("modelPaths") or {}).get("value")
            acc.append("null" if p is None else "[" + ",".join(jval(x) for x in p) + "]")
        model_paths(o.get("children", []), acc)
    return acc


def all_ids(tree, acc):
    for o in tree:
        acc.append(o["n"])
        all_ids(o.get("children", []), acc)
    return acc


# ---------------------------------------------------------------------------------------------
POOL = [
    {"a": 1, "b": "bee", "c": True, "d": None, "n": 1, "k": "p", "s": "xyz", "l": [{"k": "x", "p": 1, "r": [1, 2]}, {"k": "y", "p": 2, "r": []}],
     "o": {"p": 5, "q": {"k": "z"}, "k": "ok"}, "m": {"1": "one", "w": 0, "0": "zero"}, "q": 2},
    {"a": 0, "b": "", "c": False, "d": [1, 2], "n": 0, "k": "q", "s": "", "l": [], "o": {}, "m": {}, "q": 0},
    {"a": -3, "b": "x", "c": 1, "d": {"p": 0}, "n": 2, "k": "k", "s": "ab", "l": [{"k": "x", "p": None}, {"k": "x", "p": "s", "r": {"a": 1}}, {"p": 7}],
     "o": {"p": None, "k": 0, "zz": [1], "q": None}, "m": {"b": 1, "5": 2}, "q": "ab"},
]
LEAVES = [0, 1, 2, -1, "", "x", "y", "bee", True, False, None, [], [1], [{"k": "x", "p": 3}, {"k": "w", "p": 4, "r": [0]}], {"p": 1}, {"k": "v", "q": {"k": 1}}, {"2": "two", "a": 1}, 3]


def mutate(r, D):
    D2 = copy.deepcopy(D)
    for _ in range(1 + r.below(3)):
        c = r.below(8)
        f = r.choice(sorted(D2.keys()))
        if c < 3:
            D2[f] = copy.deepcopy(r.choice(LEAVES))
        elif c == 3 and isinstance(D2[f], dict):
            D2[f][r.choice(["0", "7", "p", "zz", "k"])] = copy.deepcopy(r.choice(LEAVES))
        elif c == 4 and isinstance(D2[f], dict) and D2[f]:
            del D2[f][r.choice(sorted(D2[f].keys()))]
        elif c == 5 and isinstance(D2[f], list):
            l = D2[f]
            op = r.below(4)
            if op == 0:
                l.append(copy.deepcopy(r.choice(LEAVES)))
            elif op == 1 and l:
                l.pop(r.below(len(l)))
            elif op == 2 and len(l) > 1:
                l.reverse()
            else:
                l.insert(0, copy.deepcopy(r.choice(LEAVES)))
        elif c == 6 and isinstance(D2[f], list) and D2[f] and isinstance(D2[f][0], dict):
            D2[f][0][r.choice(["p", "k", "r"])] = copy.deepcopy(r.choice(LEAVES))
        else:
            D2[r.choice(["a", "c", "n", "k"])] = copy.deepcopy(r.choice([0, 1, 2, "p", "q", True, False, None]))
    return D2


def path_writes(a, b):
    """[[path, value]] turning data a into b by writing fields of top-level objects only (no field removed, same key order otherwise), else None"""
    out = []
    for f in b:
        if f not in a:
            return None
        if a[f] == b[f]:
            continue
        if not (isinstance(a[f], dict) and isinstance(b[f], dict)) or any(k not in b[f] for k in a[f]):
            return None
        for k in b[f]:
            if k not in a[f] or a[f][k] != b[f][k]:
                out.append([[f, k], b[f][k]])
    return out if out and all(f in b for f in a) else None


def directed_cases():
    """lists whose positions change owner (object fields inserted before others, arrays shifted), branch switches and returns, nested lists"""
    T = lambda src: ("text", ("e", src))
    out = []
    D0 = {"m": {"1": "one", "w": "dub"}, "l": [{"p": 1, "r": [1]}, {"p": 2, "r": [2, 3]}], "c": 1, "n": 0}
    hists = [[D0, dict(D0, m={"0": "zero", "1": "one", "w": "dub"})], [D0, dict(D0, m={"1": "one", "5": "five", "w": "dub"}), dict(D0, m={"w": "dub"})],
             [D0, dict(D0, l=[{"p": 0, "r": []}] + D0["l"])], [D0, dict(D0, l=D0["l"][1:]), dict(D0, l=D0["l"])], [D0, dict(D0, c=0), dict(D0, c=2), D0],
             [D0, dict(D0, l={"a": {"p": 1, "r": [1]}}), dict(D0, l="ab"), dict(D0, l=2)]]
    bodies = [[T("item")], [T("index")], [("elem", "view", [("title", ("e", "item.p"))], [T("item.p")])],
              [("for", ("e", "item.r"), "it", "ix", ("block", [T("it + index")]))], [("cond", [(("e", "item.p === 1"), ("block", [T("item.p")]))], ("block", [T("index")]))]]
    for lst, key in (("m", None), ("l", None), ("l", "p"), ("m", "*this"), ("l", "k")):
        for body in bodies:
            nodes = [("for", ("e", lst), None, None, ("block", body), key), ("cond", [(("e", "c === 1"), ("block", [T("c")])), (("e", "c"), ("elem", "v", [], [T("n")]))], None)]
            for h in hists:
                steps = [{"create": h[0]}]
                for a, b in zip(h, h[1:]):
                    writes = path_writes(a, b)
                    if writes is not None:
                        # setData-style path writes: the framework's own tree builder marks only the written fields
                        steps.append({"changes": writes, "D": b})
                    else:
                        steps.append({"update": b, "U": up.tree_to_req(up.diff_tree(a, b))})
                out.append((nodes, h, steps))
    return out


def stream(chk, rng, count, bindmap=False, paths=False):
    """model vs implementation on `count` generated (template, history) pairs; returns the number of differences"""
    cases = []
    for i in range(count):
        r = rng.fork(("tagsem", i))
        subs = {}
        nodes = gen_nodes(r, [], 3, 1 + r.below(3), subs=subs) or [("text", ("mix", [("s", "t")]))]
        if bindmap and i % 2 == 0:
            subs = {}
            # mostly static templates (the binding map only reaches bindings outside wx:if / wx:for), sometimes with one dynamic subtree
            nodes = [gen_elem(r, [], 2 if r.chance(1, 3) else 1) if r.chance(2, 3) else ("block", [("text", gen_value(r, [])), gen_elem(r, [], 0)])
                     for _ in range(1 + r.below(3))]
            if r.chance(1, 3):
                nodes.append(gen_node(r, [], 2))
        D0 = POOL[i % len(POOL)]
        hist = [D0]
        for _ in range(1 + r.below(3)):
            hist.append(mutate(r, hist[-1]))
        steps = [{"create": D0}]
        for a, b in zip(hist, hist[1:]):
            u = up.diff_tree(a, b)
            mode = r.below(3)
            if mode == 1:
                u = up.coarsen(r, u)
            elif mode == 2 and u is not None:
                u = True
            steps.append({"update": b, "U": up.tree_to_req(u)})
        cases.append((nodes, hist, steps, subs))
        if bindmap and i % 2 == 0:
            # the same template, every data field changed on its own and handed to the binding map (refused for fields it does not advertise)
            for f in sorted(D0):
                D1 = dict(D0)
                D1[f] = copy.deepcopy(r.choice([x for x in LEAVES if x != D0[f]]))
                cases.append((nodes, [D0, D1], [{"create": D0}, {"bindmap": f, "D": D1}], subs))
    cases += [c_ + ({},) for c_ in directed_cases()]
    srcs, groups_in = [], []
    for n, _, _, subs in cases:
        files = {}
        main = "".join('<template name="%s">%s</template>' % (nm, wx_nodes(body, files)) for nm, body in subs.items()) + wx_nodes(n, files)
        srcs.append(main)
        groups_in.append([["p", main]] + [[k, v] for k, v in files.items()])
    groups = render.compile_templates(groups_in)
    reqs, keep = [], []
    for i, g in enumerate(groups):
        if "panic" in g or not isinstance(g.get("gen_groups"), str):
            chk.violation("input", "compiler failed on a template of the tag-level fragment", template=srcs[i], answer=json.dumps(g)[:300])
            continue
        reqs.append({"op": "render", "gen_groups": g["gen_groups"], "path": "p", "steps": cases[i][2], "flatten": False, "ids": True, "slotValues": False})
        keep.append(i)
    outs = core.run_node(reqs) if reqs else []
    dreqs, real = [], []
    for i, o in zip(keep, outs):
        nodes, hist, steps, subs = cases[i]
        SUBS_FOR_SX.clear()
        SUBS_FOR_SX.update(subs)
        if "error" in o or len(o.get("snapshots", [])) != len(steps):
            # (the history oracle of C06 reports updates that throw; here the case is only not comparable)
            chk.bump("corr:tagsem:real-failed")
            continue
        born = {}
        B = sorted(o["snapshots"][0].get("B") or [])
        refused = [st["bindmap"] for st, snap in zip(steps, o["snapshots"]) if "bindmap" in st and snap.get("ret") is not True]
        if refused:
            # the map has no updaters for this field (bindingMapUpdate answers false and does nothing): it must then not be advertised; the
            # model has no such step
            if any(f in B for f in refused):
                chk.violation("input", f"bindingMapUpdate refused the advertised field {refused[0]!r}", template=srcs[i], advertised=B)
            chk.bump("corr:tagsem:bindmap-refused-unadvertised")
            continue
        texts = [",".join(B)]
        for k, snap in enumerate(o["snapshots"]):
            for n in all_ids(snap["tree"], []):
                born.setdefault(n, k)
            texts.append(print_real(snap["tree"], born))
        # a step is `u<data>` (update with an object tree), `t<data>` (the whole data tree is `true`: the generated code then hands every list
        # the tree `undefined`) or `b<field>|<data>` (the binding-map updaters of one field)
        enc = []
        for st, D in zip(steps[1:], hist[1:]):
            if "bindmap" in st:
                enc.append("b" + st["bindmap"] + "|" + sx_data(D))
                chk.bump("corr:tagsem:bindmap-steps")
            else:
                enc.append(("t" if st.get("U") is True else "u") + sx_data(D))
        dreqs.append(core.req("tagsem", "(tmpl %s)" % " ".join(sx_node(n) for n in nodes), ",".join(sorted(set(hist[0]) | {"u"})), sx_data(hist[0]), *enc))
        real.append("\t".join(core.esc(t) for t in texts))
    if not dreqs:
        return 0
    model = core.run_driver(dreqs) if core.MODEL_OK else real
    if not paths:
        # (the l-value paths of model: bindings, printed after " |", are the business of C11 only)
        cut = lambda line: "\t".join(core.esc(core.unesc(f).split(" |")[0]) for f in line.split("\t"))
        real, model = [cut(a) for a in real], [cut(b) for b in model]
    # templates whose expressions leave the modelled fragment at run time are not comparable
    pairs = [(rq, a, b) for rq, a, b in zip(dreqs, real, model) if "unsupported" not in b]
    chk.bump("corr:tagsem:unsupported", len(dreqs) - len(pairs))
    chk.bump("corr:tagsem:reused-node-cases", sum(1 for _, a, _ in pairs if any(("T0:" in part or "E0:" in part) for part in a.split("\t")[2:])))
    if paths:
        chk.bump("corr:tagsem:cases-with-model-paths", sum(1 for _, a, _ in pairs if any(core.unesc(f).split(" |")[-1].strip() for f in a.split("\t")[1:])))
    chk.bump("corr:tagsem:advertising-cases", sum(1 for _, a, _ in pairs if a.split("\t")[0] != ""))
    return core.diff_streams(chk, "tagsem", [p[0] for p in pairs], [p[1] for p in pairs], [p[2] for p in pairs])
