"""C12 — static strings reach the runtime character for character (DESIGN.md §9 C12)."""
import json, subprocess
from . import core

THEOREMS = [
    "GE.JsLit.decode_genLitStr",
    "GE.JsLit.decBody_escChar",
    "GE.JsLit.decBody_escBody",
    "GE.JsLit.decEsc_u_hex4",
]
CHUNK = 4096
CONTEXTS_QUICK = [("", ""), ("a", ""), ("", "1"), ("", "a"), ("", '"'), ("", "\\")]
CONTEXTS_MORE = [("", "{"), ("", "}"), ("", "0"), ("", "F"), ("\\", ""), ("\u0000", "7"), ("퟿", "\U0010ffff"), ("", "\n")]


def node_lits(batches):
    """batches: list of list-of-literal-source. returns list of {"sloppy":..,"strict":..}"""
    data = "\n".join(json.dumps({"lits": b}) for b in batches) + "\n"
    p = subprocess.run([core.NODE22, core.VERIF + "/js/litcheck.mjs"], input=data.encode(), stdout=subprocess.PIPE,
                       stderr=subprocess.PIPE, timeout=3600)
    if p.returncode != 0:
        raise core.BrokenTie("node-litcheck", p.stderr.decode()[-2000:])
    return [json.loads(l) for l in p.stdout.decode().split("\n") if l.strip()]


def scalars(lo, hi):
    return [v for v in range(lo, hi) if not (0xD800 <= v < 0xE000) and v < 0x110000]


def run(chk):
    chk.rule = ("every Unicode scalar value (1,112,064) in each of N contexts (alone, after a letter, before digit / hex letter / "
                "quote / backslash / brace …): model literal == gen_lit_str literal (hook), and V8 (sloppy+strict) decodes the real literal "
                "to the intended code points; non-trivial = scalar that is escaped or is a delimiter/control/separator/astral")
    chk.trusted = ["Lean 4.33 kernel", "axioms ⊆ {propext, Classical.choice, Quot.sound}",
                   "GE/Spec/JsString.lean: hand-written reading of ECMA-262 string literals (strict+sloppy)",
                   "GE/Model/JsLit.lean tied to escape::gen_lit_str by exhaustive per-scalar differential run",
                   "V8 as the meaning of JavaScript (oracle)", "harness codec"]
    chk.assumptions = ["gen_lit_str is a per-character map (its loop has no state): exhaustive single-scalar agreement in several "
                       "contexts + random strings is taken to tie the model for all strings",
                       "embedding contexts (which constants go through gen_lit_str) are covered by C02 no_raw_interpolation / C04 oracle"]
    failed, log = chk.prove("GE.Thm.C12", THEOREMS)
    for t in failed:
        chk.violation("proof", f"obligation {t} no longer checks", theorem=t, log=log[-2000:])
    ok, log = core.lake_build(["gedriver"])
    if not ok:
        raise core.BrokenTie("driver-build", log)
    ctxs = CONTEXTS_QUICK + (CONTEXTS_MORE if chk.tier == "thorough" else [])
    reqs, meta = [], []
    for (pre, suf) in ctxs:
        for lo in range(0, 0x110000, CHUNK):
            reqs.append(core.req("lit_str_range", str(lo), str(lo + CHUNK), pre, suf))
            meta.append((pre, suf, lo))
    # random strings (state-freeness of the loop)
    rng = chk.rng.fork("c12-random")
    pool = [0, 1, 9, 10, 13, 31, 34, 39, 48, 55, 92, 123, 125, 127, 0x80, 0x9f, 0xa0, 0xad, 0x300, 0x2028, 0x2029, 0xfeff, 0xffff, 0x10000, 0x1f600, 0x10ffff, 65, 97]
    rand_reqs, rand_strs = [], []
    for i in range(3000 if chk.tier == "quick" else 30000):
        n = rng.below(8)
        s = "".join(chr(rng.choice(pool)) if rng.chance(3, 4) else chr(rng.below(0xD800)) for _ in range(n))
        rand_strs.append(s)
        rand_reqs.append(core.req("lit_str", s))
    real = core.run_harness(reqs + rand_reqs)
    model = core.run_driver(reqs + rand_reqs)
    chk.programs = len(reqs) + len(rand_reqs)

    def on_diff(i, r, a, b):
        if i < len(reqs):
            pre, suf, lo = meta[i]
            aa, bb = core.unesc(a).split("\x1f"), core.unesc(b).split("\x1f")
            sc = scalars(lo, lo + CHUNK)
            for v, x, y in zip(sc, aa, bb):
                if x != y:
                    chk.violation("correspondence", f"gen_lit_str model/implementation differ for U+{v:04X} in context ({pre!r},{suf!r})",
                                  stream="lit_str", scalar=v, pre=pre, suf=suf, real=x, model=y)
                    return
        chk.violation("correspondence", "gen_lit_str model/implementation differ", stream="lit_str", request=r, real=a, model=b)

    nd = core.diff_streams(chk, "lit_str", reqs + rand_reqs, real, model, on_diff=on_diff)
    # oracle: V8 decodes the REAL literal to the intended code points
    jreqs = []
    for (pre, suf, lo), a in zip(meta, real[:len(reqs)]):
        jreqs.append({"range": [lo, lo + CHUNK], "pre": pre, "suf": suf, "lits": core.unesc(a).split("\x1f") if a != "" else []})
    rand_lits = [core.unesc(a) for a in real[len(reqs):]]
    jreqs.append({"lits": rand_lits})
    data = "\n".join(json.dumps(j) for j in jreqs) + "\n"
    p = subprocess.run([core.NODE22, core.VERIF + "/js/litcheck.mjs"], input=data.encode(), stdout=subprocess.PIPE,
                       stderr=subprocess.PIPE, timeout=3600)
    if p.returncode != 0:
        raise core.BrokenTie("node-litcheck", p.stderr.decode()[-2000:])
    outs = [json.loads(l) for l in p.stdout.decode().split("\n") if l.strip()]
    if len(outs) != len(jreqs):
        raise core.BrokenTie("node-litcheck", "answer count")
    nbad = 0
    total = 0
    for j, out in zip(jreqs[:-1], outs[:-1]):
        if "error" in out:
            raise core.BrokenTie("node-litcheck", out["error"])
        total += out["n"] * 2
        if len(chk.samples) < 4 and j["lits"]:
            chk.samples.append(dict(range=j["range"], pre=j["pre"], suf=j["suf"], first_literal=j["lits"][0]))
        for b in out["bad"]:
            nbad += 1
            if nbad <= 5:
                if "codepoints" in b:
                    chk.violation("input", f"JavaScript ({b['mode']}) reads the literal emitted for code points {b['codepoints']} as {b['got']}",
                                  codepoints=b["codepoints"], literal=b["literal"], mode=b["mode"], got=b["got"])
                else:
                    chk.violation("correspondence", "literal count mismatch in range", detail=b)
    chk.evaluations += total
    # distinct non-trivial: (scalar-in-context whose literal needed an escape, mode) pairs, counted by the oracle; distinct by construction
    chk.distinct_extra += 2 * sum(o.get("escaped", 0) for o in outs[:-1])
    out = outs[-1]
    for mode in ("sloppy", "strict"):
        for s_, l, g in zip(rand_strs, rand_lits, out[mode]):
            e = [ord(c) for c in s_]
            chk.case((s_, mode), nontrivial=len(l) != len(e) + 2,
                     sample=dict(codepoints=e, literal=l, mode=mode, decoded=g) if len(l) > len(e) + 6 else None)
            if g != e:
                nbad += 1
                if nbad <= 5:
                    chk.violation("input", f"JavaScript ({mode}) reads the literal emitted for code points {e} as {g}",
                                  codepoints=e, literal=l, mode=mode, got=g)
    batches = [j["lits"] for j in jreqs]
    chk.bump("oracle:v8-decoded-literals", sum(len(b) for b in batches) * 2)
    chk.exhaustive = True


def replay(chk, path):
    o = json.load(open(path))["first"]
    if "codepoints" in o:
        s = "".join(chr(v) for v in o["codepoints"])
        lit = core.unesc(core.run_harness([core.req("lit_str", s)])[0])
        out = node_lits([[lit]])[0]
        print("literal", lit, "decoded", out)
        for mode in ("sloppy", "strict"):
            if out[mode][0] != o["codepoints"]:
                chk.violation("input", f"replayed: {mode} decodes {lit} to {out[mode][0]}", codepoints=o["codepoints"], literal=lit, mode=mode)
    return chk.finish()
